// Generates the module list and the property dispatch table from the files present in src/,
// so that adding src/cNN.rs (a property) or src/<helper>.rs needs no edit to main.rs.
use std::io::Write;
fn main() {
    let out = std::path::PathBuf::from(std::env::var("OUT_DIR").unwrap()).join("mods.rs");
    let src = std::path::PathBuf::from(std::env::var("CARGO_MANIFEST_DIR").unwrap()).join("src");
    let mut names: Vec<String> = std::fs::read_dir(&src).unwrap()
        .filter_map(|e| e.ok()).map(|e| e.file_name().to_string_lossy().to_string())
        .filter(|n| n.ends_with(".rs") && n != "main.rs").map(|n| n.trim_end_matches(".rs").to_string()).collect();
    names.sort();
    let mut f = std::fs::File::create(&out).unwrap();
    for n in &names {
        writeln!(f, "#[path = \"{}/{}.rs\"] pub mod {};", src.display(), n, n).unwrap();
    }
    writeln!(f, "pub fn dispatch(prop: &str, seed: u64, n: usize, sink: &mut util::Sink) -> bool {{ match prop {{").unwrap();
    for n in &names {
        let b = n.as_bytes();
        if b.len() >= 3 && b[0] == b'c' && b[1].is_ascii_digit() && b[2].is_ascii_digit() {
            writeln!(f, "  \"{}\" => {{ {}::run(seed, n, sink); true }}", n, n).unwrap();
        }
    }
    writeln!(f, "  _ => false }} }}").unwrap();
    println!("cargo:rerun-if-changed=src");
}
