//! Estimated-time networks: the untrusted certificate (rank, last-entered link, occupied-link queue per
//! node), the property restated in Rust (independent oracle), and exact Coq printing.
//! Conjunct order here = order of `est_checks` in coq/model/EstNet.v.
use crate::dsp::*;
use crate::util::*;
use altrios_core::meet_pass::disp_structs::EstType;
use altrios_core::meet_pass::est_times::EstTime;
use altrios_core::track::Link;

pub const EST_LABELS: [&str; 11] = ["shape", "ranges", "roles", "recip", "ranks", "events", "finite", "dur_nonneg",
    "sched_nonneg", "time_primary", "time_no_later"];

#[derive(Clone, Debug, Default)]
pub struct Cert { pub rank: Vec<usize>, pub fin: Vec<bool>, pub last: Vec<usize>, pub q: Vec<Vec<usize>> }

fn succs(e: &EstTime) -> Vec<usize> {
    let mut v = vec![];
    if e.idx_next != 0 { v.push(e.idx_next as usize); }
    if e.idx_next_alt != 0 { v.push(e.idx_next_alt as usize); }
    v
}

pub fn connected(net: &[Link], a: usize, b: usize) -> bool {
    a < net.len() && b != 0 && (net[a].idx_next.idx() == b || net[a].idx_next_alt.idx() == b)
}

/// one event applied to (finished?, last entered link, queue of links entered by the front but not yet by the tail):
/// the deterministic part (`None` = the event is not allowed in this state)
pub fn ev_step(net: &[Link], origs: &[usize], ty: usize, l: usize, fin: bool, last: usize, q: &[usize]) -> Option<(usize, Vec<usize>)> {
    match ty {
        0 => {
            let ok = !fin && l != 0 && if last == 0 { origs.contains(&l) } else { connected(net, last, l) };
            if ok { let mut q2 = q.to_vec(); q2.push(l); Some((l, q2)) } else { None }
        }
        1 => if !fin && !q.is_empty() && q[0] == l { Some((last, q[1..].to_vec())) } else { None },
        _ => Some((last, q.to_vec())),
    }
}
/// the transition relation checked along every edge p -> s (mirrors `ev_ok` in coq/model/EstNet.v):
/// a fake node may also declare the trip finished when the last entered link is a destination.
pub fn ev_ok(net: &[Link], origs: &[usize], dests: &[usize], ty: usize, l: usize, p: (bool, usize, &[usize]), s: (bool, usize, &[usize])) -> bool {
    if ty == 2 && s.0 { return p.0 || dests.contains(&p.1); }
    match ev_step(net, origs, ty, l, p.0, p.1, p.2) { Some((l2, q2)) => !s.0 && !p.0 && l2 == s.1 && q2 == s.2, None => false }
}

/// Certificate computed by the harness (untrusted: the Coq checker re-checks every edge).
/// rank = longest-path depth from node 0 (a topological numbering when the graph is acyclic);
/// (last, q) propagated from node 0 along the first edge that reaches each node.
pub fn make_cert(net: &[Link], origs: &[usize], dests: &[usize], v: &[EstTime]) -> Cert {
    let n = v.len();
    let mut c = Cert { rank: vec![0; n], fin: vec![false; n], last: vec![0; n], q: vec![vec![]; n] };
    if n == 0 { return c; }
    let ok_idx = |i: usize| i < n;
    // Kahn
    let mut indeg = vec![0usize; n];
    for e in v { for s in succs(e) { if ok_idx(s) { indeg[s] += 1; } } }
    let mut stack: Vec<usize> = (0..n).filter(|&i| indeg[i] == 0).collect();
    let mut seen = vec![false; n];
    let mut order = vec![];
    while let Some(i) = stack.pop() {
        order.push(i);
        for s in succs(&v[i]) { if ok_idx(s) { indeg[s] -= 1; if indeg[s] == 0 { stack.push(s); } } }
    }
    for &i in &order {
        for s in succs(&v[i]) { if ok_idx(s) { c.rank[s] = c.rank[s].max(c.rank[i] + 1); } }
    }
    // nodes from which only fake nodes can be reached (the closing chain of fake nodes)
    let mut tail_fake = vec![false; n];
    for &i in order.iter().rev() {
        tail_fake[i] = et_code(v[i].link_event.est_type) == 2 && succs(&v[i]).iter().all(|&s| ok_idx(s) && tail_fake[s]);
    }
    seen[0] = true;
    for &i in &order {
        if !seen[i] { continue; }
        for s in succs(&v[i]) {
            if ok_idx(s) && !seen[s] {
                let e = &v[s];
                if tail_fake[s] && (c.fin[i] || dests.contains(&c.last[i])) { c.fin[s] = true; }
                else if let Some((l2, q2)) = ev_step(net, origs, et_code(e.link_event.est_type), e.link_event.link_idx.idx(), c.fin[i], c.last[i], &c.q[i]) {
                    c.last[s] = l2; c.q[s] = q2;
                }
                seen[s] = true;
            }
        }
    }
    c
}

fn fin(x: f64) -> bool { x - x == 0.0 }
pub fn tclose(a: f64, b: f64) -> bool { (a - b).abs() <= 1e-9 * (1.0 + a.abs() + b.abs()) }
pub fn tle(a: f64, b: f64) -> bool { a <= b + 1e-9 * (1.0 + a.abs() + b.abs()) }

/// The property evaluated on an estimated-time network; one verdict per conjunct + failure texts.
pub fn est_check(net: &[Link], origs: &[usize], dests: &[usize], v: &[EstTime], c: &Cert) -> (Vec<bool>, Vec<String>) {
    let n = v.len();
    let mut ok = vec![true; EST_LABELS.len()];
    let mut msgs: Vec<String> = vec![];
    fn fail_(ok: &mut Vec<bool>, k: usize, m: String, msgs: &mut Vec<String>) { if ok[k] { msgs.push(format!("{}: {}", EST_LABELS[k], m)); } ok[k] = false; }
    macro_rules! fail { ($k:expr, $m:expr, $msgs:expr) => { fail_(&mut ok, $k, $m, $msgs) }; }
    if n < 3 || c.rank.len() != n || c.fin.len() != n || c.last.len() != n || c.q.len() != n {
        fail!(0, format!("{} nodes", n), &mut msgs);
        for k in 1..ok.len() { ok[k] = false; }
        return (ok, msgs);
    }
    for (i, e) in v.iter().enumerate() {
        let (nx, nxa, pv, pva) = (e.idx_next as usize, e.idx_next_alt as usize, e.idx_prev as usize, e.idx_prev_alt as usize);
        let l = e.link_event.link_idx.idx();
        if !(nx < n && nxa < n && pv < n && pva < n && l < net.len()) { fail!(1, format!("node {} has an index out of range", i), &mut msgs); }
    }
    if !ok[1] { for k in 2..ok.len() { ok[k] = false; } return (ok, msgs); }
    let ty = |i: usize| et_code(v[i].link_event.est_type);
    for (i, e) in v.iter().enumerate() {
        let (nx, nxa, pv, pva) = (e.idx_next as usize, e.idx_next_alt as usize, e.idx_prev as usize, e.idx_prev_alt as usize);
        // roles
        if (pv != 0) != (i >= 2) { fail!(2, format!("node {} idx_prev = {}", i, pv), &mut msgs); }
        if (nx != 0) != (i + 1 < n) { fail!(2, format!("node {} idx_next = {}", i, nx), &mut msgs); }
        if i + 1 == n && nxa != 0 { fail!(2, format!("last node has idx_next_alt {}", nxa), &mut msgs); }
        if i == 0 && ty(0) != 2 { fail!(2, "node 0 is not a fake node".into(), &mut msgs); }
        // reciprocity
        if pv != 0 && (i == 0 || !(v[pv].idx_next as usize == i || v[pv].idx_next_alt as usize == i)) { fail!(3, format!("node {}: idx_prev {} does not link forward to it", i, pv), &mut msgs); }
        if pva != 0 && (i == 0 || !(v[pva].idx_next as usize == i || v[pva].idx_next_alt as usize == i)) { fail!(3, format!("node {}: idx_prev_alt {} does not link forward to it", i, pva), &mut msgs); }
        for s in succs(e) {
            if !(v[s].idx_prev as usize == i || v[s].idx_prev_alt as usize == i) { fail!(3, format!("node {}: successor {} does not link back to it", i, s), &mut msgs); }
            // ranks
            if !(c.rank[i] < c.rank[s]) { fail!(4, format!("edge {}->{} does not increase the rank (cycle?)", i, s), &mut msgs); }
            // events
            let es = &v[s];
            match ev_ok(net, origs, dests, ty(s), es.link_event.link_idx.idx(), (c.fin[i], c.last[i], &c.q[i]), (c.fin[s], c.last[s], &c.q[s])) {
                true => {}
                false => fail!(5, format!("edge {}->{}: event {:?} of link {} does not continue a contiguous route / is not the oldest uncleared link (last entered {}, uncleared {:?})",
                        i, s, es.link_event.est_type, es.link_event.link_idx.idx(), c.last[i], c.q[i]), &mut msgs),
            }
            // times
            let (tp, ts_) = (e.time_sched.value, es.time_sched.value);
            if s == nx {
                if es.idx_prev as usize == i && !tclose(ts_, tp + e.time_to_next.value) {
                    fail!(9, format!("node {} time_sched {} differs from primary predecessor {}: {} + {}", s, ts_, i, tp, e.time_to_next.value), &mut msgs);
                }
                if !tle(ts_, tp + e.time_to_next.value) { fail!(10, format!("node {} time_sched {} later than predecessor {} allows: {} + {}", s, ts_, i, tp, e.time_to_next.value), &mut msgs); }
            } else if !tle(ts_, tp) { fail!(10, format!("alternate node {} time_sched {} later than its split node {}: {}", s, ts_, i, tp), &mut msgs); }
        }
        if !(c.rank[i] < n) { fail!(4, format!("rank of node {} too large", i), &mut msgs); }
        let (t, d, x) = (e.time_sched.value, e.time_to_next.value, e.dist_to_next.value);
        if !(fin(t) && fin(d) && fin(x)) { fail!(6, format!("node {} has a non-finite time_sched/time_to_next/dist_to_next: {} {} {}", i, t, d, x), &mut msgs); }
        if !(0.0 <= d && 0.0 <= x) { fail!(7, format!("node {} has a negative time_to_next {} or dist_to_next {}", i, d, x), &mut msgs); }
        if !(0.0 <= t) { fail!(8, format!("node {} time_sched negative: {}", i, t), &mut msgs); }
    }
    if !(!c.fin[0] && c.last[0] == 0 && c.q[0].is_empty()) { fail!(5, "certificate does not start empty".into(), &mut msgs); }
    if !c.fin[n - 1] { fail!(5, format!("walks end with last entered link {} which is not a destination {:?}", c.last[n - 1], dests), &mut msgs); }
    if dests.contains(&0) || origs.contains(&0) { fail!(5, "origin/destination 0".into(), &mut msgs); }
    (ok, msgs)
}

pub fn coq_enodes(v: &[EstTime]) -> String {
    let ns: Vec<String> = v.iter().map(|e| format!("mkN {} {} {} {} {} {} {} {} {}", cf(e.time_sched.value), cf(e.time_to_next.value),
        cf(e.dist_to_next.value), e.idx_next, e.idx_next_alt, e.idx_prev, e.idx_prev_alt, e.link_event.link_idx.idx(), et_code(e.link_event.est_type))).collect();
    format!("[{}]", ns.join("; "))
}
pub fn coq_cert(c: &Cert) -> String {
    let cs: Vec<String> = (0..c.rank.len()).map(|i| format!("mkC {} {} {} {}", c.rank[i], cb(c.fin[i]), c.last[i], coq_nats(&c.q[i]))).collect();
    format!("[{}]", cs.join("; "))
}
