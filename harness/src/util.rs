//! Shared helpers: PRNG, exact float printing for Coq, expected-value encoding, case records.
use serde_json::{json, Value};
use std::io::Write;

/// splitmix64 — every random choice of the harness derives from one of these.
#[derive(Clone)]
pub struct Rng(pub u64);
impl Rng {
    pub fn new(seed: u64) -> Self {
        Rng(seed.wrapping_mul(0x9E3779B97F4A7C15) ^ 0xD1B54A32D192ED03)
    }
    pub fn next(&mut self) -> u64 {
        self.0 = self.0.wrapping_add(0x9E3779B97F4A7C15);
        let mut z = self.0;
        z = (z ^ (z >> 30)).wrapping_mul(0xBF58476D1CE4E5B9);
        z = (z ^ (z >> 27)).wrapping_mul(0x94D049BB133111EB);
        z ^ (z >> 31)
    }
    pub fn fork(&mut self) -> Rng {
        Rng(self.next())
    }
    /// uniform in [0,1)
    pub fn unif(&mut self) -> f64 {
        (self.next() >> 11) as f64 / (1u64 << 53) as f64
    }
    pub fn range(&mut self, lo: f64, hi: f64) -> f64 {
        lo + (hi - lo) * self.unif()
    }
    /// log-uniform in [lo,hi]
    pub fn lrange(&mut self, lo: f64, hi: f64) -> f64 {
        (self.range(lo.ln(), hi.ln())).exp()
    }
    pub fn below(&mut self, n: usize) -> usize {
        (self.next() % n as u64) as usize
    }
    pub fn int(&mut self, lo: i64, hi: i64) -> i64 {
        lo + (self.next() % ((hi - lo + 1) as u64)) as i64
    }
    pub fn chance(&mut self, p: f64) -> bool {
        self.unif() < p
    }
    pub fn pick<'a, T>(&mut self, xs: &'a [T]) -> &'a T {
        &xs[self.below(xs.len())]
    }
}

/// Exact Coq term for a binary64 value (see coq/model/Num.v: Fp/Fn/Finf/Fninf/Fnan).
pub fn cf(x: f64) -> String {
    if x.is_nan() {
        return "Fnan".into();
    }
    if x == f64::INFINITY {
        return "Finf".into();
    }
    if x == f64::NEG_INFINITY {
        return "Fninf".into();
    }
    let bits = x.to_bits();
    let neg = (bits >> 63) != 0;
    let exp = ((bits >> 52) & 0x7ff) as i64;
    let frac = bits & ((1u64 << 52) - 1);
    let (mant, e2) = if exp == 0 { (frac, -1074i64) } else { (frac | (1u64 << 52), exp - 1075) };
    let (mant, e2) = if mant == 0 { (0, 0) } else { (mant, e2) };
    format!("({} {} {})", if neg { "Fn" } else { "Fp" }, mant, e2 + 2101)
}
pub fn cfl(xs: &[f64]) -> String {
    format!("[{}]", xs.iter().map(|x| cf(*x)).collect::<Vec<_>>().join("; "))
}
pub fn cfl2(xs: &[Vec<f64>]) -> String {
    format!("[{}]", xs.iter().map(|x| cfl(x)).collect::<Vec<_>>().join("; "))
}
pub fn cfl3(xs: &[Vec<Vec<f64>>]) -> String {
    format!("[{}]", xs.iter().map(|x| cfl2(x)).collect::<Vec<_>>().join("; "))
}
pub fn cb(b: bool) -> &'static str {
    if b { "true" } else { "false" }
}
pub fn cz(z: i64) -> String {
    if z < 0 { format!("({})%Z", z) } else { format!("{}%Z", z) }
}
pub fn cnat(n: usize) -> String {
    format!("{}%nat", n)
}
pub fn copt(o: Option<String>) -> String {
    match o { Some(s) => format!("(Some {})", s), None => "None".into() }
}

/// One expected value, labelled.
#[derive(Clone, Debug)]
pub enum Val {
    F(f64),
    Z(i64),
    B(bool),
}
#[derive(Default, Clone)]
pub struct Outs {
    pub labels: Vec<String>,
    pub vals: Vec<Val>,
    pub scales: Vec<f64>,
}
impl Outs {
    pub fn new() -> Self { Default::default() }
    /// float with the natural magnitude `scale` of the field (for the absolute part of the tolerance)
    pub fn f(&mut self, label: &str, v: f64, scale: f64) {
        self.labels.push(label.into()); self.vals.push(Val::F(v)); self.scales.push(scale);
    }
    pub fn z(&mut self, label: &str, v: i64) {
        self.labels.push(label.into()); self.vals.push(Val::Z(v)); self.scales.push(0.0);
    }
    pub fn b(&mut self, label: &str, v: bool) {
        self.labels.push(label.into()); self.vals.push(Val::B(v)); self.scales.push(0.0);
    }
    pub fn prefixed(mut self, p: &str) -> Self {
        for l in self.labels.iter_mut() { *l = format!("{}{}", p, l); }
        self
    }
    pub fn extend(&mut self, o: Outs) {
        self.labels.extend(o.labels); self.vals.extend(o.vals); self.scales.extend(o.scales);
    }
    pub fn to_json(&self) -> (Value, Value, Value) {
        let vals: Vec<Value> = self.vals.iter().map(|v| match v {
            Val::F(x) => json!(format!("f:{:016x}", x.to_bits())),
            Val::Z(z) => json!(format!("z:{}", z)),
            Val::B(b) => json!(format!("b:{}", if *b { 1 } else { 0 })),
        }).collect();
        (json!(self.labels), json!(vals), json!(self.scales))
    }
}

/// Outcome of running the implementation on a case.
#[derive(Clone)]
pub enum Outcome {
    Ok(Outs),
    Err(i64, String),
    Panic(String),
}

/// A finished case: the Coq term that evaluates the model on the same inputs
/// (type `list out`), what the implementation produced, generator tags, the
/// replayable input and the oracle's verdicts on the implementation's output.
pub struct Case {
    pub id: String,
    pub kind: String,
    pub coq: String,
    pub outcome: Outcome,
    pub tags: Vec<String>,
    pub input: Value,
    pub oracle_fail: Vec<String>,
    pub known: Vec<String>,
    /// model hypotheses under which the theorems apply hold for this case
    pub in_domain: bool,
}

pub struct Sink {
    w: std::io::BufWriter<std::fs::File>,
    pub n: usize,
}
impl Sink {
    pub fn create(path: &str) -> Self {
        Sink { w: std::io::BufWriter::new(std::fs::File::create(path).expect("create out")), n: 0 }
    }
    pub fn put(&mut self, c: Case) {
        let (outcome, labels, vals, scales, msg) = match &c.outcome {
            Outcome::Ok(o) => { let (l, v, s) = o.to_json(); ("ok", l, v, s, String::new()) }
            Outcome::Err(code, m) => ("err", json!([]), json!([format!("z:{}", code)]), json!([]), m.clone()),
            Outcome::Panic(m) => ("panic", json!([]), json!([]), json!([]), m.clone()),
        };
        let v = json!({
            "id": c.id, "kind": c.kind, "coq": c.coq, "outcome": outcome, "labels": labels,
            "exp": vals, "scales": scales, "msg": msg, "tags": c.tags, "input": c.input,
            "oracle_fail": c.oracle_fail, "known": c.known, "in_domain": c.in_domain,
        });
        writeln!(self.w, "{}", v).unwrap();
        self.n += 1;
    }
    pub fn finish(mut self) { self.w.flush().unwrap(); }
}

/// Run `f`, turning a panic into `Err(message)`.
pub fn catch<T>(f: impl FnOnce() -> T + std::panic::UnwindSafe) -> Result<T, String> {
    std::panic::catch_unwind(f).map_err(|e| {
        if let Some(s) = e.downcast_ref::<String>() { s.clone() }
        else if let Some(s) = e.downcast_ref::<&str>() { s.to_string() }
        else { "panic".to_string() }
    })
}

/// relative closeness used by the oracles (the comparison itself is done by the driver)
pub fn close(a: f64, b: f64, rel: f64, abs: f64) -> bool {
    a == b || (a - b).abs() <= rel * a.abs().max(b.abs()) + abs
}

pub fn fjson(x: f64) -> Value {
    json!(format!("{:016x}", x.to_bits()))
}
pub fn fjson_l(xs: &[f64]) -> Value {
    Value::Array(xs.iter().map(|x| fjson(*x)).collect())
}
pub fn jf(v: &Value) -> f64 {
    f64::from_bits(u64::from_str_radix(v.as_str().expect("hex float"), 16).expect("hex"))
}
pub fn jfl(v: &Value) -> Vec<f64> {
    v.as_array().expect("array").iter().map(jf).collect()
}
