//! C02 -- the enforced speed profile never exceeds a posted limit (nor the train's maximum),
//! whether the route is supplied at once or extended link by link.
//! Same generator and public-API driving as C13 (harness/src/c13.rs).  The correspondence is the
//! relation the property needs, not list equality: the implementation's speed_points() and the
//! model's profile are compared INSIDE Coq by the certified comparison `profile_le` (sound for
//! every real position: props/C02.v), so an over-restricting implementation (C13's defect) does
//! not disturb C02.  Oracle: enforced limit <= pointwise minimum recomputed from the network at
//! every breakpoint and inside every gap; profile of every split == profile of the whole route.
//! "The train's own maximum speed": kinds `train_params` (TrainConfig::make_train_params against
//! coq/model/TrainCfg.v, all nine fields; oracle: speed_max = minimum over the vehicle types PRESENT)
//! and `profile_cfg` (a route run with the parameters of a configured train of several vehicle types;
//! oracle: the enforced limit is nowhere above the maximum speed of any vehicle in the train).
use crate::c13::{run_mode, Mode};
use crate::trk::*;
use crate::util::*;
use altrios_core::prelude::*;
use altrios_core::track::TrainParams;
use altrios_core::train::{RailVehicle, TrainConfig};
use altrios_core::uc;
use serde_json::json;
use std::collections::HashMap;

struct Cfg { rvs: Vec<RailVehicle>, n: Vec<u32>, ttype: TrainType, tm: Option<f64>, tl: Option<f64> }

fn gen_cfg(r: &mut Rng, k: usize) -> Cfg {
    let m = 1 + r.below(3);
    let mut rvs = vec![]; let mut n = vec![];
    for i in 0..m {
        let mut rv = RailVehicle::default();
        rv.car_type = format!("T{}", i);
        rv.length = uc::M * *r.pick(&[16.5, 18.0, 21.3, 25.0]);
        rv.axle_count = *r.pick(&[4u8, 4, 6, 8]); rv.brake_count = *r.pick(&[1u8, 1, 2]);
        rv.mass_static_base = uc::KG * r.range(20000.0, 40000.0).round();
        rv.mass_freight = uc::KG * if r.chance(0.3) { 0.0 } else { r.range(10000.0, 100000.0).round() };
        rv.speed_max = uc::MPS * *r.pick(&[15.0, 20.0, 22.352, 25.0, 26.8224, 31.0, 35.7632]);
        rv.mass_rot_per_axle = uc::KG * r.range(500.0, 900.0).round();
        rv.curve_coeff_0 = uc::R * r.range(0.0, 0.5); rv.curve_coeff_1 = uc::R * r.range(0.0, 800.0); rv.curve_coeff_2 = uc::R * r.range(0.0, 2000.0);
        rvs.push(rv);
        // a type listed but absent from the train (zero cars) must not lower the maximum speed
        n.push(if m > 1 && r.chance(0.2) { 0 } else { 1 + r.below(120) as u32 });
    }
    if n.iter().all(|x| *x == 0) { n[0] = 10; }
    // the slowest type is often not the first one listed
    if m > 1 && k % 2 == 0 { let j = 1 + r.below(m - 1); if rvs[j].speed_max.value >= rvs[0].speed_max.value { let v = rvs[0].speed_max; rvs[0].speed_max = rvs[j].speed_max; rvs[j].speed_max = v * 0.8; } }
    let ttype = *r.pick(&[TrainType::Freight, TrainType::Passenger, TrainType::Intermodal]);
    Cfg { rvs, n, ttype, tm: if r.chance(0.15) { Some(r.range(1.0e6, 2.0e7).round()) } else { None }, tl: if r.chance(0.15) { Some(r.range(200.0, 3000.0).round()) } else { None } }
}
fn cfg_build(c: &Cfg) -> anyhow::Result<TrainConfig> {
    let map: HashMap<String, u32> = c.rvs.iter().zip(c.n.iter()).map(|(rv, n)| (rv.car_type.clone(), *n)).collect();
    TrainConfig::new(c.rvs.clone(), map, c.ttype, c.tl.map(|x| uc::M * x), c.tm.map(|x| uc::KG * x), None)
}
fn coq_rvs(c: &Cfg) -> String {
    format!("[{}]", c.rvs.iter().zip(c.n.iter()).map(|(rv, n)| format!("Build_RV {} {} {} {} {} {} {} {} {} {} {}", cz(*n as i64), cf(rv.length.value), cf(rv.speed_max.value),
        cf(rv.mass_static_base.value), cf(rv.mass_freight.value), cf(rv.mass_rot_per_axle.value), cz(rv.axle_count as i64), cz(rv.brake_count as i64),
        cf(rv.curve_coeff_0.value), cf(rv.curve_coeff_1.value), cf(rv.curve_coeff_2.value))).collect::<Vec<_>>().join("; "))
}
fn coq_cfg_args(c: &Cfg) -> String {
    format!("{} {} {} {}", coq_rvs(c), cz(c.ttype as u8 as i64), copt(c.tm.map(cf)), copt(c.tl.map(cf)))
}
fn cfg_json(c: &Cfg) -> serde_json::Value {
    json!({"rail_vehicles": c.rvs.iter().zip(c.n.iter()).map(|(rv, n)| json!({"car_type": rv.car_type, "n_cars": n, "speed_max": rv.speed_max.value, "length": rv.length.value,
        "mass_static_base": rv.mass_static_base.value, "mass_freight": rv.mass_freight.value, "axle_count": rv.axle_count, "brake_count": rv.brake_count})).collect::<Vec<_>>(),
        "train_type": c.ttype as u8, "train_mass": c.tm, "train_length": c.tl})
}
fn min_present(c: &Cfg) -> f64 { c.rvs.iter().zip(c.n.iter()).filter(|(_, n)| **n > 0).map(|(rv, _)| rv.speed_max.value).fold(f64::INFINITY, f64::min) }
fn outs_tp(tp: &TrainParams) -> Outs {
    let mut o = Outs::new();
    o.f("tp.length", tp.length.value, 1.0); o.f("tp.speed_max", tp.speed_max.value, 1.0); o.f("tp.towed_mass_static", tp.towed_mass_static.value, 1.0);
    o.f("tp.mass_per_brake", tp.mass_per_brake.value, 1.0); o.z("tp.axle_count", tp.axle_count as i64); o.z("tp.train_type", tp.train_type as u8 as i64);
    o.f("tp.curve_coeff_0", tp.curve_coeff_0.value, 1.0); o.f("tp.curve_coeff_1", tp.curve_coeff_1.value, 1.0); o.f("tp.curve_coeff_2", tp.curve_coeff_2.value, 1.0);
    o
}

fn cfg_cases(r: &mut Rng, n: usize, sink: &mut Sink) {
    let mut k = 0usize; let mut made = 0usize;
    while made < n {
        let mut c = gen_cfg(r, k); k += 1;
        // the route the configured train will run on: its links carry speed sets for the route's train type
        let mut rt = gen_route(r, &RouteOpts { max_links: 5, geom: false, malformed: false, plain_speeds: false });
        c.ttype = rt.tp.train_type;
        let tc = match cfg_build(&c) { Ok(t) => t, Err(_) => continue };
        let res = catch(std::panic::AssertUnwindSafe(|| tc.make_train_params()));
        let slowest_first = c.rvs.iter().zip(c.n.iter()).filter(|(_, n)| **n > 0).map(|(rv, _)| rv.speed_max.value).next() == Some(min_present(&c));
        let mut tags = vec![format!("vehicle_types:{}", c.rvs.len()), format!("absent_type:{}", c.n.iter().any(|x| *x == 0)), format!("slowest_present_type_listed_first:{}", slowest_first),
            format!("overrides:{}", match (c.tm.is_some(), c.tl.is_some()) { (false, false) => "none", (true, false) => "mass", (false, true) => "length", _ => "both" })];
        let mut fails = vec![];
        let outcome = match &res {
            Ok(Ok(tp)) => {
                tags.push("result:ok".into());
                let want = min_present(&c);
                if tp.speed_max.value != want { fails.push(format!("the train's maximum speed is {} but the slowest vehicle type present in the train allows {}", tp.speed_max.value, want)); }
                Outcome::Ok(outs_tp(tp))
            }
            Ok(Err(e)) => { tags.push("result:err".into()); Outcome::Err(999, format!("{:#}", e)) }
            Err(p) => { tags.push("result:panic".into()); Outcome::Panic(p.clone()) }
        };
        sink.put(Case { id: format!("train_params/{}", k - 1), kind: "train_params".into(), coq: format!("x_make_train_params {}", coq_cfg_args(&c)), outcome, tags,
            input: cfg_json(&c), oracle_fail: fails, known: vec![], in_domain: true });
        made += 1;
        if made >= n { break; }
        // the same train on a route: enforced limit <= maximum speed of every vehicle present, everywhere
        if let Ok(Ok(tp)) = &res {
            rt.tp = *tp;
            let parts = if rt.path.len() > 1 && r.chance(0.5) { let cut = 1 + r.below(rt.path.len() - 1); vec![rt.path[..cut].to_vec(), rt.path[cut..].to_vec()] } else { vec![rt.path.clone()] };
            let path_res = run_path(&rt.net, &rt.tp, &parts, false);
            let mut tags = rt.tags.clone(); tags.push(format!("vehicle_types:{}", c.rvs.len())); tags.push(format!("extend_calls:{}", parts.len()));
            let mut fails = vec![];
            let (outcome, coq) = match &path_res {
                Ok(p) => {
                    let pts = speed_pts(p);
                    let cap = min_present(&c);
                    for (x, v) in &pts { if *v > cap { fails.push(format!("enforced limit {} from position {} exceeds {} , the maximum speed of a vehicle type present in the train", v, x, cap)); break; } }
                    if rt.in_domain { let (hi, _, _) = speed_oracle(&rt.net, &rt.tp, &rt.path, &pts); fails.extend(hi); }
                    let mut o = Outs::new(); o.b("impl_profile_le_model_profile_everywhere", true);
                    (Outcome::Ok(o), format!("x_speed_le_cfg {} {} {} {}", coq_net(&rt.net), coq_cfg_args(&c), coq_parts(&parts), coq_pts(&pts)))
                }
                Err((-1, m)) => (Outcome::Panic(m.clone()), String::new()),
                Err((cc, m)) => (Outcome::Err(*cc, m.clone()), String::new()),
            };
            let mut input = net_json(&rt.net, &rt.tp, &parts); input["train_config"] = cfg_json(&c);
            sink.put(Case { id: format!("profile_cfg/{}", k - 1), kind: "profile_cfg".into(), coq, outcome, tags, input, oracle_fail: fails, known: vec![], in_domain: rt.in_domain });
            made += 1;
        }
    }
}

pub fn run(seed: u64, n: usize, sink: &mut Sink) {
    let n_cfg = n / 6;
    run_mode(seed, n - n_cfg, sink, Mode::C02);
    let mut r = Rng::new(seed ^ 0xC02_CF6);
    cfg_cases(&mut r, n_cfg, sink);
}
