//! C02 -- the enforced speed profile never exceeds a posted limit (nor the train's maximum),
//! whether the route is supplied at once or extended link by link.
//! Same generator and public-API driving as C13 (harness/src/c13.rs).  The correspondence is the
//! relation the property needs, not list equality: the implementation's speed_points() and the
//! model's profile are compared INSIDE Coq by the certified comparison `profile_le` (sound for
//! every real position: props/C02.v), so an over-restricting implementation (C13's defect) does
//! not disturb C02.  Oracle: enforced limit <= pointwise minimum recomputed from the network at
//! every breakpoint and inside every gap; profile of every split == profile of the whole route.
use crate::c13::{run_mode, Mode};
use crate::util::*;

pub fn run(seed: u64, n: usize, sink: &mut Sink) { run_mode(seed, n, sink, Mode::C02); }
