//! vh -- harness that runs the real altrios-core on generated cases and emits, per case, the
//! Coq term evaluating the model on the same inputs, the implementation's outputs (bit-exact),
//! generator tags, a replayable input and the verdicts of the property oracle.
//! Modules are discovered by build.rs: every src/cNN.rs must export
//! `pub fn run(seed: u64, n: usize, sink: &mut util::Sink)`.
#![allow(dead_code, unused_imports)]
include!(concat!(env!("OUT_DIR"), "/mods.rs"));

static LAST_PANIC: std::sync::Mutex<String> = std::sync::Mutex::new(String::new());

fn main() {
    let args: Vec<String> = std::env::args().collect();
    if args.len() < 2 { eprintln!("usage: vh <prop> --seed S --n N --out FILE"); std::process::exit(2); }
    let prop = args[1].clone();
    let mut seed = 0u64; let mut n = 100usize; let mut out = String::from("cases.jsonl");
    let mut i = 2;
    while i < args.len() {
        match args[i].as_str() {
            "--seed" => { seed = args[i + 1].parse().expect("seed"); i += 2; }
            "--n" => { n = args[i + 1].parse().expect("n"); i += 2; }
            "--out" => { out = args[i + 1].clone(); i += 2; }
            _ => { eprintln!("unknown arg {}", args[i]); std::process::exit(2); }
        }
    }
    if prop == "dispdbg" { c05::debug_scenario(seed, n); return; }
    // panics are caught per case; keep stderr quiet
    // (the message of the last panic is kept so that a panic of the harness ITSELF can be reported)
    std::panic::set_hook(Box::new(|info| {
        if let Ok(mut g) = LAST_PANIC.lock() { *g = format!("{}", info).chars().take(600).collect(); }
    }));
    let mut sink = util::Sink::create(&out);
    let known = match std::panic::catch_unwind(std::panic::AssertUnwindSafe(|| dispatch(&prop, seed, n, &mut sink))) {
        Ok(k) => k,
        Err(_) => { eprintln!("the harness itself panicked: {}", LAST_PANIC.lock().map(|g| g.clone()).unwrap_or_default()); std::process::exit(3); }
    };
    if !known { eprintln!("unknown property {}", prop); std::process::exit(2); }
    let n = sink.n;
    sink.finish();
    println!("cases {}", n);
}
