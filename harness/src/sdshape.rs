//! C17: correspondence between the schema model (coq/model/Codec.v, CodecSchema.v) and the real
//! derive-generated (de)serializers.
//!   shape cases : for one struct value, the field names the real serializer wrote (in order), the
//!                 names it skipped, and the independently computed `== Default::default()` /
//!                 `is_none()` flags, against the model's attribute table (`x_shape`);
//!   codec cases : the tree the real serializer emitted is decoded by the MODEL's decoder inside Coq,
//!                 which then predicts whether the real YAML / JSON / bincode round trips succeed
//!                 (`x_codec`); the harness supplies what really happened.
use crate::c17::{decode, encode, Fmt};
use crate::pt::*;
use crate::sdutil::*;
use crate::util::*;
use altrios_core::consist::consist_sim::ConsistSimulation;
use altrios_core::consist::locomotive::locomotive_model::PowertrainType;
use altrios_core::consist::Consist;
use altrios_core::prelude::*;
use altrios_core::track::*;
use altrios_core::train::*;
use altrios_core::traits::SerdeAPI;
use altrios_core::uc;
use altrios_core::validate::Valid;
use serde_json::json;

fn cstr(s: &str) -> String { format!("\"{}\"", s.replace('"', "\"\"")) }
fn cstrl(xs: &[&str]) -> String { format!("[{}]%string", xs.iter().map(|s| cstr(s)).collect::<Vec<_>>().join("; ")) }

/// The emitted tree as a Gallina `val float` term (structs as `VMap` of the present fields).
/// Returns None for shapes outside the model (hash maps).
pub fn coq_val(n: &Node) -> Option<String> {
    Some(match n {
        Node::Null => "VNull".into(),
        Node::Bool(b) => format!("(VBool {})", cb(*b)),
        Node::Int(i) => format!("(VInt {})", cz(*i as i64)),
        Node::F(b) => {
            let x = f64::from_bits(*b);
            if x.is_nan() { "(VNum NNan)".into() }
            else if x == f64::INFINITY { "(VNum NPosInf)".into() }
            else if x == f64::NEG_INFINITY { "(VNum NNegInf)".into() }
            else { format!("(VNum (NFin {}))", cf(x)) }
        }
        Node::Str(s) => format!("(VStr {}%string)", cstr(s)),
        Node::Seq(v) => format!("(VSeq [{}])", v.iter().map(coq_val).collect::<Option<Vec<_>>>()?.join("; ")),
        Node::Map(_) => return None,
        Node::Struct(_, fs, _) => {
            let mut parts = vec![];
            for (k, x) in fs { parts.push(format!("({}%string, {})", cstr(k), coq_val(x)?)); }
            format!("(VMap [{}])", parts.join("; "))
        }
        Node::Variant(v, x) => format!("(VVar {}%string {})", cstr(v), coq_val(x)?),
    })
}

fn shape_case(id: String, schema: &str, tree: &Node, flags: &[(&str, bool)], tags: &[&str], sink: &mut Sink) {
    let (present, skipped): (Vec<&str>, Vec<&str>) = match tree { Node::Struct(_, fs, sk) => (fs.iter().map(|(k, _)| *k).collect(), sk.clone()), _ => return };
    let coq = format!("x_shape {} {} {} [{}]%string", schema, cstrl(&present), cstrl(&skipped),
        flags.iter().map(|(k, b)| format!("({}, {})", cstr(k), cb(*b))).collect::<Vec<_>>().join("; "));
    let mut o = Outs::new();
    o.b("field_names_match", true); o.b("skipped_fields_have_skip_attribute", true); o.b("skip_decision_matches", true);
    o.z("n_serialized_fields", (present.len() + skipped.len()) as i64);
    let mut t: Vec<String> = tags.iter().map(|s| s.to_string()).collect();
    t.push(format!("schema:{}", schema)); t.push(format!("skipped:{}", skipped.len()));
    sink.put(Case { id, kind: "schema_shape".into(), coq, outcome: Outcome::Ok(o), tags: t,
        input: json!({"schema": schema, "present": present, "skipped": skipped}), oracle_fail: vec![], known: vec![], in_domain: true });
}

/// decode the real tree in the model and compare its per-format predictions with the real round trips
fn codec_case<T: SerdeAPI + Clone>(id: String, schema: &str, obj: &T, tags: &[&str], sink: &mut Sink) {
    let tree = to_node(obj);
    let term = match coq_val(&tree) { Some(t) => t, None => return };
    if !nonfinite_paths(&tree).iter().all(|p| !p.ends_with("NaN")) { return; }
    let real = |f: Fmt| -> bool {
        match encode(obj, f).and_then(|e| decode::<T>(&e, f)) {
            Ok(d) => compare(&to_node(&d), &{ let mut o = obj.clone(); let _ = o.init(); to_node(&o) }, if f == Fmt::Json { Mode::Ulp(1) } else { Mode::Bits }).n_bad == 0,
            Err(_) => false,
        }
    };
    let (y, j, b) = (real(Fmt::Yaml), real(Fmt::Json), real(Fmt::Bin));
    let mut o = Outs::new();
    o.b("decoded_value_well_typed", true);
    o.b("reencode_equals_emitted_tree(yaml_ok)", y);
    o.b("json_ok", j);
    o.b("bincode_ok", b);
    o.b("no_field_skipped", skipped_paths(&tree).is_empty());
    o.b("all_numbers_finite", nonfinite_paths(&tree).is_empty());
    let mut t: Vec<String> = tags.iter().map(|s| s.to_string()).collect();
    t.push(format!("schema:{}", schema)); t.push(format!("real:yaml={},json={},bincode={}", y, j, b));
    sink.put(Case { id, kind: "schema_codec".into(), coq: format!("x_codec {} {}", schema, term), outcome: Outcome::Ok(o), tags: t,
        input: json!({"schema": schema, "n_floats": count_floats(&tree)}), oracle_fail: vec![], known: vec![], in_domain: true });
}

/// typed layer: the model's projection of the real tree equals the record printed from the object's fields
fn embed_case(id: String, entry: &str, record: String, tree: &Node, tags: &[&str], sink: &mut Sink) {
    let term = match coq_val(tree) { Some(t) => t, None => return };
    if !nonfinite_paths(tree).is_empty() { return; }
    let mut o = Outs::new(); o.b("projection_of_real_tree_equals_record", true);
    let mut t: Vec<String> = tags.iter().map(|s| s.to_string()).collect(); t.push(format!("embed:{}", entry));
    sink.put(Case { id, kind: "typed_embed".into(), coq: format!("{} {} {}", entry, record, term), outcome: Outcome::Ok(o), tags: t,
        input: json!({"entry": entry}), oracle_fail: vec![], known: vec![], in_domain: true });
}

fn sub<'a>(n: &'a Node, path: &[&str]) -> Option<&'a Node> {
    let mut cur = n;
    for p in path {
        cur = match cur {
            Node::Struct(_, fs, _) => &fs.iter().find(|(k, _)| k == p)?.1,
            Node::Variant(v, x) if v == p => x,
            Node::Seq(v) => v.get(p.parse::<usize>().ok()?)?,
            _ => return None,
        };
    }
    Some(cur)
}

fn loco_shapes(id: &str, l: &Locomotive, tags: &[&str], sink: &mut Sink) {
    let t = to_node(l);
    shape_case(format!("{}/Locomotive", id), "s_loco", &t, &[("state", l.state == LocomotiveState::default())], tags, sink);
    if let Some(s) = sub(&t, &["state"]) { shape_case(format!("{}/LocomotiveState", id), "s_locostate", s, &[], tags, sink); }
    if let Some(h) = sub(&t, &["history"]) { shape_case(format!("{}/LocomotiveStateHistoryVec", id), "(s_hist s_locostate)", h, &[], tags, sink); }
    match &l.loco_type {
        PowertrainType::ConventionalLoco(c) => {
            let tc = to_node(c);
            shape_case(format!("{}/ConventionalLoco", id), "s_conv", &tc, &[], tags, sink);
            let (tf, tg, te) = (to_node(&c.fc), to_node(&c.gen), to_node(&c.edrv));
            shape_case(format!("{}/FuelConverter", id), "s_fc", &tf, &[("state", c.fc.state == FuelConverterState::default())], tags, sink);
            shape_case(format!("{}/Generator", id), "s_gen", &tg, &[("state", c.gen.state == GeneratorState::default())], tags, sink);
            shape_case(format!("{}/ElectricDrivetrain", id), "s_edrv", &te, &[("state", c.edrv.state == ElectricDrivetrainState::default())], tags, sink);
            shape_case(format!("{}/FuelConverterState", id), "s_fcstate", &to_node(&c.fc.state), &[], tags, sink);
            shape_case(format!("{}/GeneratorState", id), "s_genstate", &to_node(&c.gen.state), &[], tags, sink);
            shape_case(format!("{}/ElectricDrivetrainState", id), "s_edrvstate", &to_node(&c.edrv.state), &[], tags, sink);
            shape_case(format!("{}/FuelConverterStateHistoryVec", id), "(s_hist s_fcstate)", &to_node(&c.fc.history), &[], tags, sink);
            shape_case(format!("{}/GeneratorStateHistoryVec", id), "(s_hist s_genstate)", &to_node(&c.gen.history), &[], tags, sink);
            shape_case(format!("{}/ElectricDrivetrainStateHistoryVec", id), "(s_hist s_edrvstate)", &to_node(&c.edrv.history), &[], tags, sink);
        }
        PowertrainType::BatteryElectricLoco(b) => {
            shape_case(format!("{}/BatteryElectricLoco", id), "s_bel", &to_node(b), &[], tags, sink);
            shape_case(format!("{}/ReversibleEnergyStorage", id), "s_res", &to_node(&b.res), &[("state", b.res.state == ReversibleEnergyStorageState::default())], tags, sink);
            shape_case(format!("{}/ReversibleEnergyStorageState", id), "s_resstate", &to_node(&b.res.state), &[], tags, sink);
            shape_case(format!("{}/ReversibleEnergyStorageStateHistoryVec", id), "(s_hist s_resstate)", &to_node(&b.res.history), &[], tags, sink);
            shape_case(format!("{}/ElectricDrivetrain", id), "s_edrv", &to_node(&b.edrv), &[("state", b.edrv.state == ElectricDrivetrainState::default())], tags, sink);
        }
        _ => {}
    }
}

pub fn shape_cases(r: &mut Rng, sink: &mut Sink) {
    // ---- default-state objects: every skip field skipped
    let d = &["state:default"];
    loco_shapes("shape/default_conv", &Locomotive::default(), d, sink);
    loco_shapes("shape/default_bel", &Locomotive::default_battery_electric_loco(), d, sink);
    let con = Consist::default();
    shape_case("shape/default/Consist".into(), "s_consist", &to_node(&con), &[("state", con.state == ConsistState::default())], d, sink);
    shape_case("shape/default/ConsistState".into(), "s_consiststate", &to_node(&con.state), &[], d, sink);
    shape_case("shape/default/ConsistStateHistoryVec".into(), "(s_hist s_consiststate)", &to_node(&con.history), &[], d, sink);
    let ls = LocomotiveSimulation::default();
    shape_case("shape/default/LocomotiveSimulation".into(), "s_locosim", &to_node(&ls), &[], d, sink);
    shape_case("shape/default/PowerTrace".into(), "s_powertrace", &to_node(&ls.power_trace), &[], d, sink);
    shape_case("shape/default/ConsistSimulation".into(), "s_consistsim", &to_node(&ConsistSimulation::default()), &[], d, sink);
    let p = PathTpc::valid();
    let tp = to_node(&p);
    shape_case("shape/default/PathTpc".into(), "s_pathtpc", &tp, &[], d, sink);
    for (f, s) in [("link_points", "s_linkpoint"), ("grades", "s_pathrescoeff"), ("curves", "s_pathrescoeff"), ("speed_points", "s_speedlimitpoint")] {
        if let Some(x) = sub(&tp, &[f, "0"]) { shape_case(format!("shape/default/PathTpc.{}", f), s, x, &[], d, sink); }
    }
    if let Some(x) = sub(&tp, &["train_params"]) { shape_case("shape/default/TrainParams".into(), "s_trainparams", x, &[], d, sink); }
    let ss = SetSpeedTrainSim::default();
    shape_case("shape/default/SetSpeedTrainSim".into(), "s_setspeed", &to_node(&ss), &[("state", ss.state == TrainState::default())], d, sink);
    let sl = SpeedLimitTrainSim::valid();
    let tsl = to_node(&sl);
    shape_case("shape/default/SpeedLimitTrainSim".into(), "s_slts", &tsl, &[("state", sl.state == TrainState::default())], d, sink);
    if let Some(fb) = sub(&tsl, &["fric_brake"]) {
        let fb_default = matches!(fb, Node::Struct(_, _, sk) if sk.contains(&"state"));
        // FricBrake is not exported: the flag is taken from a state known to be untouched (a fresh simulation)
        shape_case("shape/default/FricBrake".into(), "s_fricbrake", fb, &[("state", true)], d, sink);
        let _ = fb_default;
    }
    let lk = Link::valid();
    shape_case("shape/default/Link".into(), "s_link", &to_node(&lk), &[("osm_id", lk.osm_id.is_none())], d, sink);
    if let Some(h) = lk.headings.first() { shape_case("shape/default/Heading".into(), "s_heading", &to_node(h), &[("Lat", h.lat.is_none()), ("Lon", h.lon.is_none())], d, sink); }
    let tc = TrainConfig::valid();
    shape_case("shape/default/TrainConfig".into(), "s_trainconfig", &to_node(&tc), &[("cd_area_vec", tc.cd_area_vec.is_none())], d, sink);
    codec_case("codec/default/FuelConverter".into(), "s_fc", &FuelConverter::default(), d, sink);
    codec_case("codec/default/Generator".into(), "s_gen", &Generator::default(), d, sink);
    codec_case("codec/default/ElectricDrivetrain".into(), "s_edrv", &ElectricDrivetrain::default(), d, sink);
    codec_case("codec/default/ReversibleEnergyStorage".into(), "s_res", &ReversibleEnergyStorage::default(), d, sink);
    codec_case("codec/default/Locomotive_conv".into(), "s_loco", &Locomotive::default(), d, sink);
    codec_case("codec/default/Locomotive_bel".into(), "s_loco", &Locomotive::default_battery_electric_loco(), d, sink);
    codec_case("codec/default/PathTpc_unfinished".into(), "s_pathtpc", &PathTpc::default(), d, sink);
    codec_case("codec/default/PathTpc_finished".into(), "s_pathtpc", &PathTpc::valid(), d, sink);
    { let mut c = Consist::default(); c.set_save_interval(None); codec_case("codec/default/Consist".into(), "s_consist", &c, d, sink); }
    // ---- random and mid-run objects
    for k in 0..24usize {
        let bel = k % 2 == 1;
        let loco = if bel { rand_bel_loco(r) } else { rand_conv_loco(r) };
        let ns = 1 + r.below(4);
        let steps = loco_trace(r, loco.clone(), ns, true);
        let mid = steps.iter().rev().find_map(|s| s.post.as_ref().ok().cloned());
        for (tag, l) in [("state:fresh", Some(loco.clone())), ("state:midrun", mid)] {
            let l = match l { Some(l) => l, None => continue };
            let id = format!("shape/{}/{}", k, tag);
            if k < 6 { loco_shapes(&id, &l, &[tag], sink); }
            codec_case(format!("codec/{}/{}/Locomotive", k, tag), "s_loco", &l, &[tag], sink);
            if matches!(l.loco_type, PowertrainType::ConventionalLoco(_) | PowertrainType::BatteryElectricLoco(_)) {
                embed_case(format!("embed/{}/{}/Locomotive", k, tag), "x_loco_embed", coq_loco(&l), &to_node(&l), &[tag], sink);
            }
            match &l.loco_type {
                PowertrainType::ConventionalLoco(c) => {
                    codec_case(format!("codec/{}/{}/FuelConverter", k, tag), "s_fc", &c.fc, &[tag], sink);
                    codec_case(format!("codec/{}/{}/Generator", k, tag), "s_gen", &c.gen, &[tag], sink);
                    codec_case(format!("codec/{}/{}/ElectricDrivetrain", k, tag), "s_edrv", &c.edrv, &[tag], sink);
                }
                PowertrainType::BatteryElectricLoco(b) => {
                    codec_case(format!("codec/{}/{}/ReversibleEnergyStorage", k, tag), "s_res", &b.res, &[tag], sink);
                    codec_case(format!("codec/{}/{}/ElectricDrivetrain", k, tag), "s_edrv", &b.edrv, &[tag], sink);
                }
                _ => {}
            }
        }
        if k % 4 == 0 {
            // a small consist, fresh and after steps, and the simulation object around it
            let n = 1 + r.below(3);
            let locos: Vec<Locomotive> = (0..n).map(|_| if r.chance(0.4) { rand_bel_loco(r) } else { rand_conv_loco(r) }).collect();
            let pdct = if r.chance(0.5) { altrios_core::consist::consist_utils::PowerDistributionControlType::Proportional(altrios_core::consist::consist_utils::Proportional) }
                else { altrios_core::consist::consist_utils::PowerDistributionControlType::RESGreedy(altrios_core::consist::consist_utils::RESGreedy) };
            let con = Consist::new(locos, None, pdct);
            codec_case(format!("codec/{}/consist_fresh", k), "s_consist", &con, &["state:fresh"], sink);
            embed_case(format!("embed/{}/consist_fresh", k), "x_consist_embed", coq_consist(&con), &to_node(&con), &["state:fresh"], sink);
            shape_case(format!("shape/{}/Consist_fresh", k), "s_consist", &to_node(&con), &[("state", con.state == ConsistState::default())], &["state:fresh"], sink);
            let st = consist_trace(r, con.clone(), 3);
            if let Some(c2) = st.iter().rev().find_map(|s| s.post.as_ref().ok().cloned()) {
                codec_case(format!("codec/{}/consist_midrun", k), "s_consist", &c2, &["state:midrun"], sink);
                embed_case(format!("embed/{}/consist_midrun", k), "x_consist_embed", coq_consist(&c2), &to_node(&c2), &["state:midrun"], sink);
                shape_case(format!("shape/{}/Consist_midrun", k), "s_consist", &to_node(&c2), &[("state", c2.state == ConsistState::default())], &["state:midrun"], sink);
                let sim = ConsistSimulation::new(c2, PowerTrace::new(vec![0.0, 1.0], vec![0.0, 1e5], vec![Some(true), None]), None);
                codec_case(format!("codec/{}/consist_sim", k), "s_consistsim", &sim, &["state:midrun"], sink);
            }
        }
        if k % 3 == 0 {
            let tt = TrainType::Freight;
            let m = 1 + r.below(3);
            let net = crate::c17::chain_network(r, m, tt, true);
            let mut tc = crate::c17::train_config(r, false); tc.train_type = tt;
            if let Ok(tp) = tc.make_train_params() {
                let mut p = PathTpc::new(tp);
                let path: Vec<LinkIdx> = (1..=m).map(|i| LinkIdx::new(i as u32)).collect();
                if p.extend(&net, &path).is_ok() {
                    codec_case(format!("codec/{}/path_unfinished", k), "s_pathtpc", &p, &["path:unfinished"], sink);
                    p.finish();
                    codec_case(format!("codec/{}/path_finished", k), "s_pathtpc", &p, &["path:finished"], sink);
                }
            }
            let lk = &net.0[1];
            shape_case(format!("shape/{}/Link", k), "s_link", &to_node(lk), &[("osm_id", lk.osm_id.is_none())], &[], sink);
            for (hi, h) in lk.headings.iter().enumerate() {
                shape_case(format!("shape/{}/Heading{}", k, hi), "s_heading", &to_node(h), &[("Lat", h.lat.is_none()), ("Lon", h.lon.is_none())], &[], sink);
            }
            let tcw = crate::c17::train_config(r, false);
            shape_case(format!("shape/{}/TrainConfig", k), "s_trainconfig", &to_node(&tcw), &[("cd_area_vec", tcw.cd_area_vec.is_none())], &[], sink);
        }
    }
}
