//! C09 -- accepted steps respect ratings, transient limits, ramp rate and the SOC window.
//! Lock-step on LocomotiveSimulation::step / ConsistSimulation::step with demands chosen
//! adversarially relative to the limits just published, long traces so that ramp and SOC limits
//! move, plus direct calls of the limit-publishing functions (battery buffers, engine ramp).
use crate::c08::loco_step_case2;
use crate::c10::consist_step_case;
use crate::pt::*;
use crate::util::*;
use altrios_core::consist::locomotive::locomotive_model::PowertrainType;
use altrios_core::consist::Consist;
use altrios_core::prelude::*;
use altrios_core::uc;
use serde_json::json;

const TAU: f64 = 1e-3;
fn within(v: f64, lim: f64) -> bool { v < lim * (1.0 + TAU) || v < lim + TAU }
fn slack(p: f64) -> f64 { 1e-9 * p }

pub const KNOWN_STANDALONE: &str = "C09/1 a standalone LocomotiveSimulation step is accepted with tractive power above the locomotive's published limit by more than the code's tolerance (only component-level limits are checked; the published limit is computed on the input-fraction efficiency table, which is not the inverse of the output-fraction table between knots)";

pub fn limits_loco(pre: &Locomotive, post: &Locomotive, pwr: f64, dt: f64, f: &mut Vec<String>, known: &mut Vec<String>, tag: &str, standalone: bool) {
    let p = loco_rated(post);
    if !post.assert_limits { return; }
    let lim = post.state.pwr_out_max.value;
    if pwr > 0.0 && !(pwr <= lim * (1.0 + TAU) + TAU + slack(p)) {
        if standalone { known.push(KNOWN_STANDALONE.to_string()); }
        else { f.push(format!("{}tractive power {} above the published locomotive limit {}", tag, pwr, lim)); }
    }
    match (&pre.loco_type, &post.loco_type) {
        (PowertrainType::ConventionalLoco(c0), PowertrainType::ConventionalLoco(c)) => {
            let fs = &c.fc.state; let rating = c.fc.pwr_out_max.value;
            if !within(fs.pwr_brake.value, rating) { f.push(format!("{}engine shaft power {} above rating {}", tag, fs.pwr_brake.value, rating)); }
            if !within(fs.pwr_brake.value, fs.pwr_out_max.value) { f.push(format!("{}engine shaft power {} above the published transient limit {}", tag, fs.pwr_brake.value, fs.pwr_out_max.value)); }
            let floor = c0.fc.pwr_out_max_init.value.max(rating / 10.0);
            let ramp = c0.fc.state.pwr_brake.value + rating / c0.fc.pwr_ramp_lag.value * dt;
            if fs.pwr_out_max.value > ramp.max(floor) + slack(p) { f.push(format!("{}published engine limit {} rises faster than the ramp allows ({} / floor {})", tag, fs.pwr_out_max.value, ramp, floor)); }
            if fs.pwr_out_max.value > rating.max(floor) + slack(p) { f.push(format!("{}published engine limit {} above rating {}", tag, fs.pwr_out_max.value, rating)); }
            let gs = &c.gen.state;
            if gs.pwr_elec_prop_out.value + gs.pwr_elec_aux.value > c.gen.pwr_out_max.value + slack(p) { f.push(format!("{}generator output {} above rating {}", tag, gs.pwr_elec_prop_out.value + gs.pwr_elec_aux.value, c.gen.pwr_out_max.value)); }
            if gs.pwr_elec_out_max.value > c.gen.pwr_out_max.value { f.push(format!("{}published generator limit above rating", tag)); }
            if c.edrv.state.pwr_mech_out_max.value > c.edrv.pwr_out_max.value { f.push(format!("{}published drivetrain limit above rating", tag)); }
            if c.edrv.state.pwr_mech_prop_out.value > c.edrv.pwr_out_max.value + slack(p) { f.push(format!("{}drivetrain output above rating", tag)); }
        }
        (PowertrainType::BatteryElectricLoco(b0), PowertrainType::BatteryElectricLoco(b)) => {
            let rs = &b.res.state; let rating = b.res.pwr_out_max.value;
            let el = rs.pwr_out_electrical.value;
            if el >= 0.0 {
                if !within(el, rating) { f.push(format!("{}battery discharge {} above rating {}", tag, el, rating)); }
                if !within(el, rs.pwr_disch_max.value) { f.push(format!("{}battery discharge {} above the published SOC-dependent limit {}", tag, el, rs.pwr_disch_max.value)); }
            } else {
                if !within(-el, rating) { f.push(format!("{}battery charge {} above rating {}", tag, -el, rating)); }
                if !within(-el, rs.pwr_charge_max.value) { f.push(format!("{}battery charge {} above the published SOC-dependent limit {}", tag, -el, rs.pwr_charge_max.value)); }
            }
            if rs.pwr_disch_max.value < -slack(p) || rs.pwr_disch_max.value > rating + slack(p) { f.push(format!("{}published discharge limit {} outside [0, rating]", tag, rs.pwr_disch_max.value)); }
            if rs.pwr_charge_max.value < -slack(p) || rs.pwr_charge_max.value > rating + slack(p) { f.push(format!("{}published charge limit {} outside [0, rating]", tag, rs.pwr_charge_max.value)); }
            if rs.pwr_prop_out_max.value < -rs.pwr_aux.value.max(post.state.pwr_aux.value) - slack(p) { f.push(format!("{}published propulsion limit {} negative beyond the auxiliary load", tag, rs.pwr_prop_out_max.value)); }
            if b.edrv.state.pwr_mech_out_max.value > b.edrv.pwr_out_max.value { f.push(format!("{}published drivetrain limit above rating", tag)); }
            if b.edrv.state.pwr_mech_regen_max.value > b.edrv.pwr_out_max.value || b.edrv.state.pwr_mech_regen_max.value < 0.0 { f.push(format!("{}published regeneration limit outside [0, rating]", tag)); }
            // SOC window, for steps inside the step-size bound of theorem C09_soc_window
            let eta_lo = b.res.eta_interp_values.iter().flatten().flatten().cloned().fold(f64::INFINITY, f64::min);
            let cap = b.res.energy_capacity.value;
            let s0 = &b0.res.state;
            let (mn, mx, lo, hi) = (rs.min_soc.value, rs.max_soc.value, rs.soc_lo_ramp_start.value, rs.soc_hi_ramp_start.value);
            let in_window = s0.soc.value >= mn && s0.soc.value <= mx;
            let bound_ok = rating * (1.0 + TAU) * dt <= cap * eta_lo * (lo - mn) && rating * (1.0 + TAU) * dt <= cap * (mx - hi);
            if in_window && bound_ok && mn < lo && hi < mx {
                let eps = TAU * dt / (eta_lo * cap) + 1e-12;
                if rs.soc.value < mn - eps || rs.soc.value > mx + eps { f.push(format!("{}SOC {} left its window [{}, {}]", tag, rs.soc.value, mn, mx)); }
            }
        }
        _ => {}
    }
}

pub fn oracle_loco2(st: &LocoStep, post: &Locomotive) -> (Vec<String>, Vec<String>) {
    let mut f = Vec::new(); let mut k = Vec::new();
    limits_loco(&st.pre, post, st.pwr, st.dt, &mut f, &mut k, "", true);
    // with the engine off the shaft delivers nothing: the "previous shaft power" the next ramp-rate limit starts from is zero
    if !st.engine_on {
        if let PowertrainType::ConventionalLoco(c) = &post.loco_type {
            if c.fc.state.pwr_brake.value != 0.0 { f.push(format!("engine off, yet the engine's shaft power is recorded as {} (the next step's ramp-rate limit starts from it)", c.fc.state.pwr_brake.value)); }
        }
    }
    (f, k)
}
pub fn oracle_consist(st: &ConsistStep, post: &Consist) -> (Vec<String>, Vec<String>) {
    let mut f = Vec::new();
    let p = consist_rated(post);
    for (i, (l0, l)) in st.pre.loco_vec.iter().zip(post.loco_vec.iter()).enumerate() {
        // a unit with a negative published limit belongs to known finding C10/1, not to C09
        if l.state.pwr_out_max.value < 0.0 { continue; }
        let mut k = Vec::new();
        limits_loco(l0, l, l.state.pwr_out.value, st.dt, &mut f, &mut k, &format!("unit {}: ", i), false);
    }
    if consist_assert_limits(post) {
        if st.pwr > post.state.pwr_out_max.value + slack(p) { f.push(format!("consist request {} above the published consist limit {}", st.pwr, post.state.pwr_out_max.value)); }
        if -st.pwr > st.pre.state.pwr_dyn_brake_max.value + slack(p) { f.push(format!("consist braking {} above the dynamic braking capability {}", -st.pwr, st.pre.state.pwr_dyn_brake_max.value)); }
    }
    (f, vec![])
}

/// two consecutive component calls: an accepted one, then one at / just below / above the rating
/// (a check that looks at stale state from the previous call is exposed by the second call)
fn sequence_cases(r: &mut Rng, n: usize, sink: &mut Sink) {
    for k in 0..n {
        let dt = r.lrange(0.1, 10.0);
        let pmax = r.lrange(2e5, 8e6);
        if k % 2 == 0 {
            let mut g = rand_gen(r, pmax);
            let aux = if r.chance(0.3) { 0.0 } else { r.lrange(1e3, 5e4) };
            let _ = g.set_pwr_in_req(uc::W * (pmax - aux) * r.range(0.0, 0.99), uc::W * aux, uc::S * dt);
            let (mode, prop) = match r.below(4) { 0 => ("at_rating", pmax - aux), 1 => ("above_rating", (pmax - aux) * r.range(1.001, 1.5) + 1.0), 2 => ("just_above", (pmax - aux) * (1.0 + 1e-9) + 1e-3), _ => ("below", (pmax - aux) * r.range(0.5, 0.999)) };
            let pre = g.clone();
            let res = catch(std::panic::AssertUnwindSafe(|| g.set_pwr_in_req(uc::W * prop, uc::W * aux, uc::S * dt)));
            let mut fails = vec![];
            let outcome = match res {
                Ok(Ok(())) => {
                    let out = g.state.pwr_elec_prop_out.value + g.state.pwr_elec_aux.value;
                    if out > pmax * (1.0 + 1e-12) { fails.push(format!("generator output {} above rating {} accepted", out, pmax)); }
                    Outcome::Ok(outs_gen(&g))
                }
                Ok(Err(e)) => { let (c, m) = err_code(&e); Outcome::Err(c, m) }
                Err(pm) => Outcome::Panic(pm),
            };
            sink.put(Case { id: format!("gen_seq/{}", k), kind: "gen_seq".into(),
                coq: format!("x_gen_req {} {} {} {}", coq_gen(&pre), cf(prop), cf(aux), cf(dt)),
                outcome, tags: vec![format!("mode:{}", mode)],
                input: json!({"gen_yaml": serde_yaml::to_string(&pre).unwrap_or_default(), "prop": fjson(prop), "aux": fjson(aux), "dt": fjson(dt)}),
                oracle_fail: fails, known: vec![], in_domain: true });
        } else {
            let mut e = rand_edrv(r, pmax);
            e.state.pwr_mech_regen_max = uc::W * if r.chance(0.4) { 0.0 } else { pmax * r.range(0.05, 1.0) };
            let _ = e.set_pwr_in_req(uc::W * pmax * r.range(-0.9, 0.99), uc::S * dt);
            let (mode, req) = match r.below(4) { 0 => ("at_rating", pmax), 1 => ("above_rating", pmax * r.range(1.001, 1.5) + 1.0), 2 => ("just_above", pmax * (1.0 + 1e-9) + 1e-3), _ => ("below", pmax * r.range(-1.0, 0.999)) };
            let pre = e.clone();
            let res = catch(std::panic::AssertUnwindSafe(|| e.set_pwr_in_req(uc::W * req, uc::S * dt)));
            let mut fails = vec![];
            let outcome = match res {
                Ok(Ok(())) => {
                    if e.state.pwr_mech_prop_out.value > pmax * (1.0 + 1e-12) { fails.push(format!("drivetrain output {} above rating {} accepted", e.state.pwr_mech_prop_out.value, pmax)); }
                    if -e.state.pwr_mech_prop_out.value > pre.state.pwr_mech_regen_max.value * (1.0 + 1e-12) + 1e-9 { fails.push(format!("regeneration {} above the published regeneration limit {}", -e.state.pwr_mech_prop_out.value, pre.state.pwr_mech_regen_max.value)); }
                    Outcome::Ok(outs_edrv(&e))
                }
                Ok(Err(er)) => { let (c, m) = err_code(&er); Outcome::Err(c, m) }
                Err(pm) => Outcome::Panic(pm),
            };
            sink.put(Case { id: format!("edrv_seq/{}", k), kind: "edrv_seq".into(),
                coq: format!("x_edrv_req {} {} {}", coq_edrv(&pre), cf(req), cf(dt)),
                outcome, tags: vec![format!("mode:{}", mode)],
                input: json!({"edrv_yaml": serde_yaml::to_string(&pre).unwrap_or_default(), "req": fjson(req), "dt": fjson(dt)}),
                oracle_fail: fails, known: vec![], in_domain: true });
        }
    }
}

/// direct calls of the limit-publishing functions
fn limit_cases(r: &mut Rng, n: usize, sink: &mut Sink) {
    for k in 0..n {
        if k % 2 == 0 {
            let mut rs = rand_res(r);
            let p = rs.pwr_out_max.value; let cap = rs.energy_capacity.value;
            let aux = if r.chance(0.2) { 0.0 } else { r.lrange(1e3, 5e4) };
            let soc_mode = r.below(6);
            let (mn, mx) = (rs.min_soc.value, rs.max_soc.value);
            rs.state.soc = uc::R * match soc_mode { 0 => mn, 1 => mx, 2 => mn - 0.01, 3 => mx + 0.01, _ => r.range(mn, mx) };
            let cbuf = if r.chance(0.5) { None } else { Some(cap * r.range(0.0, 0.3)) };
            let dbuf = if r.chance(0.5) { None } else { Some(cap * r.range(0.0, 0.3)) };
            let pre = rs.clone();
            let res = catch(std::panic::AssertUnwindSafe(|| rs.set_cur_pwr_out_max(uc::W * aux, cbuf.map(|x| uc::J * x), dbuf.map(|x| uc::J * x))));
            let mut fails = vec![];
            let outcome = match res {
                Ok(Ok(())) => {
                    let s = &rs.state;
                    let sl = 1e-9 * p;
                    if s.pwr_disch_max.value < -sl || s.pwr_disch_max.value > p + sl { fails.push(format!("published discharge limit {} outside [0, rating {}]", s.pwr_disch_max.value, p)); }
                    if s.pwr_charge_max.value < -sl || s.pwr_charge_max.value > p + sl { fails.push(format!("published charge limit {} outside [0, rating {}]", s.pwr_charge_max.value, p)); }
                    if s.soc.value <= s.min_soc.value && s.pwr_disch_max.value.abs() > sl { fails.push("discharge allowed at or below minimum SOC".into()); }
                    if s.soc.value >= s.max_soc.value && s.pwr_charge_max.value.abs() > sl { fails.push("charge allowed at or above maximum SOC".into()); }
                    Outcome::Ok(outs_res(&rs))
                }
                Ok(Err(e)) => { let (c, m) = err_code(&e); Outcome::Err(c, m) }
                Err(pm) => Outcome::Panic(pm),
            };
            let cs = |o: Option<f64>| copt(o.map(cf));
            sink.put(Case { id: format!("res_limits/{}", k), kind: "res_limits".into(),
                coq: format!("x_res_limits {} {} {} {}", coq_res(&pre), cf(aux), cs(cbuf), cs(dbuf)),
                outcome, tags: vec![format!("soc_mode:{}", soc_mode), format!("cbuf:{}", cbuf.is_some()), format!("dbuf:{}", dbuf.is_some())],
                input: json!({"res_yaml": serde_yaml::to_string(&pre).unwrap_or_default(), "aux": fjson(aux), "charge_buffer": cbuf.map(fjson), "discharge_buffer": dbuf.map(fjson)}),
                oracle_fail: fails, known: vec![], in_domain: true });
        } else {
            let mut fc = rand_fc(r);
            let p = fc.pwr_out_max.value;
            fc.state.pwr_brake = uc::W * p * r.range(0.0, 1.0);
            let dt = match r.below(5) { 0 => 0.0, 1 => -1.0, _ => r.lrange(0.05, 60.0) };
            let pre = fc.clone();
            let res = catch(std::panic::AssertUnwindSafe(|| fc.set_cur_pwr_out_max(uc::S * dt)));
            let mut fails = vec![];
            let outcome = match res {
                Ok(Ok(())) => {
                    let floor = pre.pwr_out_max_init.value.max(p / 10.0);
                    let ramp = pre.state.pwr_brake.value + p / pre.pwr_ramp_lag.value * dt;
                    if fc.state.pwr_out_max.value > ramp.max(floor) * (1.0 + 1e-12) { fails.push(format!("published engine limit {} rises faster than the ramp allows ({})", fc.state.pwr_out_max.value, ramp.max(floor))); }
                    if fc.state.pwr_out_max.value > p.max(floor) { fails.push("published engine limit above rating".into()); }
                    Outcome::Ok(outs_fc(&fc))
                }
                Ok(Err(e)) => { let (c, m) = err_code(&e); Outcome::Err(c, m) }
                Err(pm) => Outcome::Panic(pm),
            };
            sink.put(Case { id: format!("fc_limits/{}", k), kind: "fc_limits".into(),
                coq: format!("x_fc_limits {} {}", coq_fc(&pre), cf(dt)),
                outcome, tags: vec![format!("dt:{}", if dt > 0.0 { "pos" } else { "nonpos" })],
                input: json!({"fc_yaml": serde_yaml::to_string(&pre).unwrap_or_default(), "dt": fjson(dt)}),
                oracle_fail: fails, known: vec![], in_domain: dt > 0.0 });
        }
    }
}

pub fn run(seed: u64, n: usize, sink: &mut Sink) {
    let mut r = Rng::new(seed ^ 0xC09);
    limit_cases(&mut r.fork(), n / 10, sink);
    sequence_cases(&mut r.fork(), n / 5 - n / 10, sink);
    let n_loco = n * 2 / 5;
    let mut made = 0usize; let mut t = 0usize;
    while made < n_loco {
        let loco = if t % 2 == 0 { rand_conv_loco(&mut r) } else { rand_bel_loco(&mut r) };
        // long traces: ramp and SOC-dependent limits move
        // every third trace may switch the engine off (and on again): the ramp limit after a shutdown starts from zero shaft power
        let steps = loco_trace(&mut r, loco, 40.min(n_loco - made), t % 3 == 2);
        for (i, st) in steps.iter().enumerate() {
            sink.put(loco_step_case2(format!("loco_step/{}/{}", t, i), st, "loco_step", &oracle_loco2));
            made += 1;
        }
        t += 1;
    }
    let n_con = n - n / 5 - n_loco;
    let mut made = 0usize; let mut t = 0usize;
    while made < n_con {
        let con = rand_consist(&mut r);
        let steps = consist_trace(&mut r, con, 12.min(n_con - made));
        for (i, st) in steps.iter().enumerate() {
            sink.put(consist_step_case(format!("consist_step/{}/{}", t, i), st, "consist_step", &oracle_consist));
            made += 1;
        }
        t += 1;
    }
}
