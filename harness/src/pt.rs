//! Powertrain objects: random construction, exact Coq printing, field extraction.
//! Field orders here mirror coq/model/Powertrain.v, Loco.v and Exec.v.
use crate::util::*;
use altrios_core::consist::locomotive::locomotive_model::PowertrainType;
use altrios_core::uc;
use altrios_core::prelude::*;
use serde_json::json;

// ---------------------------------------------------------------- generators
/// strictly increasing fractions in [0,1]; the first is 0 with probability 1/2 and the last 1
pub fn gen_frac(r: &mut Rng, n: usize) -> Vec<f64> {
    let mut v: Vec<f64> = (0..n).map(|_| r.range(0.001, 0.999)).collect();
    v.sort_by(|a, b| a.partial_cmp(b).unwrap());
    v.dedup();
    while v.len() < n {
        let x = r.range(0.001, 0.999);
        if !v.contains(&x) { v.push(x); v.sort_by(|a, b| a.partial_cmp(b).unwrap()); }
    }
    if r.chance(0.5) { v[0] = 0.0; }
    let last = v.len() - 1;
    v[last] = 1.0;
    v
}
/// efficiencies in (0,1]; `shape`: 0 flat, 1 rising, 2 hump, 3 random, 4 extreme (touching 1.0 / tiny)
pub fn gen_eta(r: &mut Rng, n: usize, lo: f64, hi: f64) -> Vec<f64> {
    let shape = r.below(5);
    let base = r.range(lo, hi);
    (0..n).map(|i| {
        let t = i as f64 / (n.max(2) - 1) as f64;
        let v = match shape {
            0 => base,
            1 => lo + (hi - lo) * t,
            2 => lo + (hi - lo) * (1.0 - (2.0 * t - 1.0).powi(2)),
            3 => r.range(lo, hi),
            _ => if r.chance(0.3) { 1.0 } else { r.range(lo, hi) },
        };
        v.min(1.0).max(1e-3)
    }).collect()
}
/// make x/eta strictly increasing (required by Generator / ElectricDrivetrain)
pub fn fix_in_frac(frac: &[f64], eta: &mut [f64]) {
    for i in 1..frac.len() {
        // need frac[i]/eta[i] > frac[i-1]/eta[i-1]
        let prev = frac[i - 1] / eta[i - 1];
        if !(frac[i] / eta[i] > prev) {
            eta[i] = (frac[i] / (prev * 1.05 + 1e-6)).min(1.0).max(1e-3);
            if !(frac[i] / eta[i] > prev) { eta[i] = eta[i - 1].min(eta[i]); }
        }
    }
}

pub fn rand_fc(r: &mut Rng) -> FuelConverter {
    let pmax = r.lrange(2e5, 8e6);
    let n = 2 + r.below(9);
    let frac = gen_frac(r, n);
    let eta = gen_eta(r, n, 0.05, 0.6);
    let v = json!({
        "pwr_out_max_watts": pmax,
        "pwr_out_max_init": if r.chance(0.3) { 0.0 } else { pmax * r.range(0.02, 0.5) },
        "pwr_ramp_lag_seconds": r.lrange(1.0, 120.0),
        "pwr_out_frac_interp": frac,
        "eta_interp": eta,
        "pwr_idle_fuel_watts": if r.chance(0.15) { 0.0 } else { pmax * r.range(0.001, 0.02) },
        "save_interval": null,
    });
    serde_json::from_value(v).expect("fc")
}
pub fn rand_gen(r: &mut Rng, pmax: f64) -> Generator {
    let n = 2 + r.below(6);
    let frac = gen_frac(r, n);
    let mut eta = gen_eta(r, n, 0.7, 1.0);
    fix_in_frac(&frac, &mut eta);
    let v = json!({
        "pwr_out_frac_interp": frac, "eta_interp": eta, "pwr_out_max_watts": pmax, "save_interval": null,
    });
    let mut g: Generator = serde_json::from_value(v).expect("gen");
    if r.chance(0.5) { g.set_pwr_in_frac_interp().expect("gen in frac"); }
    g
}
pub fn rand_edrv(r: &mut Rng, pmax: f64) -> ElectricDrivetrain {
    let n = 2 + r.below(6);
    let frac = gen_frac(r, n);
    let mut eta = gen_eta(r, n, 0.7, 1.0);
    fix_in_frac(&frac, &mut eta);
    let v = json!({
        "pwr_out_frac_interp": frac, "eta_interp": eta, "pwr_out_max_watts": pmax, "save_interval": null,
    });
    let mut e: ElectricDrivetrain = serde_json::from_value(v).expect("edrv");
    if r.chance(0.5) { e.set_pwr_in_frac_interp().expect("edrv in frac"); }
    e
}
pub fn rand_res(r: &mut Rng) -> ReversibleEnergyStorage {
    let pmax = r.lrange(2e5, 6e6);
    // one pack in five is power-dense (drained in 3-15 minutes at full power) and starts within 2 % of an edge of its SOC
    // window: a coarse step at the published (derated) limit then carries the SOC over the edge
    let dense = r.chance(0.2);
    let cap = pmax * if dense { r.lrange(200.0, 900.0) } else { r.lrange(600.0, 4.0 * 3600.0) };
    let nt = 1 + r.below(3);
    let ns = 2 + r.below(4);
    let nc = 2 + r.below(5);
    let mut gt: Vec<f64> = (0..nt).map(|i| 20.0 + 12.0 * i as f64 + r.range(0.0, 5.0)).collect();
    gt.sort_by(|a, b| a.partial_cmp(b).unwrap());
    let mut gs = gen_frac(r, ns);
    gs[0] = 0.0;
    let mut gc: Vec<f64> = (0..nc).map(|i| -5.0 + 10.0 * (i as f64 + r.range(0.05, 0.95)) / nc as f64).collect();
    gc.sort_by(|a, b| a.partial_cmp(b).unwrap());
    let flat = r.chance(0.15);
    let e0 = r.range(0.6, 1.0);
    let vals: Vec<Vec<Vec<f64>>> = (0..nt).map(|_| (0..ns).map(|_| (0..nc).map(|_| {
        if flat { e0 } else if r.chance(0.1) { 1.0 } else { r.range(0.6, 1.0) }
    }).collect()).collect()).collect();
    let min_soc = r.range(0.0, 0.3);
    let max_soc = r.range(0.6, 1.0);
    let v = json!({
        "eta_interp_grid": [gt, gs, gc], "eta_interp_values": vals,
        "pwr_out_max_watts": pmax, "energy_capacity_joules": cap,
        "min_soc": min_soc, "max_soc": max_soc,
        "soc_hi_ramp_start": if r.chance(0.5) { json!(null) } else { json!(max_soc - r.range(0.01, 0.2)) },
        "soc_lo_ramp_start": if r.chance(0.5) { json!(null) } else { json!(min_soc + r.range(0.01, 0.2)) },
        "save_interval": null,
    });
    let mut res: ReversibleEnergyStorage = serde_json::from_value(v).expect("res");
    res.state.soc = uc::R * if dense { if r.chance(0.5) { max_soc - r.range(0.0, 0.02) } else { min_soc + r.range(0.0, 0.02) } } else { r.range(min_soc, max_soc) };
    res.state.temperature_celsius = r.range(15.0, 60.0);
    res
}

pub fn rand_conv_loco(r: &mut Rng) -> Locomotive {
    let fc = rand_fc(r);
    let p = fc.pwr_out_max.value;
    let k1 = r.range(0.9, 1.6);
    let gen = rand_gen(r, p * k1);
    let k2 = r.range(0.8, 1.6);
    let edrv = rand_edrv(r, p * k2);
    let mut l = Locomotive::default();
    l.loco_type = PowertrainType::ConventionalLoco(ConventionalLoco::new(fc, gen, edrv));
    l.pwr_aux_offset = uc::W * if r.chance(0.1) { 0.0 } else { r.lrange(1e3, 5e4) };
    l.pwr_aux_traction_coeff = uc::R * if r.chance(0.2) { 0.0 } else { r.lrange(1e-5, 5e-3) };
    l.set_save_interval(None);
    l
}
pub fn rand_bel_loco(r: &mut Rng) -> Locomotive {
    let res = rand_res(r);
    let p = res.pwr_out_max.value;
    let k2 = r.range(0.8, 1.6);
    let edrv = rand_edrv(r, p * k2);
    let mut l = Locomotive::default_battery_electric_loco();
    l.loco_type = PowertrainType::BatteryElectricLoco(BatteryElectricLoco::new(res, edrv));
    l.pwr_aux_offset = uc::W * if r.chance(0.1) { 0.0 } else { r.lrange(1e3, 5e4) };
    l.pwr_aux_traction_coeff = uc::R * if r.chance(0.2) { 0.0 } else { r.lrange(1e-5, 5e-3) };
    l.set_save_interval(None);
    l
}

// ---------------------------------------------------------------- Coq printers
pub fn coq_fc(c: &FuelConverter) -> String {
    let s = &c.state;
    format!("(Build_FC (Build_FCState {} {} {} {} {} {} {} {} {} {} {} {}) {} {} {} {} {} {})",
        cz(s.i as i64), cf(s.pwr_out_max.value), cf(s.eta.value), cf(s.pwr_brake.value),
        cf(s.pwr_fuel.value), cf(s.pwr_loss.value), cf(s.pwr_idle_fuel.value),
        cf(s.energy_brake.value), cf(s.energy_fuel.value), cf(s.energy_loss.value),
        cf(s.energy_idle_fuel.value), cb(s.engine_on),
        cf(c.pwr_out_max.value), cf(c.pwr_out_max_init.value), cf(c.pwr_ramp_lag.value),
        cfl(&c.pwr_out_frac_interp), cfl(&c.eta_interp), cf(c.pwr_idle_fuel.value))
}
pub fn coq_gen(g: &Generator) -> String {
    let s = &g.state;
    format!("(Build_Gen (Build_GenState {} {} {} {} {} {} {} {} {} {} {} {} {}) {} {} {} {})",
        cz(s.i as i64), cf(s.eta.value), cf(s.pwr_elec_prop_out_max.value), cf(s.pwr_elec_out_max.value),
        cf(s.pwr_rate_out_max.value), cf(s.pwr_mech_in.value), cf(s.pwr_elec_prop_out.value),
        cf(s.pwr_elec_aux.value), cf(s.pwr_loss.value), cf(s.energy_mech_in.value),
        cf(s.energy_elec_prop_out.value), cf(s.energy_elec_aux.value), cf(s.energy_loss.value),
        cfl(&g.pwr_out_frac_interp), cfl(&g.eta_interp), cfl(&g.pwr_in_frac_interp), cf(g.pwr_out_max.value))
}
pub fn coq_edrv(e: &ElectricDrivetrain) -> String {
    let s = &e.state;
    format!("(Build_Edrv (Build_EdrvState {} {} {} {} {} {} {} {} {} {} {} {} {} {} {} {}) {} {} {} {})",
        cz(s.i as i64), cf(s.eta.value), cf(s.pwr_mech_out_max.value), cf(s.pwr_mech_regen_max.value),
        cf(s.pwr_rate_out_max.value), cf(s.pwr_out_req.value), cf(s.pwr_elec_prop_in.value),
        cf(s.pwr_mech_prop_out.value), cf(s.pwr_mech_dyn_brake.value), cf(s.pwr_elec_dyn_brake.value),
        cf(s.pwr_loss.value), cf(s.energy_elec_prop_in.value), cf(s.energy_mech_prop_out.value),
        cf(s.energy_mech_dyn_brake.value), cf(s.energy_elec_dyn_brake.value), cf(s.energy_loss.value),
        cfl(&e.pwr_out_frac_interp), cfl(&e.eta_interp), cfl(&e.pwr_in_frac_interp), cf(e.pwr_out_max.value))
}
pub fn coq_res(r: &ReversibleEnergyStorage) -> String {
    let s = &r.state;
    format!("(Build_Res (Build_ResState {} {} {} {} {} {} {} {} {} {} {} {} {} {} {} {} {} {} {} {} {} {} {}) {} {} {} {} {} {} {} {} {} {})",
        cz(s.i as i64), cf(s.pwr_prop_out_max.value), cf(s.pwr_regen_out_max.value),
        cf(s.pwr_disch_max.value), cf(s.pwr_charge_max.value), cf(s.pwr_out_electrical.value),
        cf(s.pwr_out_propulsion.value), cf(s.pwr_aux.value), cf(s.pwr_loss.value),
        cf(s.pwr_out_chemical.value), cf(s.energy_out_electrical.value),
        cf(s.energy_out_propulsion.value), cf(s.energy_aux.value), cf(s.energy_loss.value),
        cf(s.energy_out_chemical.value), cf(s.max_soc.value), cf(s.soc_hi_ramp_start.value),
        cf(s.min_soc.value), cf(s.soc_lo_ramp_start.value), cf(s.soc.value), cf(s.eta.value),
        cf(s.soh), cf(s.temperature_celsius),
        cfl(&r.eta_interp_grid[0]), cfl(&r.eta_interp_grid[1]), cfl(&r.eta_interp_grid[2]),
        cfl3(&r.eta_interp_values), cf(r.pwr_out_max.value), cf(r.energy_capacity.value),
        cf(r.min_soc.value), cf(r.max_soc.value),
        copt(r.soc_hi_ramp_start.map(|x| cf(x.value))), copt(r.soc_lo_ramp_start.map(|x| cf(x.value))))
}
pub fn coq_loco(l: &Locomotive) -> String {
    let s = &l.state;
    let t = match &l.loco_type {
        PowertrainType::ConventionalLoco(c) =>
            format!("(PConv (Build_Conv {} {} {}))", coq_fc(&c.fc), coq_gen(&c.gen), coq_edrv(&c.edrv)),
        PowertrainType::BatteryElectricLoco(b) =>
            format!("(PBel (Build_Bel {} {}))", coq_res(&b.res), coq_edrv(&b.edrv)),
        _ => panic!("loco type outside the model"),
    };
    format!("(Build_Loco {} (Build_LocoState {} {} {} {} {} {} {} {}) {} {} {})",
        t, cz(s.i as i64), cf(s.pwr_out_max.value), cf(s.pwr_rate_out_max.value),
        cf(s.pwr_regen_max.value), cf(s.pwr_out.value), cf(s.pwr_aux.value),
        cf(s.energy_out.value), cf(s.energy_aux.value),
        cb(l.assert_limits), cf(l.pwr_aux_offset.value), cf(l.pwr_aux_traction_coeff.value))
}

// ---------------------------------------------------------------- field extraction
pub fn outs_fc(c: &FuelConverter) -> Outs {
    let s = &c.state; let p = c.pwr_out_max.value; let e = p * 100.0;
    let mut o = Outs::new();
    o.f("fc.pwr_out_max", s.pwr_out_max.value, p); o.f("fc.eta", s.eta.value, 1.0);
    o.f("fc.pwr_brake", s.pwr_brake.value, p); o.f("fc.pwr_fuel", s.pwr_fuel.value, p);
    o.f("fc.pwr_loss", s.pwr_loss.value, p); o.f("fc.pwr_idle_fuel", s.pwr_idle_fuel.value, p);
    o.f("fc.energy_brake", s.energy_brake.value, e); o.f("fc.energy_fuel", s.energy_fuel.value, e);
    o.f("fc.energy_loss", s.energy_loss.value, e); o.f("fc.energy_idle_fuel", s.energy_idle_fuel.value, e);
    o.b("fc.engine_on", s.engine_on);
    o.f("fc.pwr_out_max_init", c.pwr_out_max_init.value, p);
    o
}
pub fn outs_gen(g: &Generator) -> Outs {
    let s = &g.state; let p = g.pwr_out_max.value; let e = p * 100.0;
    let mut o = Outs::new();
    o.f("gen.eta", s.eta.value, 1.0); o.f("gen.pwr_elec_prop_out_max", s.pwr_elec_prop_out_max.value, p);
    o.f("gen.pwr_elec_out_max", s.pwr_elec_out_max.value, p);
    o.f("gen.pwr_rate_out_max", s.pwr_rate_out_max.value, p);
    o.f("gen.pwr_mech_in", s.pwr_mech_in.value, p); o.f("gen.pwr_elec_prop_out", s.pwr_elec_prop_out.value, p);
    o.f("gen.pwr_elec_aux", s.pwr_elec_aux.value, p); o.f("gen.pwr_loss", s.pwr_loss.value, p);
    o.f("gen.energy_mech_in", s.energy_mech_in.value, e);
    o.f("gen.energy_elec_prop_out", s.energy_elec_prop_out.value, e);
    o.f("gen.energy_elec_aux", s.energy_elec_aux.value, e); o.f("gen.energy_loss", s.energy_loss.value, e);
    o
}
pub fn outs_edrv(d: &ElectricDrivetrain) -> Outs {
    let s = &d.state; let p = d.pwr_out_max.value; let e = p * 100.0;
    let mut o = Outs::new();
    o.f("edrv.eta", s.eta.value, 1.0); o.f("edrv.pwr_mech_out_max", s.pwr_mech_out_max.value, p);
    o.f("edrv.pwr_mech_regen_max", s.pwr_mech_regen_max.value, p);
    o.f("edrv.pwr_rate_out_max", s.pwr_rate_out_max.value, p);
    o.f("edrv.pwr_out_req", s.pwr_out_req.value, p); o.f("edrv.pwr_elec_prop_in", s.pwr_elec_prop_in.value, p);
    o.f("edrv.pwr_mech_prop_out", s.pwr_mech_prop_out.value, p);
    o.f("edrv.pwr_mech_dyn_brake", s.pwr_mech_dyn_brake.value, p);
    o.f("edrv.pwr_elec_dyn_brake", s.pwr_elec_dyn_brake.value, p); o.f("edrv.pwr_loss", s.pwr_loss.value, p);
    o.f("edrv.energy_elec_prop_in", s.energy_elec_prop_in.value, e);
    o.f("edrv.energy_mech_prop_out", s.energy_mech_prop_out.value, e);
    o.f("edrv.energy_mech_dyn_brake", s.energy_mech_dyn_brake.value, e);
    o.f("edrv.energy_elec_dyn_brake", s.energy_elec_dyn_brake.value, e);
    o.f("edrv.energy_loss", s.energy_loss.value, e);
    o
}
pub fn outs_res(r: &ReversibleEnergyStorage) -> Outs {
    let s = &r.state; let p = r.pwr_out_max.value; let e = p * 100.0;
    let mut o = Outs::new();
    o.f("res.pwr_prop_out_max", s.pwr_prop_out_max.value, p);
    o.f("res.pwr_regen_out_max", s.pwr_regen_out_max.value, p);
    o.f("res.pwr_disch_max", s.pwr_disch_max.value, p); o.f("res.pwr_charge_max", s.pwr_charge_max.value, p);
    o.f("res.pwr_out_electrical", s.pwr_out_electrical.value, p);
    o.f("res.pwr_out_propulsion", s.pwr_out_propulsion.value, p); o.f("res.pwr_aux", s.pwr_aux.value, p);
    o.f("res.pwr_loss", s.pwr_loss.value, p); o.f("res.pwr_out_chemical", s.pwr_out_chemical.value, p);
    o.f("res.energy_out_electrical", s.energy_out_electrical.value, e);
    o.f("res.energy_out_propulsion", s.energy_out_propulsion.value, e);
    o.f("res.energy_aux", s.energy_aux.value, e); o.f("res.energy_loss", s.energy_loss.value, e);
    o.f("res.energy_out_chemical", s.energy_out_chemical.value, e);
    o.f("res.max_soc", s.max_soc.value, 1.0); o.f("res.soc_hi_ramp_start", s.soc_hi_ramp_start.value, 1.0);
    o.f("res.min_soc", s.min_soc.value, 1.0); o.f("res.soc_lo_ramp_start", s.soc_lo_ramp_start.value, 1.0);
    o.f("res.soc", s.soc.value, 1.0); o.f("res.eta", s.eta.value, 1.0);
    o
}
pub fn loco_rated(l: &Locomotive) -> f64 {
    match &l.loco_type {
        PowertrainType::ConventionalLoco(c) => c.fc.pwr_out_max.value,
        PowertrainType::BatteryElectricLoco(b) => b.res.pwr_out_max.value,
        _ => 1e6,
    }
}
pub fn outs_loco(l: &Locomotive) -> Outs {
    let s = &l.state; let p = loco_rated(l); let e = p * 100.0;
    let mut o = Outs::new();
    o.f("loco.pwr_out_max", s.pwr_out_max.value, p); o.f("loco.pwr_rate_out_max", s.pwr_rate_out_max.value, p);
    o.f("loco.pwr_regen_max", s.pwr_regen_max.value, p); o.f("loco.pwr_out", s.pwr_out.value, p);
    o.f("loco.pwr_aux", s.pwr_aux.value, p); o.f("loco.energy_out", s.energy_out.value, e);
    o.f("loco.energy_aux", s.energy_aux.value, e);
    match &l.loco_type {
        PowertrainType::ConventionalLoco(c) => {
            o.extend(outs_fc(&c.fc)); o.extend(outs_gen(&c.gen)); o.extend(outs_edrv(&c.edrv));
        }
        PowertrainType::BatteryElectricLoco(b) => {
            o.extend(outs_res(&b.res)); o.extend(outs_edrv(&b.edrv));
        }
        _ => panic!("loco type outside the model"),
    }
    o
}

// ---------------------------------------------------------------- error codes
/// Map an anyhow error chain of the powertrain code to the model's numeric code
/// (coq/model/Powertrain.v, Loco.v). 999 = not recognised.
pub fn err_code(e: &anyhow::Error) -> (i64, String) {
    let m = format!("{:#}", e);
    let table: &[(&str, i64)] = &[
        ("exceeds current max power", 803),
        ("Cannot interpolate as all values are equal", 101),
        ("Unable to find where the query fits", 103),
        ("dt must always be greater than 0.0", 201),
        ("less than or equal to static pwr_out_max", 202),
        ("less than or equal to current transient pwr_out_max", 203),
        ("fc pwr_out_req", 204),
        ("fc eta", 205),
        ("Engine is off but pwr_out_req is non-zero", 206),
        ("Energy loss must be non-negative", 207),
        ("must be monotonically increasing", 301),
        ("gen propulsion power is negative", 302),
        ("gen required power", 303),
        ("gen eta", 304),
        ("edrv required power", 401),
        ("edrv eta", 402),
        ("Mech Dynamic Brake Power cannot be below 0.0", 403),
        ("pwr_mech_regen_max >= si::Power::ZERO", 404),
        ("pwr_prop_req must be greater than 0 if SOC is over max SOC", 501),
        ("pwr_prop_req must be less than 0 if SOC is below min SOC", 502),
        ("exceeds static max discharge power", 503),
        ("exceeds transient max discharge power", 504),
        ("exceeds static max power", 505),
        ("exceeds transient max power", 506),
        ("res eta", 507),
        ("fc can only produce positive power", 601),
        ("almost_eq_uom(&self.power_trace.pwr", 802),
    ];
    for (pat, code) in table {
        if m.contains(pat) { return (*code, m); }
    }
    (999, m)
}

// ---------------------------------------------------------------- locomotive traces
/// One lock-step record of `LocomotiveSimulation::step`.
pub struct LocoStep {
    /// the object as a REJECTED call left it (None after an accepted step)
    pub after_err: Option<Locomotive>,
    pub pre: Locomotive,
    pub pwr: f64,
    pub dt: f64,
    pub engine_on: bool,
    pub post: Result<Locomotive, (i64, String)>,
    pub mode: &'static str,
}

/// Limits a locomotive would publish for this step (peeked on a clone).
pub fn peek_limits(l: &Locomotive, on: bool, dt: f64) -> Option<(f64, f64)> {
    let mut p = l.clone();
    p.set_pwr_aux(Some(on));
    use altrios_core::consist::LocoTrait;
    let r = catch(std::panic::AssertUnwindSafe(|| p.set_cur_pwr_max_out(None, uc::S * dt)));
    match r { Ok(Ok(())) => Some((p.state.pwr_out_max.value, p.state.pwr_regen_max.value)), _ => None }
}

pub fn edrv_max(l: &Locomotive) -> f64 {
    match &l.loco_type {
        PowertrainType::ConventionalLoco(c) => c.edrv.pwr_out_max.value,
        PowertrainType::BatteryElectricLoco(b) => b.edrv.pwr_out_max.value,
        _ => 0.0,
    }
}

/// Drive a locomotive through `n` steps of `LocomotiveSimulation::step`, choosing each demand
/// relative to the limits the locomotive publishes for that step. A rejected step is recorded and
/// the run continues from the pre-state (as a caller that retries with another demand would).
pub fn loco_trace(r: &mut Rng, loco: Locomotive, n: usize, allow_off: bool) -> Vec<LocoStep> {
    let is_conv = matches!(loco.loco_type, PowertrainType::ConventionalLoco(_));
    let mut sim = LocomotiveSimulation::new(loco, PowerTrace::new(vec![0.0], vec![0.0], vec![Some(true)]), None);
    let mut out = Vec::new();
    let mut t = 0.0f64;
    // a battery unit that starts within 3 % of an edge of its SOC window mostly takes coarse steps at the published limit
    // TOWARDS that edge: such an accepted step carries the SOC over the edge (there is no clamp in the code)
    let edge: i8 = match &sim.loco_unit.loco_type {
        PowertrainType::BatteryElectricLoco(b) => { let (s0, mn, mx) = (b.res.state.soc.value, b.res.min_soc.value, b.res.max_soc.value);
            if mx - s0 < 0.03 { 1 } else if s0 - mn < 0.03 { -1 } else { 0 } }
        _ => 0 };
    let long_dt = r.chance(if edge != 0 { 0.7 } else { 0.2 });
    for _ in 0..n {
        let dt = if long_dt { r.range(5.0, 60.0) } else { *r.pick(&[1.0, 1.0, 0.5, 0.1, 2.0, 10.0]) * if r.chance(0.3) { r.range(0.5, 1.5) } else { 1.0 } };
        let on = !(allow_off && is_conv && r.chance(0.2));
        let lims = peek_limits(&sim.loco_unit, on, dt);
        let (pmax, rmax) = lims.unwrap_or((1e5, 0.0));
        let emax = edrv_max(&sim.loco_unit);
        let (mode, pwr): (&'static str, f64) = if !on {
            if r.chance(0.8) { ("off_zero", 0.0) } else { ("off_nonzero", pmax.max(1e3) * r.range(0.01, 0.5)) }
        } else {
            match if edge != 0 && r.chance(0.5) { if edge > 0 { 9 } else { 4 } } else { r.below(12) } {
                0 => ("zero", 0.0),
                1 | 2 | 3 => ("frac_max", pmax * r.range(0.02, 0.98)),
                4 => ("at_max", pmax),
                5 => ("just_below_max", pmax * (1.0 - 1e-6)),
                6 => ("just_above_max", pmax * (1.0 + 3e-3) + 1.0),
                7 => ("far_above_max", pmax.abs() * r.range(1.2, 3.0) + 1e3),
                8 => if rmax > 0.0 { ("regen_frac", -rmax * r.range(0.02, 0.98)) } else { ("brake_small", -emax * r.range(0.01, 0.3)) },
                9 => if rmax > 0.0 { ("regen_at_max", -rmax) } else { ("brake_mid", -emax * r.range(0.3, 0.9)) },
                10 => ("brake_beyond_regen", -(rmax + (emax - rmax).max(0.0) * r.range(0.05, 0.95))),
                _ => ("brake_at_edrv_max", -emax),
            }
        };
        t += dt;
        sim.power_trace.time.push(uc::S * t);
        sim.power_trace.pwr.push(uc::W * pwr);
        sim.power_trace.engine_on.push(Some(on));
        let i = sim.i;
        let real_dt = sim.power_trace.dt(i).value;
        let pre = sim.loco_unit.clone();
        let res = catch(std::panic::AssertUnwindSafe(|| sim.step()));
        let post = match res {
            Ok(Ok(())) => Ok(sim.loco_unit.clone()),
            Ok(Err(e)) => Err(err_code(&e)),
            Err(p) => Err((-1, p)),
        };
        let failed = post.is_err();
        out.push(LocoStep { after_err: if failed { Some(sim.loco_unit.clone()) } else { None }, pre: pre.clone(), pwr, dt: real_dt, engine_on: on, post, mode });
        if failed {
            // discard the rejected trace element and restore the pre-state
            sim.loco_unit = pre;
            let k = sim.power_trace.len() - 1;
            sim.power_trace.trim(None, Some(k)).unwrap();
            t -= dt;
        }
    }
    out
}

// ---------------------------------------------------------------- consists
use altrios_core::consist::consist_utils::{PowerDistributionControlType, Proportional, RESGreedy};
use altrios_core::consist::Consist;
use altrios_core::consist::consist_sim::ConsistSimulation;
use altrios_core::traits::SerdeAPI;

pub fn rand_consist(r: &mut Rng) -> Consist {
    let n = 1 + r.below(8);
    let kind = r.below(4); // 0 mixed, 1 all conv, 2 all bel, 3 mixed
    let locos: Vec<Locomotive> = (0..n).map(|_| {
        let bel = match kind { 1 => false, 2 => true, _ => r.chance(0.45) };
        let mut l = if bel { rand_bel_loco(r) } else { rand_conv_loco(r) };
        if bel && r.chance(0.25) {
            // depleted or full battery
            if let PowertrainType::BatteryElectricLoco(b) = &mut l.loco_type {
                b.res.state.soc = if r.chance(0.5) { b.res.min_soc + uc::R * r.range(0.0, 0.02) } else { b.res.max_soc - uc::R * r.range(0.0, 0.02) };
            }
        }
        l
    }).collect();
    let pdct = if r.chance(0.5) { PowerDistributionControlType::Proportional(Proportional) } else { PowerDistributionControlType::RESGreedy(RESGreedy) };
    let mut c = Consist::new(locos, None, pdct);
    if r.chance(0.8) { c.init().expect("consist init"); }
    c
}

pub fn coq_consist(c: &Consist) -> String {
    let s = &c.state;
    let pd = match &c.pdct { PowerDistributionControlType::Proportional(_) => "Proportional", PowerDistributionControlType::RESGreedy(_) => "RESGreedy", _ => panic!("pdct outside the model") };
    let al = consist_assert_limits(c);
    format!("(Build_Consist [{}] {} {} (Build_ConsistState {} {} {} {} {} {} {} {} {} {} {} {} {} {} {} {} {} {} {}))",
        c.loco_vec.iter().map(coq_loco).collect::<Vec<_>>().join("; "), pd, cb(al),
        cz(s.i as i64), cf(s.pwr_out_max.value), cf(s.pwr_rate_out_max.value), cf(s.pwr_regen_max.value),
        cf(s.pwr_out_max_reves.value), cf(s.pwr_out_deficit.value), cf(s.pwr_out_max_non_reves.value),
        cf(s.pwr_regen_deficit.value), cf(s.pwr_dyn_brake_max.value), cf(s.pwr_out_req.value),
        cf(s.pwr_cat_lim.value), cf(s.pwr_out.value), cf(s.pwr_reves.value), cf(s.pwr_fuel.value),
        cf(s.energy_out.value), cf(s.energy_out_pos.value), cf(s.energy_out_neg.value),
        cf(s.energy_res.value), cf(s.energy_fuel.value))
}
/// `assert_limits` of a Consist is private; it is serialized, so read it from there.
pub fn consist_assert_limits(c: &Consist) -> bool {
    serde_json::to_value(c).ok().and_then(|v| v.get("assert_limits").and_then(|b| b.as_bool())).unwrap_or(true)
}
pub fn consist_rated(c: &Consist) -> f64 { c.loco_vec.iter().map(loco_rated).sum::<f64>().max(1.0) }
pub fn outs_consist(c: &Consist) -> Outs {
    let s = &c.state; let p = consist_rated(c); let e = p * 100.0;
    let mut o = Outs::new();
    o.f("con.pwr_out_max", s.pwr_out_max.value, p); o.f("con.pwr_rate_out_max", s.pwr_rate_out_max.value, p);
    o.f("con.pwr_regen_max", s.pwr_regen_max.value, p); o.f("con.pwr_out_max_reves", s.pwr_out_max_reves.value, p);
    o.f("con.pwr_out_deficit", s.pwr_out_deficit.value, p); o.f("con.pwr_out_max_non_reves", s.pwr_out_max_non_reves.value, p);
    o.f("con.pwr_regen_deficit", s.pwr_regen_deficit.value, p); o.f("con.pwr_dyn_brake_max", s.pwr_dyn_brake_max.value, p);
    o.f("con.pwr_out_req", s.pwr_out_req.value, p); o.f("con.pwr_out", s.pwr_out.value, p);
    o.f("con.pwr_reves", s.pwr_reves.value, p); o.f("con.pwr_fuel", s.pwr_fuel.value, p);
    o.f("con.energy_out", s.energy_out.value, e); o.f("con.energy_out_pos", s.energy_out_pos.value, e);
    o.f("con.energy_out_neg", s.energy_out_neg.value, e); o.f("con.energy_res", s.energy_res.value, e);
    o.f("con.energy_fuel", s.energy_fuel.value, e);
    for (i, l) in c.loco_vec.iter().enumerate() { o.extend(outs_loco(l).prefixed(&format!("l{}.", i))); }
    o
}

pub struct ConsistStep {
    pub pre: Consist,
    pub pwr: f64,
    pub dt: f64,
    pub post: Result<Consist, (i64, String)>,
    pub mode: &'static str,
}

pub fn consist_err_code(e: &anyhow::Error) -> (i64, String) {
    let m = format!("{:#}", e);
    let table: &[(&str, i64)] = &[
        ("exceeds max DB power", 903), ("exceeds max power (", 904), ("self.state.pwr_out_req:", 905), ("surplus_frac", 902),
    ];
    for (pat, code) in table { if m.contains(pat) { return (*code, m); } }
    err_code(e)
}

/// Drive a consist through `n` steps of `ConsistSimulation::step`, demands chosen relative to the
/// limits the consist publishes for that step (peeked on a clone).
pub fn consist_trace(r: &mut Rng, con: Consist, n: usize) -> Vec<ConsistStep> {
    use altrios_core::consist::LocoTrait;
    let mut sim = ConsistSimulation::new(con, PowerTrace::new(vec![0.0], vec![0.0], vec![Some(true)]), None);
    let mut out = Vec::new();
    let mut t = 0.0f64;
    for _ in 0..n {
        let dt = *r.pick(&[1.0, 1.0, 0.5, 0.1, 2.0, 10.0, 30.0]) * if r.chance(0.3) { r.range(0.5, 1.5) } else { 1.0 };
        let mut peek = sim.loco_con.clone();
        let _ = peek.set_pwr_aux(Some(true));
        let ok = catch(std::panic::AssertUnwindSafe(|| peek.set_cur_pwr_max_out(None, uc::S * dt))).map(|x| x.is_ok()).unwrap_or(false);
        let (pmax, rmax, pres) = if ok { (peek.state.pwr_out_max.value, peek.state.pwr_regen_max.value, peek.state.pwr_out_max_reves.value) } else { (1e5, 0.0, 0.0) };
        let dbmax: f64 = sim.loco_con.loco_vec.iter().map(edrv_max).sum();
        let (mode, pwr): (&'static str, f64) = match r.below(14) {
            0 => ("zero", 0.0),
            1 | 2 | 3 => ("frac_max", pmax * r.range(0.02, 0.98)),
            4 => ("at_max", pmax),
            5 => ("just_above_max", pmax * (1.0 + 1e-6) + 1.0),
            6 => ("far_above_max", pmax.abs() * r.range(1.2, 3.0) + 1e3),
            7 => if pres > 0.0 { ("within_reves", pres * r.range(0.02, 0.98)) } else { ("frac_max", pmax * r.range(0.02, 0.98)) },
            8 => if pres > 0.0 { ("at_reves", pres) } else { ("small", pmax * 1e-4) },
            9 => if rmax > 0.0 { ("regen_frac", -rmax * r.range(0.02, 0.98)) } else { ("brake_small", -dbmax * r.range(0.01, 0.3)) },
            10 => if rmax > 0.0 { ("regen_at_max", -rmax) } else { ("brake_mid", -dbmax * r.range(0.3, 0.9)) },
            11 => ("brake_beyond_regen", -(rmax + (dbmax - rmax).max(0.0) * r.range(0.05, 0.95))),
            12 => ("brake_at_db_max", -dbmax),
            _ => ("brake_beyond_db", -dbmax * 1.01 - 10.0),
        };
        t += dt;
        sim.power_trace.time.push(uc::S * t);
        sim.power_trace.pwr.push(uc::W * pwr);
        sim.power_trace.engine_on.push(Some(true));
        let real_dt = sim.power_trace.dt(sim.i).value;
        let pre = sim.loco_con.clone();
        let res = catch(std::panic::AssertUnwindSafe(|| sim.step()));
        let post = match res {
            Ok(Ok(())) => Ok(sim.loco_con.clone()),
            Ok(Err(e)) => Err(consist_err_code(&e)),
            Err(p) => Err((-1, p)),
        };
        let failed = post.is_err();
        out.push(ConsistStep { pre: pre.clone(), pwr, dt: real_dt, post, mode });
        if failed {
            sim.loco_con = pre;
            let k = sim.power_trace.len() - 1;
            sim.power_trace.trim(None, Some(k)).unwrap();
            t -= dt;
        }
    }
    out
}

// ---------------------------------------------------------------- whole walks
/// Re-run the accepted steps of a trace through `LocomotiveSimulation::walk` on a fresh clone of
/// the initial locomotive; returns (initial loco, trace entries, final loco or error).
pub fn loco_walk_of(steps: &[LocoStep]) -> Option<(Locomotive, Vec<(f64, f64, bool)>, Result<Locomotive, (i64, String)>)> {
    let init = steps.first()?.pre.clone();
    let acc: Vec<&LocoStep> = steps.iter().filter(|s| s.post.is_ok()).collect();
    if acc.is_empty() { return None; }
    let mut time = vec![0.0f64]; let mut pwr = vec![0.0f64]; let mut on = vec![Some(true)];
    let mut t = 0.0;
    for s in &acc { t += s.dt; time.push(t); pwr.push(s.pwr); on.push(Some(s.engine_on)); }
    let mut sim = LocomotiveSimulation::new(init.clone(), PowerTrace::new(time.clone(), pwr, on), None);
    let entries: Vec<(f64, f64, bool)> = (1..time.len()).map(|i| (acc[i - 1].pwr, sim.power_trace.dt(i).value, acc[i - 1].engine_on)).collect();
    let res = catch(std::panic::AssertUnwindSafe(|| sim.walk()));
    let fin = match res { Ok(Ok(())) => Ok(sim.loco_unit.clone()), Ok(Err(e)) => Err(err_code(&e)), Err(p) => Err((-1, p)) };
    Some((init, entries, fin))
}
pub fn consist_walk_of(steps: &[ConsistStep]) -> Option<(Consist, Vec<(f64, f64)>, Result<Consist, (i64, String)>)> {
    let init = steps.first()?.pre.clone();
    let acc: Vec<&ConsistStep> = steps.iter().filter(|s| s.post.is_ok()).collect();
    if acc.is_empty() { return None; }
    let mut time = vec![0.0f64]; let mut pwr = vec![0.0f64]; let mut on = vec![Some(true)];
    let mut t = 0.0;
    for s in &acc { t += s.dt; time.push(t); pwr.push(s.pwr); on.push(Some(true)); }
    let mut sim = ConsistSimulation::new(init.clone(), PowerTrace::new(time.clone(), pwr, on), None);
    let entries: Vec<(f64, f64)> = (1..time.len()).map(|i| (acc[i - 1].pwr, sim.power_trace.dt(i).value)).collect();
    let res = catch(std::panic::AssertUnwindSafe(|| sim.walk()));
    let fin = match res { Ok(Ok(())) => Ok(sim.loco_con.clone()), Ok(Err(e)) => Err(consist_err_code(&e)), Err(p) => Err((-1, p)) };
    Some((init, entries, fin))
}
pub fn walk_case_loco(id: String, steps: &[LocoStep]) -> Option<Case> {
    let (init, entries, fin) = loco_walk_of(steps)?;
    let tr = entries.iter().map(|(p, d, o)| format!("({}, {}, {})", cf(*p), cf(*d), cb(*o))).collect::<Vec<_>>().join("; ");
    let coq = format!("x_loco_walk {} [{}]", coq_loco(&init), tr);
    let outcome = match &fin { Ok(l) => Outcome::Ok(outs_loco(l)), Err((-1, m)) => Outcome::Panic(m.clone()), Err((c, m)) => Outcome::Err(*c, m.clone()) };
    Some(Case { id, kind: "loco_walk".into(), coq, outcome, tags: vec![format!("walk_len:{}", entries.len())],
        input: serde_json::json!({"loco_yaml": serde_yaml::to_string(&init).unwrap_or_default(),
            "trace": entries.iter().map(|(p, d, o)| serde_json::json!([fjson(*p), fjson(*d), o])).collect::<Vec<_>>()}),
        oracle_fail: vec![], known: vec![], in_domain: true })
}
pub fn walk_case_consist(id: String, steps: &[ConsistStep]) -> Option<Case> {
    let (init, entries, fin) = consist_walk_of(steps)?;
    let tr = entries.iter().map(|(p, d)| format!("({}, {})", cf(*p), cf(*d))).collect::<Vec<_>>().join("; ");
    let coq = format!("x_consist_walk {} [{}]", coq_consist(&init), tr);
    let outcome = match &fin { Ok(c) => Outcome::Ok(outs_consist(c)), Err((-1, m)) => Outcome::Panic(m.clone()), Err((c, m)) => Outcome::Err(*c, m.clone()) };
    Some(Case { id, kind: "consist_walk".into(), coq, outcome, tags: vec![format!("walk_len:{}", entries.len())],
        input: serde_json::json!({"consist_yaml": serde_yaml::to_string(&init).unwrap_or_default(),
            "trace": entries.iter().map(|(p, d)| serde_json::json!([fjson(*p), fjson(*d)])).collect::<Vec<_>>()}),
        oracle_fail: vec![], known: vec![], in_domain: true })
}
