//! C13 -- the enforced speed profile is exactly the tightest posted restriction, and canonical.
//! Drives only the public API: PathTpc::new(train_params), .extend(&network, &link_path) (whole
//! route and splits), reads back speed_points().  Correspondence: the exact list (offset and
//! speed bit patterns) against coq/model/SpeedPoints.v evaluated at binary64.  Oracle: pointwise
//! minimum recomputed from the network at every breakpoint and inside every gap + canonical form.
use crate::trk::*;
use crate::util::*;
use altrios_core::track::*;
use altrios_core::uc;
use serde_json::json;

#[derive(Clone, Copy, PartialEq)]
pub enum Mode { C13, C02 }

/// One PathTpc build (one or several extend calls) as a case.
pub fn profile_case(id: String, kind: &str, rt: &Route, parts: &[Vec<u32>], mode: Mode, whole: Option<&Vec<(f64, f64)>>) -> Case {
    let mut tags = rt.tags.clone();
    tags.push(format!("extend_calls:{}", parts.len()));
    let path: Vec<u32> = parts.iter().flatten().cloned().collect();
    let res = run_path(&rt.net, &rt.tp, parts, false);
    let mut fails = vec![];
    let (outcome, coq) = match &res {
        Ok(p) => {
            let pts = speed_pts(p);
            let rs = abs_restrictions(&rt.net, &rt.tp, &path);
            tags.extend(pair_tags(&rs, rt.tp.speed_max.value));
            tags.push(format!("points:{}", match pts.len() { 1 => "1", 2..=4 => "2-4", 5..=9 => "5-9", _ => "10+" }));
            if rt.in_domain {
                let (hi, lo, canon) = speed_oracle(&rt.net, &rt.tp, &path, &pts);
                fails.extend(hi);
                if mode == Mode::C13 { fails.extend(lo); fails.extend(canon); }
                if let Some(w) = whole {
                    if *w != pts && mode == Mode::C02 { fails.push(format!("profile built by {} extend calls differs from the profile of the whole route", parts.len())); }
                }
            }
            match mode {
                Mode::C13 => (Outcome::Ok(outs_speed(p)),
                    format!("x_speed_profile {} {} {}", coq_net(&rt.net), coq_tp(&rt.tp), coq_parts(parts))),
                Mode::C02 => {
                    // certified comparison inside Coq: implementation profile <= model profile at every real position
                    let mut o = Outs::new(); o.b("impl_profile_le_model_profile_everywhere", true);
                    (Outcome::Ok(o), format!("x_speed_le {} {} {} {}", coq_net(&rt.net), coq_tp(&rt.tp), coq_parts(parts), coq_pts(&pts)))
                }
            }
        }
        Err((-1, m)) => (Outcome::Panic(m.clone()), format!("x_speed_profile {} {} {}", coq_net(&rt.net), coq_tp(&rt.tp), coq_parts(parts))),
        Err((c, m)) => (Outcome::Err(*c, m.clone()), format!("x_speed_profile {} {} {}", coq_net(&rt.net), coq_tp(&rt.tp), coq_parts(parts))),
    };
    // C02 only: several zero-length restrictions at one offset make the unchanged code store three
    // points at the same offset, which its own debug_assert!(self.is_valid()) rejects on the next
    // insertion (debug builds only).  That is C13's zero-length finding, not an over-speed: the case
    // is kept as a pure oracle case (no model comparison) and named as a known finding.
    let mut known = vec![];
    let mut coq = coq;
    if mode == Mode::C02 {
        if let Outcome::Panic(m) = &outcome {
            if m.contains("self.is_valid()") {
                coq = String::new();
                tags.push("impl:debug_assert_speed_points_invalid".into());
                known.push("zero-length restrictions drive speed_points into a state its own validation rejects (debug_assert in insert_speed; reported under C13, repo_patches/C13-zero-length-restriction.diff)".to_string());
            }
        }
    }
    Case { id, kind: kind.into(), coq, outcome, tags, input: net_json(&rt.net, &rt.tp, parts),
        oracle_fail: fails, known, in_domain: rt.in_domain }
}

/// one link of length `len` carrying `lims` in a head-end set without conditions
pub fn literal_route(len: f64, speed_max: f64, lims: Vec<SpeedLimit>, tag: &str) -> Route {
    let mut tp = TrainParams::valid_for_harness();
    tp.speed_max = speed_max * uc::MPS;
    let net = vec![Link::default(), Link {
        idx_curr: LinkIdx::new(1), length: len * uc::M,
        elevs: vec![Elev::new(0.0 * uc::M, 0.0 * uc::M), Elev::new(len * uc::M, 0.0 * uc::M)],
        speed_set: Some(SpeedSet { speed_limits: lims, speed_params: vec![], is_head_end: true }),
        ..Default::default() }];
    Route { net, tp, path: vec![1], tags: vec![format!("literal:{}", tag)], in_domain: true }
}

pub trait ValidForHarness { fn valid_for_harness() -> Self; }
impl ValidForHarness for TrainParams {
    fn valid_for_harness() -> Self {
        TrainParams { length: 2000.0 * uc::M, speed_max: 30.0 * uc::MPS, towed_mass_static: 12972741.21 * uc::KG,
            mass_per_brake: 129727.4121 * uc::KG, axle_count: 400, train_type: TrainType::Freight,
            curve_coeff_0: 0.0 * uc::R, curve_coeff_1: 0.0 * uc::R, curve_coeff_2: 0.0 * uc::R }
    }
}

pub fn literals() -> Vec<Route> {
    vec![
        // the shape of the only shipped test: both restrictions end together
        literal_route(10000.0, 30.0, vec![mk_limit(0.0, 10000.0, 20.0), mk_limit(5000.0, 10000.0, 10.0)], "shipped_shape"),
        // a restriction strictly inside another one: the outer limit must come back at 3000
        literal_route(10000.0, 30.0, vec![mk_limit(1000.0, 5000.0, 20.0), mk_limit(2000.0, 3000.0, 10.0)], "nested"),
        // a restriction strictly inside the initial (speed_max) segment, followed by a later point
        literal_route(10000.0, 30.0, vec![mk_limit(1000.0, 2000.0, 10.0), mk_limit(1200.0, 1500.0, 5.0)], "nested_in_first"),
        // zero-length restriction strictly inside a segment whose successor is lower / different
        literal_route(10000.0, 30.0, vec![mk_limit(100.0, 200.0, 10.0), mk_limit(50.0, 50.0, 10.0)], "zero_len_before_equal"),
        literal_route(10000.0, 30.0, vec![mk_limit(100.0, 200.0, 25.0), mk_limit(50.0, 50.0, 10.0)], "zero_len_before_other"),
        // zero-length restriction beyond the last point
        literal_route(10000.0, 30.0, vec![mk_limit(100.0, 200.0, 25.0), mk_limit(500.0, 500.0, 10.0)], "zero_len_after_last"),
        // zero-length restriction at an existing point
        literal_route(10000.0, 30.0, vec![mk_limit(100.0, 200.0, 25.0), mk_limit(200.0, 200.0, 10.0)], "zero_len_at_point"),
        // a slow order from the very start of the route, posted as two (three) abutting sections of the SAME speed: the
        // profile has exactly two points when the second section is inserted
        literal_route(10000.0, 30.0, vec![mk_limit(0.0, 100.0, 10.0), mk_limit(100.0, 300.0, 10.0)], "abutting_equal_at_start"),
        literal_route(10000.0, 30.0, vec![mk_limit(0.0, 100.0, 10.0), mk_limit(100.0, 300.0, 10.0), mk_limit(300.0, 450.0, 10.0)], "three_abutting_equal_at_start"),
        literal_route(10000.0, 30.0, vec![mk_limit(0.0, 100.0, 10.0), mk_limit(100.0, 300.0, 10.0), mk_limit(2000.0, 2500.0, 12.0)], "abutting_equal_at_start_then_other"),
        // the same pair in the middle of the route
        literal_route(10000.0, 30.0, vec![mk_limit(1000.0, 1100.0, 10.0), mk_limit(1100.0, 1300.0, 10.0)], "abutting_equal_mid_route"),
    ]
}

pub fn run_mode(seed: u64, n: usize, sink: &mut Sink, mode: Mode) {
    let mut r = Rng::new(seed ^ if mode == Mode::C13 { 0xC13 } else { 0xC02 });
    let mut made = 0usize;
    for (k, rt) in literals().iter().enumerate() {
        sink.put(profile_case(format!("literal/{}", k), "literal", rt, &[rt.path.clone()], mode, None));
        made += 1;
    }
    let mut t = 0usize;
    while made < n {
        let malformed = t % 8 == 7;
        let rt = gen_route(&mut r, &RouteOpts { max_links: 6, geom: false, malformed, plain_speeds: false });
        let whole_parts = vec![rt.path.clone()];
        let whole = run_path(&rt.net, &rt.tp, &whole_parts, false).ok().map(|p| speed_pts(&p));
        let kind = if malformed { "profile_malformed" } else { "profile" };
        sink.put(profile_case(format!("{}/{}", kind, t), kind, &rt, &whole_parts, mode, None));
        made += 1;
        // splits: all of them for short routes, a few random ones for longer routes
        if !malformed && rt.path.len() > 1 {
            let mut pr = r.fork();
            let ps = partitions(&mut pr, &rt.path, 3, 2);
            for (j, parts) in ps.iter().enumerate().skip(1) {
                if made >= n { break; }
                sink.put(profile_case(format!("profile_split/{}/{}", t, j), "profile_split", &rt, parts, mode, whole.as_ref()));
                made += 1;
            }
        }
        t += 1;
    }
}

pub fn run(seed: u64, n: usize, sink: &mut Sink) { run_mode(seed, n, sink, Mode::C13); }
