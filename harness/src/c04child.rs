//! child process of C04: `vh c04child --seed S --n K` runs scenario K of the stream and writes its cases.
use crate::util::*;
pub fn run(seed: u64, k: usize, sink: &mut Sink) {
    for c in crate::c04::scenario_cases(seed, k) { sink.put(c); }
}
