//! C01 -- locomotive and consist energy ledger closes.
//! Lock-step on LocomotiveSimulation::step and ConsistSimulation::step; the oracle is the ledger
//! itself evaluated on the implementation's numbers (per-step powers, per-step increments,
//! cumulative energies from a zero start, SOC law, consist roll-ups).
use crate::c08::loco_step_case;
use crate::c10::consist_step_case;
use crate::pt::*;
use crate::util::*;
use altrios_core::consist::locomotive::locomotive_model::PowertrainType;
use altrios_core::consist::Consist;
use altrios_core::prelude::*;

fn chk(f: &mut Vec<String>, what: &str, lhs: f64, rhs: f64, scale: f64) {
    if !close(lhs, rhs, 1e-9, 1e-9 * scale) { f.push(format!("{}: {} vs {} (diff {:e})", what, lhs, rhs, lhs - rhs)); }
}

/// ledger of one locomotive: `pre` -> `post` over `dt`; `steps` = number of accepted steps so far
pub fn ledger_loco(pre: &Locomotive, post: &Locomotive, dt: f64, f: &mut Vec<String>, tag: &str) {
    let p = loco_rated(post);
    let e = p * dt.max(1.0);
    let ls = &post.state;
    let inc = |a: f64, b: f64, pw: f64, what: &str, f: &mut Vec<String>| chk(f, &format!("{}increment {}", tag, what), a - b, pw * dt, e.max(a.abs() * 1e-6));
    inc(ls.energy_out.value, pre.state.energy_out.value, ls.pwr_out.value, "loco.energy_out", f);
    match (&pre.loco_type, &post.loco_type) {
        (PowertrainType::ConventionalLoco(c0), PowertrainType::ConventionalLoco(c)) => {
            let (fs, gs, es) = (&c.fc.state, &c.gen.state, &c.edrv.state);
            if fs.pwr_brake.value != gs.pwr_mech_in.value { f.push(format!("{}hand-off engine shaft {} != generator input {}", tag, fs.pwr_brake.value, gs.pwr_mech_in.value)); }
            if gs.pwr_elec_prop_out.value != es.pwr_elec_prop_in.value { f.push(format!("{}hand-off generator output {} != drivetrain input {}", tag, gs.pwr_elec_prop_out.value, es.pwr_elec_prop_in.value)); }
            chk(f, &format!("{}fc balance fuel = shaft + loss", tag), fs.pwr_fuel.value, fs.pwr_brake.value + fs.pwr_loss.value, p);
            chk(f, &format!("{}gen balance mech_in = prop + aux + loss", tag), gs.pwr_mech_in.value, gs.pwr_elec_prop_out.value + gs.pwr_elec_aux.value + gs.pwr_loss.value, p);
            chk(f, &format!("{}edrv balance elec_in = mech_out + loss", tag), es.pwr_elec_prop_in.value, es.pwr_mech_prop_out.value + es.pwr_loss.value, p);
            chk(f, &format!("{}wheel = prop - dyn brake", tag), ls.pwr_out.value, es.pwr_mech_prop_out.value - es.pwr_mech_dyn_brake.value, p);
            // the auxiliary load the locomotive reports is the one its generator served (zero with the engine off)
            if ls.pwr_aux.value != gs.pwr_elec_aux.value { f.push(format!("{}locomotive auxiliary power {} != the generator's auxiliary output {}", tag, ls.pwr_aux.value, gs.pwr_elec_aux.value)); }
            inc(ls.energy_aux.value, pre.state.energy_aux.value, ls.pwr_aux.value, "loco.energy_aux", f);
            chk(f, &format!("{}ledger fuel = wheel + dyn + aux + losses", tag), fs.pwr_fuel.value,
                ls.pwr_out.value + es.pwr_mech_dyn_brake.value + gs.pwr_elec_aux.value + fs.pwr_loss.value + gs.pwr_loss.value + es.pwr_loss.value, p);
            inc(fs.energy_fuel.value, c0.fc.state.energy_fuel.value, fs.pwr_fuel.value, "fc.energy_fuel", f);
            inc(fs.energy_brake.value, c0.fc.state.energy_brake.value, fs.pwr_brake.value, "fc.energy_brake", f);
            inc(fs.energy_loss.value, c0.fc.state.energy_loss.value, fs.pwr_loss.value, "fc.energy_loss", f);
            inc(gs.energy_mech_in.value, c0.gen.state.energy_mech_in.value, gs.pwr_mech_in.value, "gen.energy_mech_in", f);
            inc(gs.energy_elec_aux.value, c0.gen.state.energy_elec_aux.value, gs.pwr_elec_aux.value, "gen.energy_elec_aux", f);
            inc(gs.energy_loss.value, c0.gen.state.energy_loss.value, gs.pwr_loss.value, "gen.energy_loss", f);
            inc(es.energy_loss.value, c0.edrv.state.energy_loss.value, es.pwr_loss.value, "edrv.energy_loss", f);
            inc(es.energy_mech_dyn_brake.value, c0.edrv.state.energy_mech_dyn_brake.value, es.pwr_mech_dyn_brake.value, "edrv.energy_mech_dyn_brake", f);
            // cumulative ledger (runs start from zero energies)
            let tot = fs.energy_fuel.value.abs() + 1.0;
            chk(f, &format!("{}cumulative fuel = wheel + dyn + aux + losses", tag), fs.energy_fuel.value,
                ls.energy_out.value + es.energy_mech_dyn_brake.value + gs.energy_elec_aux.value + fs.energy_loss.value + gs.energy_loss.value + es.energy_loss.value, tot * 100.0);
        }
        (PowertrainType::BatteryElectricLoco(b0), PowertrainType::BatteryElectricLoco(b)) => {
            let (rs, es) = (&b.res.state, &b.edrv.state);
            if rs.pwr_out_propulsion.value != es.pwr_elec_prop_in.value { f.push(format!("{}hand-off battery propulsion output {} != drivetrain input {}", tag, rs.pwr_out_propulsion.value, es.pwr_elec_prop_in.value)); }
            chk(f, &format!("{}battery electrical = propulsion + aux", tag), rs.pwr_out_electrical.value, rs.pwr_out_propulsion.value + rs.pwr_aux.value, p);
            chk(f, &format!("{}battery chemical = electrical + loss", tag), rs.pwr_out_chemical.value, rs.pwr_out_electrical.value + rs.pwr_loss.value, p);
            chk(f, &format!("{}edrv balance elec_in = mech_out + loss", tag), es.pwr_elec_prop_in.value, es.pwr_mech_prop_out.value + es.pwr_loss.value, p);
            chk(f, &format!("{}wheel = prop - dyn brake", tag), ls.pwr_out.value, es.pwr_mech_prop_out.value - es.pwr_mech_dyn_brake.value, p);
            chk(f, &format!("{}ledger chemical = wheel + dyn + aux + losses", tag), rs.pwr_out_chemical.value,
                ls.pwr_out.value + es.pwr_mech_dyn_brake.value + rs.pwr_aux.value + rs.pwr_loss.value + es.pwr_loss.value, p);
            inc(rs.energy_out_chemical.value, b0.res.state.energy_out_chemical.value, rs.pwr_out_chemical.value, "res.energy_out_chemical", f);
            inc(rs.energy_out_electrical.value, b0.res.state.energy_out_electrical.value, rs.pwr_out_electrical.value, "res.energy_out_electrical", f);
            inc(rs.energy_aux.value, b0.res.state.energy_aux.value, rs.pwr_aux.value, "res.energy_aux", f);
            inc(rs.energy_loss.value, b0.res.state.energy_loss.value, rs.pwr_loss.value, "res.energy_loss", f);
            let cap = b.res.energy_capacity.value;
            chk(f, &format!("{}SOC law soc' = soc - chem*dt/capacity", tag), rs.soc.value, b0.res.state.soc.value - rs.pwr_out_chemical.value * dt / cap, 1.0);
            let tot = rs.energy_out_chemical.value.abs() + 1.0;
            chk(f, &format!("{}cumulative chemical = wheel + dyn + aux + losses", tag), rs.energy_out_chemical.value,
                ls.energy_out.value + es.energy_mech_dyn_brake.value + rs.energy_aux.value + rs.energy_loss.value + es.energy_loss.value, tot * 100.0);
        }
        _ => {}
    }
}

pub fn oracle_loco(st: &LocoStep, post: &Locomotive) -> Vec<String> {
    let mut f = Vec::new();
    ledger_loco(&st.pre, post, st.dt, &mut f, "");
    chk(&mut f, "wheel power delivered = requested", post.state.pwr_out.value, st.pwr, loco_rated(post));
    f
}

pub fn oracle_consist(st: &ConsistStep, post: &Consist) -> (Vec<String>, Vec<String>) {
    let mut f = Vec::new();
    let p = consist_rated(post);
    for (i, (l0, l)) in st.pre.loco_vec.iter().zip(post.loco_vec.iter()).enumerate() {
        ledger_loco(l0, l, st.dt, &mut f, &format!("unit {}: ", i));
    }
    let s = &post.state;
    let fuel: f64 = post.loco_vec.iter().map(|l| match &l.loco_type { PowertrainType::ConventionalLoco(c) => c.fc.state.pwr_fuel.value, _ => 0.0 }).sum();
    let chem: f64 = post.loco_vec.iter().map(|l| match &l.loco_type { PowertrainType::BatteryElectricLoco(b) => b.res.state.pwr_out_chemical.value, _ => 0.0 }).sum();
    let out: f64 = post.loco_vec.iter().map(|l| l.state.pwr_out.value).sum();
    chk(&mut f, "consist pwr_fuel = sum over units", s.pwr_fuel.value, fuel, p);
    chk(&mut f, "consist pwr_reves = sum over units", s.pwr_reves.value, chem, p);
    chk(&mut f, "consist pwr_out = sum over units", s.pwr_out.value, out, p);
    let efuel: f64 = post.loco_vec.iter().map(|l| match &l.loco_type { PowertrainType::ConventionalLoco(c) => c.fc.state.energy_fuel.value, _ => 0.0 }).sum();
    let echem: f64 = post.loco_vec.iter().map(|l| match &l.loco_type { PowertrainType::BatteryElectricLoco(b) => b.res.state.energy_out_chemical.value, _ => 0.0 }).sum();
    let eout: f64 = post.loco_vec.iter().map(|l| l.state.energy_out.value).sum();
    let es = p * 1000.0;
    chk(&mut f, "consist energy_fuel = sum over units", s.energy_fuel.value, efuel, es);
    chk(&mut f, "consist energy_res = sum over units", s.energy_res.value, echem, es);
    chk(&mut f, "consist energy_out = sum over units", s.energy_out.value, eout, es);
    chk(&mut f, "consist energy_out = positive part - negative part", s.energy_out.value, s.energy_out_pos.value - s.energy_out_neg.value, es);
    (f, vec![])
}

pub fn run(seed: u64, n: usize, sink: &mut Sink) {
    let mut r = Rng::new(seed ^ 0xC01);
    let n_loco = n * 3 / 5;
    let mut made = 0usize; let mut t = 0usize;
    while made < n_loco {
        let loco = if t % 2 == 0 { rand_conv_loco(&mut r) } else { rand_bel_loco(&mut r) };
        let steps = loco_trace(&mut r, loco, 15.min(n_loco - made), t % 4 < 2);
        for (i, st) in steps.iter().enumerate() {
            sink.put(loco_step_case(format!("loco_step/{}/{}", t, i), st, "loco_step", &oracle_loco));
            made += 1;
        }
        // the same accepted steps once more as a whole LocomotiveSimulation::walk, compared end to end
        if let Some(c) = walk_case_loco(format!("loco_walk/{}", t), &steps) { sink.put(c); }
        t += 1;
    }
    let mut made = 0usize; let mut t = 0usize;
    while made < n - n_loco {
        let con = rand_consist(&mut r);
        let steps = consist_trace(&mut r, con, 8.min(n - n_loco - made));
        for (i, st) in steps.iter().enumerate() {
            sink.put(consist_step_case(format!("consist_step/{}/{}", t, i), st, "consist_step", &oracle_consist));
            made += 1;
        }
        if let Some(c) = walk_case_consist(format!("consist_walk/{}", t), &steps) { sink.put(c); }
        t += 1;
    }
}
