//! Whole-system dispatch scenarios shared by C04 and C05: generation, running the real
//! `make_est_times` + `run_dispatch` (under catch_unwind; the callers run this in a child process with
//! a wall-clock bound), outcome classes, and -- with cargo feature `hooks` -- the observer snapshots
//! of hook H1 converted into plain data.
use crate::dsp::*;
use crate::est::*;
use crate::util::*;
use altrios_core::meet_pass::dispatch::run_dispatch;
use altrios_core::meet_pass::est_times::{make_est_times, EstTime, EstTimeNet};
use altrios_core::track::{Link, Network};
use altrios_core::train::SpeedLimitTrainSim;
use serde_json::{json, Value};

pub struct DispScenario { pub sp: NetSpec, pub trains: Vec<TrainSpec>, pub tags: Vec<String> }

impl DispScenario {
    pub fn to_json(&self) -> Value { json!({"spec": self.sp.to_json(), "trains": self.trains.iter().map(|t| t.to_json()).collect::<Vec<_>>()}) }
}

/// Scenario k of the stream: network family x sidings x foul links/lock-outs x 1..8 trains in both
/// directions x equal/distinct departures x lengths shorter/longer than the sidings.
pub fn gen_disp_scenario(r: &mut Rng, k: usize) -> DispScenario {
    if k % 9 == 4 { return gen_chase_scenario(r, k); }
    let family = if r.chance(0.7) { 0 } else { 1 };
    let sidings = *r.pick(&[0usize, 1, 1, 2, 2, 3, 3, 4]);
    let foul = r.chance(0.55);
    let shuffle = r.chance(0.5);
    let sp = gen_spec(r, family, sidings, foul, shuffle);
    let n_tr = match k % 10 { 0 => 1, 1 | 2 => 2, 3 | 4 => 3, 5 | 6 => 4, 7 => 5, 8 => 6, _ => 8 }.min(1 + 2 * sidings.max(1) + 3);
    let dep_mode = r.below(4); // 0 all equal, 1 distinct spaced, 2 random, 3 clustered pairs
    let base = *r.pick(&[0.0, 0.0, 3600.0]);
    let len_mode = r.below(3); // 0 short trains, 1 mixed, 2 long (longer than most sidings)
    let mut trains = vec![];
    for i in 0..n_tr {
        let depart = match dep_mode {
            0 => base,
            1 => base + 900.0 * i as f64,
            2 => base + (r.below(40) as f64) * 60.0,
            _ => base + 1200.0 * (i / 2) as f64,
        };
        let mut t = gen_train(r, &sp, i, depart);
        t.length = match len_mode {
            0 => *r.pick(&[400.0, 800.0, 1000.0]),
            1 => *r.pick(&[400.0, 1000.0, 2000.0, 3000.0]),
            _ => *r.pick(&[3000.0, 4000.0, 5000.0]),
        };
        // keep the train inside its origin link (otherwise make_est_times rejects the scenario)
        let link_len = |l: usize| -> f64 { sp.fwd_idx.iter().position(|&x| x == l).or_else(|| sp.rev_idx.iter().position(|&x| x == l)).map(|i| sp.segs[i].len).unwrap_or(0.0) };
        let cap = |t: &mut TrainSpec| { let m = t.origs.iter().map(|&l| link_len(l)).fold(f64::INFINITY, f64::min); if t.length > m - 150.0 { t.length = ((m - 150.0) / 100.0).floor().max(3.0) * 100.0; } };
        // alternate directions so that meets actually happen
        if i > 0 && r.chance(0.6) && t.eastbound == trains.last().map(|p: &TrainSpec| p.eastbound).unwrap_or(false) {
            t = flip_train(&sp, &t);
        }
        if k % 7 != 3 { cap(&mut t); }
        trains.push(t);
    }
    let n_e = trains.iter().filter(|t| t.eastbound).count();
    let tags = vec![format!("family:{}", sp.family), format!("sidings:{}", sidings), format!("foul:{}", foul), format!("trains:{}", n_tr),
        format!("dirs:{}", if n_e == 0 || n_e == n_tr { "one_way" } else { "both" }), format!("depart:{}", ["equal", "spaced", "random", "pairs"][dep_mode]),
        format!("lengths:{}", ["short", "mixed", "long"][len_mode])];
    DispScenario { sp, trains, tags }
}

/// Followers that catch up inside a shared link and then DIVERGE at its far end (different next link):
/// a slow leader and faster followers in one direction, departures close together, destinations on
/// different tracks -- two eastern branches (junction family), or the leader ends on the last siding
/// track while the followers run through.  The exit-end headway gate (not the entry gate) is the
/// binding one in these scenarios.
pub fn gen_chase_scenario(r: &mut Rng, k: usize) -> DispScenario {
    let junction = r.chance(0.5);
    let mut sp;
    let mut guard = 0;
    loop {
        let (ks, sh) = (if junction { *r.pick(&[0usize, 0, 1]) } else { *r.pick(&[1usize, 1, 2]) }, r.chance(0.5));
        sp = gen_spec(r, if junction { 1 } else { 0 }, ks, false, sh);
        guard += 1;
        if !junction || sp.east.len() == 2 || guard > 40 { break; }
    }
    let n_tr = 2 + r.below(3);
    let eastbound = true;
    let base = *r.pick(&[0.0, 0.0, 3600.0]);
    let slow = *r.pick(&[6.0, 8.0, 10.0]);
    let last_siding = sp.segs.iter().rposition(|s| s.role == "sid_side");
    let mut trains = vec![];
    for i in 0..n_tr {
        let origs: Vec<usize> = sp.west.iter().map(|&j| sp.fwd_idx[j]).collect();
        let dests: Vec<usize> = if sp.east.len() == 2 { vec![sp.fwd_idx[sp.east[i % 2]]] }
            else if let (0, Some(s)) = (i, last_siding) { vec![sp.fwd_idx[s]] }
            else { sp.east.iter().map(|&j| sp.fwd_idx[j]).collect() };
        let length = *r.pick(&[400.0, 1000.0, 2000.0]);
        let speed_max = if i == 0 || (i == 2 && r.chance(0.5)) { Some(slow) } else { Some(*r.pick(&[20.0, 25.0, 30.0])) };
        trains.push(TrainSpec { id: format!("T{}", i + 1), eastbound, origs, dests, length, depart: base + (r.below(4) as f64) * 60.0 * i as f64, speed_max });
    }
    let _ = k;
    let tags = vec![format!("family:{}", sp.family), format!("sidings:{}", sp.segs.iter().filter(|s| s.role == "sid_side").count()), "foul:false".to_string(),
        format!("trains:{}", n_tr), "dirs:one_way".to_string(), "depart:chase".to_string(), "lengths:short".to_string(),
        format!("chase:{}", if sp.east.len() == 2 { "diverge_at_junction" } else if last_siding.is_some() { "leader_ends_on_siding" } else { "same_route" })];
    DispScenario { sp, trains, tags }
}

fn flip_train(sp: &NetSpec, t: &TrainSpec) -> TrainSpec {
    let flip = |l: usize| -> usize {
        if let Some(i) = sp.fwd_idx.iter().position(|&x| x == l) { sp.rev_idx[i] } else { sp.fwd_idx[sp.rev_idx.iter().position(|&x| x == l).unwrap()] }
    };
    TrainSpec { id: t.id.clone(), eastbound: !t.eastbound, origs: t.dests.iter().map(|&l| flip(l)).collect(), dests: t.origs.iter().map(|&l| flip(l)).collect(),
        length: t.length, depart: t.depart, speed_max: t.speed_max }
}

// ------------------------------------------------------------------ snapshots (hook H1) as plain data
#[derive(Clone, Debug)]
pub struct Auth { pub ae: f64, pub ax: f64, pub ce: f64, pub cx: f64, pub off_front: f64, pub off_back: f64, pub train: usize }
#[derive(Clone, Debug)]
pub struct DNode { pub est_idx: usize, pub ty: usize, pub link: usize, pub time: f64, pub offset: f64, pub auth_idx: usize }
#[derive(Clone, Debug)]
pub struct TrainSnap { pub path: Vec<DNode>, pub idx_fixed: usize, pub idx_free: usize, pub idx_front: usize, pub idx_back: usize,
    pub finished: bool, pub is_blocked: bool, pub blocking: Vec<usize>, pub time_update: f64, pub time_update_next: f64, pub time_spacing: f64 }
#[derive(Clone, Debug)]
pub struct Snap { pub label: String, pub train_curr: usize, pub auths: Vec<Vec<Auth>>, pub blocked: Vec<usize>, pub trains: Vec<TrainSnap>, pub parked: Vec<usize> }

pub enum DispOutcome {
    Ok(Vec<Vec<(usize, f64)>>),
    ErrStuck(Vec<usize>, String),
    ErrOther(String),
    Panic(String),
    /// estimated-time construction rejected the scenario (or produced a network failing C15's
    /// structural check): outside C04/C05's domain
    Skipped(String),
}

pub struct ScenarioRun { pub net: Vec<Link>, pub ests: Vec<Vec<EstTime>>, pub outcome: DispOutcome, pub snaps: Vec<Snap>, pub hooked: bool }

pub fn hooks_enabled() -> bool { cfg!(feature = "hooks") }

#[cfg(feature = "hooks")]
fn take_snaps() -> Vec<Snap> {
    use altrios_core::meet_pass::dispatch::verif_hook;
    use altrios_core::traits::Idx;
    verif_hook::take().into_iter().map(|s| Snap {
        label: s.label.to_string(), train_curr: s.train_idx_curr,
        auths: s.link_disp_auths.iter().map(|v| v.iter().map(|a| Auth { ae: a.arrive_entry.value, ax: a.arrive_exit.value, ce: a.clear_entry.value,
            cx: a.clear_exit.value, off_front: a.offset_front.value, off_back: a.offset_back.value, train: a.train_idx.idx() }).collect()).collect(),
        blocked: s.links_blocked.iter().map(|t| t.idx()).collect(),
        parked: s.train_idxs_blocked.iter().map(|t| t.idx()).collect(),
        trains: s.train_disps.iter().map(|t| {
            let (fx, fr, ft, bk) = t.verif_node_idxs();
            let (_, _, tu, tun, tsp) = t.verif_scalars();
            TrainSnap { path: t.verif_disp_path().iter().map(|d| DNode { est_idx: d.est_idx as usize, ty: et_code(d.link_event.est_type),
                    link: d.link_event.link_idx.idx(), time: d.time_pass.value, offset: d.offset.value, auth_idx: d.disp_auth_idx_entry.idx() }).collect(),
                idx_fixed: fx, idx_free: fr, idx_front: ft, idx_back: bk, finished: t.is_finished(), is_blocked: t.is_blocked(),
                blocking: t.link_idxs_blocking().iter().map(|l| l.idx()).collect(), time_update: tu.value, time_update_next: tun.value, time_spacing: tsp.value }
        }).collect(),
    }).collect()
}
#[cfg(feature = "hooks")]
fn start_snaps() { altrios_core::meet_pass::dispatch::verif_hook::start(); }
#[cfg(not(feature = "hooks"))]
fn take_snaps() -> Vec<Snap> { vec![] }
#[cfg(not(feature = "hooks"))]
fn start_snaps() {}

/// Build everything and run the real dispatcher once (in this process, panics caught).
pub fn run_scenario(sc: &DispScenario) -> Result<ScenarioRun, String> {
    let net = build_network(&sc.sp).map_err(|e| format!("generated network rejected by validation: {:#}", e))?;
    let sims: Vec<SpeedLimitTrainSim> = sc.trains.iter().map(build_train).collect();
    let mut ests: Vec<Vec<EstTime>> = vec![];
    let mut est_nets: Vec<EstTimeNet> = vec![];
    let mut skip: Option<String> = None;
    for (i, s) in sims.iter().enumerate() {
        match catch(std::panic::AssertUnwindSafe(|| make_est_times(s.clone(), &net))) {
            Ok(Ok((en, _))) => {
                let cert = make_cert(&net.0, &sc.trains[i].origs, &sc.trains[i].dests, &en.val);
                let (ok, _) = est_check(&net.0, &sc.trains[i].origs, &sc.trains[i].dests, &en.val, &cert);
                if !ok[..6].iter().all(|b| *b) { skip = Some(format!("train {}: estimated-time network fails C15's structural check", i + 1)); break; }
                ests.push(en.val.clone()); est_nets.push(en);
            }
            Ok(Err(e)) => { skip = Some(format!("train {}: make_est_times error: {}", i + 1, format!("{:#}", e).chars().take(120).collect::<String>())); break; }
            Err(p) => { skip = Some(format!("train {}: make_est_times panic: {}", i + 1, p.chars().take(120).collect::<String>())); break; }
        }
    }
    if let Some(why) = skip {
        return Ok(ScenarioRun { net: net.0.clone(), ests, outcome: DispOutcome::Skipped(why), snaps: vec![], hooked: hooks_enabled() });
    }
    start_snaps();
    let res = catch(std::panic::AssertUnwindSafe(|| run_dispatch(&net, &sims, est_nets, false, false)));
    let snaps = take_snaps();
    let outcome = match res {
        Ok(Ok(plans)) => DispOutcome::Ok(plans.iter().map(|p| p.iter().map(|x| (x.link_idx.idx(), x.time.value)).collect()).collect()),
        Ok(Err(e)) => {
            let m = format!("{:#}", e);
            if m.contains("got stuck") {
                // "The following trains got stuck! [Some(1), Some(3)]"
                let mut ids = vec![];
                let tail = &m[m.find("got stuck").unwrap()..];
                let mut cur = String::new();
                for ch in tail.chars() { if ch.is_ascii_digit() { cur.push(ch); } else if !cur.is_empty() { ids.push(cur.parse::<usize>().unwrap_or(0)); cur.clear(); } }
                if !cur.is_empty() { ids.push(cur.parse::<usize>().unwrap_or(0)); }
                DispOutcome::ErrStuck(ids, m.chars().take(300).collect())
            } else { DispOutcome::ErrOther(m.chars().take(600).collect()) }
        }
        Err(p) => DispOutcome::Panic(p.chars().take(400).collect()),
    };
    Ok(ScenarioRun { net: net.0.clone(), ests, outcome, snaps, hooked: hooks_enabled() })
}

// ------------------------------------------------------------------ running a scenario in a child process
/// CPU seconds (user + system) consumed so far by process `pid` (Linux /proc; None if unavailable).
fn cpu_seconds(pid: u32) -> Option<f64> {
    let st = std::fs::read_to_string(format!("/proc/{}/stat", pid)).ok()?;
    let rest = &st[st.rfind(')')? + 2..];
    let f: Vec<&str> = rest.split_whitespace().collect();
    let (ut, stt): (f64, f64) = (f.get(11)?.parse().ok()?, f.get(12)?.parse().ok()?);
    Some((ut + stt) / 100.0)
}

/// Runs `vh <child_prop> --seed S --n K --out FILE` with a time bound; returns the child's cases (raw JSON
/// lines as written by `Sink`) or the reason why there are none (hang / abort).  The bound is on the
/// child's own CPU time (a busy machine must not look like a hang); wall-clock 10x that as a backstop.
pub fn run_child(child_prop: &str, seed: u64, k: usize, timeout_s: f64) -> Result<Vec<Value>, String> {
    let exe = std::env::current_exe().map_err(|e| e.to_string())?;
    let out = std::env::temp_dir().join(format!("vh_{}_{}_{}_{}.jsonl", child_prop, std::process::id(), seed, k));
    let mut ch = std::process::Command::new(exe).arg(child_prop).arg("--seed").arg(seed.to_string()).arg("--n").arg(k.to_string())
        .arg("--out").arg(&out).stdout(std::process::Stdio::null()).stderr(std::process::Stdio::null()).spawn().map_err(|e| e.to_string())?;
    let t0 = std::time::Instant::now();
    let pid = ch.id();
    let mut polls = 0u64;
    let status = loop {
        match ch.try_wait() {
            Ok(Some(st)) => break Ok(st),
            Ok(None) => {
                polls += 1;
                let wall = t0.elapsed().as_secs_f64();
                let cpu = if polls % 50 == 0 { cpu_seconds(pid) } else { None };
                if cpu.map(|c| c > timeout_s).unwrap_or(false) || wall > 10.0 * timeout_s {
                    let _ = ch.kill(); let _ = ch.wait();
                    break Err(format!("no result after {:.0} s of CPU time / {:.0} s wall-clock (hang): killed", cpu.unwrap_or(f64::NAN), wall));
                }
                std::thread::sleep(std::time::Duration::from_millis(2));
            }
            Err(e) => break Err(e.to_string()),
        }
    };
    let res = match status {
        Ok(st) if st.success() => {
            match std::fs::read_to_string(&out) {
                Ok(s) => Ok(s.lines().filter(|l| !l.trim().is_empty()).filter_map(|l| serde_json::from_str::<Value>(l).ok()).collect()),
                Err(e) => Err(format!("child wrote no result: {}", e)),
            }
        }
        Ok(st) => Err(format!("child process died: {:?} (abort / signal)", st)),
        Err(e) => Err(e),
    };
    let _ = std::fs::remove_file(&out);
    res
}

/// Rebuild a `Case` from a JSON line written by `Sink::put` (used to forward a child's cases).
pub fn case_from_json(v: &Value) -> Case {
    let labels: Vec<String> = v["labels"].as_array().map(|a| a.iter().map(|x| x.as_str().unwrap_or("").to_string()).collect()).unwrap_or_default();
    let exps: Vec<String> = v["exp"].as_array().map(|a| a.iter().map(|x| x.as_str().unwrap_or("").to_string()).collect()).unwrap_or_default();
    let scales: Vec<f64> = v["scales"].as_array().map(|a| a.iter().map(|x| x.as_f64().unwrap_or(0.0)).collect()).unwrap_or_default();
    let outcome = match v["outcome"].as_str().unwrap_or("") {
        "ok" => {
            let mut o = Outs::new();
            for ((l, e), s) in labels.iter().zip(exps.iter()).zip(scales.iter()) {
                let (k, x) = e.split_at(2);
                match k { "f:" => o.f(l, f64::from_bits(u64::from_str_radix(x, 16).unwrap_or(0)), *s), "z:" => o.z(l, x.parse().unwrap_or(0)), _ => o.b(l, x == "1") }
            }
            Outcome::Ok(o)
        }
        "err" => Outcome::Err(exps.first().and_then(|e| e[2..].parse().ok()).unwrap_or(999), v["msg"].as_str().unwrap_or("").to_string()),
        _ => Outcome::Panic(v["msg"].as_str().unwrap_or("").to_string()),
    };
    let strs = |k: &str| -> Vec<String> { v[k].as_array().map(|a| a.iter().map(|x| x.as_str().unwrap_or("").to_string()).collect()).unwrap_or_default() };
    Case { id: v["id"].as_str().unwrap_or("").to_string(), kind: v["kind"].as_str().unwrap_or("").to_string(), coq: v["coq"].as_str().unwrap_or("").to_string(),
        outcome, tags: strs("tags"), input: v["input"].clone(), oracle_fail: strs("oracle_fail"), known: strs("known"), in_domain: v["in_domain"].as_bool().unwrap_or(true) }
}
