//! C12 -- time, position and distance bookkeeping is kinematically consistent.
//! Kinds: `set_link` (set_link_and_offset called directly on generated link-point tables, offsets on
//! and around every boundary, malformed tables), `ss_step` / `sl_step` (lock-step on
//! SetSpeedTrainSim::step / SpeedLimitTrainSim::step: the model starts from the implementation's
//! state at step k and is compared with the state at step k+1), `ss_hist` / `sl_hist` (oracle on
//! consecutive rows of the saved TrainStateHistoryVec of whole runs).
use crate::train::*;
use crate::util::*;
use altrios_core::prelude::*;
use altrios_core::train::set_link_and_offset;
use altrios_core::uc;
use serde_json::json;

/// The property on one accepted step (pre = saved row k, post = saved row k+1).
/// `ss`: set-speed run (time/speed prescribed by the trace) else speed-limited run.
pub fn oracle_step(pre: &TrainState, post: &TrainState, path: &PathTpc, ss: bool, consistent_init: bool) -> Vec<String> {
    let mut f = Vec::new();
    let dt = post.dt.value;
    let tol_t = 1e-9 * post.time.value.abs().max(1.0);
    if consistent_init && (post.time.value - (pre.time.value + dt)).abs() > tol_t {
        f.push(format!("time: {} != previous time {} + dt {}", post.time.value, pre.time.value, dt));
    }
    // front position: offset' = offset + dt (v + v')/2 ; the speed-limited simulation integrates with the
    // un-snapped speed and may then snap the saved speed to the target within almost_eq 1e-8
    let adv = dt * 0.5 * (pre.speed.value + post.speed.value);
    let snap = if ss { 0.0 } else { 0.5 * dt * 1e-8 * (1.0 + 2.0 * post.speed.value.abs().max(post.speed_target.value.abs())) };
    let tol_x = 1e-9 * post.offset.value.abs().max(1.0) + snap;
    if consistent_init && (post.offset.value - (pre.offset.value + adv)).abs() > tol_x {
        f.push(format!("offset: {} != previous offset {} + dt*(v+v')/2 = {}", post.offset.value, pre.offset.value, pre.offset.value + adv));
    }
    let d = post.offset.value - pre.offset.value;
    if (post.total_dist.value - (pre.total_dist.value + d.abs())).abs() > 1e-9 * post.total_dist.value.abs().max(1.0) + 1e-9 * post.offset.value.abs() {
        f.push(format!("total_dist: {} != previous {} + |position change| {}", post.total_dist.value, pre.total_dist.value, d.abs()));
    }
    if (post.offset_back.value - (post.offset.value - post.length.value)).abs() > 1e-9 * post.offset.value.abs().max(1.0) {
        f.push(format!("offset_back {} != offset {} - length {} (rear position of the saved row is not the front minus the train length)",
            post.offset_back.value, post.offset.value, post.length.value));
    }
    f.extend(oracle_locate(post, path));
    f
}

/// base offset of the reported front segment + in-segment offset = position, inside the segment
pub fn oracle_locate(s: &TrainState, path: &PathTpc) -> Vec<String> {
    let mut f = Vec::new();
    let lps = path.link_points();
    let x = s.offset.value;
    if lps.len() < 2 || !(x > lps[0].offset.value && x <= lps[lps.len() - 1].offset.value) { return f; }
    let hits: Vec<usize> = (0..lps.len() - 1).filter(|&i| lps[i].link_idx.idx() as u32 == s.link_idx_front).collect();
    if hits.len() != 1 { f.push(format!("link_idx_front {} names {} segments of the route", s.link_idx_front, hits.len())); return f; }
    let i = hits[0];
    let base = lps[i].offset.value; let len = lps[i + 1].offset.value - base;
    let oil = s.offset_in_link.value;
    if (base + oil - x).abs() > 1e-9 * x.abs().max(1.0) { f.push(format!("locate: base {} + offset_in_link {} != offset {}", base, oil, x)); }
    if !(oil > 0.0 && oil <= len * (1.0 + 1e-12) + 1e-9) { f.push(format!("locate: offset_in_link {} outside (0, segment length {}] at offset {}", oil, len, x)); }
    f
}

fn set_link_cases(r: &mut Rng, n: usize, sink: &mut Sink) {
    for k in 0..n {
        let m = 2 + r.below(9);
        let malformed = k % 8 == 7;
        let mut offs = vec![if r.chance(0.7) { 0.0 } else { r.range(0.0, 500.0).round() }];
        for _ in 1..m { let l = if r.chance(0.4) { r.lrange(0.5, 30.0) } else { r.lrange(50.0, 20000.0) }; offs.push(offs.last().unwrap() + (l * 4.0).round() / 4.0 + 0.25); }
        let mut tags = vec![];
        if malformed {
            match r.below(4) {
                0 => { offs.truncate(1); tags.push("malformed:single_point".to_string()); }
                1 => { let a = r.below(offs.len()); let b = r.below(offs.len()); offs.swap(a, b); tags.push("malformed:unsorted".into()); }
                2 => { offs.clear(); tags.push("malformed:empty".into()); }
                _ => { let a = 1 + r.below(offs.len() - 1); offs[a] = offs[a - 1]; tags.push("malformed:duplicate".into()); }
            }
        }
        let nl = offs.len();
        let x = if nl == 0 { tags.push("x:inside".into()); r.range(0.0, 100.0) } else { match r.below(9) {
            0 => { tags.push("x:on_boundary".into()); offs[r.below(nl)] }
            1 => { tags.push("x:just_after_boundary".into()); let o = offs[r.below(nl)]; o + o.abs().max(1.0) * 1e-12 }
            2 => { tags.push("x:just_before_boundary".into()); let o = offs[r.below(nl)]; o - o.abs().max(1.0) * 1e-12 }
            3 => { tags.push("x:first".into()); offs[0] }
            4 => { tags.push("x:last".into()); offs[nl - 1] }
            5 => { tags.push("x:beyond_last".into()); offs[nl - 1] + r.range(0.1, 100.0) }
            6 => { tags.push("x:before_first".into()); offs[0] - r.range(0.1, 100.0) }
            _ => { tags.push("x:inside".into()); r.range(offs[0], offs[nl - 1]) }
        } };
        // a PathTpc cannot be built from raw link points through the public API except by serde
        let mut pv = serde_json::to_value(PathTpc::default()).expect("path json");
        let lps: Vec<serde_json::Value> = offs.iter().enumerate().map(|(i, o)| json!({"offset": o, "grade_count": 1, "curve_count": 1, "cat_power_count": 0,
            "link_idx": if i + 1 == nl { 0 } else { i + 1 }})).collect();
        pv["link_points"] = json!(lps);
        let path: Result<PathTpc, _> = serde_json::from_value(pv);
        let path = match path { Ok(p) => p, Err(_) => continue };
        let mut st = TrainState::default();
        st.offset = uc::M * x;
        let res = catch(std::panic::AssertUnwindSafe(|| { let mut s = st; set_link_and_offset(&mut s, &path).map(|_| s) }));
        let mut fails = vec![];
        let in_dom = !malformed && nl >= 2 && x > offs[0] && x <= offs[nl - 1];
        let outcome = match res {
            Ok(Ok(s)) => {
                if in_dom { fails = oracle_locate(&s, &path); }
                let mut o = Outs::new(); o.z("k.link_idx_front", s.link_idx_front as i64); o.f("k.offset_in_link", s.offset_in_link.value, 1.0);
                Outcome::Ok(o)
            }
            Ok(Err(e)) => { let (c, m) = train_err_code(&e); Outcome::Err(c, m) }
            Err(p) => Outcome::Panic(p),
        };
        sink.put(Case { id: format!("set_link/{}", k), kind: "set_link".into(),
            coq: format!("x_set_link {} {}", coq_lps(&path), cf(x)), outcome, tags,
            input: json!({"link_point_offsets": fjson_l(&offs), "offset": fjson(x)}), oracle_fail: fails, known: vec![], in_domain: in_dom });
    }
}

pub fn step_tags(ctx: &RunCtx, s: &StepRec, sim: &str) -> Vec<String> {
    let mut tags = ctx.tags.clone();
    tags.push(format!("sim:{}", sim));
    if let Ok(p) = &s.post {
        let nb = boundaries_crossed(&ctx.envs[s.ver].path, s.pre.offset.value, p.st.offset.value);
        tags.push(format!("link_boundaries_crossed:{}", if nb >= 3 { "3+".to_string() } else { nb.to_string() }));
        if p.st.speed.value == 0.0 && s.pre.speed.value == 0.0 { tags.push("motion:standstill".into()); }
        else if p.st.speed.value > s.pre.speed.value { tags.push("motion:accelerating".into()); }
        else if p.st.speed.value < s.pre.speed.value { tags.push("motion:braking".into()); } else { tags.push("motion:cruise".into()); }
    }
    match &s.post { Ok(_) => tags.push("result:ok".into()), Err((-1, _)) => tags.push("result:panic".into()), Err((c, _)) => tags.push(format!("result:err{}", c)) }
    tags
}

/// choose which steps of a run become lock-step cases: all failures, all multi-boundary steps, a
/// spread of the others
pub fn sample_steps(r: &mut Rng, ctx: &RunCtx, want: usize) -> Vec<usize> {
    let n = ctx.steps.len();
    if n <= want { return (0..n).collect(); }
    let mut pick = vec![false; n];
    pick[0] = true; pick[n - 1] = true;
    let mut special = 0;
    for (i, s) in ctx.steps.iter().enumerate() {
        if let Ok(p) = &s.post {
            if special < want / 2 && boundaries_crossed(&ctx.envs[s.ver].path, s.pre.offset.value, p.st.offset.value) >= 1 { pick[i] = true; special += 1; }
            if i > 0 && ctx.steps[i - 1].ver != s.ver { pick[i] = true; }
            // a row that ends with a negative speed is always looked at step by step (known finding C03/2)
            if p.st.speed.value < 0.0 { pick[i] = true; }
        } else { pick[i] = true; }
    }
    let mut cnt = pick.iter().filter(|b| **b).count();
    let mut guard = 0;
    while cnt < want && guard < 10 * n { let i = r.below(n); if !pick[i] { pick[i] = true; cnt += 1; } guard += 1; }
    (0..n).filter(|i| pick[*i]).collect()
}

pub fn emit_steps(r: &mut Rng, ctx: &RunCtx, ss: bool, per_run: usize, sink: &mut Sink,
                  oracle: &dyn Fn(&RunCtx, &StepRec, &Post) -> Vec<String>, extra_tags: &dyn Fn(&RunCtx, &StepRec) -> Vec<String>) -> usize {
    let kind = if ss { "ss_step" } else { "sl_step" };
    let mut made = 0;
    for i in sample_steps(r, ctx, per_run) {
        let s = &ctx.steps[i];
        let mut tags = step_tags(ctx, s, if ss { "set_speed" } else { "speed_limit" });
        tags.extend(extra_tags(ctx, s));
        let cfail = consist_failed(s);
        if cfail { tags.push("consist:failed(outside model)".into()); }
        let coq = if cfail { String::new() } else if ss { ss_coq(ctx, s) } else { sl_coq(ctx, s) };
        let fails = match &s.post { Ok(p) => oracle(ctx, s, p), Err(_) => vec![] };
        let in_dom = !ctx.tags.iter().any(|t| t == "init:inconsistent");
        sink.put(Case { id: format!("{}/{}/{}", kind, ctx.id, s.k), kind: kind.into(), coq, outcome: step_outcome(s), tags,
            input: json!({"run": ctx.input, "step": s.k}), oracle_fail: fails, known: vec![], in_domain: in_dom });
        made += 1;
    }
    made
}

/// oracle over all consecutive steps of a run (pure oracle case, no model term)
pub fn emit_hist(ctx: &RunCtx, ss: bool, sink: &mut Sink, oracle: &dyn Fn(&RunCtx, &StepRec, &Post) -> Vec<String>) {
    let kind = if ss { "ss_hist" } else { "sl_hist" };
    let mut fails: Vec<String> = vec![]; let mut nfail = 0usize; let mut nok = 0usize; let mut first: Option<(usize, String)> = None;
    for s in &ctx.steps {
        if let Ok(p) = &s.post {
            nok += 1;
            let f = oracle(ctx, s, p);
            if !f.is_empty() { nfail += 1; if first.is_none() { first = Some((s.k, f[0].clone())); } }
        }
    }
    if let Some((k, m)) = first { fails.push(format!("history: {} of {} saved rows violate the property, first at step {}: {}", nfail, nok, k, m)); }
    let mut tags = ctx.tags.clone();
    tags.push(format!("run_steps:{}", bucket(ctx.steps.len() / 10)));
    tags.push(format!("run_end:{}", if ctx.finished_ok { "completed" } else if ctx.aborted.is_some() { "aborted_outside_a_step" } else if ctx.tags.iter().any(|t| t == "run:truncated") { "truncated" } else { "stopped_on_error" }));
    if let Some(m) = &ctx.aborted { tags.push(format!("abort:{}", m.chars().take(400).collect::<String>())); }
    let mut o = Outs::new(); o.z("steps", ctx.steps.len() as i64);
    sink.put(Case { id: format!("{}/{}", kind, ctx.id), kind: kind.into(), coq: String::new(), outcome: Outcome::Ok(o), tags,
        input: json!({"run": ctx.input}), oracle_fail: fails, known: vec![], in_domain: true });
}

pub fn ss_opts(r: &mut Rng, t: usize, irregular: bool) -> SsOpts {
    SsOpts { profile: [0, 1, 2, 0, 1, 3][t % 6], size: [0, 1, 2, 2, 0, 1, 2][t % 7], default_consist: t % 4 != 3, irregular,
        n_steps: 40 + r.below(260), init: if t % 9 == 8 { 2 } else if t % 3 == 1 || [0, 1, 2, 0, 1, 3][t % 6] == 1 { 1 } else { 0 }, negative_at: None, overrun: t % 11 == 10 }
}
pub fn sl_opts(r: &mut Rng, t: usize) -> SlOpts {
    SlOpts { profile: [0, 1, 2, 0, 3, 1][t % 6], size: [2, 1, 0, 2, 1][t % 5], default_consist: t % 4 != 3, schedule: (t % 3 == 2) as u8,
        max_steps: 5000, dt: if t % 7 == 6 { *r.pick(&[0.5, 2.0]) } else { 1.0 }, ramp_up_time: if t % 5 == 4 { Some(60.0) } else { None },
        clean_start: t % 6 != 5, max_total: 35000.0 }
}

fn oracle_c12(ctx: &RunCtx, s: &StepRec, p: &Post) -> Vec<String> {
    let ss = s.pre_fb.is_none();
    let consistent = !ctx.tags.iter().any(|t| t == "init:inconsistent") || s.k > 0;
    let mut f = oracle_step(&s.pre, &p.st, &ctx.envs[s.ver].path, ss, consistent);
    // the same statement against the NETWORK's own link lengths (not the path's link points): the reported front
    // segment starts at the cumulative length of the route's links before it
    let st = &p.st;
    if let Some(pos) = ctx.route.path.iter().position(|l| l.idx() as u32 == st.link_idx_front) {
        let base: f64 = ctx.route.path[..pos].iter().map(|l| ctx.route.network[l.idx()].length.value).sum();
        let len = ctx.route.network[ctx.route.path[pos].idx()].length.value;
        let x = st.offset.value;
        if (base + st.offset_in_link.value - x).abs() > 1e-9 * x.abs().max(1.0) + 1e-9 * base {
            f.push(format!("locate (network): the route's links before link {} are {} m long, + offset_in_link {} != front position {}", st.link_idx_front, base, st.offset_in_link.value, x));
        }
        if !(st.offset_in_link.value <= len * (1.0 + 1e-12) + 1e-9) { f.push(format!("locate (network): offset_in_link {} beyond the length {} of link {}", st.offset_in_link.value, len, st.link_idx_front)); }
    }
    f
}

/// TrainState::new -- the state every simulation starts from (row 0 of its history), against ts_new (TrainStep.v);
/// oracle: rear = front - length, front >= length and >= the requested offset, counters at their start values.
fn initial_state_cases(r: &mut Rng, n: usize, sink: &mut Sink) {
    use altrios_core::train::{InitTrainState, TrainState};
    for k in 0..n {
        let len = *r.pick(&[100.0, 812.5, 1500.0, 2000.0, 2461.3]);
        let (ms, mr, mf) = (r.range(1e5, 2e7).round(), r.range(1e3, 2e5).round(), if r.chance(0.3) { 0.0 } else { r.range(1e4, 1e7).round() });
        let mode = k % 4; // 0: no init, 1: offset beyond the length, 2: offset below the length, 3: time/speed only
        let t0 = if mode == 0 { 0.0 } else { r.range(0.0, 5000.0).round() };
        let v0 = if mode == 0 { 0.0 } else { r.range(0.0, 25.0) };
        let off: Option<f64> = match mode { 1 => Some(len + r.range(0.0, 20000.0)), 2 => Some(r.range(0.0, len)), _ => None };
        let init = if mode == 0 { None } else { Some(InitTrainState::new(Some(uc::S * t0), off.map(|x| uc::M * x), Some(uc::MPS * v0))) };
        let st = TrainState::new(uc::M * len, uc::KG * ms, uc::KG * mr, uc::KG * mf, init);
        let mut f = vec![];
        if st.offset_back.value != st.offset.value - len { f.push(format!("initial state: rear {} is not front {} minus length {}", st.offset_back.value, st.offset.value, len)); }
        if !(st.offset.value >= len) { f.push(format!("initial state: front {} before one train length {}", st.offset.value, len)); }
        if let Some(o) = off { if !(st.offset.value >= o) { f.push(format!("initial state: front {} behind the requested offset {}", st.offset.value, o)); } }
        if st.total_dist.value != 0.0 || st.i != 1 { f.push(format!("initial state: total_dist {} / step counter {}", st.total_dist.value, st.i)); }
        let tags = vec![format!("init:{}", ["none", "offset_beyond_length", "offset_below_length", "time_speed_only"][mode])];
        sink.put(Case { id: format!("initial_state/{}", k), kind: "initial_state".into(),
            coq: format!("x_ts_new {} {} {} {} {} {} {}", cf(len), cf(ms), cf(mr), cf(mf), cf(t0), copt(off.map(cf)), cf(v0)),
            outcome: Outcome::Ok(outs_tstate(&st)), tags, input: json!({"length": len, "mass_static": ms, "mass_rot": mr, "mass_freight": mf, "time": t0, "offset": off, "speed": v0}),
            oracle_fail: f, known: vec![], in_domain: true });
    }
}

pub fn run(seed: u64, n: usize, sink: &mut Sink) {
    let mut r = Rng::new(seed ^ 0xC12);
    { let mut ri = Rng::new(seed ^ 0xC12_1417); initial_state_cases(&mut ri, (n / 30).max(8), sink); }
    let n_direct = n / 5;
    set_link_cases(&mut r, n_direct, sink);
    let per_run = 24;
    let n_runs = ((n - n_direct) / (2 * per_run)).max(2);
    for t in 0..n_runs {
        let mut rr = r.fork();
        let o = ss_opts(&mut rr, t, t % 2 == 1);
        let ctx = ss_run(&mut rr, format!("ss{}", t), &o);
        emit_steps(&mut rr, &ctx, true, per_run, sink, &oracle_c12, &|_, _| vec![]);
        emit_hist(&ctx, true, sink, &oracle_c12);
    }
    for t in 0..n_runs {
        let mut rr = r.fork();
        let o = sl_opts(&mut rr, t);
        let ctx = sl_run(&mut rr, format!("sl{}", t), &o);
        emit_steps(&mut rr, &ctx, false, per_run, sink, &oracle_c12, &|_, _| vec![]);
        emit_hist(&ctx, false, sink, &oracle_c12);
    }
}
