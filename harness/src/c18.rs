//! C18 -- results are deterministic and independent of thread scheduling.
//!
//!  repeat      : the same generated work (locomotive / consist / train simulations, path profiles over
//!                links with several speed sets, train configurations with several car types,
//!                make_est_times + run_dispatch on the corridor network) is executed in this process
//!                and in TWO separate child processes (re-exec of this binary with VH_C18_CHILD set, so
//!                every HashMap gets other RandomState seeds); the canonical (hash-map keys sorted),
//!                bit-exact digests of all outputs must agree item by item.
//!  pool        : LocomotiveSimulationVec::walk(true) under rayon pools of 1..16 threads vs walk(false)
//!                vs element-wise isolated walk(); one failing element at each position of a batch.
//!                Oracle is element-wise: every element is either untouched or equals its own isolated
//!                walk; a completed batch equals the serial one; the reported error is the failing
//!                element's own; nobody's inputs (power_trace) are modified.
//!  interleave  : the REAL sims stepped under an explicit random schedule (one `step()` of the named
//!                element at a time) equal their isolated walks; the scheduling model (Sched.v) evaluated
//!                in Coq on the same schedule predicts every element's final position and outcome.
//!  cars_total  : TrainConfig::cars_total vs the model's checked u32 fold, incl. overflow.
use crate::c17::{builder, chain_network, consist_sim_from_trace, loco_sim_from_trace, repo_root, small_consist, speed_trace, train_config};
use crate::pt::*;
use crate::sdutil::*;
use crate::util::*;
use altrios_core::consist::consist_sim::ConsistSimulation;
use altrios_core::consist::locomotive::loco_sim::LocomotiveSimulationVec;
use altrios_core::consist::Consist;
use altrios_core::meet_pass::dispatch::run_dispatch;
use altrios_core::prelude::*;
use altrios_core::track::*;
use altrios_core::train::*;
use altrios_core::traits::SerdeAPI;
use altrios_core::uc;
use altrios_core::validate::Valid;
use serde_json::json;
use std::collections::HashMap;
use std::panic::AssertUnwindSafe;

fn res_str(r: Result<anyhow::Result<()>, String>) -> String {
    match r { Ok(Ok(())) => "ok".into(), Ok(Err(e)) => format!("err:{}", format!("{:#}", e).lines().next().unwrap_or("")), Err(p) => format!("panic:{}", p) }
}
fn dig<T: serde::Serialize>(outcome: &str, t: &T) -> String { format!("{}|{}", outcome.chars().take(60).collect::<String>().replace(' ', "_"), digest(&to_node(t))) }

fn slts_more(s: &SpeedLimitTrainSim) -> bool {
    s.state.offset < s.path_tpc.offset_end() - 1000.0 * uc::FT || (s.state.offset < s.path_tpc.offset_end() && s.state.speed != 0.0 * uc::MPS)
}

/// The work whose outputs must not depend on the process: returns (item name, digest) in a fixed order.
/// Everything is generated from `seed` only (never by iterating a hash container).
pub fn work(seed: u64, n_items: usize) -> Vec<(String, String)> {
    let mut r = Rng::new(seed ^ 0xC18_0001);
    let mut out: Vec<(String, String)> = vec![];
    let corridor = {
        let root = repo_root();
        Network::from_file(format!("{}/python/altrios/resources/networks/simple_corridor_network.yaml", root)).ok()
            .zip(import_locations(format!("{}/python/altrios/resources/networks/simple_corridor_locations.csv", root)).ok())
    };
    let mut k = 0usize;
    while out.len() < n_items {
        let mut rr = r.fork();
        match k % 8 {
            0 => {
                let loco = if rr.chance(0.5) { rand_conv_loco(&mut rr) } else { rand_bel_loco(&mut rr) };
                let mut s = loco_sim_from_trace(&mut rr, loco, 8, Some(1));
                let o = res_str(catch(AssertUnwindSafe(|| s.walk())));
                out.push((format!("loco_sim/{}", k), dig(&o, &s)));
            }
            1 => {
                let con = rand_consist(&mut rr);
                let mut s = consist_sim_from_trace(&mut rr, con, 6, Some(1));
                let o = res_str(catch(AssertUnwindSafe(|| s.walk())));
                out.push((format!("consist_sim/{}", k), dig(&o, &s)));
            }
            2 => {
                // train configuration with several car types: HashMap<String,u32> folds and lookups
                let tc = train_config(&mut rr, true);
                let total = catch(AssertUnwindSafe(|| tc.cars_total())).map(|x| x.to_string()).unwrap_or_else(|p| format!("panic:{}", p));
                let tp = catch(AssertUnwindSafe(|| tc.make_train_params()));
                let tps = match &tp { Ok(Ok(p)) => dig("ok", p), Ok(Err(e)) => format!("err:{}", format!("{:#}", e).lines().next().unwrap_or("")), Err(p) => format!("panic:{}", p) };
                out.push((format!("train_config/{}", k), format!("ok|{}|{}|{}", total, tps, digest(&to_node(&tc)))));
                // informational: the NON-canonical text (hash-map iteration order as is); expected to vary
                // between processes when there are >= 2 car types -- shows that the children really see other
                // RandomState seeds and that the canonicalisation is what makes the comparison meaningful
                if tc.n_cars_by_type.len() >= 2 {
                    let raw = tc.to_yaml().unwrap_or_default();
                    out.push((format!("info:train_config_raw_yaml/{}", k), digest(&Node::Str(raw))));
                }
            }
            3 => {
                // links with several speed sets (HashMap<TrainType, SpeedSet>): extract_speed_set via PathTpc::extend
                let tt = *rr.pick(&[TrainType::Freight, TrainType::Intermodal, TrainType::Passenger]);
                let m = 1 + rr.below(4);
                let mut net = chain_network(&mut rr, m, tt, true);
                for l in net.0.iter_mut().skip(1) {
                    let base = l.speed_sets.get(&tt).cloned().unwrap();
                    for (j, other) in [TrainType::Freight, TrainType::Intermodal, TrainType::Passenger, TrainType::Commuter, TrainType::TiltTrain].iter().enumerate() {
                        if *other != tt {
                            let mut ss = base.clone();
                            for sl in ss.speed_limits.iter_mut() { sl.speed = sl.speed * (0.5 + 0.1 * j as f64); }
                            l.speed_sets.insert(*other, ss);
                        }
                    }
                }
                // every third network has NO set for the train's own type on its links: the only deterministic answer is the
                // error (a fall-back to "some" set of the map would depend on the map's iteration order)
                let orphan = k % 3 == 2;
                if orphan { for l in net.0.iter_mut().skip(1) { l.speed_sets.remove(&tt); } }
                let mut tc = train_config(&mut rr, false); tc.train_type = tt;
                let res = catch(AssertUnwindSafe(|| -> anyhow::Result<PathTpc> {
                    let tp = tc.make_train_params()?;
                    let mut p = PathTpc::new(tp);
                    let path: Vec<LinkIdx> = (1..=m).map(|i| LinkIdx::new(i as u32)).collect();
                    p.extend(&net, &path)?; p.finish(); Ok(p)
                }));
                // the error text lists the map's keys in iteration order: cut it there
                let d = match &res { Ok(Ok(p)) => dig("ok", p), Ok(Err(e)) => format!("err:{}", format!("{:#}", e).lines().next().unwrap_or("").split("speed_sets.keys()").next().unwrap_or("")), Err(p) => format!("panic:{}", p) };
                out.push((format!("path_tpc_multi_speed_sets{}/{}", if orphan { "_own_type_missing" } else { "" }, k), format!("{}|net:{}", d, digest(&to_node(&net)))));
            }
            4 => {
                let m = 1 + rr.below(3);
                let net = chain_network(&mut rr, m, TrainType::Freight, false);
                let con = small_consist(&mut rr);
                let mut tsb = builder(&mut rr, con, false, None);
                tsb.train_config.train_type = TrainType::Freight;
                let st = speed_trace(&mut rr, 12, 12.0, false);
                let path: Vec<LinkIdx> = (1..=m).map(|i| LinkIdx::new(i as u32)).collect();
                let d = match catch(AssertUnwindSafe(|| tsb.make_set_speed_train_sim(&net, &path, st, Some(1)))) {
                    Ok(Ok(mut s)) => { let o = res_str(catch(AssertUnwindSafe(|| s.walk()))); dig(&o, &s) }
                    Ok(Err(e)) => format!("build-err:{}", format!("{:#}", e).lines().next().unwrap_or("")),
                    Err(p) => format!("build-panic:{}", p),
                };
                out.push((format!("set_speed_train_sim/{}", k), d));
            }
            5 => {
                let m = 1 + rr.below(2);
                let net = chain_network(&mut rr, m, TrainType::Freight, false);
                let con = small_consist(&mut rr);
                let mut tsb = builder(&mut rr, con, false, Some(("O", "D")));
                tsb.train_config.train_type = TrainType::Freight;
                tsb.train_config.train_mass = None; tsb.train_config.train_length = None; tsb.train_config.cd_area_vec = None;
                let keys: Vec<String> = tsb.train_config.rail_vehicles.iter().map(|rv| rv.car_type.clone()).collect();
                for key in keys { if let Some(v) = tsb.train_config.n_cars_by_type.get_mut(&key) { *v = 1 + (*v % 6); } }
                let mk = |id: &str, link: usize| Location { location_id: id.into(), offset: uc::M * 0.0, link_idx: LinkIdx::new(link as u32), is_front_end: false,
                    grid_emissions_region: "MROWc".into(), electricity_price_region: "MN".into(), liquid_fuel_price_region: "MN".into() };
                let locs: HashMap<String, Vec<Location>> = HashMap::from([("O".to_string(), vec![mk("O", 1)]), ("D".to_string(), vec![mk("D", m)])]);
                let path: Vec<LinkIdx> = (1..=m).map(|i| LinkIdx::new(i as u32)).collect();
                let d = match catch(AssertUnwindSafe(|| tsb.make_speed_limit_train_sim(&locs, Some(10), None, None))) {
                    Ok(Ok(mut s)) => {
                        let o = res_str(catch(AssertUnwindSafe(|| -> anyhow::Result<()> {
                            s.extend_path(&net.0, &path)?; s.finish();
                            let mut c = 0; while slts_more(&s) && c < 1200 { s.step()?; c += 1; } Ok(())
                        })));
                        dig(&o, &s)
                    }
                    Ok(Err(e)) => format!("build-err:{}", format!("{:#}", e).lines().next().unwrap_or("")),
                    Err(p) => format!("build-panic:{}", p),
                };
                out.push((format!("speed_limit_train_sim/{}", k), d));
            }
            7 => {
                // generated networks (lines with sidings, junctions with two western / eastern branches, so
                // that a train has SEVERAL reachable origin and destination links), 1..8 trains: the
                // estimated-time network of every train and the dispatch result
                let sc = crate::disp::gen_disp_scenario(&mut rr, k / 8);
                match crate::dsp::build_network(&sc.sp) {
                    Ok(net) => {
                        let sims: Vec<SpeedLimitTrainSim> = sc.trains.iter().map(crate::dsp::build_train).collect();
                        let mut ets = vec![]; let mut parts = vec![];
                        for s in sims.iter() {
                            match catch(AssertUnwindSafe(|| make_est_times(s.clone(), &net))) {
                                Ok(Ok((e, c))) => { parts.push(format!("{}|{}", dig("ok", &e), digest(&to_node(&c)))); ets.push(e); }
                                Ok(Err(e)) => parts.push(format!("err:{}", format!("{:#}", e).lines().next().unwrap_or(""))),
                                Err(p) => parts.push(format!("panic:{}", p)),
                            }
                        }
                        let multi = sc.trains.iter().any(|t| t.origs.len() > 1) as u8 + 2 * sc.trains.iter().any(|t| t.dests.len() > 1) as u8;
                        out.push((format!("gen_est_times[multi_orig_dest:{}]/{}", multi, k), parts.join("||")));
                        if ets.len() == sims.len() && !sims.is_empty() {
                            let d = match catch(AssertUnwindSafe(|| run_dispatch(&net, &sims, ets, false, false))) {
                                Ok(Ok(plan)) => dig("ok", &plan),
                                Ok(Err(e)) => format!("err:{}", format!("{:#}", e).lines().next().unwrap_or("")),
                                Err(p) => format!("panic:{}", p),
                            };
                            out.push((format!("gen_dispatch[trains:{}]/{}", sims.len(), k), d));
                        }
                    }
                    Err(e) => out.push((format!("gen_network_rejected/{}", k), format!("{:#}", e).lines().next().unwrap_or("").to_string())),
                }
            }
            _ => {
                // estimated-time networks and a dispatch on the corridor (two opposing trains)
                if let Some((net, locs)) = &corridor {
                    let mut sims = vec![];
                    for (o, dd) in [("A", "B"), ("B", "A")] {
                        let mut con = Consist::default(); con.set_save_interval(None);
                        let mut tsb = builder(&mut rr, con, false, Some((o, dd)));
                        tsb.train_config.train_type = TrainType::Freight;
                        tsb.train_config.train_mass = None; tsb.train_config.train_length = None; tsb.train_config.cd_area_vec = None;
                        let keys: Vec<String> = tsb.train_config.rail_vehicles.iter().map(|rv| rv.car_type.clone()).collect();
                        for key in keys { if let Some(v) = tsb.train_config.n_cars_by_type.get_mut(&key) { *v = 2 + (*v % 20); } }
                        if let Ok(Ok(s)) = catch(AssertUnwindSafe(|| tsb.make_speed_limit_train_sim(locs, None, None, None))) { sims.push(s); }
                    }
                    let mut ets = vec![];
                    let mut parts = vec![];
                    for s in sims.iter() {
                        match catch(AssertUnwindSafe(|| make_est_times(s.clone(), net))) {
                            Ok(Ok((e, c))) => { parts.push(format!("{}|{}", dig("ok", &e), digest(&to_node(&c)))); ets.push(e); }
                            Ok(Err(e)) => parts.push(format!("err:{}", format!("{:#}", e).lines().next().unwrap_or(""))),
                            Err(p) => parts.push(format!("panic:{}", p)),
                        }
                    }
                    out.push((format!("make_est_times/{}", k), parts.join("||")));
                    if ets.len() == sims.len() && !sims.is_empty() {
                        let d = match catch(AssertUnwindSafe(|| run_dispatch(net, &sims, ets, false, false))) {
                            Ok(Ok(plan)) => dig("ok", &plan),
                            Ok(Err(e)) => format!("err:{}", format!("{:#}", e).lines().next().unwrap_or("")),
                            Err(p) => format!("panic:{}", p),
                        };
                        out.push((format!("run_dispatch/{}", k), d));
                    }
                } else {
                    out.push((format!("corridor_missing/{}", k), "none".into()));
                }
            }
        }
        k += 1;
    }
    out
}

fn child_main(seed: u64, n: usize) {
    for (name, d) in work(seed, n) { println!("@@D {} {}", name, d); }
}

fn spawn_child(seed: u64, n: usize, tag: &str) -> Result<Vec<(String, String)>, String> {
    let exe = std::env::current_exe().map_err(|e| e.to_string())?;
    let tmp = std::env::temp_dir().join(format!("vh_c18_{}_{}.jsonl", std::process::id(), tag));
    let o = std::process::Command::new(exe).args(["c18", "--seed", &seed.to_string(), "--n", &n.to_string(), "--out", tmp.to_str().unwrap()])
        .env("VH_C18_CHILD", "1").output().map_err(|e| e.to_string())?;
    let _ = std::fs::remove_file(&tmp);
    if !o.status.success() { return Err(format!("child exited with {:?}: {}", o.status.code(), String::from_utf8_lossy(&o.stderr).chars().take(300).collect::<String>())); }
    let s = String::from_utf8_lossy(&o.stdout);
    Ok(s.lines().filter_map(|l| l.strip_prefix("@@D ")).filter_map(|l| { let mut it = l.splitn(2, ' '); Some((it.next()?.to_string(), it.next()?.to_string())) }).collect())
}

fn repeat_cases(seed: u64, n_items: usize, sink: &mut Sink) {
    let here = work(seed, n_items);
    let again = work(seed, n_items);
    let c1 = spawn_child(seed, n_items, "a");
    let c2 = spawn_child(seed, n_items, "b");
    for (idx, (name, d)) in here.iter().enumerate() {
        let mut fails = vec![];
        let mut o = Outs::new();
        let fam = name.split('/').next().unwrap_or("").to_string();
        if name.starts_with("info:") {
            let same = match (&c1, &c2) { (Ok(a), Ok(b)) => a.get(idx).map(|x| &x.1) == Some(d) && b.get(idx).map(|x| &x.1) == Some(d), _ => true };
            sink.put(Case { id: format!("repeat/{}", name), kind: "repeat_info".into(), coq: String::new(), outcome: Outcome::Ok(o),
                tags: vec![format!("raw_hashmap_order_equal_in_all_3_processes:{}", same)], input: json!({"item": name}), oracle_fail: vec![], known: vec![], in_domain: false });
            continue;
        }
        let mut diffs: Vec<serde_json::Value> = vec![];
        let mut chk = |label: &str, other: Option<&(String, String)>, fails: &mut Vec<String>| {
            match other {
                Some((n2, d2)) if n2 == name => {
                    if d2 != d { fails.push(format!("{}: canonical output differs between {} and this process (same inputs)", fam, label)); diffs.push(json!({"where": label, "there": d2, "here": d})); }
                    o.b(label, d2 == d);
                }
                _ => { fails.push(format!("{}: {} produced a different item list (generation not reproducible)", fam, label)); o.b(label, false); }
            }
        };
        chk("same_process_again", again.get(idx), &mut fails);
        match (&c1, &c2) {
            (Ok(a), Ok(b)) => { chk("child_process_1", a.get(idx), &mut fails); chk("child_process_2", b.get(idx), &mut fails); }
            (Err(e), _) | (_, Err(e)) => fails.push(format!("child process failed: {}", e)),
        }
        let outcome = d.split('|').next().unwrap_or("").split(':').next().unwrap_or("").to_string();
        sink.put(Case { id: format!("repeat/{}", name), kind: "repeat".into(), coq: String::new(), outcome: Outcome::Ok(o),
            tags: vec![format!("item:{}", fam), format!("item_outcome:{}", outcome), "processes:3".into()],
            input: json!({"item": name, "digest": d, "differences": diffs}), oracle_fail: fails, known: vec![], in_domain: true });
    }
}

// ---------------------------------------------------------------- rayon pools
fn good_sim(r: &mut Rng, n: usize) -> LocomotiveSimulation {
    loop {
        let loco = if r.chance(0.5) { rand_conv_loco(r) } else { rand_bel_loco(r) };
        let mut s = loco_sim_from_trace(r, loco, n, Some(1));
        // loco_sim_from_trace plants an impossible demand now and then: keep only runs that complete
        let mut t = s.clone();
        if s.power_trace.len() >= 3 && catch(AssertUnwindSafe(|| t.walk())).map(|x| x.is_ok()).unwrap_or(false) { return s; }
        let _ = &mut s;
    }
}
fn bad_sim(r: &mut Rng, n: usize) -> LocomotiveSimulation {
    let mut s = good_sim(r, n);
    let k = 1 + r.below(s.power_trace.len() - 1);
    s.power_trace.pwr[k] = uc::W * 1e9;
    s
}

fn pool_cases(r: &mut Rng, batches: usize, thorough: bool, sink: &mut Sink) {
    let pools: &[usize] = if thorough { &[1, 2, 3, 4, 5, 6, 7, 8, 9, 10, 11, 12, 13, 14, 15, 16] } else { &[1, 2, 3, 4, 8, 16] };
    for b in 0..batches {
        let m = 3 + r.below(6);
        let steps = 4 + r.below(8);
        let fail_pos: Option<usize> = if b % 2 == 0 { None } else { Some((b / 2) % m) };
        let sims: Vec<LocomotiveSimulation> = (0..m).map(|i| if Some(i) == fail_pos { bad_sim(r, steps) } else { good_sim(r, steps) }).collect();
        // element-wise isolated walks
        let iso: Vec<(String, Node)> = sims.iter().map(|s| { let mut t = s.clone(); let o = res_str(catch(AssertUnwindSafe(|| t.walk()))); (o, to_node(&t)) }).collect();
        let orig: Vec<Node> = sims.iter().map(to_node).collect();
        let traces: Vec<Node> = sims.iter().map(|s| to_node(&s.power_trace)).collect();
        let serial = { let mut v = LocomotiveSimulationVec(sims.clone()); let o = res_str(catch(AssertUnwindSafe(|| v.walk(false)))); (o, v) };
        let mut runs: Vec<(String, String, LocomotiveSimulationVec)> = vec![("serial".into(), serial.0.clone(), serial.1.clone())];
        for &p in pools {
            let pool = rayon::ThreadPoolBuilder::new().num_threads(p).build().expect("pool");
            let mut v = LocomotiveSimulationVec(sims.clone());
            let o = pool.install(|| res_str(catch(AssertUnwindSafe(|| v.walk(true)))));
            runs.push((format!("pool{}", p), o, v));
        }
        for (label, outcome, v) in runs.iter() {
            let mut fails = vec![];
            let mut o = Outs::new();
            let mut n_walked = 0; let mut n_untouched = 0;
            for (i, s) in v.0.iter().enumerate() {
                let t = to_node(s);
                if compare(&to_node(&s.power_trace), &traces[i], Mode::Bits).n_bad > 0 { fails.push(format!("batch element {}: its inputs (power_trace) were modified", i)); }
                let is_iso = compare(&t, &iso[i].1, Mode::Bits).n_bad == 0;
                let is_orig = compare(&t, &orig[i], Mode::Bits).n_bad == 0;
                if is_iso { n_walked += 1; } else if is_orig { n_untouched += 1; }
                else { fails.push(format!("batch element {} under {} is neither untouched nor equal to its own isolated walk: {}", i, label, compare(&t, &iso[i].1, Mode::Bits).bad.join("; "))); }
            }
            match fail_pos {
                None => {
                    if outcome != "ok" { fails.push(format!("batch without a failing element returned {}", outcome)); }
                    if n_walked != m { fails.push(format!("batch returned ok but only {} of {} elements equal their isolated walk", n_walked, m)); }
                    // parallel == serial, bit for bit
                    if compare(&to_node(v), &to_node(&serial.1), Mode::Bits).n_bad > 0 { fails.push(format!("{} result differs from the serial result", label)); }
                }
                Some(fp) => {
                    if outcome == "ok" { fails.push("batch with a failing element returned ok".into()); }
                    if !outcome.contains(&format!("loco_sim idx:{}", fp)) { fails.push(format!("the error is not reported for the failing element {}: {}", fp, outcome)); }
                    // the failing element carries its own error state: equal to its isolated (failed) walk
                    // (it is the only failing element and its error is the one reported, so it WAS walked: the serial walk leaves it
                    // at its failing step with the rows saved so far, and so must every pool)
                    if compare(&to_node(&v.0[fp]), &iso[fp].1, Mode::Bits).n_bad > 0 {
                        fails.push(format!("failing element {} is not in the state its own (failed) walk leaves it in{}", fp,
                            if compare(&to_node(&v.0[fp]), &orig[fp], Mode::Bits).n_bad == 0 { ": it is untouched, although its error was reported" } else { "" }));
                    }
                    if label == "serial" {
                        // try_for_each: exactly the elements before the failing one are walked, later ones untouched
                        for i in 0..m {
                            let t = to_node(&v.0[i]);
                            let want = if i <= fp { &iso[i].1 } else { &orig[i] };
                            if compare(&t, want, Mode::Bits).n_bad > 0 { fails.push(format!("serial batch: element {} should be {}", i, if i <= fp { "walked" } else { "untouched" })); }
                        }
                    }
                }
            }
            o.z("elements_equal_isolated_walk", n_walked as i64); o.z("elements_untouched", n_untouched as i64);
            sink.put(Case { id: format!("pool/{}/{}", b, label), kind: "pool".into(), coq: String::new(), outcome: Outcome::Ok(o),
                tags: vec![format!("threads:{}", label), format!("batch:{}", if fail_pos.is_some() { "one-failing-element" } else { "all-ok" }), format!("elements:{}", m),
                           format!("fail_pos:{}", fail_pos.map(|p| if p == 0 { "first".to_string() } else if p + 1 == m { "last".into() } else { "middle".into() }).unwrap_or("none".into()))],
                input: json!({"batch": b, "m": m, "fail_pos": fail_pos, "outcome": outcome}), oracle_fail: fails, known: vec![], in_domain: true });
        }
    }
}

// ---------------------------------------------------------------- explicit interleavings of the real sims
fn interleave_cases(r: &mut Rng, n: usize, sink: &mut Sink) {
    for c in 0..n {
        let m = 2 + r.below(4);
        let sims: Vec<LocomotiveSimulation> = (0..m).map(|_| { let st = 2 + r.below(5); if r.chance(0.3) { bad_sim(r, st) } else { good_sim(r, st) } }).collect();
        // isolated: step until exhausted or failing (the model's walk_elem)
        let iso: Vec<LocomotiveSimulation> = sims.iter().map(|s| { let mut t = s.clone(); while t.i < t.power_trace.len() { if catch(AssertUnwindSafe(|| t.step())).map(|x| x.is_err()).unwrap_or(true) { break; } } t }).collect();
        // abstract traces for the model: 1 per accepted step, -1 at the failing index
        let fail_at: Vec<Option<usize>> = iso.iter().map(|t| if t.i < t.power_trace.len() { Some(t.i - 1) } else { None }).collect();
        let traces: Vec<Vec<i64>> = sims.iter().zip(&fail_at).map(|(s, f)| (0..s.power_trace.len() - 1).map(|j| if Some(j) == *f { -1 } else { 1 }).collect()).collect();
        // a random schedule: complete (every element often enough) or cut short
        let complete = r.chance(0.6);
        let mut sched: Vec<usize> = vec![];
        for (k, s) in sims.iter().enumerate() { let need = s.power_trace.len() - 1; let give = if complete { need + r.below(3) } else { r.below(need + 1) }; for _ in 0..give { sched.push(k); } }
        for i in (1..sched.len()).rev() { let j = r.below(i + 1); sched.swap(i, j); }
        if r.chance(0.3) { sched.push(m + 1); } // an out-of-range index: no-op
        let mut live = sims.clone();
        let mut failed = vec![false; m];
        for &k in &sched {
            if k >= m || failed[k] || live[k].i >= live[k].power_trace.len() { continue; }
            if catch(AssertUnwindSafe(|| live[k].step())).map(|x| x.is_err()).unwrap_or(true) { failed[k] = true; }
        }
        let mut fails = vec![];
        let mut o = Outs::new();
        for k in 0..m {
            let got = sched.iter().filter(|&&x| x == k).count();
            let need = sims[k].power_trace.len() - 1;
            if got >= need && compare(&to_node(&live[k]), &to_node(&iso[k]), Mode::Bits).n_bad > 0 {
                fails.push(format!("element {} received all its steps under an interleaved schedule but differs from its isolated walk", k));
            }
            if compare(&to_node(&live[k].power_trace), &to_node(&sims[k].power_trace), Mode::Bits).n_bad > 0 { fails.push(format!("element {}: inputs modified", k)); }
            o.z(&format!("e{}.pos", k), (live[k].i - 1) as i64);
            o.z(&format!("e{}.status", k), if failed[k] { 1 } else { 0 });
            o.z(&format!("e{}.acc_or_code", k), if failed[k] { 1 } else { (live[k].i - 1) as i64 });
        }
        let coq = format!("x_sched [{}] [{}]", sched.iter().map(|k| cnat(*k)).collect::<Vec<_>>().join("; "),
            traces.iter().map(|t| format!("[{}]", t.iter().map(|z| cz(*z)).collect::<Vec<_>>().join("; "))).collect::<Vec<_>>().join("; "));
        sink.put(Case { id: format!("interleave/{}", c), kind: "interleave".into(), coq, outcome: Outcome::Ok(o),
            tags: vec![format!("schedule:{}", if complete { "complete" } else { "incomplete" }), format!("elements:{}", m), format!("failing:{}", fail_at.iter().filter(|f| f.is_some()).count())],
            input: json!({"schedule": sched, "traces": traces}), oracle_fail: fails, known: vec![], in_domain: true });
    }
}

fn cars_total_cases(r: &mut Rng, n: usize, sink: &mut Sink) {
    for c in 0..n {
        let k = 1 + r.below(6);
        let big = r.chance(0.3);
        let mut m: HashMap<String, u32> = HashMap::new();
        for i in 0..k { m.insert(format!("T{}", i), if big { (r.next() % (u32::MAX as u64 / 2 + 1000)) as u32 } else { r.below(200) as u32 }); }
        let tc = TrainConfig { rail_vehicles: vec![], n_cars_by_type: m.clone(), train_type: TrainType::Freight, train_length: None, train_mass: None, cd_area_vec: None };
        let vals: Vec<i64> = tc.n_cars_by_type.values().map(|v| *v as i64).collect();
        let exact: i64 = vals.iter().sum();
        let res = catch(AssertUnwindSafe(|| tc.cars_total()));
        let mut fails = vec![];
        let outcome = match res {
            Ok(t) => { if t as i64 != exact { fails.push(format!("cars_total = {} but the exact sum is {}", t, exact)); } let mut o = Outs::new(); o.z("cars_total", t as i64); Outcome::Ok(o) }
            Err(p) => { if exact <= u32::MAX as i64 { fails.push(format!("cars_total panicked although the sum {} fits u32", exact)); } Outcome::Panic(p) }
        };
        sink.put(Case { id: format!("cars_total/{}", c), kind: "cars_total".into(), coq: format!("x_cars_total [{}]", vals.iter().map(|z| cz(*z)).collect::<Vec<_>>().join("; ")),
            outcome, tags: vec![format!("types:{}", k), format!("sum:{}", if exact > u32::MAX as i64 { "overflows-u32" } else { "fits" })],
            input: json!({"values": vals}), oracle_fail: fails, known: vec![], in_domain: true });
    }
}

pub fn run(seed: u64, n: usize, sink: &mut Sink) {
    if std::env::var("VH_C18_CHILD").is_ok() { child_main(seed, n); return; }
    let mut r = Rng::new(seed ^ 0xC18);
    let thorough = n >= 5000;
    // split the budget: n counts cases
    let n_items = (n / 4).max(8);
    if std::env::var("VH_C18_DEBUG").is_ok() { std::panic::set_hook(Box::new(|i| eprintln!("PANIC {}", i))); }
    repeat_cases(seed, n_items, sink);
    cars_total_cases(&mut r.fork(), (n / 10).max(4), sink);
    interleave_cases(&mut r.fork(), (n / 5).max(4), sink);
    let per_batch = if thorough { 17 } else { 7 };
    let batches = ((n.saturating_sub(sink.n)) / per_batch).max(2);
    pool_cases(&mut r.fork(), batches, thorough, sink);
    fleet_cases(&mut r.fork(), sink);
}

/// fleet-level trip outputs (SpeedLimitTrainSimVec getters) are plain in-order sums: the same bits whatever the number of
/// workers of the pool they are called under
fn fleet_cases(r: &mut Rng, sink: &mut Sink) {
    let base = SpeedLimitTrainSim::valid();
    let mut members = vec![];
    for j in 0..11usize {
        let mut s = base.clone();
        s.state.mass_freight = uc::KG * r.lrange(1e5, 1e7);
        let steps = 5 + 7 * j + r.below(5);
        let _ = catch(AssertUnwindSafe(|| { for _ in 0..steps { if s.step().is_err() { break; } } }));
        members.push(s);
    }
    let v = SpeedLimitTrainSimVec(members.clone());
    let mut fails = vec![];
    for ann in [false, true] {
        let want = [members.iter().fold(0.0, |a, s| a + s.get_energy_fuel(ann).value), members.iter().fold(0.0, |a, s| a + s.get_net_energy_res(ann).value),
                    members.iter().fold(0.0, |a, s| a + s.get_kilometers(ann)), members.iter().fold(0.0, |a, s| a + s.get_megagram_kilometers(ann))];
        for threads in [1usize, 2, 4, 16] {
            let pool = rayon::ThreadPoolBuilder::new().num_threads(threads).build().expect("pool");
            let got = pool.install(|| [v.get_energy_fuel(ann).value, v.get_net_energy_res(ann).value, v.get_kilometers(ann), v.get_megagram_kilometers(ann)]);
            for (k, what) in ["fuel", "net battery energy", "kilometres", "megagram-kilometres"].iter().enumerate() {
                if got[k].to_bits() != want[k].to_bits() && got[k] != want[k] {
                    fails.push(format!("fleet {} under a pool of {} worker(s) is {} but the in-order sum of the members' outputs is {} (annualize={})", what, threads, got[k], want[k], ann));
                }
            }
        }
    }
    let mut o = Outs::new(); o.z("members", members.len() as i64);
    sink.put(Case { id: "fleet/getters".into(), kind: "fleet".into(), coq: String::new(), outcome: Outcome::Ok(o), tags: vec!["threads:1,2,4,16".into()],
        input: json!({"members": members.len()}), oracle_fail: fails.into_iter().take(4).collect(), known: vec![], in_domain: true });
}
