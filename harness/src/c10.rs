//! C10 -- consist power split conserves demand and honours each unit's capability.
//! Lock-step on ConsistSimulation::step over generated consists (1..8 units, any mix/order,
//! both policies, depleted and full batteries, demands from full dynamic braking to full traction).
use crate::pt::*;
use crate::util::*;
use altrios_core::consist::consist_utils::PowerDistributionControlType;
use altrios_core::consist::locomotive::locomotive_model::PowertrainType;
use altrios_core::consist::Consist;
use serde_json::json;

fn is_bel(l: &altrios_core::prelude::Locomotive) -> bool { matches!(l.loco_type, PowertrainType::BatteryElectricLoco(_)) }

pub const KNOWN_NEG_LIMIT: &str = "C10/1 a unit whose published traction limit is negative (battery at minimum SOC cannot cover its auxiliary load) is assigned negative traction while the consist pushes";

/// returns (violations, known findings exhibited)
pub fn oracle2(st: &ConsistStep, post: &Consist) -> (Vec<String>, Vec<String>) {
    let mut f = Vec::new();
    let mut known = Vec::new();
    let p = consist_rated(post);
    let tol = 1e-7 * p;
    let req = st.pwr;
    let shares: Vec<f64> = post.loco_vec.iter().map(|l| l.state.pwr_out.value).collect();
    let sum: f64 = shares.iter().sum();
    if !close(sum, req, 1e-7, 1e-7) { f.push(format!("shares sum to {} but the request is {}", sum, req)); }
    for (i, l) in post.loco_vec.iter().enumerate() {
        let sh = shares[i];
        let lim = l.state.pwr_out_max.value;
        let em = edrv_max(l);
        if req > 0.0 {
            if lim < 0.0 {
                // the class of the known finding: decided from the published limit alone
                if sh < 0.0 { known.push(KNOWN_NEG_LIMIT.to_string()); }
                else if sh > tol { f.push(format!("unit {} with negative published limit {} asked for traction {}", i, lim, sh)); }
            } else {
                if sh > lim + tol.max(1e-6 * lim.abs()) { f.push(format!("unit {} asked for traction {} above its published limit {}", i, sh, lim)); }
                if sh < -tol { f.push(format!("unit {} brakes ({}) while the consist pushes ({})", i, sh, req)); }
            }
        }
        if req < 0.0 {
            if sh > tol { f.push(format!("unit {} pushes ({}) while the consist brakes ({})", i, sh, req)); }
            if -sh > em + tol { f.push(format!("unit {} asked for braking {} above its drivetrain rating {}", i, -sh, em)); }
        }
        let e = match &l.loco_type { PowertrainType::ConventionalLoco(c) => &c.edrv, PowertrainType::BatteryElectricLoco(b) => &b.edrv, _ => continue };
        let regen = -e.state.pwr_mech_prop_out.value;
        if regen > tol {
            if !is_bel(l) { f.push(format!("regeneration {} assigned to a unit without a battery (unit {})", regen, i)); }
            if regen > l.state.pwr_regen_max.value + tol { f.push(format!("unit {} regenerates {} above its published regeneration limit {}", i, regen, l.state.pwr_regen_max.value)); }
        }
    }
    if let PowerDistributionControlType::RESGreedy(_) = post.pdct {
        if req > 0.0 {
            let conv_sum: f64 = post.loco_vec.iter().zip(&shares).filter(|(l, _)| !is_bel(l)).map(|(_, s)| *s).sum();
            let deficit = (req - post.state.pwr_out_max_reves.value).max(0.0);
            if !close(conv_sum, deficit, 1e-7, tol) { f.push(format!("battery-first: fuel-burning units carry {} but the battery units cannot cover only {}", conv_sum, deficit)); }
        }
    }
    known.dedup();
    (f, known)
}
pub fn oracle(st: &ConsistStep, post: &Consist) -> Vec<String> { oracle2(st, post).0 }

pub fn consist_step_case(id: String, st: &ConsistStep, kind: &str, oracle: &dyn Fn(&ConsistStep, &Consist) -> (Vec<String>, Vec<String>)) -> Case {
    let coq = format!("x_consist_step {} {} {}", coq_consist(&st.pre), cf(st.pwr), cf(st.dt));
    let nb = st.pre.loco_vec.iter().filter(|l| is_bel(l)).count();
    let n = st.pre.loco_vec.len();
    let pd = match &st.pre.pdct { PowerDistributionControlType::Proportional(_) => "prop", PowerDistributionControlType::RESGreedy(_) => "greedy", _ => "other" };
    let mut tags = vec![format!("units:{}", n), format!("mix:{}", if nb == 0 { "conv" } else if nb == n { "bel" } else { "mixed" }),
        format!("policy:{}", pd), format!("mode:{}", st.mode)];
    let mut in_domain = true;
    let (outcome, (fails, known)) = match &st.post {
        Ok(post) => {
            tags.push("result:ok".into());
            if post.state.pwr_out_deficit.value > 0.0 { tags.push("deficit:yes".into()); }
            if post.state.pwr_regen_deficit.value > 0.0 { tags.push("regen_deficit:yes".into()); }
            if post.loco_vec.iter().any(|l| l.state.pwr_out_max.value < 0.0) { tags.push("neg_limit:yes".into()); in_domain = false; }
            (Outcome::Ok(outs_consist(post)), oracle(st, post))
        }
        Err((-1, m)) => { tags.push("result:panic".into()); (Outcome::Panic(m.clone()), (vec![], vec![])) }
        Err((c, m)) => { tags.push(format!("result:err{}", c)); (Outcome::Err(*c, m.clone()), (vec![], vec![])) }
    };
    Case { id, kind: kind.into(), coq, outcome, tags,
        input: json!({"consist_yaml": serde_yaml::to_string(&st.pre).unwrap_or_default(), "pwr": fjson(st.pwr), "dt": fjson(st.dt)}),
        oracle_fail: fails, known, in_domain }
}

pub fn run(seed: u64, n: usize, sink: &mut Sink) {
    let mut r = Rng::new(seed ^ 0xC10);
    let mut made = 0usize; let mut t = 0usize;
    while made < n {
        let con = rand_consist(&mut r);
        let steps = consist_trace(&mut r, con, 10.min(n - made));
        for (i, st) in steps.iter().enumerate() {
            sink.put(consist_step_case(format!("consist_step/{}/{}", t, i), st, "consist_step", &oracle2));
            made += 1;
        }
        t += 1;
    }
}
