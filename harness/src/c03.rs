//! C03 -- a speed-limited train never overspeeds, never reverses, stops inside its path (PARTIAL).
//! Kinds: `recalc` (every extend_path -> BrakingPoints::recalc of the runs below against the model's
//! recalc; oracle: every point has target <= limit), `sl_step` (lock-step on
//! SpeedLimitTrainSim::step; the two adequacy hypotheses of the theorems are evaluated on every
//! step and reported as tags), `sl_hist` (oracle on every row + end of run), `sl_walk` /
//! `sl_timed` (whole runs through the public walk() / walk_timed_path() under catch_unwind),
//! `witness` (the profile family of bp_target_le_limit_refuted: slow section, short faster window,
//! medium section -- replayed on the real code).
use crate::c12::{emit_steps, sl_opts};
use crate::train::*;
use crate::util::*;
use altrios_core::prelude::*;
use altrios_core::track::SpeedLimit;
use altrios_core::uc;
use serde_json::json;
use std::collections::HashMap;

#[derive(Clone)]
pub struct Adequacy { pub brake: bool, pub traction: bool, pub f_target: f64, pub f_avail: f64, pub f_pos_max: f64 }

/// BrakeAdequate / TractionAdequate of coq/props/C03.v evaluated on one implementation step
pub fn adequacy(s: &StepRec, p: &Post) -> Option<Adequacy> {
    let (cl, fb) = match (&s.cl, &s.pre_fb) { (Some(c), Some(f)) => (c, f), _ => return None };
    let st = &p.st;
    let rn = st.res_rolling.value + st.res_bearing.value + st.res_davis_b.value + st.res_aero.value + st.res_grade.value + st.res_curve.value;
    let mc = st.mass_static.value + st.mass_rot.value; let dt = s.pre.dt.value;
    let (target, speed) = (st.speed_target.value, s.pre.speed.value);
    let f_target = rn + mc * (target - speed) / dt;
    let ppos = cl[0].min((s.pre.pwr_whl_out.value + cl[1] * dt).max(0.0));
    let tpm = dt / mc; let a = speed - rn * tpm;
    let v_max = 0.5 * (a + (a * a + 4.0 * tpm * ppos).sqrt());
    let f_pos_max = cl[3].min(ppos / target.min(v_max));
    let fmc = (fb.force + fb.force_max / fb.ramp_up_time * dt).min(fb.force_max);
    let f_regen = if speed > cl[2] / cl[3] { cl[2] / v_max } else { cl[3] };
    let f_avail = fmc + f_regen;
    Some(Adequacy { brake: f_target >= -f_avail, traction: rn - f_pos_max <= mc * speed / dt, f_target, f_avail, f_pos_max })
}

pub fn oracle_row(s: &StepRec, p: &Post) -> Vec<String> {
    let mut f = Vec::new();
    let st = &p.st;
    if !(st.speed.value >= -1e-9) {
        let note = match adequacy(s, p) { Some(a) if !a.traction => " [TractionAdequate failed on this step]", Some(_) => " [TractionAdequate held]", None => "" };
        f.push(format!("negative speed {} (the train reverses){}", st.speed.value, note));
    }
    if !(st.speed.value <= st.speed_limit.value * (1.0 + 1e-9) + 1e-9) {
        let note = match adequacy(s, p) { Some(a) if !a.brake => " [BrakeAdequate failed on this step]", Some(_) => " [BrakeAdequate held]", None => "" };
        f.push(format!("speed {} above the limit in force {}{}", st.speed.value, st.speed_limit.value, note));
    }
    if !(st.speed_target.value <= st.speed_limit.value * (1.0 + 1e-12)) { f.push(format!("controller target {} above the limit in force {}", st.speed_target.value, st.speed_limit.value)); }
    if let Some(a) = adequacy(s, p) {
        // consequences the theorems draw from the hypotheses
        if a.brake && !(st.speed.value <= st.speed_target.value * (1.0 + 1e-9) + 1e-9) { f.push(format!("braking adequate but speed {} ends above the target {}", st.speed.value, st.speed_target.value)); }
    }
    f
}

fn oracle_c03(_ctx: &RunCtx, s: &StepRec, p: &Post) -> Vec<String> { oracle_row(s, p) }

fn tags_c03(_ctx: &RunCtx, s: &StepRec) -> Vec<String> {
    let mut t = vec![];
    if let Ok(p) = &s.post {
        if let Some(a) = adequacy(s, p) {
            t.push(format!("BrakeAdequate:{}", if a.brake { "holds" } else { "fails" }));
            t.push(format!("TractionAdequate:{}", if a.traction { "holds" } else { "fails" }));
        }
        let st = &p.st;
        t.push(format!("regime:{}", if st.speed_target.value < s.pre.speed.value { "braking_to_target" } else if st.speed.value < st.speed_target.value { "below_target" } else { "at_target" }));
        if st.speed_limit.value > st.speed_target.value { t.push("on_braking_curve".into()); }
        if let (Some(a), Some(b)) = (&s.pre_fb, &p.fb) { if b.force > 0.0 { t.push("friction_brake:applied".into()); } else if a.force > 0.0 { t.push("friction_brake:released".into()); } }
        if p.idx != s.pre_idx { t.push("braking_index:moved".into()); }
    }
    t
}

fn points_oracle(pts: &[[f64; 3]]) -> Vec<String> {
    let mut f = vec![];
    let bad: Vec<&[f64; 3]> = pts.iter().filter(|p| !(p[2] <= p[1])).collect();
    if let Some(p) = bad.first() { f.push(format!("braking point at offset {} has target {} above its limit {} ({} such points)", p[0], p[2], p[1], bad.len())); }
    f
}

fn emit_recalcs(ctx: &RunCtx, sink: &mut Sink) {
    for (k, rc) in ctx.recalcs.iter().enumerate() {
        let mut tags = ctx.tags.clone();
        tags.push(format!("recalc:{}", if k == 0 { "first_supply" } else { "extension" }));
        let (outcome, fails) = match &rc.result {
            Ok((pts, idx)) => {
                tags.push("result:ok".into()); tags.push(format!("points:{}", bucket(pts.len() / 10)));
                (Outcome::Ok(outs_points(pts, *idx)), points_oracle(pts))
            }
            Err((-1, m)) => { tags.push("result:panic".into()); (Outcome::Panic(m.clone()), vec![format!("recalc panicked: {}", m.chars().take(120).collect::<String>())]) }
            Err((c, m)) => { tags.push(format!("result:err{}", c)); (Outcome::Err(*c, m.clone()), vec![]) }
        };
        sink.put(Case { id: format!("recalc/{}/{}", ctx.id, k), kind: "recalc".into(), coq: recalc_coq(rc, &ctx.rp, true, 200000), outcome, tags,
            input: json!({"run": ctx.input, "extension": k}), oracle_fail: fails, known: vec![], in_domain: true });
    }
}

/// rows + end of run
fn emit_run(ctx: &RunCtx, sink: &mut Sink, kind: &str) {
    let mut fails: Vec<String> = vec![]; let mut nfail = 0usize; let mut nok = 0usize; let mut first: Option<(usize, String)> = None;
    let (mut nb, mut nt, mut na) = (0usize, 0usize, 0usize);
    for s in &ctx.steps {
        match &s.post {
            Ok(p) => {
                nok += 1;
                if let Some(a) = adequacy(s, p) { na += 1; if !a.brake { nb += 1; } if !a.traction { nt += 1; } }
                let f = oracle_row(s, p);
                if !f.is_empty() { nfail += 1; if first.is_none() { first = Some((s.k, f[0].clone())); } }
            }
            Err((-1, m)) => {
                let k = s.k;
                let nb = ctx.steps.iter().filter(|q| q.k + 3 >= k && q.k < k).filter(|q| matches!(&q.post, Ok(pp) if adequacy(q, pp).map(|a| !a.brake).unwrap_or(false))).count();
                fails.push(format!("step {} panicked: {} [BrakeAdequate failed on {} of the 3 preceding steps]", s.k, m.chars().take(160).collect::<String>(), nb));
            }
            Err(_) => {}
        }
    }
    if let Some((k, m)) = first { fails.push(format!("history: {} of {} saved rows violate the property, first at step {}: {}", nfail, nok, k, m)); }
    let mut tags = ctx.tags.clone();
    if ctx.finished_ok {
        if let (Some(last), Some(env)) = (ctx.steps.last(), ctx.envs.last()) {
            if let Ok(p) = &last.post {
                let end = env.path.offset_end().value;
                if p.st.offset.value > end + 1e-6 { fails.push(format!("the run ended at offset {} beyond the end of its path {}", p.st.offset.value, end)); }
                if p.st.speed.value != 0.0 { fails.push(format!("the run ended moving at {} m/s (offset {}, path end {})", p.st.speed.value, p.st.offset.value, end)); }
                else if p.st.offset.value < end - 1000.0 * 0.3048 { fails.push(format!("the run ended at rest at {} outside the stopping window before {}", p.st.offset.value, end)); }
                tags.push("run_end:at_rest_in_window".into());
            }
        }
    } else if let Some(m) = &ctx.aborted { tags.push(format!("run_end:aborted:{}", m.chars().take(60).collect::<String>())); }
    else if let Some(m) = &ctx.stuck { tags.push("run_end:does_not_terminate".into()); fails.push(m.clone()); }
    else if ctx.tags.iter().any(|t| t.starts_with("run:rest_outside_window")) { tags.push("run_end:rest_outside_window_reported".into()); }
    else if ctx.tags.iter().any(|t| t == "run:truncated") { tags.push("run_end:truncated".into()); }
    else if let Some(Err((c, _))) = ctx.steps.last().map(|s| &s.post) { tags.push(format!("run_end:error{}", c)); }
    if na > 0 {
        tags.push(format!("BrakeAdequate_failure_rate:{}", rate_bucket(nb, na)));
        tags.push(format!("TractionAdequate_failure_rate:{}", rate_bucket(nt, na)));
    }
    let mut o = Outs::new(); o.z("steps", ctx.steps.len() as i64); o.z("brake_inadequate_steps", nb as i64); o.z("traction_inadequate_steps", nt as i64);
    sink.put(Case { id: format!("{}/{}", kind, ctx.id), kind: kind.into(), coq: String::new(), outcome: Outcome::Ok(o), tags,
        input: json!({"run": ctx.input}), oracle_fail: fails, known: vec![], in_domain: true });
}
fn rate_bucket(k: usize, n: usize) -> &'static str {
    let r = k as f64 / n as f64;
    if k == 0 { "0" } else if r < 0.01 { "<1%" } else if r < 0.1 { "1-10%" } else if r < 0.5 { "10-50%" } else { ">=50%" }
}

/// The public walk() / walk_timed_path() have no step bound; a run that never leaves the loop would
/// exhaust memory (the history grows).  The same sequence of public calls is therefore first driven
/// step by step on a clone with a cap; Err(description) = the loop does not terminate.
fn preflight(sim: &SpeedLimitTrainSim, route: &Route, timed: Option<&Vec<LinkIdxTime>>, cap: usize) -> Result<(), (String, SpeedLimitTrainSim)> {
    let mut sim = sim.clone();
    sim.set_save_interval(None);
    let r = catch(std::panic::AssertUnwindSafe(|| -> Result<(), (String, SpeedLimitTrainSim)> {
        let mut steps = 0usize;
        if let Some(tp) = timed {
            let mut idx_prev = 0;
            while idx_prev != tp.len() - 1 {
                let mut idx_next = idx_prev + 1;
                while idx_next + 1 < tp.len() - 1 && tp[idx_next].time < sim.state.time { idx_next += 1; }
                let time_extend = tp[idx_next - 1].time;
                let seg: Vec<LinkIdx> = tp[idx_prev..idx_next].iter().map(|x| x.link_idx).collect();
                if sim.extend_path(&route.network, &seg).is_err() { return Ok(()); }
                idx_prev = idx_next;
                while sim.state.time < time_extend { if sim.step().is_err() { return Ok(()); } steps += 1; if steps > cap { return Err((stuck(&sim, steps), sim.clone())); } }
            }
        } else if sim.extend_path(&route.network, &route.path).is_err() { return Ok(()); }
        loop {
            let end = sim.path_tpc.offset_end().value;
            let cont = sim.state.offset.value < end - 1000.0 * 0.3048 || (sim.state.offset.value < end && sim.state.speed.value != 0.0);
            if !cont { return Ok(()); }
            if sim.step().is_err() { return Ok(()); }
            steps += 1;
            if steps > cap { return Err((stuck(&sim, steps), sim.clone())); }
        }
    }));
    match r { Ok(x) => x, Err(_) => Ok(()) }
}
/// the same for a simulation whose path is already supplied
fn preflight_built(sim: &SpeedLimitTrainSim, cap: usize) -> Result<(), String> {
    let mut sim = sim.clone();
    sim.set_save_interval(None);
    let r = catch(std::panic::AssertUnwindSafe(|| -> Result<(), String> {
        let mut steps = 0usize;
        loop {
            let end = sim.path_tpc.offset_end().value;
            let cont = sim.state.offset.value < end - 1000.0 * 0.3048 || (sim.state.offset.value < end && sim.state.speed.value != 0.0);
            if !cont { return Ok(()); }
            if sim.step().is_err() { return Ok(()); }
            steps += 1;
            if steps > cap { return Err(stuck(&sim, steps)); }
        }
    }));
    match r { Ok(x) => x, Err(_) => Ok(()) }
}
fn stuck(sim: &SpeedLimitTrainSim, steps: usize) -> String {
    format!("the run does not terminate: after {} steps the train is at offset {} with speed {} and target {}, path end {} (stopping window starts at {})",
        steps, sim.state.offset.value, sim.state.speed.value, sim.state.speed_target.value, sim.path_tpc.offset_end().value, sim.path_tpc.offset_end().value - 304.8)
}

/// whole run through the public walk() / walk_timed_path(): only the saved history is inspected
fn api_run(r: &mut Rng, t: usize, timed: bool, sink: &mut Sink) {
    let o = SlOpts { profile: [0, 2, 1, 3][t % 4], size: [1, 2, 0][t % 3], default_consist: t % 3 != 2, schedule: 0, max_steps: 0, dt: 1.0,
        ramp_up_time: if t % 4 == 3 { Some(60.0) } else { None }, clean_start: true, max_total: 25000.0 };
    let r_replay = r.clone();
    let (train, route, made) = sl_make(r, &o);
    let mut tags = route.tags.clone(); tags.extend(train.tags.clone());
    let kind = if timed { "sl_timed" } else { "sl_walk" };
    let input = json!({"sim": "speed_limit", "route": route_json(&route), "train": train_json(&train), "api": kind});
    let mut fails = vec![];
    let mut o_ = Outs::new();
    if let Ok(mut sim) = made {
        // entry times as if running at 12 m/s; the code extends the path as simulated time passes them
        let mut tp = vec![]; let mut acc = 0.0;
        for l in &route.path { tp.push(LinkIdxTime::new(*l, uc::S * (acc / 12.0))); acc += route.network[l.idx()].length.value; }
        tp.push(LinkIdxTime::new(LinkIdx::new(0), uc::S * (acc / 12.0)));
        if let Err((m, stuck_sim)) = preflight(&sim, &route, if timed { Some(&tp) } else { None }, 40000) {
            if let Some(Err(e)) = real_walk_probe(&stuck_sim, 3) { if e.contains("came to rest") {
                tags.push("run_end:rest_outside_window_reported".into());
                sink.put(Case { id: format!("{}/{}", kind, t), kind: kind.into(), coq: String::new(), outcome: Outcome::Ok(o_), tags, input,
                    oracle_fail: vec![], known: vec![], in_domain: true });
                return;
            } }
            tags.push("run_end:does_not_terminate".into());
            sink.put(Case { id: format!("{}/{}", kind, t), kind: kind.into(), coq: String::new(), outcome: Outcome::Ok(o_), tags, input,
                oracle_fail: vec![m], known: vec![], in_domain: true });
            return;
        }
        let res = if timed {
            catch(std::panic::AssertUnwindSafe(|| sim.walk_timed_path(&route.network, &tp)))
        } else {
            match catch(std::panic::AssertUnwindSafe(|| sim.extend_path(&route.network, &route.path))) {
                Ok(Ok(())) => catch(std::panic::AssertUnwindSafe(|| sim.walk())),
                Ok(Err(e)) => Ok(Err(e)), Err(p) => Err(p),
            }
        };
        let h = &sim.history;
        let n = h.time.len();
        o_.z("rows", n as i64);
        let mut nbad = 0; let mut firstbad = None;
        for k in 0..n {
            let (v, lim, tgt) = (h.speed[k].value, h.speed_limit[k].value, h.speed_target[k].value);
            let bad = if !(v >= -1e-9) { Some(format!("negative speed {}", v)) }
                else if k > 0 && !(v <= lim * (1.0 + 1e-9) + 1e-9) { Some(format!("speed {} above the limit in force {}", v, lim)) }
                else if k > 0 && !(tgt <= lim * (1.0 + 1e-12)) { Some(format!("controller target {} above the limit in force {}", tgt, lim)) } else { None };
            if let Some(b) = bad { nbad += 1; if firstbad.is_none() { firstbad = Some((k, b)); } }
        }
        if let (Some((k, b)), false) = (firstbad, matches!(res, Err(_))) { fails.push(format!("history: {} of {} saved rows violate the property, first at row {}: {}", nbad, n, k, b)); }
        match res {
            Ok(Ok(())) => {
                tags.push("run_end:ok".into());
                let end = sim.path_tpc.offset_end().value;
                if sim.state.offset.value > end + 1e-6 { fails.push(format!("the run ended at offset {} beyond the end of its path {}", sim.state.offset.value, end)); }
                if sim.state.speed.value != 0.0 { fails.push(format!("the run ended moving at {} m/s (offset {}, path end {})", sim.state.speed.value, sim.state.offset.value, end)); }
                else if sim.state.offset.value < end - 1000.0 * 0.3048 { fails.push(format!("the run ended at rest at {} outside the stopping window before {}", sim.state.offset.value, end)); }
            }
            Ok(Err(e)) => { let (c, _) = train_err_code(&e); tags.push(format!("run_end:error{}", c)); }
            Err(p) => {
                tags.push("run_end:panic".into());
                // drive the same run step by step to say whether an adequacy hypothesis failed before the abort
                let mut o2 = SlOpts { max_steps: 8000, ..o };
                o2.schedule = 0;
                let mut rr = r_replay.clone();
                let ctx = sl_run(&mut rr, "diag".into(), &o2);
                let (mut nb, mut nt, mut firstb) = (0usize, 0usize, None);
                for s in &ctx.steps { if let Ok(pp) = &s.post { if let Some(a) = adequacy(s, pp) { if !a.brake { nb += 1; if firstb.is_none() { firstb = Some(s.k); } } if !a.traction { nt += 1; } } } }
                tags.push(format!("panic_after_BrakeAdequate_failed:{}", if nb > 0 { "yes" } else { "no" }));
                fails.push(format!("the run panicked: {} [step-by-step replay: {} steps, BrakeAdequate failed on {} (first at step {:?}), TractionAdequate failed on {}; friction-brake ramp_up_time {} s]",
                    p.chars().take(160).collect::<String>(), ctx.steps.len(), nb, firstb, nt, sim.fric_brake.ramp_up_time.value));
            }
        }
    } else { tags.push("run_end:not_built".into()); }
    sink.put(Case { id: format!("{}/{}", kind, t), kind: kind.into(), coq: String::new(), outcome: Outcome::Ok(o_), tags, input,
        oracle_fail: fails, known: vec![], in_domain: true });
}

/// The witness family of `bp_target_le_limit_refuted`: a slow section, a faster window shorter than the
/// braking distance down to the medium section behind it.
pub fn witness_route(slow: f64, fast: f64, medium: f64, window: f64, lead: f64, tail: f64) -> Route {
    let len = lead + window + tail;
    let sl = vec![
        SpeedLimit { offset_start: uc::M * 0.0, offset_end: uc::M * lead, speed: uc::MPS * slow },
        SpeedLimit { offset_start: uc::M * lead, offset_end: uc::M * (lead + window), speed: uc::MPS * fast },
        SpeedLimit { offset_start: uc::M * (lead + window), offset_end: uc::M * len, speed: uc::MPS * medium },
    ];
    let link = Link { idx_curr: LinkIdx::new(1), idx_flip: LinkIdx::new(0), idx_next: LinkIdx::new(0), idx_next_alt: LinkIdx::new(0),
        idx_prev: LinkIdx::new(0), idx_prev_alt: LinkIdx::new(0), osm_id: None, length: uc::M * len,
        elevs: vec![Elev { offset: uc::M * 0.0, elev: uc::M * 100.0 }, Elev { offset: uc::M * len, elev: uc::M * 100.0 }],
        headings: vec![], speed_sets: HashMap::new(),
        speed_set: Some(SpeedSet { speed_limits: sl, speed_params: vec![], is_head_end: true }), cat_power_limits: vec![], link_idxs_lockout: vec![] };
    Route { network: vec![Link::default(), link], path: vec![LinkIdx::new(1)], tags: vec!["route:witness(slow,fast_window,medium)".into()] }
}

fn witness_cases(r: &mut Rng, n: usize, sink: &mut Sink) {
    for k in 0..n {
        let slow = r.range(6.0, 11.0).round(); let medium = slow + r.range(2.0, 6.0).round(); let fast = medium + r.range(3.0, 8.0).round();
        let window = r.range(30.0, 120.0).round();
        let route = witness_route(slow, fast, medium, window, 1500.0, 2500.0);
        let train = gen_train(r, 0, true);
        let b = builder(&train, None, true);
        let mut tags = route.tags.clone(); tags.extend(train.tags.clone());
        let mut fails = vec![]; let mut o = Outs::new();
        let input = json!({"sim": "speed_limit", "route": route_json(&route), "train": train_json(&train), "slow": slow, "fast": fast, "medium": medium, "window": window});
        let made = catch(std::panic::AssertUnwindSafe(|| b.make_speed_limit_train_sim(&location_map(), Some(1), None, None)));
        let mut coq = String::new(); let mut outcome = None;
        if let Ok(Ok(mut sim)) = made {
            let st = sim.state; let cache = res_cache(&sim.train_res); let force_max = sim.fric_brake.force_max.value; let rp = res_params(&sim.train_res);
            match catch(std::panic::AssertUnwindSafe(|| sim.extend_path(&route.network, &route.path))) {
                Ok(Ok(())) => {
                    let (pts, idx) = braking_points(&sim);
                    let rc = RecalcRec { st, cache, force_max, path: sim.path_tpc.clone(), result: Ok((pts.clone(), idx)) };
                    coq = recalc_coq(&rc, &rp, true, 200000);
                    outcome = Some(Outcome::Ok(outs_points(&pts, idx)));
                    fails.extend(points_oracle(&pts));
                    o.z("points", pts.len() as i64);
                    if let Err(m) = preflight_built(&sim, 40000) {
                        match real_walk_probe(&sim, 3) { Some(Err(e)) if e.contains("came to rest") => tags.push("run_end:rest_outside_window_reported".into()),
                            _ => { tags.push("run_end:does_not_terminate".into()); fails.push(m); } }
                    } else {
                    match catch(std::panic::AssertUnwindSafe(|| sim.walk())) {
                        Ok(Ok(())) => tags.push("run_end:ok".into()),
                        Ok(Err(e)) => { let (c, _) = train_err_code(&e); tags.push(format!("run_end:error{}", c)); }
                        Err(p) => { tags.push("run_end:panic".into()); fails.push(format!("the run panicked: {}", p.chars().take(160).collect::<String>())); }
                    } }
                }
                Ok(Err(e)) => { let (c, _) = train_err_code(&e); tags.push(format!("extend_path:error{}", c)); }
                Err(p) => { tags.push("extend_path:panic".into()); fails.push(format!("extend_path panicked: {}", p)); }
            }
        }
        sink.put(Case { id: format!("witness/{}", k), kind: "witness".into(), coq, outcome: outcome.unwrap_or(Outcome::Ok(o)), tags, input,
            oracle_fail: fails, known: vec![], in_domain: true });
    }
}

pub fn run(seed: u64, n: usize, sink: &mut Sink) {
    let mut r = Rng::new(seed ^ 0xC03);
    witness_cases(&mut r, (n / 60).max(3), sink);
    let n_api = (n / 40).max(4);
    for t in 0..n_api { let mut rr = r.fork(); api_run(&mut rr, t, t % 2 == 1, sink); }
    // the enforced limit comes from the network: braking points and speed profile that extend_path derives from
    // the network, the train parameters and the route, against the end-to-end model (WholeSim.sl_prepare)
    { let mut rf = r.fork(); crate::c11::full_walk_cases(&mut rf, 0, (n / 25).max(10), sink); }
    let per_run = 30;
    let n_runs = (n / (per_run + 4)).max(2);
    for t in 0..n_runs {
        let mut rr = r.fork();
        let o = sl_opts(&mut rr, t);
        let ctx = sl_run(&mut rr, format!("sl{}", t), &o);
        emit_recalcs(&ctx, sink);
        emit_steps(&mut rr, &ctx, false, per_run, sink, &oracle_c03, &tags_c03);
        emit_run(&ctx, sink, "sl_hist");
    }
    // directed: a heavy train on a sustained 3.5 % up-grade that its consist cannot hold.  It slows down and stalls; the
    // run has to end with the explicit "not sufficient power to move" error BEFORE a step ends with a negative speed
    // (/repo fix 4215761; a negative speed in any saved row is a violation)
    for t in 0..2usize {
        let mut rr = r.fork();
        let mut o = sl_opts(&mut rr, 7 * t);
        o.profile = 4; o.size = 2; o.default_consist = true; o.schedule = 0; o.dt = 1.0; o.ramp_up_time = None;
        let ctx = sl_run(&mut rr, format!("stall{}", t), &o);
        emit_steps(&mut rr, &ctx, false, 12, sink, &oracle_c03, &tags_c03);
        emit_run(&ctx, sink, "sl_hist");
    }
}
