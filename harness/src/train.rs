//! Train-level helpers shared by C03, C07, C12, C14: route / train / trace generators, exact Coq
//! printing of TrainState, path tables, braking points, lock-step drivers for
//! `SetSpeedTrainSim::step` and `SpeedLimitTrainSim::step`, error-code mapping.
//! Field orders mirror coq/model/{Resist,Braking,TrainStep,ExecTrain}.v.
use crate::pt::*;
use crate::util::*;
use altrios_core::consist::Consist;
use altrios_core::consist::LocoTrait;
use altrios_core::lin_search_hint::Dir;
use altrios_core::prelude::*;
use altrios_core::track::{PathResCoeff, SpeedLimit};
use altrios_core::train::{kind, method, ResMethod};
use altrios_core::uc;
use serde_json::{json, Value};
use std::collections::HashMap;

// ---------------------------------------------------------------- routes
pub struct Route {
    pub network: Vec<Link>,
    pub path: Vec<LinkIdx>,
    pub tags: Vec<String>,
}
impl Route {
    pub fn total_len(&self) -> f64 { self.path.iter().map(|l| self.network[l.idx()].length.value).sum() }
}

fn gen_knots(r: &mut Rng, len: f64, k: usize) -> Vec<f64> {
    // k segments -> k+1 offsets from 0 to len, strictly increasing
    let mut v: Vec<f64> = vec![0.0];
    let mut inner: Vec<f64> = (0..k.saturating_sub(1)).map(|_| (r.range(0.02, 0.98) * len * 8.0).round() / 8.0).collect();
    inner.sort_by(|a, b| a.partial_cmp(b).unwrap());
    for x in inner { if x > *v.last().unwrap() && x < len { v.push(x); } }
    v.push(len);
    v
}

/// `profile`: 0 mixed lengths, 1 many short links, 2 few long links, 3 default-like (one 10 km link)
pub fn gen_route(r: &mut Rng, profile: usize, min_total: f64, speed_max: f64) -> Route { gen_route_ext(r, profile, min_total, speed_max, 0.0, f64::INFINITY) }

/// `clean_start`: no speed restriction begins before this offset; `max_total`: stop adding links beyond this length
pub fn gen_route_ext(r: &mut Rng, profile: usize, min_total: f64, speed_max: f64, clean_start: f64, max_total: f64) -> Route {
    // profile 4 ("stall"): two long links, a flat run-up and then a sustained 3.5 % up-grade that a heavy train cannot hold
    let n = match profile { 1 => 12 + r.below(20), 2 => 2 + r.below(3), 3 => 1, 4 => 2, _ => 3 + r.below(14) };
    let mut network = vec![Link::default()];
    let mut total = 0.0;
    let mut i = 0usize;
    let mut n_short = 0; let mut n_long = 0; let mut n_restr = 0; let mut n_noelev = 0;
    while (i < n && total < max_total) || total < min_total {
        let cat = match profile { 1 => if r.chance(0.8) { 0 } else { 1 }, 2 | 4 => 2, 3 => 3, _ => r.below(3) };
        let len = match cat {
            0 => { n_short += 1; (r.lrange(2.0, 80.0) * 4.0).round() / 4.0 }
            1 => (r.lrange(100.0, 3000.0)).round(),
            2 => { n_long += 1; (r.lrange(5000.0, 30000.0)).round() }
            _ => 10000.0,
        };
        let idx = network.len() as u32;
        // elevation: piecewise linear, grades within +-2.5 %
        let elevs: Vec<Elev> = if profile == 4 {
            let e0 = 100.0 + 0.035 * 0.7 * 30000.0 * i as f64; let flat = if i == 0 { 0.3 * len } else { 0.0 };
            let mut out = vec![Elev { offset: uc::M * 0.0, elev: uc::M * e0 }];
            if flat > 0.0 { out.push(Elev { offset: uc::M * flat, elev: uc::M * e0 }); }
            out.push(Elev { offset: uc::M * len, elev: uc::M * (e0 + 0.035 * (len - flat)) });
            out
        } else if r.chance(0.08) { n_noelev += 1; vec![] } else {
            let k = if len < 20.0 { 1 } else { 1 + r.below(5) };
            let knots = gen_knots(r, len, k);
            let mut e = r.range(0.0, 500.0);
            let mut out = vec![Elev { offset: uc::M * 0.0, elev: uc::M * e }];
            for w in knots.windows(2) {
                let g = match r.below(8) { 0 => 0.0, 1 => 0.025, 2 => -0.025, _ => r.range(-0.025, 0.025) };
                e += g * (w[1] - w[0]);
                out.push(Elev { offset: uc::M * w[1], elev: uc::M * e });
            }
            out
        };
        let headings: Vec<Heading> = if r.chance(0.25) { vec![] } else {
            let k = if len < 20.0 { 1 } else { 1 + r.below(4) };
            let knots = gen_knots(r, len, k);
            let mut h = r.range(0.0, 6.28);
            let mut out = vec![Heading { offset: uc::M * 0.0, heading: uc::RAD * h, lat: None, lon: None }];
            for w in knots.windows(2) {
                // curvature up to ~6 degrees per 100 ft
                let curv = if r.chance(0.4) { 0.0 } else { r.range(-1.0, 1.0) * 0.0034 };
                h = (h + curv * (w[1] - w[0])).rem_euclid(6.283_185_307_179_586);
                out.push(Heading { offset: uc::M * w[1], heading: uc::RAD * h, lat: None, lon: None });
            }
            out
        };
        // speed: a base limit for the link and up to two lower restrictions inside it
        let clean = total < clean_start;
        let base = if clean { speed_max * 1.5 } else { match r.below(6) { 0 => speed_max, 1 => speed_max * 1.5, _ => r.range(6.0, 26.0) } };
        let mut sl = vec![SpeedLimit { offset_start: uc::M * 0.0, offset_end: uc::M * len, speed: uc::MPS * base }];
        if len > 50.0 && !clean && r.chance(0.45) {
            let nr = 1 + r.below(2);
            let mut a = r.range(0.0, 0.4) * len;
            for _ in 0..nr {
                let b = (a + r.range(0.05, 0.3) * len).min(len);
                if b > a + 1.0 {
                    sl.push(SpeedLimit { offset_start: uc::M * a.round(), offset_end: uc::M * b.round(), speed: uc::MPS * (base * r.range(0.3, 0.9)).max(2.0) });
                    n_restr += 1;
                }
                a = b + r.range(0.02, 0.2) * len;
                if a >= len { break; }
            }
        }
        let link = Link {
            idx_curr: LinkIdx::new(idx), idx_flip: LinkIdx::new(0),
            idx_next: LinkIdx::new(idx + 1), idx_next_alt: LinkIdx::new(0),
            idx_prev: LinkIdx::new(idx - 1), idx_prev_alt: LinkIdx::new(0),
            osm_id: None, length: uc::M * len, elevs, headings,
            speed_sets: HashMap::new(),
            speed_set: Some(SpeedSet { speed_limits: sl, speed_params: vec![], is_head_end: r.chance(0.3) }),
            cat_power_limits: vec![], link_idxs_lockout: vec![],
        };
        network.push(link);
        total += len;
        i += 1;
        if i > 400 { break; }
    }
    let last = network.len() - 1;
    network[last].idx_next = LinkIdx::new(0);
    let path: Vec<LinkIdx> = (1..network.len()).map(|k| LinkIdx::new(k as u32)).collect();
    let tags = vec![format!("route:profile{}", profile), format!("route:links{}", bucket(path.len())),
        format!("route:short_links:{}", if n_short > 0 { "yes" } else { "no" }),
        format!("route:long_links:{}", if n_long > 0 { "yes" } else { "no" }),
        format!("route:restrictions:{}", if n_restr > 0 { "yes" } else { "no" }),
        format!("route:link_without_elevs:{}", if n_noelev > 0 { "yes" } else { "no" })];
    Route { network, path, tags }
}

pub fn bucket(n: usize) -> &'static str {
    match n { 0 => "0", 1 => "1", 2..=4 => "2-4", 5..=9 => "5-9", 10..=19 => "10-19", _ => "20+" }
}

// ---------------------------------------------------------------- trains
pub struct TrainSpec {
    pub rvs: Vec<RailVehicle>,
    pub n_cars: HashMap<String, u32>,
    pub consist: Consist,
    pub tags: Vec<String>,
}
impl TrainSpec {
    pub fn length(&self) -> f64 { self.rvs.iter().map(|rv| rv.length.value * self.n_cars[&rv.car_type] as f64).sum() }
    pub fn speed_max(&self) -> f64 { self.rvs.iter().map(|rv| rv.speed_max.value).fold(f64::INFINITY, f64::min) }
}

pub fn gen_rail_vehicle(r: &mut Rng, name: &str, loaded: bool) -> RailVehicle {
    RailVehicle {
        car_type: name.into(),
        length: uc::M * *r.pick(&[18.0, 16.5, 21.3, 18.0]),
        axle_count: 4, brake_count: 1,
        mass_static_base: uc::KG * r.range(25000.0, 33000.0).round(),
        mass_freight: uc::KG * if loaded { r.range(60000.0, 105000.0).round() } else { 0.0 },
        speed_max: uc::MPS * *r.pick(&[20.0, 22.0, 25.0, 31.0]),
        braking_ratio: uc::R * r.range(0.08, 0.14),
        mass_rot_per_axle: uc::KG * r.range(600.0, 800.0).round(),
        bearing_res_per_axle: uc::N * r.range(30.0, 50.0),
        rolling_ratio: uc::R * r.range(0.0012, 0.0020),
        davis_b: uc::SPM * if r.chance(0.5) { 0.0 } else { r.range(0.0, 3e-5) },
        cd_area: uc::M2 * r.range(2.0, 6.0),
        curve_coeff_0: uc::R * 0.056, curve_coeff_1: uc::R * 0.4387579, curve_coeff_2: uc::R * 0.01025485,
    }
}

/// `size`: 0 short train (5-12 cars), 1 medium, 2 long (90-130 cars)
pub fn gen_train(r: &mut Rng, size: usize, default_consist: bool) -> TrainSpec {
    let two_types = r.chance(0.4);
    let n_total = match size { 0 => 5 + r.below(8), 1 => 25 + r.below(40), _ => 90 + r.below(40) } as u32;
    let mut rvs = vec![gen_rail_vehicle(r, "Loaded", true)];
    let mut n_cars = HashMap::new();
    if two_types {
        rvs.push(gen_rail_vehicle(r, "Empty", false));
        let a = 1 + r.below(n_total as usize - 1) as u32;
        n_cars.insert("Loaded".to_string(), a);
        n_cars.insert("Empty".to_string(), n_total - a);
    } else {
        n_cars.insert("Loaded".to_string(), n_total);
    }
    let consist = if default_consist { Consist::default() } else { rand_consist(r) };
    let tags = vec![format!("train:size{}", size), format!("train:car_types{}", rvs.len()),
        format!("train:consist:{}", if default_consist { "default" } else { "random" })];
    TrainSpec { rvs, n_cars, consist, tags }
}

/// Gate the speed sets of some links of the route by train-parameter conditions that hold EXACTLY at the
/// boundary for this train (axle count >= / <= / == its own axle count; > and < one off): on the unchanged
/// code every set keeps applying, so nothing else changes; a slip in the comparison drops or keeps a set.
/// Deterministic in the route (no random draws).
pub fn gate_route(route: &mut Route, t: &TrainSpec) {
    use altrios_core::track::{CompareType, LimitType, SpeedParam};
    let cfg = match TrainConfig::new(t.rvs.clone(), t.n_cars.clone(), TrainType::Freight, None, None, None) { Ok(c) => c, Err(_) => return };
    let tp = match cfg.make_train_params() { Ok(p) => p, Err(_) => return };
    let ax = tp.axle_count as f64;
    let nl = route.network.len();
    let mut n = 0;
    for (i, l) in route.network.iter_mut().enumerate().skip(1) {
        if (i + nl) % 3 != 0 { continue; }
        if let Some(ss) = &mut l.speed_set {
            let (ct, v) = match (i / 3) % 5 { 0 => (CompareType::TpGreaterThanEqualRp, ax), 1 => (CompareType::TpLessThanEqualRp, ax), 2 => (CompareType::TpEqualRp, ax),
                3 => (CompareType::TpGreaterThanRp, ax - 1.0), _ => (CompareType::TpLessThanRp, ax + 1.0) };
            ss.speed_params.push(SpeedParam { limit_val: v, limit_type: LimitType::AxleCount, compare_type: ct });
            n += 1;
        }
    }
    route.tags.push(format!("route:gated_speed_sets:{}", if n > 0 { "yes" } else { "no" }));
}

pub fn builder(t: &TrainSpec, init: Option<InitTrainState>, with_od: bool) -> TrainSimBuilder {
    let cfg = TrainConfig::new(t.rvs.clone(), t.n_cars.clone(), TrainType::Freight, None, None, None).expect("train config");
    TrainSimBuilder::new("t".into(), cfg, t.consist.clone(),
        if with_od { Some("A".into()) } else { None }, if with_od { Some("B".into()) } else { None }, init)
}

pub fn location_map() -> HashMap<String, Vec<Location>> {
    let mk = |id: &str, l: u32| Location { location_id: id.into(), offset: uc::M * 0.0, link_idx: LinkIdx::new(l),
        is_front_end: false, grid_emissions_region: "x".into(), electricity_price_region: "x".into(), liquid_fuel_price_region: "x".into() };
    let mut m = HashMap::new();
    m.insert("A".to_string(), vec![mk("A", 1)]);
    m.insert("B".to_string(), vec![mk("B", 1)]);
    m
}

// ---------------------------------------------------------------- speed traces
/// irregular time stamps, piecewise constant acceleration, stops, never negative
pub fn gen_trace(r: &mut Rng, n: usize, t0: f64, v0: f64, vmax: f64, irregular: bool, max_dist: f64) -> (Vec<f64>, Vec<f64>) {
    let mut t = vec![t0]; let mut v = vec![v0];
    let mut acc = 0.2; let mut hold = 0usize; let mut dist = 0.0;
    for _ in 1..n {
        let dt = if irregular { *r.pick(&[0.25, 0.5, 1.0, 1.0, 2.0, 5.0]) * if r.chance(0.5) { r.range(0.7, 1.3) } else { 1.0 } } else { 1.0 };
        if hold == 0 {
            hold = 3 + r.below(25);
            acc = match r.below(6) { 0 => 0.0, 1 | 2 => r.range(0.02, 0.35), 3 => -r.range(0.02, 0.5), 4 => -0.6, _ => r.range(-0.1, 0.1) };
        }
        hold -= 1;
        let vp = *v.last().unwrap();
        let mut vn = (vp + acc * dt).max(0.0).min(vmax);
        if dist + 0.5 * (vp + vn) * dt + vn * vn > max_dist { vn = (vp - 0.7 * dt).max(0.0); }
        if vn < 1e-3 { vn = 0.0; }
        dist += 0.5 * (vp + vn) * dt;
        t.push(t.last().unwrap() + dt); v.push(vn);
    }
    (t, v)
}

// ---------------------------------------------------------------- reading private parts through serde
pub fn res_cache(tr: &TrainRes) -> [usize; 4] {
    let v = serde_json::to_value(tr).expect("train_res to_value");
    let s = &v["Strap"];
    let g = |a: &str, b: &str| s[a][b].as_u64().expect("cache idx") as usize;
    [g("grade", "idx_front"), g("grade", "idx_back"), g("curve", "idx_front"), g("curve", "idx_back")]
}
/// (bearing force, rolling ratio, davis_b, cd_area)
pub fn res_params(tr: &TrainRes) -> [f64; 4] {
    let v = serde_json::to_value(tr).expect("train_res to_value");
    let s = &v["Strap"];
    let g = |a: &str, b: &str| s[a][b].as_f64().expect("res param");
    [g("bearing", "force"), g("rolling", "ratio"), g("davis_b", "davis_b"), g("aerodynamic", "cd_area")]
}
pub fn is_strap(tr: &TrainRes) -> bool { matches!(tr, TrainRes::Strap(_)) }

/// braking points (offset, limit, target) and idx_curr of a SpeedLimitTrainSim
pub fn braking_points(sim: &SpeedLimitTrainSim) -> (Vec<[f64; 3]>, usize) {
    let v = serde_json::to_value(&sim.braking_points).expect("bp to_value");
    let f = |x: &Value| x.as_f64().unwrap_or(f64::NAN);
    let pts = v["points"].as_array().expect("points").iter().map(|p| [f(&p["offset"]), f(&p["speed_limit"]), f(&p["speed_target"])]).collect();
    (pts, v["idx_curr"].as_u64().expect("the serialised BrakingPoints no longer carry idx_curr (the braking cursor): the state of a SpeedLimitTrainSim cannot be observed or resumed after save/load") as usize)
}
pub fn braking_idx(sim: &SpeedLimitTrainSim) -> usize {
    serde_json::to_value(&sim.braking_points).expect("bp")["idx_curr"].as_u64().expect("the serialised BrakingPoints no longer carry idx_curr (the braking cursor): the state of a SpeedLimitTrainSim cannot be observed or resumed after save/load") as usize
}

// ---------------------------------------------------------------- Coq printers
pub fn coq_tstate(s: &TrainState) -> String {
    format!("(Build_TState (Build_Kin {} {} {} {} {} {} {} {} {} {} {}) (Build_Par {} {} {} {}) (Build_Rs {} {} {} {} {} {} {} {} {} {}) (Build_Pw {} {} {} {} {} {}))",
        cf(s.time.value), cnat(s.i), cf(s.offset.value), cf(s.offset_back.value), cf(s.total_dist.value),
        cz(s.link_idx_front as i64), cf(s.offset_in_link.value), cf(s.speed.value), cf(s.speed_limit.value),
        cf(s.speed_target.value), cf(s.dt.value),
        cf(s.length.value), cf(s.mass_static.value), cf(s.mass_rot.value), cf(s.mass_freight.value),
        cf(s.weight_static.value), cf(s.res_rolling.value), cf(s.res_bearing.value), cf(s.res_davis_b.value),
        cf(s.res_aero.value), cf(s.res_grade.value), cf(s.res_curve.value), cf(s.grade_front.value),
        cf(s.grade_back.value), cf(s.elev_front.value),
        cf(s.pwr_res.value), cf(s.pwr_accel.value), cf(s.pwr_whl_out.value), cf(s.energy_whl_out.value),
        cf(s.energy_whl_out_pos.value), cf(s.energy_whl_out_neg.value))
}
pub fn coq_prcs(t: &[PathResCoeff]) -> String {
    format!("[{}]", t.iter().map(|p| format!("Build_PRC {} {} {}", cf(p.offset.value), cf(p.res_coeff.value), cf(p.res_net.value))).collect::<Vec<_>>().join("; "))
}
pub fn coq_prcs_raw(t: &[[f64; 3]]) -> String {
    format!("[{}]", t.iter().map(|p| format!("Build_PRC {} {} {}", cf(p[0]), cf(p[1]), cf(p[2]))).collect::<Vec<_>>().join("; "))
}
pub fn coq_lps(p: &PathTpc) -> String {
    format!("[{}]", p.link_points().iter().map(|l| format!("Build_LinkPt {} {}", cf(l.offset.value), cz(l.link_idx.idx() as i64))).collect::<Vec<_>>().join("; "))
}
pub fn coq_rp(rp: &[f64; 4]) -> String { format!("(Build_ResParams {} {} {} {})", cf(rp[0]), cf(rp[1]), cf(rp[2]), cf(rp[3])) }
pub fn coq_cache(c: &[usize; 4]) -> String {
    format!("(Build_ResCache (Build_SIdx {} {}) (Build_SIdx {} {}))", cnat(c[0]), cnat(c[1]), cnat(c[2]), cnat(c[3]))
}
pub fn coq_env(p: &PathTpc, rp: &[f64; 4]) -> String {
    format!("(Build_Env {} {} {} {})", coq_prcs(p.grades()), coq_prcs(p.curves()), coq_lps(p), coq_rp(rp))
}
pub fn coq_cl(cl: &[f64; 4]) -> String { format!("(Build_ConLim {} {} {} {})", cf(cl[0]), cf(cl[1]), cf(cl[2]), cf(cl[3])) }
pub fn coq_bps(pts: &[[f64; 3]]) -> String {
    format!("[{}]", pts.iter().map(|p| format!("Build_BP {} {} {}", cf(p[0]), cf(p[1]), cf(p[2]))).collect::<Vec<_>>().join("; "))
}
pub fn coq_sps(p: &PathTpc) -> String {
    format!("[{}]", p.speed_points().iter().map(|s| format!("Build_SP {} {}", cf(s.offset.value), cf(s.speed_limit.value))).collect::<Vec<_>>().join("; "))
}
pub fn coq_dir(d: &Dir) -> &'static str { match d { Dir::Unk => "DUnk", Dir::Fwd => "DFwd", Dir::Bwd => "DBwd" } }

// ---------------------------------------------------------------- field extraction (order of ExecTrain.ts_outs)
pub fn outs_tstate(s: &TrainState) -> Outs {
    let mut o = Outs::new();
    let w = s.weight_static.value.abs().max(1.0) * 1e-3;
    o.f("k.time", s.time.value, 1.0); o.z("k.i", s.i as i64); o.f("k.offset", s.offset.value, 1.0);
    o.f("k.offset_back", s.offset_back.value, 1.0); o.f("k.total_dist", s.total_dist.value, 1.0);
    o.z("k.link_idx_front", s.link_idx_front as i64); o.f("k.offset_in_link", s.offset_in_link.value, 1.0);
    o.f("k.speed", s.speed.value, 1.0); o.f("v.speed_limit", s.speed_limit.value, 1.0);
    o.f("v.speed_target", s.speed_target.value, 1.0); o.f("k.dt", s.dt.value, 1.0);
    o.f("p.length", s.length.value, 1.0); o.f("p.mass_static", s.mass_static.value, 1.0);
    o.f("p.mass_rot", s.mass_rot.value, 1.0); o.f("p.mass_freight", s.mass_freight.value, 1.0);
    o.f("r.weight_static", s.weight_static.value, w); o.f("r.res_rolling", s.res_rolling.value, w);
    o.f("r.res_bearing", s.res_bearing.value, w); o.f("r.res_davis_b", s.res_davis_b.value, w);
    o.f("r.res_aero", s.res_aero.value, w); o.f("r.res_grade", s.res_grade.value, w);
    o.f("r.res_curve", s.res_curve.value, w); o.f("r.grade_front", s.grade_front.value, 1e-3);
    o.f("r.grade_back", s.grade_back.value, 1e-3); o.f("r.elev_front", s.elev_front.value, 1.0);
    o.f("w.pwr_res", s.pwr_res.value, 1e5); o.f("w.pwr_accel", s.pwr_accel.value, 1e5);
    o.f("w.pwr_whl_out", s.pwr_whl_out.value, 1e5); o.f("w.energy_whl_out", s.energy_whl_out.value, 1e6);
    o.f("w.energy_whl_out_pos", s.energy_whl_out_pos.value, 1e6); o.f("w.energy_whl_out_neg", s.energy_whl_out_neg.value, 1e6);
    o
}
pub fn outs_cache(o: &mut Outs, c: &[usize; 4]) {
    o.z("r.cache.grade_front", c[0] as i64); o.z("r.cache.grade_back", c[1] as i64);
    o.z("r.cache.curve_front", c[2] as i64); o.z("r.cache.curve_back", c[3] as i64);
}

// ---------------------------------------------------------------- error codes
/// Map an anyhow error of the train-level code to the model's numeric code (coq/model/Resist.v,
/// TrainStep.v, Braking.v). 998 = raised inside the consist (outside the train-level model),
/// 999 = not recognised.
pub fn train_err_code(e: &anyhow::Error) -> (i64, String) {
    let m = format!("{:#}", e);
    let table: &[(&str, i64)] = &[
        ("Offset in forward direction larger than last slice offset", 1101),
        ("Offset in reverse direction smaller than first slice offset", 1106),
        ("self.speed_trace.speed[self.state.i] >= si::Velocity::ZERO", 1202),
        ("self.speed_trace.speed[self.state.i - 1] >= si::Velocity::ZERO", 1202),
        ("pwr_pos_max >= si::Power::ZERO", 1205),
        ("Insufficient braking force", 1301),
        ("Train does not have sufficient power to move", 1302),
        ("Too much force requested from friction brake", 1303),
        ("Power wheel out is larger than max positive power", 1304),
        ("Power wheel out is larger than max negative power", 1305),
        ("fric_brake.force_max + train_state.res_net() > si::Force::ZERO", 1320),
        ("Train came to rest at", 1306),
    ];
    for (pat, code) in table { if m.contains(pat) { return (*code, m); } }
    if m.contains("train_state.rs") { return (1211, m); }
    let (c, _) = consist_err_code(e);
    if c != 999 || m.contains("consist") || m.contains("loco") { return (998, m); }
    (999, m)
}

// ---------------------------------------------------------------- consist limits as the step will see them
/// Runs the three consist calls that precede the train-level computation on a CLONE and returns
/// (pwr_out_max, pwr_rate_out_max, pwr_dyn_brake_max, force_max), or None when the consist itself fails.
pub fn peek_consist(con: &Consist, path: &PathTpc, offset: f64, dt: f64) -> Option<[f64; 4]> {
    let mut c = con.clone();
    let ok = catch(std::panic::AssertUnwindSafe(|| -> anyhow::Result<[f64; 4]> {
        c.set_cat_power_limit(path, uc::M * offset);
        c.set_pwr_aux(Some(true))?;
        c.set_cur_pwr_max_out(None, uc::S * dt)?;
        let fm = c.force_max()?;
        Ok([c.state.pwr_out_max.value, c.state.pwr_rate_out_max.value, c.state.pwr_dyn_brake_max.value, fm.value])
    }));
    match ok { Ok(Ok(v)) => Some(v), _ => None }
}

// ---------------------------------------------------------------- lock-step records
#[derive(Clone)]
pub struct FbState { pub force_max: f64, pub ramp_up_time: f64, pub ramp_up_coeff: f64, pub force: f64, pub force_max_curr: f64 }
pub fn fb_of(sim: &SpeedLimitTrainSim) -> FbState {
    let f = &sim.fric_brake;
    FbState { force_max: f.force_max.value, ramp_up_time: f.ramp_up_time.value, ramp_up_coeff: f.ramp_up_coeff.value,
        force: f.state.force.value, force_max_curr: f.state.force_max_curr.value }
}
pub fn coq_fb(f: &FbState) -> String {
    format!("(Build_FricBrake {} {} {} {} {})", cf(f.force_max), cf(f.ramp_up_time), cf(f.ramp_up_coeff), cf(f.force), cf(f.force_max_curr))
}

#[derive(Clone)]
pub struct Post { pub st: TrainState, pub cache: [usize; 4], pub fb: Option<FbState>, pub idx: usize }

/// One observed step of either simulation.
#[derive(Clone)]
pub struct StepRec {
    pub k: usize,
    pub pre: TrainState,
    pub pre_cache: [usize; 4],
    pub pre_fb: Option<FbState>,
    pub pre_idx: usize,
    /// None: the consist failed while publishing its limits (outside the train-level model)
    pub cl: Option<[f64; 4]>,
    pub post: Result<Post, (i64, String)>,
    /// version of the path / braking points in force (index into RunCtx.envs)
    pub ver: usize,
    /// the consist before / after the step (recorded only when `record_consists(true)`; C11 full-step cases)
    pub pre_con: Option<Consist>,
    pub post_con: Option<Consist>,
}
static RECORD_CON: std::sync::atomic::AtomicBool = std::sync::atomic::AtomicBool::new(false);
/// Switch on/off the recording of the whole consist around every step (costly: one clone per step).
pub fn record_consists(on: bool) { RECORD_CON.store(on, std::sync::atomic::Ordering::SeqCst); }
fn rec_con(c: &Consist) -> Option<Consist> { if RECORD_CON.load(std::sync::atomic::Ordering::SeqCst) { Some(c.clone()) } else { None } }

pub struct EnvVer {
    pub env_coq: String,
    pub pts_coq: String,
    pub pts: Vec<[f64; 3]>,
    pub path: PathTpc,
}
/// One observed call of extend_path -> recalc_braking_points.
pub struct RecalcRec {
    pub st: TrainState,
    pub cache: [usize; 4],
    pub force_max: f64,
    pub path: PathTpc,
    pub result: Result<(Vec<[f64; 3]>, usize), (i64, String)>,
}
pub struct RunCtx {
    pub stuck: Option<String>,
    pub recalcs: Vec<RecalcRec>,
    pub id: String,
    pub tags: Vec<String>,
    pub envs: Vec<EnvVer>,
    pub rp: [f64; 4],
    pub times: Vec<f64>,
    pub speeds: Vec<f64>,
    pub steps: Vec<StepRec>,
    /// Some(message) when the run ended with an error / panic outside a step (construction, extend_path)
    pub aborted: Option<String>,
    pub input: Value,
    pub route: Route,
    pub finished_ok: bool,
    /// set-speed runs with `record_consists(true)`: the outcome of the real `walk()` on a clone of the
    /// freshly built simulation (result, final state, final resistance caches, final consist)
    pub ss_walk: Option<(Result<(), (i64, String)>, TrainState, [usize; 4], Consist)>,
    /// set-speed runs: the train parameters the builder handed to PathTpc::new
    pub tp: Option<TrainParams>,
}

pub fn route_json(rt: &Route) -> Value {
    json!({"links": rt.network.iter().skip(1).map(|l| json!({
        "length": l.length.value,
        "elevs": l.elevs.iter().map(|e| vec![e.offset.value, e.elev.value]).collect::<Vec<_>>(),
        "headings": l.headings.iter().map(|e| vec![e.offset.value, e.heading.value]).collect::<Vec<_>>(),
        "speed_limits": l.speed_set.as_ref().map(|s| s.speed_limits.iter().map(|x| vec![x.offset_start.value, x.offset_end.value, x.speed.value]).collect::<Vec<_>>()),
        "is_head_end": l.speed_set.as_ref().map(|s| s.is_head_end),
    })).collect::<Vec<_>>()})
}
pub fn train_json(t: &TrainSpec) -> Value {
    json!({"rail_vehicles": t.rvs.iter().map(|rv| serde_json::to_value(rv).unwrap_or(Value::Null)).collect::<Vec<_>>(),
           "n_cars": t.n_cars, "consist_locos": t.consist.loco_vec.len()})
}

pub struct SsOpts { pub profile: usize, pub size: usize, pub default_consist: bool, pub irregular: bool, pub n_steps: usize,
                    pub init: u8 /* 0 none, 1 consistent custom, 2 inconsistent time/speed */, pub negative_at: Option<usize>, pub overrun: bool }

/// Build and drive a SetSpeedTrainSim step by step through its public API.
pub fn ss_run(r: &mut Rng, id: String, o: &SsOpts) -> RunCtx { ss_run_inner(r, id, o, None) }
/// malformed: the time vector (true) or the speed vector (false) is shorter than the other
pub fn ss_run_short(r: &mut Rng, id: String, o: &SsOpts, short_time: bool) -> RunCtx { ss_run_inner(r, id, o, Some(short_time)) }
fn ss_run_inner(r: &mut Rng, id: String, o: &SsOpts, trunc: Option<bool>) -> RunCtx {
    let train = gen_train(r, o.size, o.default_consist);
    let tl = train.length();
    let vmax = train.speed_max().min(30.0);
    let mut route = gen_route(r, o.profile, tl + 500.0, vmax);
    gate_route(&mut route, &train);
    let total = route.total_len();
    // 4: no initial state given (the train starts at rest at the head of the route) but the trace STARTS IN MOTION
    let (t0, off0, v0) = match o.init { 0 => (0.0, tl, 0.0), 4 => (0.0, tl, r.range(1.0, (vmax * 0.6).max(1.5))), _ => (r.range(0.0, 500.0).round(), (tl + r.range(0.0, (total - tl) * 0.3)).min(total - 100.0).max(tl), if o.profile == 1 { vmax * 0.9 } else { r.range(0.0, vmax * 0.6) }) };
    let max_dist = if o.overrun { total } else { (total - off0 - 50.0).max(0.0) };
    let (mut times, mut speeds) = gen_trace(r, o.n_steps, t0, v0, vmax, o.irregular, max_dist);
    if let Some(k) = o.negative_at { if k < speeds.len() { speeds[k] = -r.range(0.01, 3.0); } }
    if let Some(st) = trunc { let cut = 2 + r.below(times.len().saturating_sub(3).max(1)); if st { times.truncate(cut); } else { speeds.truncate(cut); } }
    let init = match o.init {
        0 | 4 => None,
        1 => Some(InitTrainState::new(Some(uc::S * t0), Some(uc::M * off0), Some(uc::MPS * v0))),
        // 3: only the CLOCK of the initial state differs from the trace's first stamp (a trimmed trace, wall-clock stamps):
        // position and speed are consistent, the simulated time has to follow the trace from the first step on
        3 => Some(InitTrainState::new(Some(uc::S * (t0 + 7.0)), Some(uc::M * off0), Some(uc::MPS * v0))),
        _ => Some(InitTrainState::new(Some(uc::S * (t0 + 7.0)), Some(uc::M * off0), Some(uc::MPS * (v0 + 1.5)))),
    };
    if o.init == 0 { times[0] = 0.0; }
    let mut tags = route.tags.clone(); tags.extend(train.tags.clone());
    tags.push(format!("trace:{}", if o.irregular { "irregular" } else { "regular" }));
    tags.push(format!("init:{}", ["default", "custom", "inconsistent", "clock_differs", "trace_starts_in_motion"][o.init as usize]));
    tags.push(format!("train_vs_links:{}", { let m = route.path.iter().map(|l| route.network[l.idx()].length.value).fold(f64::INFINITY, f64::min);
        let mx = route.path.iter().map(|l| route.network[l.idx()].length.value).fold(0.0, f64::max);
        if tl > mx { "longer_than_every_link" } else if tl < m { "shorter_than_every_link" } else { "between" } }));
    let input = json!({"sim": "set_speed", "route": route_json(&route), "train": train_json(&train), "times": times, "speeds": speeds,
        "init": [t0, off0, v0], "init_mode": o.init});
    let b = builder(&train, init, false);
    let trace = SpeedTrace::new(times.clone(), speeds.clone(), None);
    let made = catch(std::panic::AssertUnwindSafe(|| b.make_set_speed_train_sim_and_parts(&route.network, &route.path, trace, Some(1))));
    let mut ctx = RunCtx { stuck: None, recalcs: vec![], id, tags, envs: vec![], rp: [0.0; 4], times: times.clone(), speeds: speeds.clone(), steps: vec![], aborted: None, input, route, finished_ok: false, ss_walk: None, tp: None };
    let (mut sim, path) = match made {
        Ok(Ok((sim, tp, path, _tr, _fb))) => { ctx.tp = Some(tp); (sim, path) }
        Ok(Err(e)) => { ctx.aborted = Some(format!("{:#}", e)); return ctx; }
        Err(p) => { ctx.aborted = Some(format!("panic: {}", p)); return ctx; }
    };
    if !is_strap(&sim.train_res) { ctx.aborted = Some("not strap".into()); return ctx; }
    ctx.rp = res_params(&sim.train_res);
    ctx.envs.push(EnvVer { env_coq: coq_env(&path, &ctx.rp), pts_coq: String::new(), pts: vec![], path: path.clone() });
    if RECORD_CON.load(std::sync::atomic::Ordering::SeqCst) {
        let mut w = sim.clone(); w.set_save_interval(None);
        let res = catch(std::panic::AssertUnwindSafe(|| w.walk()));
        let r = match res { Ok(Ok(())) => Ok(()), Ok(Err(e)) => Err(train_err_code(&e)), Err(p) => Err((-1, p)) };
        ctx.ss_walk = Some((r, w.state, res_cache(&w.train_res), w.loco_con.clone()));
    }
    let mut k = 0usize;
    while sim.state.i < sim.speed_trace.len() {
        let i = sim.state.i;
        let dt = if i >= 1 && i < times.len() { times[i] - times[i - 1] } else { 1.0 };
        let pre = sim.state; let pre_cache = res_cache(&sim.train_res);
        let cl = peek_consist(&sim.loco_con, &path, pre.offset.value, dt);
        let pre_con = rec_con(&sim.loco_con);
        let res = catch(std::panic::AssertUnwindSafe(|| sim.step()));
        let post_con = rec_con(&sim.loco_con);
        let post = match res {
            Ok(Ok(())) => Ok(Post { st: sim.state, cache: res_cache(&sim.train_res), fb: None, idx: 0 }),
            Ok(Err(e)) => Err(train_err_code(&e)),
            Err(p) => Err((-1, p)),
        };
        let failed = post.is_err();
        ctx.steps.push(StepRec { k, pre, pre_cache, pre_fb: None, pre_idx: 0, cl, post, ver: 0, pre_con, post_con });
        k += 1;
        if failed { return ctx; }
    }
    ctx.finished_ok = true;
    ctx
}

pub fn ss_coq(ctx: &RunCtx, s: &StepRec) -> String {
    match &s.cl {
        Some(cl) => format!("x_ss_step {} {} {} {} {} {}", ctx.envs[s.ver].env_coq, cfl(&ctx.times), cfl(&ctx.speeds), coq_cl(cl), coq_tstate(&s.pre), coq_cache(&s.pre_cache)),
        None => String::new(),
    }
}

#[derive(Clone)]
pub struct SlOpts { pub profile: usize, pub size: usize, pub default_consist: bool,
                    pub schedule: u8 /* 0 whole path, 1 link by link ahead of the train */, pub max_steps: usize,
                    pub dt: f64, pub ramp_up_time: Option<f64>, pub clean_start: bool, pub max_total: f64 }

pub fn sl_make(r: &mut Rng, o: &SlOpts) -> (TrainSpec, Route, Result<SpeedLimitTrainSim, String>) {
    let train = gen_train(r, o.size, o.default_consist);
    let tl = train.length();
    let mut route = gen_route_ext(r, o.profile, tl + 1500.0, train.speed_max().min(30.0), if o.clean_start { tl + 450.0 } else { 0.0 }, o.max_total);
    gate_route(&mut route, &train);
    let b = builder(&train, None, true);
    let made = catch(std::panic::AssertUnwindSafe(|| b.make_speed_limit_train_sim(&location_map(), Some(1), None, None)));
    let sim = match made {
        Ok(Ok(mut s)) => { s.state.dt = uc::S * o.dt;
            // a third of the runs start at a non-zero clock (a dispatched departure time): time advances by dt from THERE
            if r.chance(0.33) { s.state.time = uc::S * (r.below(20000) as f64 + 0.5); }
            if let Some(rt) = o.ramp_up_time { s.fric_brake.ramp_up_time = uc::S * rt; }
            Ok(s) }
        Ok(Err(e)) => Err(format!("{:#}", e)),
        Err(p) => Err(format!("panic: {}", p)),
    };
    (train, route, sim)
}

pub fn sl_env(sim: &SpeedLimitTrainSim, rp: &[f64; 4]) -> EnvVer {
    let (pts, _) = braking_points(sim);
    EnvVer { env_coq: coq_env(&sim.path_tpc, rp), pts_coq: coq_bps(&pts), pts, path: sim.path_tpc.clone() }
}

/// Build and drive a SpeedLimitTrainSim step by step (the loop of walk_internal, with the path
/// supplied whole or link by link through extend_path).
pub fn sl_run(r: &mut Rng, id: String, o: &SlOpts) -> RunCtx {
    let (train, route, made) = sl_make(r, o);
    let mut tags = route.tags.clone(); tags.extend(train.tags.clone());
    tags.push(format!("schedule:{}", ["whole_path", "link_by_link"][o.schedule as usize]));
    tags.push(format!("dt:{}", o.dt));
    let input = json!({"sim": "speed_limit", "route": route_json(&route), "train": train_json(&train), "schedule": o.schedule, "dt": o.dt,
        "ramp_up_time": o.ramp_up_time});
    let mut ctx = RunCtx { stuck: None, recalcs: vec![], id, tags, envs: vec![], rp: [0.0; 4], times: vec![], speeds: vec![], steps: vec![], aborted: None, input, route, finished_ok: false, ss_walk: None, tp: None };
    let mut sim = match made { Ok(s) => s, Err(m) => { ctx.aborted = Some(m); return ctx; } };
    if !is_strap(&sim.train_res) { ctx.aborted = Some("not strap".into()); return ctx; }
    ctx.rp = res_params(&sim.train_res);
    let tl = train.length();
    // initial supply of path
    let mut next_link = 0usize;
    let path = ctx.route.path.clone();
    let network = ctx.route.network.clone();
    let mut recalcs: Vec<RecalcRec> = vec![];
    let mut extend = |sim: &mut SpeedLimitTrainSim, upto: usize, next_link: &mut usize| -> Result<(), String> {
        if upto <= *next_link { return Ok(()); }
        let seg: Vec<LinkIdx> = path[*next_link..upto].to_vec();
        *next_link = upto;
        let st = sim.state; let cache = res_cache(&sim.train_res); let force_max = sim.fric_brake.force_max.value;
        let res = catch(std::panic::AssertUnwindSafe(|| sim.extend_path(&network, &seg)));
        let (result, ret) = match res {
            Ok(Ok(())) => { let (pts, idx) = braking_points(sim); (Ok((pts, idx)), Ok(())) }
            Ok(Err(e)) => { let (c, m) = train_err_code(&e); (Err((c, m.clone())), Err(format!("extend_path: {}", m))) }
            Err(p) => (Err((-1, p.clone())), Err(format!("extend_path panic: {}", p))),
        };
        recalcs.push(RecalcRec { st, cache, force_max, path: sim.path_tpc.clone(), result });
        ret
    };
    let first = if o.schedule == 0 { path.len() } else {
        // enough links to hold the train plus some track ahead
        let mut acc = 0.0; let mut n = 0; while n < path.len() && acc < tl + 1200.0 { acc += network[path[n].idx()].length.value; n += 1; } n };
    if let Err(m) = extend(&mut sim, first, &mut next_link) { ctx.aborted = Some(m); drop(extend); ctx.recalcs = recalcs; return ctx; }
    ctx.envs.push(sl_env(&sim, &ctx.rp));
    let mut k = 0usize;
    loop {
        let end = sim.path_tpc.offset_end().value;
        if o.schedule == 1 && next_link < path.len() && sim.state.offset.value > end - 1500.0 {
            let upto = (next_link + 1 + r.below(3)).min(path.len());
            if let Err(m) = extend(&mut sim, upto, &mut next_link) { ctx.aborted = Some(m); break; }
            ctx.envs.push(sl_env(&sim, &ctx.rp));
            continue;
        }
        let cont = sim.state.offset.value < end - 1000.0 * 0.3048 || (sim.state.offset.value < end && sim.state.speed.value != 0.0);
        if !cont { ctx.finished_ok = true; break; }
        if sim.state.i > 1 && sim.state.speed.value == 0.0 && sim.state.speed_target.value == 0.0 && sim.state.offset.value < end - 1000.0 * 0.3048
            && !(o.schedule == 1 && next_link < path.len()) {
            // at rest, not asked to move, outside the stopping window: walk_internal can never leave its loop
            // from here unless it reports the situation -- ask the real walk()
            match real_walk_probe(&sim, 3) {
                Some(Err(m)) if m.contains("came to rest") => ctx.tags.push("run:rest_outside_window(reported_by_walk)".into()),
                Some(_) => ctx.tags.push("run:rest_outside_window(walk_returned)".into()),
                None => { ctx.tags.push("run:rest_outside_window(walk_never_returns)".into());
                    ctx.stuck = Some(format!("the run does not terminate: the train is at rest at offset {} with target 0, outside the stopping window before the path end {}; walk() did not return within 3 s from this state", sim.state.offset.value, end)); }
            }
            break;
        }
        if k >= o.max_steps { ctx.tags.push("run:truncated".into()); break; }
        let pre = sim.state; let pre_cache = res_cache(&sim.train_res); let pre_fb = fb_of(&sim); let pre_idx = braking_idx(&sim);
        let cl = peek_consist(&sim.loco_con, &sim.path_tpc, pre.offset.value, pre.dt.value);
        let pre_con = rec_con(&sim.loco_con);
        let res = catch(std::panic::AssertUnwindSafe(|| sim.step()));
        let post_con = rec_con(&sim.loco_con);
        let post = match res {
            Ok(Ok(())) => Ok(Post { st: sim.state, cache: res_cache(&sim.train_res), fb: Some(fb_of(&sim)), idx: braking_idx(&sim) }),
            Ok(Err(e)) => Err(train_err_code(&e)),
            Err(p) => Err((-1, p)),
        };
        let failed = post.is_err();
        ctx.steps.push(StepRec { k, pre, pre_cache, pre_fb: Some(pre_fb), pre_idx, cl, post, ver: ctx.envs.len() - 1, pre_con, post_con });
        k += 1;
        if failed { break; }
    }
    drop(extend);
    ctx.recalcs = recalcs;
    ctx
}

pub fn sl_coq(ctx: &RunCtx, s: &StepRec) -> String {
    match (&s.cl, &s.pre_fb) {
        (Some(cl), Some(fb)) => format!("x_sl_step {} {} {} (Build_SLState {} {} {} {})", ctx.envs[s.ver].env_coq, ctx.envs[s.ver].pts_coq, coq_cl(cl),
            coq_tstate(&s.pre), coq_cache(&s.pre_cache), coq_fb(fb), cnat(s.pre_idx)),
        _ => String::new(),
    }
}

pub fn outs_post(p: &Post) -> Outs {
    let mut o = outs_tstate(&p.st);
    outs_cache(&mut o, &p.cache);
    if let Some(fb) = &p.fb {
        o.f("v.fb.force", fb.force, fb.force_max.abs().max(1.0) * 1e-3);
        o.f("v.fb.force_max_curr", fb.force_max_curr, fb.force_max.abs().max(1.0) * 1e-3);
        o.z("v.bp.idx_curr", p.idx as i64);
    }
    o
}

/// Outcome of a step record for the Case (consist failures have no model term).
pub fn step_outcome(s: &StepRec) -> Outcome {
    match &s.post {
        Ok(p) => Outcome::Ok(outs_post(p)),
        Err((-1, m)) => Outcome::Panic(m.clone()),
        Err((c, m)) => Outcome::Err(*c, m.clone()),
    }
}
/// true when the step failed inside the consist (or the consist could not publish limits)
pub fn consist_failed(s: &StepRec) -> bool {
    s.cl.is_none() || matches!(&s.post, Err((998, _)))
}

// ---------------------------------------------------------------- route geometry, independently of PathTpc
/// number of link boundaries strictly inside (a, b]
pub fn boundaries_crossed(path: &PathTpc, a: f64, b: f64) -> usize {
    path.link_points().iter().filter(|lp| lp.offset.value > a && lp.offset.value <= b).count()
}
/// elevation at path position x obtained by walking the links of the route (not the grade table)
pub fn elev_at(rt: &Route, x: f64) -> Option<f64> {
    let mut base = 0.0; let mut elev_base: Option<f64> = None;
    for li in &rt.path {
        let l = &rt.network[li.idx()];
        let len = l.length.value;
        if elev_base.is_none() { elev_base = Some(l.elevs.first().map(|e| e.elev.value).unwrap_or(0.0)); }
        let e0 = elev_base.unwrap();
        if x <= base + len || std::ptr::eq(li, rt.path.last().unwrap()) {
            if l.elevs.is_empty() { return Some(e0); }
            let xo = x - base;
            let first = l.elevs.first().unwrap().elev.value;
            for w in l.elevs.windows(2) {
                if xo <= w[1].offset.value || std::ptr::eq(&w[1], l.elevs.last().unwrap()) {
                    let g = (w[1].elev.value - w[0].elev.value) / (w[1].offset.value - w[0].offset.value);
                    return Some(e0 + (w[0].elev.value - first) + g * (xo - w[0].offset.value));
                }
            }
            return Some(e0);
        }
        if !l.elevs.is_empty() { elev_base = Some(e0 + l.elevs.last().unwrap().elev.value - l.elevs.first().unwrap().elev.value); }
        base += len;
    }
    None
}
/// cumulative function of a PathResCoeff table evaluated by position only (independent of any cache)
pub fn cum_at(t: &[PathResCoeff], x: f64) -> f64 {
    let n = t.len();
    let mut i = 0;
    while i + 2 < n && !(x <= t[i + 1].offset.value) { i += 1; }
    t[i].res_net.value + t[i].res_coeff.value * (x - t[i].offset.value)
}
/// index of the segment containing x by position only: unique i with off_i < x <= off_{i+1} (0 if x <= off_1)
pub fn seg_at(t: &[PathResCoeff], x: f64) -> usize {
    let n = t.len();
    let mut i = 0;
    while i + 2 < n && !(x <= t[i + 1].offset.value) { i += 1; }
    i
}

pub fn recalc_coq(rc: &RecalcRec, rp: &[f64; 4], fix: bool, fuel: usize) -> String {
    let p = &rc.path;
    format!("x_recalc {}%N (Build_BrkEnv {} {} {} {} {} {} {}) {} {} {}", fuel, coq_prcs(p.grades()), coq_prcs(p.curves()), coq_rp(rp), coq_sps(p),
        cf(rc.force_max), cf(p.offset_begin().value), cb(fix), cf(p.offset_end().value), coq_tstate(&rc.st), coq_cache(&rc.cache))
}
pub fn outs_points(pts: &[[f64; 3]], idx: usize) -> Outs {
    let mut o = Outs::new();
    o.z("v.bp.idx_curr", idx as i64); o.z("v.bp.len", pts.len() as i64);
    for (i, p) in pts.iter().enumerate() { o.f(&format!("v.bp{}.offset", i), p[0], 1.0); o.f(&format!("v.bp{}.limit", i), p[1], 1.0); o.f(&format!("v.bp{}.target", i), p[2], 1.0); }
    o
}

/// Does the real `walk()` return when started from this state?  Run on a clone without history in a
/// detached thread; None = no answer within `secs` (the thread keeps spinning until the process exits).
pub fn real_walk_probe(sim: &SpeedLimitTrainSim, secs: u64) -> Option<Result<(), String>> {
    let mut c = sim.clone();
    c.set_save_interval(None);
    let (tx, rx) = std::sync::mpsc::channel();
    std::thread::spawn(move || {
        let r = std::panic::catch_unwind(std::panic::AssertUnwindSafe(|| c.walk()));
        let _ = tx.send(match r { Ok(Ok(())) => Ok(()), Ok(Err(e)) => Err(format!("{:#}", e)), Err(_) => Err("panic".to_string()) });
    });
    rx.recv_timeout(std::time::Duration::from_secs(secs)).ok()
}
