//! C20 -- mass and traction-limit parameters stay mutually consistent under every update.
//! Random sequences of setter calls (every side-effect option, every known/unknown combination of
//! mass, specific power/energy, adhesion coefficient, ballast/baseline mass) on FuelConverter,
//! Generator, ReversibleEnergyStorage and Locomotive (conventional and battery electric); after
//! EACH call the object as the call left it (private fields read through serde), the return class
//! and the getters are compared with the model (coq/model/MassParams.v) started from the
//! implementation's pre-state (lock-step).  Consist mass/force sums and the static train mass of
//! built simulations are compared as well.
use crate::util::*;
use altrios_core::traits::SerdeAPI;
use altrios_core::consist::locomotive::locomotive_model::{ForceMaxSideEffect, MuSideEffect, PowertrainType};
use altrios_core::consist::Consist;
use altrios_core::prelude::*;
use altrios_core::traits::{Mass, MassSideEffect};
use altrios_core::train::TrainSimBuilder;
use altrios_core::uc;
use serde_json::{json, Value};

const G: f64 = 9.801_548_494_963_14;

// ---------------------------------------------------------------- components
#[derive(Clone, Debug)]
struct CompS { mass: Option<f64>, spec: Option<f64>, ext: f64 }
fn optf(v: Option<&Value>) -> Option<f64> { v.and_then(|x| x.as_f64()) }
fn jopt(x: Option<f64>) -> Value { match x { Some(v) => json!(v), None => Value::Null } }
fn copt_f(x: Option<f64>) -> String { copt(x.map(cf)) }
fn comp_coq(c: &CompS) -> String { format!("(Build_Comp {} {} {})", copt_f(c.mass), copt_f(c.spec), cf(c.ext)) }
fn se_coq(se: &MassSideEffect) -> &'static str { match se { MassSideEffect::None => "MS_None", MassSideEffect::Extensive => "MS_Extensive", MassSideEffect::Intensive => "MS_Intensive" } }

trait CompObj: Mass + Clone + serde::Serialize + serde::de::DeserializeOwned {
    const SPEC: &'static str; const EXT: &'static str; const NAME: &'static str;
    fn read(&self) -> CompS {
        let v = serde_json::to_value(self).expect("component to json");
        CompS { mass: optf(v.get("mass")), spec: optf(v.get(Self::SPEC)), ext: v.get(Self::EXT).and_then(|x| x.as_f64()).expect("ext") }
    }
    fn with(&self, s: &CompS) -> Self {
        let mut v = serde_json::to_value(self).expect("component to json");
        let o = v.as_object_mut().unwrap();
        o.insert("mass".into(), jopt(s.mass)); o.insert(Self::SPEC.into(), jopt(s.spec)); o.insert(Self::EXT.into(), json!(s.ext));
        serde_json::from_value(v).expect("component from json")
    }
}
impl CompObj for FuelConverter { const SPEC: &'static str = "specific_pwr"; const EXT: &'static str = "pwr_out_max_watts"; const NAME: &'static str = "fc"; }
impl CompObj for Generator { const SPEC: &'static str = "specific_pwr"; const EXT: &'static str = "pwr_out_max_watts"; const NAME: &'static str = "gen"; }
impl CompObj for ReversibleEnergyStorage { const SPEC: &'static str = "specific_energy"; const EXT: &'static str = "energy_capacity_joules"; const NAME: &'static str = "res"; }

fn put_opt(o: &mut Outs, label: &str, x: Option<f64>, scale: f64) { o.b(&format!("{}.is_some", label), x.is_some()); o.f(label, x.unwrap_or(0.0), scale); }
fn put_resopt(o: &mut Outs, label: &str, r: &Result<Option<f64>, String>, scale: f64) {
    match r { Ok(None) => { o.z(&format!("{}.class", label), 0); o.f(label, 0.0, scale); }
              Ok(Some(x)) => { o.z(&format!("{}.class", label), 1); o.f(label, *x, scale); }
              Err(_) => { o.z(&format!("{}.class", label), 2); o.f(label, 0.0, scale); } }
}
fn comp_outs<C: CompObj>(o: &mut Outs, p: &str, c: &C) {
    let s = c.read(); let sc = s.ext.abs().max(1.0);
    put_opt(o, &format!("{}mass", p), s.mass, 1e3); put_opt(o, &format!("{}specific", p), s.spec, 1e3); o.f(&format!("{}extensive", p), s.ext, sc);
}
fn comp_getters<C: CompObj>(o: &mut Outs, c: &C) -> (Result<Option<f64>, String>, Option<f64>) {
    let m = c.mass().map(|x| x.map(|q| q.value)).map_err(|e| format!("{:#}", e));
    let d = c.derived_mass().ok().flatten().map(|q| q.value);
    put_resopt(o, "mass()", &m, 1e3); put_opt(o, "derived_mass()", d, 1e3);
    (m, d)
}
fn close_rel(a: f64, b: f64) -> bool { a == b || ((b - a) / (a + b)).abs() < 1e-8 || (b - a).abs() < 1e-8 }

fn gen_comp_state(r: &mut Rng, ext: f64) -> CompS {
    let spec = if r.chance(0.35) { None } else { Some(r.lrange(0.05, 5.0) * 1e3) };
    let mass = match r.below(4) { 0 => None, 1 => spec.map(|s| ext / s), 2 => spec.map(|s| ext / s * (1.0 + 1e-10)), _ => Some(r.lrange(1e2, 5e4)) };
    CompS { mass: if r.chance(0.15) { None } else { mass }, spec, ext }
}

fn comp_run<C: CompObj + std::panic::RefUnwindSafe>(r: &mut Rng, t: usize, proto: &C, sink: &mut Sink, made: &mut usize) {
    let ext0 = proto.read().ext;
    let mut c = proto.with(&gen_comp_state(r, ext0));
    let ncalls = 4 + r.below(5);
    for k in 0..ncalls {
        // setters only ever forget the specific value: re-draw the state now and then
        if r.chance(0.5) { c = proto.with(&gen_comp_state(r, ext0)); }
        let pre = c.read();
        let derived = pre.spec.map(|s| pre.ext / s);
        let mut tags = vec![format!("component:{}", C::NAME), format!("mass:{}", if pre.mass.is_some() { "known" } else { "unknown" }),
            format!("specific:{}", if pre.spec.is_some() { "known" } else { "unknown" })];
        let id = format!("{}/{}/{}", C::NAME, t, k);
        if r.chance(0.12) {
            c.expunge_mass_fields();
            let mut o = Outs::new(); o.z("ret", 0); comp_outs(&mut o, "", &c); comp_getters(&mut o, &c);
            tags.push("call:expunge_mass_fields".into());
            let post = c.read();
            let mut fails = vec![];
            if post.mass.is_some() || post.spec.is_some() { fails.push("expunge_mass_fields left a mass field set".into()); }
            sink.put(Case { id, kind: "component_expunge".into(), coq: format!("x_comp_expunge {}", comp_coq(&pre)), outcome: Outcome::Ok(o), tags,
                input: json!({"pre": {"mass": pre.mass, "specific": pre.spec, "extensive": pre.ext}}), oracle_fail: fails, known: vec![], in_domain: true });
            *made += 1; continue;
        }
        let se = match r.below(3) { 0 => MassSideEffect::None, 1 => MassSideEffect::Extensive, _ => MassSideEffect::Intensive };
        // 6: a mass at a graded small distance from the derived one (the setter compares exactly; the getter checks at 1e-8)
        let new = match r.below(8) { 0 => None, 1 => derived.or(Some(1234.5)), 2 => pre.mass.or(Some(777.0)), 3 => Some(r.lrange(10.0, 1e5).floor()),
            6 | 7 => { let d = *r.pick(&[1e-12, 1e-9, 1e-7, 1e-5, 3e-4, 1e-3, 1e-2]) * if r.chance(0.5) { 1.0 } else { -1.0 }; derived.or(pre.mass).map(|m| m * (1.0 + d)).or(Some(4321.0)) }
            _ => Some(r.lrange(10.0, 1e5)) };
        tags.push(format!("call:set_mass({},{})", if new.is_some() { "Some" } else { "None" }, se_coq(&se)));
        tags.push(format!("derived_vs_new:{}", match (derived, new) { (Some(d), Some(n)) => if d == n { "equal" } else if ((d - n) / d).abs() < 2e-3 { "within_0.2_percent" } else { "different" }, (None, Some(_)) => "no_derived", (_, None) => "new_none" }));
        let res = catch(std::panic::AssertUnwindSafe(|| c.set_mass(new.map(|x| uc::KG * x), se.clone())));
        let (ret, msg) = match &res { Ok(Ok(())) => (0, String::new()), Ok(Err(e)) => (1, format!("{:#}", e)), Err(p) => (-1, p.clone()) };
        let coq = format!("x_comp_set_mass {} {} {}", comp_coq(&pre), copt_f(new), se_coq(&se));
        let input = json!({"pre": {"mass": pre.mass, "specific": pre.spec, "extensive": pre.ext}, "new_mass": new, "side_effect": se_coq(&se), "message": msg});
        if ret == -1 {
            sink.put(Case { id, kind: "component_set_mass".into(), coq, outcome: Outcome::Panic(msg.clone()), tags, input, oracle_fail: vec![format!("set_mass panics: {}", msg)], known: vec![], in_domain: true });
            *made += 1; return;
        }
        let mut o = Outs::new(); o.z("ret", ret); comp_outs(&mut o, "", &c);
        let (m, d) = comp_getters(&mut o, &c);
        let post = c.read();
        // the property on the implementation's own output
        let mut fails = vec![];
        if ret == 0 {
            if post.mass != new { fails.push(format!("accepted set_mass({:?}) but the stored mass is {:?}", new, post.mass)); }
            match (&m, d) {
                (Ok(Some(mm)), Some(dd)) if !close_rel(*mm, dd) => fails.push(format!("reported mass {} differs from the mass derived from the specific value {}", mm, dd)),
                (Err(e), _) => fails.push(format!("after an accepted set_mass the mass getter fails: {}", e.chars().take(120).collect::<String>())),
                _ => {}
            }
            if let (Some(dv), Some(nv)) = (derived, new) { if dv != nv {
                match se {
                    MassSideEffect::Extensive => { if !(post.spec == pre.spec && close_rel(post.ext, pre.spec.unwrap() * nv)) { fails.push("Extensive: the extensive value was not set to specific * mass".into()); } }
                    MassSideEffect::Intensive => { if !(post.ext == pre.ext && post.spec.map(|s| close_rel(s, pre.ext / nv)).unwrap_or(false)) { fails.push("Intensive: the specific value was not set to extensive / mass".into()); } }
                    MassSideEffect::None => { if !(post.spec.is_none() && post.ext == pre.ext) { fails.push("None: the specific value was not forgotten".into()); } }
                }
            } }
            if new.is_none() && post.spec.is_some() { fails.push("set_mass(None) kept the specific value".into()); }
        }
        tags.push(format!("returned:{}", if ret == 0 { "ok" } else { "err" }));
        sink.put(Case { id, kind: "component_set_mass".into(), coq, outcome: Outcome::Ok(o), tags, input, oracle_fail: fails, known: vec![], in_domain: true });
        *made += 1;
    }
}

// ---------------------------------------------------------------- locomotive
#[derive(Clone, Debug)]
struct LocoS { conv: bool, comps: Vec<CompS>, mass: Option<f64>, mu: Option<f64>, ballast: Option<f64>, baseline: Option<f64>, force: f64 }
fn loco_read(l: &Locomotive) -> LocoS {
    let v = serde_json::to_value(l).expect("loco to json");
    let rd = |c: &Value, spec: &str, ext: &str| CompS { mass: optf(c.get("mass")), spec: optf(c.get(spec)), ext: c.get(ext).and_then(|x| x.as_f64()).expect("ext") };
    let (conv, comps) = if let Some(c) = v["loco_type"].get("ConventionalLoco") {
        (true, vec![rd(&c["fc"], "specific_pwr", "pwr_out_max_watts"), rd(&c["gen"], "specific_pwr", "pwr_out_max_watts")])
    } else { let b = &v["loco_type"]["BatteryElectricLoco"]; (false, vec![rd(&b["res"], "specific_energy", "energy_capacity_joules")]) };
    LocoS { conv, comps, mass: optf(v.get("mass")), mu: optf(v.get("mu")), ballast: optf(v.get("ballast_mass")), baseline: optf(v.get("baseline_mass")),
        force: v["force_max"].as_f64().expect("force_max") }
}
fn loco_with(l: &Locomotive, s: &LocoS) -> Locomotive {
    let mut v = serde_json::to_value(l).expect("loco to json");
    {
        let o = v.as_object_mut().unwrap();
        o.insert("mass".into(), jopt(s.mass)); o.insert("mu".into(), jopt(s.mu)); o.insert("ballast_mass".into(), jopt(s.ballast));
        o.insert("baseline_mass".into(), jopt(s.baseline)); o.insert("force_max".into(), json!(s.force));
    }
    let wr = |c: &mut Value, cs: &CompS, spec: &str, ext: &str| { let o = c.as_object_mut().unwrap(); o.insert("mass".into(), jopt(cs.mass)); o.insert(spec.into(), jopt(cs.spec)); o.insert(ext.into(), json!(cs.ext)); };
    if s.conv { let c = &mut v["loco_type"]["ConventionalLoco"]; wr(&mut c["fc"], &s.comps[0], "specific_pwr", "pwr_out_max_watts"); wr(&mut c["gen"], &s.comps[1], "specific_pwr", "pwr_out_max_watts"); }
    else { let b = &mut v["loco_type"]["BatteryElectricLoco"]; wr(&mut b["res"], &s.comps[0], "specific_energy", "energy_capacity_joules"); }
    serde_json::from_value(v).expect("loco from json")
}
fn loco_coq(s: &LocoS) -> String {
    let pt = if s.conv { format!("(PTConv {} {})", comp_coq(&s.comps[0]), comp_coq(&s.comps[1])) } else { format!("(PTBel {})", comp_coq(&s.comps[0])) };
    format!("(Build_LocoM {} {} {} {} {} {})", pt, copt_f(s.mass), copt_f(s.mu), copt_f(s.ballast), copt_f(s.baseline), cf(s.force))
}
fn loco_json(s: &LocoS) -> Value {
    json!({"type": if s.conv { "conventional" } else { "battery_electric" }, "mass": s.mass, "mu": s.mu, "ballast_mass": s.ballast, "baseline_mass": s.baseline, "force_max": s.force,
        "components": s.comps.iter().map(|c| json!({"mass": c.mass, "specific": c.spec, "extensive": c.ext})).collect::<Vec<_>>()})
}
fn loco_outs(o: &mut Outs, l: &Locomotive) {
    let s = loco_read(l);
    put_opt(o, "mass", s.mass, 1e5); put_opt(o, "mu", s.mu, 1.0); put_opt(o, "ballast_mass", s.ballast, 1e5); put_opt(o, "baseline_mass", s.baseline, 1e5);
    o.f("force_max", s.force, 1e5);
    for (k, c) in s.comps.iter().enumerate() {
        let p = if s.conv { ["fc.", "gen."][k] } else { "res." };
        put_opt(o, &format!("{}mass", p), c.mass, 1e3); put_opt(o, &format!("{}specific", p), c.spec, 1e3); o.f(&format!("{}extensive", p), c.ext, c.ext.abs().max(1.0));
    }
}
struct LocoG { mass: Result<Option<f64>, String>, mu: Result<Option<f64>, String>, force: Result<f64, String>, derived: Result<Option<f64>, String> }
fn loco_getters(o: &mut Outs, l: &Locomotive) -> LocoG {
    let mass = l.mass().map(|x| x.map(|q| q.value)).map_err(|e| format!("{:#}", e));
    let mu = l.mu().map(|x| x.map(|q| q.value)).map_err(|e| format!("{:#}", e));
    let force = l.force_max().map(|q| q.value).map_err(|e| format!("{:#}", e));
    let derived = <Locomotive as Mass>::derived_mass(l).map(|x| x.map(|q| q.value)).map_err(|e| format!("{:#}", e));
    put_resopt(o, "mass()", &mass, 1e5); put_resopt(o, "mu()", &mu, 1.0);
    match &force { Ok(f) => { o.z("force_max().class", 1); o.f("force_max()", *f, 1e5); } Err(_) => { o.z("force_max().class", 2); o.f("force_max()", 0.0, 1e5); } }
    put_resopt(o, "Mass::derived_mass()", &derived, 1e5);
    LocoG { mass, mu, force, derived }
}

fn gen_loco_state(r: &mut Rng, proto: &LocoS) -> LocoS {
    let mut s = proto.clone();
    let coherent = r.chance(0.45);   // a state in which every getter succeeds
    for c in s.comps.iter_mut() {
        let g = gen_comp_state(r, c.ext);
        if r.chance(if coherent { 0.3 } else { 0.45 }) { c.mass = None; c.spec = None; } else {
            *c = g;
            if coherent || (c.mass.is_some() && c.spec.is_some() && r.chance(0.8)) { if let Some(sp) = c.spec { c.mass = Some(c.ext / sp); } else if c.mass.is_none() { c.mass = Some(r.lrange(1e3, 3e4).floor()); } }
        }
    }
    if coherent && s.comps.iter().any(|c| c.mass.is_none()) && s.comps.iter().any(|c| c.mass.is_some()) { for c in s.comps.iter_mut() { c.mass = None; c.spec = None; } }
    let all_comp = s.comps.iter().all(|c| c.mass.is_some());
    if coherent {
        if all_comp { s.ballast = Some(r.lrange(1e3, 5e4).floor()); s.baseline = Some(r.lrange(5e4, 1.5e5).floor()); } else { s.ballast = None; s.baseline = None; }
    } else {
        match r.below(10) { 0..=3 => { s.ballast = None; s.baseline = None; } 4..=8 => { s.ballast = Some(r.lrange(1e3, 5e4).floor()); s.baseline = Some(r.lrange(5e4, 1.5e5).floor()); }
            _ => { s.ballast = Some(1e4); s.baseline = None; } }
    }
    let derived: Option<f64> = match (all_comp, s.ballast, s.baseline) {
        (true, Some(b), Some(bl)) => Some(if s.conv { s.comps[0].mass.unwrap() + s.comps[1].mass.unwrap() + bl + b } else { s.comps[0].mass.unwrap() + bl + b }),
        _ => None };
    s.mass = if coherent { match r.below(3) { 0 => None, _ => derived.or(Some(r.lrange(5e4, 3e5).floor())) } }
             else { match r.below(5) { 0 => None, 1 | 2 => derived.or(Some(195_000.0)), _ => Some(r.lrange(5e4, 3e5).floor()) } };
    s.mu = if r.chance(if coherent { 0.25 } else { 0.4 }) { None } else { Some(r.range(0.15, 0.45)) };
    s.force = match (s.mu, s.mass.or(derived)) { (Some(u), Some(m)) if coherent || r.chance(0.6) => if s.mass.is_some() { u * m * G } else { u * G * m }, _ => r.lrange(1e5, 1e6).floor() };
    s
}

/// Loading a locomotive from a file validates its redundant mass data: the load succeeds exactly when
/// `mass()` of the object as written accepts it (own mass vs baseline + ballast + component masses).
fn loco_load_case(l: &Locomotive, id: String, sink: &mut Sink) {
    let pre = loco_read(l);
    let text = match l.to_yaml() { Ok(t) => t, Err(_) => return };
    let loaded = catch(std::panic::AssertUnwindSafe(|| Locomotive::from_yaml(&text)));
    let mass = catch(std::panic::AssertUnwindSafe(|| l.mass()));
    let consistent = matches!(mass, Ok(Ok(_)));
    let accepted = matches!(loaded, Ok(Ok(_)));
    let mut fails = vec![];
    if accepted && !consistent { fails.push("a locomotive file whose own mass disagrees with baseline + ballast + component masses was loaded without an error".to_string()); }
    if !accepted && consistent { fails.push(format!("a locomotive file with consistent mass data was rejected: {}", match &loaded { Ok(Err(e)) => format!("{:#}", e).chars().take(160).collect::<String>(), Err(p) => p.clone(), _ => String::new() })); }
    let mut o = Outs::new(); o.z("ret", 0); loco_outs(&mut o, l); let _ = loco_getters(&mut o, l);
    let tags = vec![format!("loco:{}", if pre.conv { "conv" } else { "bel" }), format!("file_mass_data:{}", if consistent { "consistent" } else { "inconsistent" }), format!("load:{}", if accepted { "accepted" } else { "rejected" })];
    sink.put(Case { id, kind: "loco_load".into(), coq: format!("x_loco_getters {}", loco_coq(&pre)), outcome: Outcome::Ok(o),
        tags, input: json!({"pre": loco_json(&pre)}), oracle_fail: fails, known: vec![], in_domain: true });
}

fn loco_run(r: &mut Rng, t: usize, sink: &mut Sink, made: &mut usize) {
    let proto = if r.chance(0.5) { Locomotive::default() } else { Locomotive::default_battery_electric_loco() };
    let mut l = loco_with(&proto, &gen_loco_state(r, &loco_read(&proto)));
    if t % 3 == 0 { loco_load_case(&l, format!("loco_load/{}", t), sink); *made += 1; }
    let ncalls = 4 + r.below(6);
    for k in 0..ncalls {
        if r.chance(0.3) { l = loco_with(&proto, &gen_loco_state(r, &loco_read(&proto))); }
        let pre = loco_read(&l);
        let id = format!("loco/{}/{}", t, k);
        let mut tags = vec![format!("loco:{}", if pre.conv { "conv" } else { "bel" }), format!("mass:{}", if pre.mass.is_some() { "known" } else { "unknown" }),
            format!("mu:{}", if pre.mu.is_some() { "known" } else { "unknown" }),
            format!("ballast/baseline:{}", match (pre.ballast, pre.baseline) { (Some(_), Some(_)) => "both", (None, None) => "neither", _ => "one" }),
            format!("component_masses:{}", if pre.comps.iter().all(|c| c.mass.is_some()) { "all" } else if pre.comps.iter().all(|c| c.mass.is_none()) { "none" } else { "some" })];
        let pre_mass_getter = l.mass().ok().flatten().map(|q| q.value);
        let mut opt: (&'static str, f64) = ("", 0.0);
        let (coq_cmd, what, res): (String, String, Result<anyhow::Result<()>, String>) = match r.below(9) {
            0 | 1 | 2 => {
                let se = match r.below(6) { 0 => MassSideEffect::Extensive, 1 => MassSideEffect::Intensive, _ => MassSideEffect::None };
                let new = match r.below(6) { 0 => None, 1 => pre_mass_getter.or(Some(2e5)), 2 => pre.mu.map(|u| pre.force / (u * G)).or(Some(1.5e5)), _ => Some(r.lrange(5e4, 3e5).floor()) };
                let res = catch(std::panic::AssertUnwindSafe(|| l.set_mass(new.map(|x| uc::KG * x), se.clone())));
                (format!("(LSetMass {} {})", copt_f(new), se_coq(&se)), format!("set_mass({},{})", if new.is_some() { "Some" } else { "None" }, se_coq(&se)), res)
            }
            3 | 4 | 5 => {
                let (se, sn) = match r.below(5) { 0 => (ForceMaxSideEffect::Mass, "FS_Mass"), 1 => (ForceMaxSideEffect::UpdateMu, "FS_UpdateMu"), 2 => (ForceMaxSideEffect::SetMuToNone, "FS_SetMuToNone"),
                    3 => (ForceMaxSideEffect::SetMassToNone, "FS_SetMassToNone"), _ => (ForceMaxSideEffect::SetMassAndMuToNone, "FS_SetMassAndMuToNone") };
                let f = match r.below(4) { 0 => pre.force, 1 => match (pre.mu, pre.mass) { (Some(u), Some(m)) => u * m * G, _ => 5e5 }, _ => r.lrange(1e5, 1e6).floor() };
                opt = (sn, f);
                let res = catch(std::panic::AssertUnwindSafe(|| l.set_force_max(uc::N * f, se)));
                (format!("(LSetForce {} {})", cf(f), sn), format!("set_force_max({})", sn), res)
            }
            _ => {
                let (se, sn) = match r.below(3) { 0 => (MuSideEffect::Mass, "US_Mass"), 1 => (MuSideEffect::ForceMax, "US_ForceMax"), _ => (MuSideEffect::SetMassToNone, "US_SetMassToNone") };
                let u = match r.below(4) { 0 => pre.mu.unwrap_or(0.3), 1 => pre.mass.map(|m| pre.force / (m * G)).unwrap_or(0.25), _ => r.range(0.1, 0.5) };
                opt = (sn, u);
                let res = catch(std::panic::AssertUnwindSafe(|| l.set_mu(uc::R * u, se)));
                (format!("(LSetMu {} {})", cf(u), sn), format!("set_mu({})", sn), res)
            }
        };
        tags.push(format!("call:{}", what));
        let coq = format!("x_loco_call {} {}", loco_coq(&pre), coq_cmd);
        let (ret, msg) = match &res { Ok(Ok(())) => (0, String::new()), Ok(Err(e)) => (1, format!("{:#}", e).chars().take(300).collect()), Err(p) => (-1, p.clone()) };
        let input = json!({"pre": loco_json(&pre), "call": what, "coq_call": coq_cmd, "message": msg});
        if ret == -1 {
            sink.put(Case { id, kind: "loco_call".into(), coq, outcome: Outcome::Panic(msg.clone()), tags, input, oracle_fail: vec![format!("setter panics: {}", msg)], known: vec![], in_domain: true });
            *made += 1; return;
        }
        let mut o = Outs::new(); o.z("ret", ret); loco_outs(&mut o, &l);
        let g = loco_getters(&mut o, &l);
        let post = loco_read(&l);
        let mut fails = vec![];
        if ret == 0 {
            // after an accepted update: force = mu * mass * g when both known, getters do not fail
            if let (Some(u), Some(m)) = (post.mu, post.mass) { if !close_rel(post.force, u * m * G) { fails.push(format!("after an accepted {} the stored force_max {} differs from mu*mass*g = {}", what, post.force, u * m * G)); } }
            if let Err(e) = &g.force { fails.push(format!("after an accepted {} force_max() fails: {}", what, e.chars().take(100).collect::<String>())); }
            if what.starts_with("set_mass") { if let Err(e) = &g.mass { fails.push(format!("after an accepted {} mass() fails: {}", what, e.chars().take(100).collect::<String>())); } }
            // each side-effect option does exactly what it says, and nothing else
            let (sn, arg) = opt;
            let same = |a: Option<f64>, b: Option<f64>| a == b;
            match sn {
                "FS_SetMuToNone" => { if !(post.force == arg && post.mu.is_none() && same(post.mass, pre.mass)) { fails.push(format!("set_force_max(SetMuToNone): expected force={}, mu=None, mass unchanged {:?}; got force={}, mu={:?}, mass={:?}", arg, pre.mass, post.force, post.mu, post.mass)); } }
                "FS_SetMassToNone" => { if !(post.force == arg && post.mass.is_none() && same(post.mu, pre.mu)) { fails.push(format!("set_force_max(SetMassToNone): expected force={}, mass=None, mu unchanged {:?}; got force={}, mu={:?}, mass={:?}", arg, pre.mu, post.force, post.mu, post.mass)); } }
                "FS_SetMassAndMuToNone" => { if !(post.force == arg && post.mass.is_none() && post.mu.is_none()) { fails.push("set_force_max(SetMassAndMuToNone): mass or mu was kept".into()); } }
                "FS_UpdateMu" => { let want = pre.mass.map(|m| arg / (m * G)); if !(post.force == arg && same(post.mass, pre.mass) && match (post.mu, want) { (Some(a), Some(b)) => close_rel(a, b), (None, None) => true, _ => false }) { fails.push(format!("set_force_max(UpdateMu): expected mu={:?}, mass unchanged; got mu={:?}, mass={:?}", want, post.mu, post.mass)); } }
                "FS_Mass" => { if !(same(post.mu, pre.mu)) { fails.push("set_force_max(Mass): mu changed".into()); } }
                "US_SetMassToNone" => { if !(post.mu == Some(arg) && post.mass.is_none() && post.force == pre.force) { fails.push(format!("set_mu(SetMassToNone): expected mu={}, mass=None, force unchanged; got mu={:?}, mass={:?}, force={}", arg, post.mu, post.mass, post.force)); } }
                "US_ForceMax" => { if !(post.mu == Some(arg) && same(post.mass, pre.mass)) { fails.push("set_mu(ForceMax): mu not stored or mass changed".into()); } 
                    // ... and the force is mu * g * the mass the GETTER reports (field, or derived from the components); with
                    // no mass known the option cannot be honoured and the update has to be rejected
                    match &g.mass {
                        Ok(Some(m)) => { if !close_rel(post.force, arg * m * G) { fails.push(format!("set_mu(ForceMax) accepted but force_max {} != mu * mass() * g = {}", post.force, arg * m * G)); } }
                        _ => fails.push(format!("set_mu(ForceMax) accepted although the locomotive's mass is unknown (force_max left at {})", post.force)),
                    } }
                "US_Mass" => { if !(post.mu == Some(arg) && close_rel(post.force, pre.force)) { fails.push("set_mu(Mass): mu not stored or force_max changed".into()); } }
                _ => {}
            }
        }
        let _ = (&g.mu, &g.derived);
        tags.push(format!("returned:{}", if ret == 0 { "ok" } else { "err" }));
        tags.push(format!("{}:{}", what, if ret == 0 { "accepted" } else { "rejected" }));
        if ret == 1 && format!("{:?}", loco_json(&post)) != format!("{:?}", loco_json(&pre)) { tags.push("err_left_partial_update".into()); }
        sink.put(Case { id, kind: "loco_call".into(), coq, outcome: Outcome::Ok(o), tags, input, oracle_fail: fails, known: vec![], in_domain: true });
        *made += 1;
    }
}

// ---------------------------------------------------------------- consist, train
fn consist_run(r: &mut Rng, t: usize, sink: &mut Sink, made: &mut usize) {
    let n = 1 + r.below(5);
    let style = r.below(4); // 0: all consistent with mass, 1: all without mass, 2/3: anything
    let locos: Vec<Locomotive> = (0..n).map(|_| {
        let proto = if r.chance(0.5) { Locomotive::default() } else { Locomotive::default_battery_electric_loco() };
        let mut s = gen_loco_state(r, &loco_read(&proto));
        if style == 0 { for c in s.comps.iter_mut() { c.mass = None; c.spec = None; } s.ballast = None; s.baseline = None; s.mass = Some(r.lrange(5e4, 3e5).floor()); if let Some(u) = s.mu { s.force = u * s.mass.unwrap() * G; } }
        if style == 1 { for c in s.comps.iter_mut() { c.mass = None; c.spec = None; } s.ballast = None; s.baseline = None; s.mass = None; }
        loco_with(&proto, &s)
    }).collect();
    let states: Vec<LocoS> = locos.iter().map(loco_read).collect();
    let con = Consist::new(locos, None, Default::default());
    let m = catch(std::panic::AssertUnwindSafe(|| con.mass())).unwrap_or_else(|p| Err(anyhow::anyhow!("panic: {}", p))).map(|x| x.map(|q| q.value)).map_err(|e| format!("{:#}", e));
    let f = catch(std::panic::AssertUnwindSafe(|| con.force_max())).unwrap_or_else(|p| Err(anyhow::anyhow!("panic: {}", p))).map(|q| q.value).map_err(|e| format!("{:#}", e));
    let mut o = Outs::new();
    put_resopt(&mut o, "consist.mass()", &m, 1e5);
    match &f { Ok(x) => { o.z("consist.force_max().class", 1); o.f("consist.force_max()", *x, 1e5); } Err(_) => { o.z("consist.force_max().class", 2); o.f("consist.force_max()", 0.0, 1e5); } }
    // oracle: sums of the units' own getters
    let mut fails = vec![];
    let unit_m: Vec<Result<Option<f64>, ()>> = con.loco_vec.iter().map(|l| l.mass().map(|x| x.map(|q| q.value)).map_err(|_| ())).collect();
    if let Ok(Some(total)) = &m { let s: f64 = unit_m.iter().map(|x| x.clone().ok().flatten().unwrap_or(f64::NAN)).sum(); if !close_rel(*total, s) { fails.push(format!("consist mass {} is not the sum of its locomotives' masses {}", total, s)); } }
    if unit_m.iter().all(|x| matches!(x, Ok(Some(_)))) && !matches!(m, Ok(Some(_))) { fails.push("every locomotive reports a mass but the consist does not".into()); }
    // a consist that mixes units of known and of unknown mass has no mass to report: saying "unknown" (Ok(None)) would let the
    // train be built with the known masses silently dropped, so the getter has to refuse
    let (n_some, n_none) = (unit_m.iter().filter(|x| matches!(x, Ok(Some(_)))).count(), unit_m.iter().filter(|x| matches!(x, Ok(None))).count());
    if n_some > 0 && n_none > 0 && m.is_ok() { fails.push(format!("{} unit(s) report a mass and {} report none, yet the consist's mass() returns {:?} instead of refusing", n_some, n_none, m)); }
    let unit_f: Vec<Result<f64, ()>> = con.loco_vec.iter().map(|l| l.force_max().map(|q| q.value).map_err(|_| ())).collect();
    if let Ok(total) = &f { let s: f64 = unit_f.iter().map(|x| x.clone().unwrap_or(f64::NAN)).sum(); if !close_rel(*total, s) { fails.push(format!("consist force_max {} is not the sum of its units' {}", total, s)); } }
    if unit_f.iter().all(|x| x.is_ok()) && f.is_err() { fails.push("every unit reports force_max but the consist does not".into()); }
    let tags = vec![format!("units:{}", n), format!("consist_mass:{}", match &m { Ok(None) => "none", Ok(Some(_)) => "some", Err(_) => "err" }), format!("consist_force:{}", if f.is_ok() { "ok" } else { "err" })];
    sink.put(Case { id: format!("consist/{}", t), kind: "consist".into(), coq: format!("x_consist [{}]", states.iter().map(loco_coq).collect::<Vec<_>>().join("; ")),
        outcome: Outcome::Ok(o), tags, input: json!({"units": states.iter().map(loco_json).collect::<Vec<_>>()}), oracle_fail: fails, known: vec![], in_domain: true });
    *made += 1;
}

fn train_run(r: &mut Rng, t: usize, sink: &mut Sink, made: &mut usize) {
    let ntypes = 1 + r.below(2);
    let mut rvs = vec![]; let mut n_cars = std::collections::HashMap::new(); let mut cars = vec![];
    for k in 0..ntypes {
        let base = r.lrange(2e4, 4e4).floor(); let freight = if r.chance(0.3) { 0.0 } else { r.lrange(1e3, 1.1e5).floor() }; let n = r.below(30) as u32 + if k == 0 { 1 } else { 0 };
        let name = format!("Type{}", k);
        let rv: RailVehicle = serde_json::from_value(json!({"car_type": name, "length": 18.0, "axle_count": 4, "brake_count": 1, "mass_static_base": base, "mass_freight": freight,
            "speed_max": 20.0, "braking_ratio": 0.11, "mass_rot_per_axle": 750.0, "bearing_res_per_axle": 40.26, "rolling_ratio": 0.001546, "davis_b": 0.0, "cd_area": 4.087,
            "curve_coeff_0": 0.056, "curve_coeff_1": 0.4387579, "curve_coeff_2": 0.01025485})).expect("rail vehicle");
        rvs.push(rv); n_cars.insert(name, n); cars.push((base, freight, n as i64));
    }
    let override_mass = if r.chance(0.35) { Some(r.lrange(1e5, 1e7).floor()) } else { None };
    let tc = match TrainConfig::new(rvs, n_cars, TrainType::Freight, None, override_mass.map(|m| uc::KG * m), None) { Ok(x) => x, Err(_) => return };
    let nl = 1 + r.below(4);
    let with_mass = r.chance(0.7);
    let locos: Vec<Locomotive> = (0..nl).map(|_| { let p = if r.chance(0.5) { Locomotive::default() } else { Locomotive::default_battery_electric_loco() };
        let mut s = loco_read(&p); s.mass = if with_mass { Some(r.lrange(1e5, 2.5e5).floor()) } else { None }; loco_with(&p, &s) }).collect();
    let con = Consist::new(locos, None, Default::default());
    let cm = con.mass().ok().flatten().map(|q| q.value);
    let towed = match tc.make_train_params() { Ok(p) => p.towed_mass_static.value, Err(_) => return };
    let network = crate::c19::chain_network(&[20000.0], 0.0);
    let tsb = TrainSimBuilder::new(format!("t{}", t), tc, con, None, None, None);
    let sim = match tsb.make_set_speed_train_sim(&network, [LinkIdx::new(1)], SpeedTrace::new(vec![0.0, 1.0], vec![0.0, 0.1], None), None) { Ok(s) => s, Err(_) => return };
    let cars_sum: f64 = cars.iter().fold(0.0, |a, c| a + (c.0 + c.1) * c.2 as f64);
    let mut o = Outs::new();
    o.f("cars_mass", if override_mass.is_some() { cars_sum } else { towed }, 1e6); o.f("state.mass_static", sim.state.mass_static.value, 1e6);
    let mut fails = vec![];
    let want = override_mass.unwrap_or(cars_sum) + cm.unwrap_or(0.0);
    if !close_rel(sim.state.mass_static.value, want) { fails.push(format!("static train mass {} is not cars-or-override {} plus consist {:?}", sim.state.mass_static.value, override_mass.unwrap_or(cars_sum), cm)); }
    let tags = vec![format!("train_mass_override:{}", override_mass.is_some()), format!("consist_mass:{}", if cm.is_some() { "some" } else { "none" }), format!("car_types:{}", ntypes)];
    sink.put(Case { id: format!("train/{}", t), kind: "train_static_mass".into(),
        coq: format!("x_train_static {} [{}] {}", copt_f(override_mass), cars.iter().map(|c| format!("({}, {}, {})", cf(c.0), cf(c.1), cz(c.2))).collect::<Vec<_>>().join("; "), copt_f(cm)),
        outcome: Outcome::Ok(o), tags, input: json!({"override": override_mass, "cars": cars.iter().map(|c| json!([c.0, c.1, c.2])).collect::<Vec<_>>(), "consist_mass": cm}),
        oracle_fail: fails, known: vec![], in_domain: true });
    *made += 1;
}

pub fn run(seed: u64, n: usize, sink: &mut Sink) {
    let mut r = Rng::new(seed ^ 0xC20);
    let mut made = 0usize; let mut t = 0usize;
    let fc = crate::pt::rand_fc(&mut r); let gen = crate::pt::rand_gen(&mut r, 3e6); let res = crate::pt::rand_res(&mut r);
    while made < n {
        let mut rr = r.fork();
        match t % 10 {
            0 => comp_run(&mut rr, t, &fc, sink, &mut made),
            1 => comp_run(&mut rr, t, &gen, sink, &mut made),
            2 => comp_run(&mut rr, t, &res, sink, &mut made),
            3 | 4 | 5 | 6 => loco_run(&mut rr, t, sink, &mut made),
            7 | 8 => consist_run(&mut rr, t, sink, &mut made),
            _ => train_run(&mut rr, t, sink, &mut made),
        }
        t += 1;
    }
}
