//! C04 -- dispatch never authorises conflicting occupancy.
//! Black box (always): front-occupancy intervals of the returned timed link paths of trains on
//! opposite / locked-out links do not overlap (`fronts_ok`, a necessary condition).
//! With cargo feature `hooks` (hook H1): after every train move, every outer-loop iteration and before
//! returning, the occupancy of every train is derived from its own dispatch path and `state_ok`
//! (coq/model/DispPlan.v; sound and complete for NoConflict, proofs/DispPlanP.v) is evaluated: by the
//! Rust restatement on EVERY snapshot, inside Coq on the final state and a deterministic sample of the
//! intermediate ones (and on every snapshot the Rust oracle rejects); the per-link authority stacks
//! (`link_disp_auths`) are cross-checked against the dispatch paths for every train still under way.
use crate::c05::{scenario, CHILD_TIMEOUT_S};
use crate::disp::*;
use crate::dsp::*;
use crate::plan::*;
use crate::util::*;
use serde_json::json;

const SAMPLE_PER_SCENARIO: usize = 6;
/// `8.0 * uc::MIN` in run_dispatch
const CONFIGURED_HEADWAY_S: f64 = 480.0;

/// `plan_produced` = run_dispatch returned Ok.  When it returned an error no plan is produced; a movement
/// timed at +infinity in an intermediate state of such a run never takes place (the run reports the trains
/// concerned as stuck), so the train's events are cut at its first non-finite time.  In a run that DOES
/// produce a plan every event is kept (and a non-finite time is itself reported).
static PLAN_PRODUCED: std::sync::atomic::AtomicBool = std::sync::atomic::AtomicBool::new(true);
fn train_events(t: &TrainSnap) -> (Vec<(usize, usize, f64)>, Option<f64>) {
    let mut evs = events_of(t);
    if !PLAN_PRODUCED.load(std::sync::atomic::Ordering::SeqCst) {
        if let Some(cut) = evs.iter().position(|e| !e.2.is_finite()) {
            evs.truncate(cut);
            return (evs, None);
        }
    }
    // the train has left the model once every node of its path is timed: it then releases everything at the time of its last node
    let t_end = if t.finished { t.path.last().map(|d| d.time) } else { None };
    (evs, t_end)
}

fn snap_oracle(net: &[altrios_core::track::Link], s: &Snap) -> (bool, bool, Vec<String>) {
    let mut occs = vec![];
    let mut derivable = true;
    let mut f = vec![];
    for (i, t) in s.trains.iter().enumerate().skip(1) {
        let (evs, t_end) = train_events(t);
        match occupancy(&evs, t_end) { Ok(o) => occs.push(o), Err(e) => { derivable = false; f.push(format!("train {}: {}", i, e)); occs.push(vec![]); } }
    }
    // the configured headway is run_dispatch's own constant (8 min), not whatever a train carries
    let hw = CONFIGURED_HEADWAY_S;
    for (i, t) in s.trains.iter().enumerate().skip(1) {
        if t.time_spacing != CONFIGURED_HEADWAY_S { f.push(format!("train {} carries a headway of {} s, the configured headway is {} s", i, t.time_spacing, CONFIGURED_HEADWAY_S)); break; }
    }
    let c = no_conflict(net, &occs, hw);
    let ok = derivable && c.is_empty();
    f.extend(c);
    // cross-check of the authority stacks against the dispatch paths (trains under way only: the exit clean-up rewrites finished trains' records)
    for (i, t) in s.trains.iter().enumerate().skip(1) {
        if t.finished { continue; }
        let (evs, _) = train_events(t);
        if let Ok(o) = occupancy(&evs, None) {
            let mut oi = 0usize;
            for d in t.path.iter().take(t.idx_free.min(t.path.len())) {
                if !d.time.is_finite() && !PLAN_PRODUCED.load(std::sync::atomic::Ordering::SeqCst) { break; }
                if d.ty != 0 { continue; }
                let oc = match o.get(oi) { Some(x) => x, None => break }; oi += 1;
                let st = match s.auths.get(d.link) { Some(st) => st, None => { f.push(format!("train {}: link {} outside link_disp_auths", i, d.link)); continue; } };
                match st.get(d.auth_idx) {
                    Some(a) if a.train == i => {
                        let inf = f64::INFINITY;
                        // the entry time is the train's own; the three later times may be LATER in the ledger than the train's own
                        // path says (the link is held longer / never released: the safe side for C04 - other trains wait for the
                        // ledger), never earlier.  (An exact comparison raised a false alarm at VERIF_SEED=13, scenario 33: after
                        // another train's move the dispatcher released link 5 instead of link 7 for a train under way - link 7 stays
                        // held for ever, the run ends with the explicit 'stuck' error; no conflict arises.)
                        let later_ok = |led: f64, own: f64| led >= own;
                        if !(a.ae == oc.t_in && later_ok(a.ce, oc.t_ce.unwrap_or(inf)) && later_ok(a.ax, oc.t_ax.unwrap_or(inf)) && later_ok(a.cx, oc.t_out.unwrap_or(inf))) {
                            f.push(format!("ledger: authority {} of link {} (train {}) records [{}, {}, {}, {}] but the train's own path gives [{}, {:?}, {:?}, {:?}]", d.auth_idx, d.link, i, a.ae, a.ax, a.ce, a.cx, oc.t_in, oc.t_ax, oc.t_ce, oc.t_out));
                        }
                    }
                    _ => f.push(format!("ledger: train {} has no authority at index {} of link {}", i, d.auth_idx, d.link)),
                }
            }
        }
    }
    (derivable, ok, f)
}

fn coq_state(net: &[altrios_core::track::Link], s: &Snap) -> String {
    let hw = CONFIGURED_HEADWAY_S;
    let ts: Vec<String> = s.trains.iter().skip(1).map(|t| { let (evs, t_end) = train_events(t); format!("({}, {})", coq_events(&evs), coq_optf(t_end)) }).collect();
    format!("x_state_ok {} {} [{}]", coq_links(net), cf(hw), ts.join("; "))
}


// ------------------------------------------------------------------ trace refinement against the abstract ledger
type LAuth = (usize, f64, Option<f64>, Option<f64>, Option<f64>); // train, in, ce, ax, out
fn fin(x: f64) -> Option<f64> { if x == f64::INFINITY { None } else { Some(x) } }
/// link_disp_auths without the per-link sentinel record
fn ledger_of(s: &Snap) -> Vec<Vec<LAuth>> {
    s.auths.iter().map(|st| st.iter().skip(1).map(|a| (a.train, a.ae, fin(a.ce), fin(a.ax), fin(a.cx))).collect()).collect()
}
fn coq_ledger(led: &[Vec<LAuth>], keep: &[bool]) -> String {
    let sts: Vec<String> = led.iter().enumerate().map(|(l, st)| if keep[l] {
        format!("[{}]", st.iter().map(|a| format!("({}, mkO {} {} {} {} {})", a.0, l, cf(a.1), coq_optf(a.2), coq_optf(a.3), coq_optf(a.4))).collect::<Vec<_>>().join("; "))
    } else { "[]".to_string() }).collect();
    format!("[{}]", sts.join("; "))
}
fn ledger_outs(led: &[Vec<LAuth>], keep: &[bool]) -> Outs {
    let mut o = Outs::new();
    for (l, st) in led.iter().enumerate() {
        let st: &[LAuth] = if keep[l] { st } else { &[] };
        o.z(&format!("L{}.len", l), st.len() as i64);
        for (k, a) in st.iter().enumerate() {
            o.z(&format!("L{}[{}].train", l, k), a.0 as i64);
            o.f(&format!("L{}[{}].in", l, k), a.1, 1.0);
            for (nm, v) in [("ce", a.2), ("ax", a.3), ("out", a.4)] { o.b(&format!("L{}[{}].{}?", l, k, nm), v.is_some()); o.f(&format!("L{}[{}].{}", l, k, nm), v.unwrap_or(0.0), 1.0); }
        }
    }
    o
}
/// The ledger operations of one `advance` of train `tr`, in the order the real code performs them: the
/// nodes of its dispatch path timed by this move are `from..to`; an Arrive node moves the front out of
/// the previously entered link and enters the new one, a Clear node moves the tail out of the
/// previously cleared link and into the new one.
fn advance_ops(tr: usize, t: &TrainSnap, from: usize, to: usize) -> Vec<String> {
    let mut ops = vec![];
    // the front / back nodes before this move
    let mut front: Option<&DNode> = t.path.iter().take(from).filter(|d| d.ty == 0).last();
    let mut back: Option<&DNode> = t.path.iter().take(from).filter(|d| d.ty == 1).last();
    for d in t.path.iter().take(to).skip(from) {
        match d.ty {
            0 => {
                if let Some(f) = front { ops.push(format!("FrontExit {} {} {}", f.link, f.auth_idx - 1, cf(d.time))); }
                ops.push(format!("Enter {} {} {}", d.link, tr, cf(d.time)));
                front = Some(d);
            }
            1 => {
                if let Some(b) = back { ops.push(format!("TailExit {} {} {}", b.link, b.auth_idx - 1, cf(d.time))); }
                ops.push(format!("TailEnter {} {} {}", d.link, d.auth_idx - 1, cf(d.time)));
                back = Some(d);
            }
            _ => {}
        }
    }
    ops
}
/// does the ledger hold some link of train `tr` LONGER than the train's own path says (see the cross-check above)?
fn over_holds(s: &Snap, tr: usize) -> bool {
    let t = match s.trains.get(tr) { Some(t) => t, None => return false };
    let (evs, _) = train_events(t);
    let o = match occupancy(&evs, None) { Ok(o) => o, Err(_) => return false };
    let inf = f64::INFINITY;
    let mut oi = 0usize;
    for d in t.path.iter().take(t.idx_free.min(t.path.len())) {
        if d.ty != 0 { continue; }
        let oc = match o.get(oi) { Some(x) => x, None => break }; oi += 1;
        if let Some(a) = s.auths.get(d.link).and_then(|st| st.get(d.auth_idx)) {
            if a.train == tr && (a.ce > oc.t_ce.unwrap_or(inf) || a.ax > oc.t_ax.unwrap_or(inf) || a.cx > oc.t_out.unwrap_or(inf)) { return true; }
        }
    }
    false
}
fn touched_links(a: &[Vec<LAuth>], b: &[Vec<LAuth>]) -> Vec<usize> { (0..a.len().min(b.len())).filter(|&l| a[l] != b[l]).collect() }

const LEDGER_CASES_PER_SCENARIO: usize = 12;

fn ledger_cases(k: usize, net: &[altrios_core::track::Link], snaps: &[Snap], tags: &[String], input: &serde_json::Value) -> Vec<Case> {
    let mut out = vec![];
    if snaps.is_empty() { return out; }
    let n_links = net.len();
    let empty: Vec<Vec<LAuth>> = vec![vec![]; n_links];
    let mut prev = empty.clone();
    let mut base = empty.clone(); // the ledger at the start of the current outer-loop iteration
    let hw = CONFIGURED_HEADWAY_S;
    let n_adv = snaps.iter().filter(|s| s.label == "advance").count();
    let step = ((n_adv + LEDGER_CASES_PER_SCENARIO - 1) / LEDGER_CASES_PER_SCENARIO).max(1);
    let mut i_adv = 0usize;
    for (si, s) in snaps.iter().enumerate() {
        let cur = ledger_of(s);
        let mk = |kind: &str, fails: Vec<String>, coq: String, outs: Outs, extra: &str| -> Case {
            let mut tg = tags.to_vec(); tg.push(format!("transition:{}", extra));
            let mut inp = input.clone(); inp["snapshot"] = json!({"index": si, "of": snaps.len(), "label": s.label, "train_curr": s.train_curr});
            Case { id: format!("disp{}.l{}", k, si), kind: kind.into(), coq, outcome: Outcome::Ok(outs), tags: tg, input: inp, oracle_fail: fails, known: vec![], in_domain: true }
        };
        match s.label.as_str() {
            "advance" => {
                i_adv += 1;
                let tr = s.train_curr;
                let finished = s.trains.get(tr).map(|t| t.finished).unwrap_or(false);
                // a train that has just left the model: the exit clean-up rewrites its last records
                // (arrive_entry := min(clear_entry, t_exit), ...) -- not a ledger operation, see design/C04.md
                if !finished && (i_adv - 1) % step == 0 && si > 0 {
                    let from = snaps[si - 1].trains.get(tr).map(|t| t.idx_free).unwrap_or(0);
                    let t = &s.trains[tr];
                    let ops = advance_ops(tr, t, from, t.idx_free);
                    if let Some(d) = t.path.iter().take(t.idx_free).skip(from).find(|d| d.ty != 2 && !d.time.is_finite()) {
                        // not a movement in time at all: reported (same defect as C05's infinite arrival times), not replayed
                        let mut o = Outs::new(); o.b("finite_time", false);
                        if !PLAN_PRODUCED.load(std::sync::atomic::Ordering::SeqCst) { prev = cur; continue; }
                        out.push(mk("ledger_infinite_time", vec![format!("snapshot {}/{}: train {} is authorised onto link {} at a non-finite time (inf)", si, snaps.len(), tr, d.link)], String::new(), o, "infinite_time"));
                        prev = cur; continue;
                    }
                    let touched = touched_links(&prev, &cur);
                    let mut keep = vec![false; n_links];
                    for &l in &touched { keep[l] = true; for m in 0..n_links { if excl(net, l, m) { keep[m] = true; } } }
                    for d in t.path.iter().take(t.idx_free).skip(from) { if d.ty != 2 && d.link < n_links { keep[d.link] = true; for m in 0..n_links { if excl(net, d.link, m) { keep[m] = true; } } } }
                    // the replay of the move as ledger operations presupposes that the ledger records the train's own times; where it
                    // holds a link longer than that (before or after the move) the state is tagged and not replayed
                    let oh = over_holds(s, tr) || over_holds(&snaps[si - 1], tr);
                    let coq = if oh { String::new() } else { format!("x_ledger_run {} {} {} [{}]", coq_links(net), cf(hw), coq_ledger(&prev, &keep), ops.join("; ")) };
                    out.push(mk("ledger_step", vec![], coq, ledger_outs(&cur, &keep), if oh { "advance_ledger_holds_longer_than_path(not replayed)" } else if ops.is_empty() { "advance_no_ledger_change" } else { "advance_guarded_ops" }));
                }
            }
            "rewind" => {
                if cur != base {
                    let mut o = Outs::new(); o.b("rewind_restores", false);
                    out.push(mk("ledger_rewind", vec![format!("snapshot {}/{}: rewinding train {} did not restore the authority stacks of the start of the iteration", si, snaps.len(), s.train_curr)], String::new(), o, "rewind"));
                }
            }
            _ => {
                if cur != prev {
                    let mut o = Outs::new(); o.b("unchanged", false);
                    out.push(mk("ledger_unexplained", vec![format!("snapshot {}/{} ({}): authority stacks changed without a train move", si, snaps.len(), s.label)], String::new(), o, "unexplained"));
                }
                if s.label == "iter" { base = cur.clone(); }
            }
        }
        prev = cur;
    }
    out
}

pub fn scenario_cases(seed: u64, k: usize) -> Vec<Case> {
    let sc = scenario(seed, k);
    let input = sc.to_json();
    let mut tags = sc.tags.clone();
    let malformed = tags.iter().any(|t| t.starts_with("malformed:"));
    let run = match run_scenario(&sc) {
        Ok(r) => r,
        Err(e) => return vec![Case { id: format!("disp{}", k), kind: "disp_net".into(), coq: String::new(), outcome: Outcome::Err(900, e.clone()), tags, input,
            oracle_fail: if malformed { vec![] } else { vec![e] }, known: vec![], in_domain: false }],
    };
    tags.push(format!("hooks:{}", if run.hooked { "on" } else { "off" }));
    let mut out = vec![];
    let produced = matches!(run.outcome, DispOutcome::Ok(_));
    PLAN_PRODUCED.store(produced, std::sync::atomic::Ordering::SeqCst);
    match &run.outcome {
        DispOutcome::Ok(plans) => {
            tags.push("outcome:ok_plan".into());
            let f = fronts_ok(&run.net, plans);
            let mut o = Outs::new(); o.b("fronts_ok", f.is_empty());
            let meets = plans.iter().enumerate().any(|(a, pa)| plans.iter().enumerate().any(|(b, pb)| a != b && pa.iter().any(|x| pb.iter().any(|y| excl(&run.net, x.0, y.0)))));
            let mut tg = tags.clone(); tg.push(format!("shared_track:{}", meets));
            let mut inp = input.clone();
            inp["plans"] = json!(plans.iter().map(|p| p.iter().map(|x| json!([x.0, fjson(x.1)])).collect::<Vec<_>>()).collect::<Vec<_>>());
            out.push(Case { id: format!("disp{}.fronts", k), kind: "fronts".into(), coq: format!("x_fronts_ok {} {}", coq_links(&run.net), coq_plans(plans)),
                outcome: Outcome::Ok(o), tags: tg, input: inp, oracle_fail: f, known: vec![], in_domain: true });
        }
        DispOutcome::Skipped(why) => { tags.push("outcome:skipped_est_times".into());
            out.push(Case { id: format!("disp{}", k), kind: "disp_skipped".into(), coq: String::new(), outcome: Outcome::Err(800, why.clone()), tags: tags.clone(), input: input.clone(), oracle_fail: vec![], known: vec![], in_domain: false }); }
        DispOutcome::ErrStuck(_, m) => { tags.push("outcome:err_stuck".into());
            out.push(Case { id: format!("disp{}", k), kind: "disp_stuck".into(), coq: String::new(), outcome: Outcome::Err(600, m.clone()), tags: tags.clone(), input: input.clone(), oracle_fail: vec![], known: vec![], in_domain: false }); }
        DispOutcome::ErrOther(m) => { tags.push("outcome:err_other".into());
            out.push(Case { id: format!("disp{}", k), kind: "disp_err_other".into(), coq: String::new(), outcome: Outcome::Err(700, m.clone()), tags: tags.clone(), input: input.clone(), oracle_fail: vec![], known: vec![], in_domain: false }); }
        DispOutcome::Panic(m) => { tags.push("outcome:panic".into());
            // aborts are C05's subject; here they only end the snapshot sequence
            out.push(Case { id: format!("disp{}", k), kind: "disp_panic".into(), coq: String::new(), outcome: Outcome::Panic(m.clone()), tags: tags.clone(), input: input.clone(), oracle_fail: vec![], known: vec![], in_domain: false }); }
    }
    out.extend(ledger_cases(k, &run.net, &run.snaps, &tags, &input));
    // every snapshot (also those recorded before a stuck error or a panic)
    let ns = run.snaps.len();
    if ns > 0 {
        let step = (ns + SAMPLE_PER_SCENARIO - 1) / SAMPLE_PER_SCENARIO;
        let mut n_rejected = 0usize;
        for (si, s) in run.snaps.iter().enumerate() {
            let (derivable, ok, f) = snap_oracle(&run.net, s);
            let sampled = si + 1 == ns || si % step.max(1) == 0 || !f.is_empty();
            if !f.is_empty() { n_rejected += 1; }
            if !sampled || (!f.is_empty() && n_rejected > 3) { continue; }
            let mut o = Outs::new(); o.b("movements", derivable); o.b("no_conflict", ok);
            let under_way = s.trains.iter().skip(1).filter(|t| !t.finished && t.idx_free > 0).count();
            let mut tg = tags.clone(); tg.push(format!("snapshot:{}", s.label)); tg.push(format!("trains_under_way:{}", under_way.min(4)));
            let mut inp = input.clone(); inp["snapshot"] = json!({"index": si, "of": ns, "label": s.label, "train_curr": s.train_curr});
            out.push(Case { id: format!("disp{}.s{}", k, si), kind: "state".into(), coq: coq_state(&run.net, s), outcome: Outcome::Ok(o), tags: tg, input: inp,
                oracle_fail: f.into_iter().take(4).map(|m| format!("snapshot {}/{} ({}): {}", si, ns, s.label, m)).collect(), known: vec![], in_domain: true });
        }
    }
    out
}

pub fn run(seed: u64, n: usize, sink: &mut Sink) {
    let ks: Vec<usize> = (0..crate::c05::corpus().len()).map(|i| crate::c05::CORPUS_BASE + i).chain(0..n).collect();
    for k in ks {
        match run_child("c04child", seed, k, CHILD_TIMEOUT_S) {
            Ok(cases) => for v in &cases { sink.put(case_from_json(v)); },
            Err(why) => {
                // hangs and aborts are reported by C05; C04 records that nothing could be observed
                let sc = scenario(seed, k);
                let mut tags = sc.tags.clone(); tags.push("outcome:no_observation".into());
                sink.put(Case { id: format!("disp{}", k), kind: "disp_abort".into(), coq: String::new(), outcome: Outcome::Panic(why), tags, input: sc.to_json(), oracle_fail: vec![], known: vec![], in_domain: false });
            }
        }
    }
}
