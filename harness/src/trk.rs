//! Track helpers shared by C13 / C02 / C06: network + train generators, Coq printers for
//! coq/model/{SpeedPoints,PathGeom}.v, running PathTpc through its public API, field extraction
//! (same order as coq/model/ExecTrack.v), and the independent re-statements (oracles).
use crate::util::*;
use altrios_core::si;
use altrios_core::track::*;
use altrios_core::uc;
use serde_json::{json, Value};
use std::collections::HashMap;

// ---------------------------------------------------------------- running the real code
pub fn trk_err_code(e: &anyhow::Error) -> (i64, String) {
    let m = format!("{:#}", e);
    let table: &[(&str, i64)] = &[
        ("`link_points` is empty", 1301),
        ("`grades` is empty", 1302),
        ("`curves` is empty", 1303),
        ("`speed_points` is empty", 1304),
        ("link_idx_prev is not real", 1312),
        ("is not real.", 1311),
        ("If there is no alternative to `idx_prev`", 1313),
        ("If there is no alternative to `idx_next`", 1314),
        ("is not contiguous with path", 1315),
        ("not found in `speed_sets.keys()`", 1316),
    ];
    for (s, c) in table { if m.contains(s) { return (*c, m); } }
    (999, m)
}

/// PathTpc::new(tp) then one extend call per part. Err((-1, msg)) = panic.
pub fn run_path(net: &[Link], tp: &TrainParams, parts: &[Vec<u32>], fin: bool) -> Result<PathTpc, (i64, String)> {
    let net2: Vec<Link> = net.to_vec();
    let tp2 = *tp;
    let parts2: Vec<Vec<u32>> = parts.to_vec();
    let r = catch(move || {
        let mut p = PathTpc::new(tp2);
        for part in &parts2 {
            let lp: Vec<LinkIdx> = part.iter().map(|i| LinkIdx::new(*i)).collect();
            p.extend(&net2, &lp)?;
        }
        if fin { p.finish(); }
        Ok::<PathTpc, anyhow::Error>(p)
    });
    match r {
        Ok(Ok(p)) => Ok(p),
        Ok(Err(e)) => Err(trk_err_code(&e)),
        Err(pm) => Err((-1, pm)),
    }
}

pub fn speed_pts(p: &PathTpc) -> Vec<(f64, f64)> {
    p.speed_points().iter().map(|s| (s.offset.value, s.speed_limit.value)).collect()
}

/// speed_points(): same order as ExecTrack.speed_outs
pub fn outs_speed(p: &PathTpc) -> Outs {
    let mut o = Outs::new();
    let sp = speed_pts(p);
    o.z("speed.len", sp.len() as i64);
    for (i, (off, v)) in sp.iter().enumerate() {
        o.f(&format!("speed[{}].offset", i), *off, 0.0);
        o.f(&format!("speed[{}].speed", i), *v, 0.0);
    }
    o
}

fn outs_prc(o: &mut Outs, name: &str, v: &[PathResCoeff], scale_coeff: f64) {
    o.z(&format!("{}.len", name), v.len() as i64);
    for (i, c) in v.iter().enumerate() {
        o.f(&format!("{}[{}].offset", name, i), c.offset.value, 0.0);
        o.f(&format!("{}[{}].res_coeff", name, i), c.res_coeff.value, scale_coeff);
        o.f(&format!("{}[{}].res_net", name, i), c.res_net.value, 0.0);
    }
}

/// same order as ExecTrack.geom_outs; `counts_ok` is the re-statement of the ObjState loop below
pub fn outs_geom(p: &PathTpc) -> Outs {
    let mut o = Outs::new();
    o.z("link_points.len", p.link_points().len() as i64);
    for (i, l) in p.link_points().iter().enumerate() {
        o.f(&format!("link_points[{}].offset", i), l.offset.value, 0.0);
        o.z(&format!("link_points[{}].grade_count", i), l.grade_count as i64);
        o.z(&format!("link_points[{}].curve_count", i), l.curve_count as i64);
        o.z(&format!("link_points[{}].cat_power_count", i), l.cat_power_count as i64);
        o.z(&format!("link_points[{}].link_idx", i), l.link_idx.idx() as i64);
    }
    outs_prc(&mut o, "grades", p.grades(), 0.0);
    outs_prc(&mut o, "curves", p.curves(), 0.0);
    o.z("cat.len", p.cat_power_limits().len() as i64);
    for (i, c) in p.cat_power_limits().iter().enumerate() {
        o.f(&format!("cat[{}].offset_start", i), c.offset_start.value, 0.0);
        o.f(&format!("cat[{}].offset_end", i), c.offset_end.value, 0.0);
        o.f(&format!("cat[{}].power_limit", i), c.power_limit.value, 0.0);
    }
    o.b("counts_ok", counts_ok(p));
    o.b("is_finished", p.is_finished());
    o
}

/// The cross-check loop of `impl ObjState for PathTpc` restated on the public accessors
/// (offset of every link point equals the offset of the grade / curve its running count indexes;
/// running counts stay in range).
pub fn counts_ok(p: &PathTpc) -> bool {
    let (mut sg, mut sc, mut scat) = (0usize, 0usize, 0usize);
    for lp in p.link_points() {
        match p.grades().get(sg) { Some(g) if g.offset == lp.offset => {} _ => return false }
        match p.curves().get(sc) { Some(c) if c.offset == lp.offset => {} _ => return false }
        sg += lp.grade_count; sc += lp.curve_count; scat += lp.cat_power_count;
        if sg >= p.grades().len() || sc >= p.curves().len() || scat > p.cat_power_limits().len() { return false; }
    }
    true
}

// ---------------------------------------------------------------- Coq printers
fn coq_cmp(c: CompareType) -> &'static str {
    match c {
        CompareType::TpEqualRp => "CEq", CompareType::TpGreaterThanRp => "CGt", CompareType::TpLessThanRp => "CLt",
        CompareType::TpGreaterThanEqualRp => "CGe", CompareType::TpLessThanEqualRp => "CLe",
    }
}
pub fn coq_speed_set(s: &SpeedSet) -> String {
    let lims: Vec<String> = s.speed_limits.iter().map(|l| format!("Build_SpeedLimit {} {} {}",
        cf(l.offset_start.value), cf(l.offset_end.value), cf(l.speed.value))).collect();
    let pars: Vec<String> = s.speed_params.iter().map(|p| match p.limit_type {
        LimitType::MassTotal => format!("SPMassTotal {} {}", coq_cmp(p.compare_type), cf((p.limit_val * uc::KG).value)),
        LimitType::MassPerBrake => format!("SPMassPerBrake {} {}", coq_cmp(p.compare_type), cf((p.limit_val * uc::KG).value)),
        // `limit_val as u32` is Rust's own cast (see SpeedPoints.v)
        LimitType::AxleCount => format!("SPAxleCount {} {}", coq_cmp(p.compare_type), cz((p.limit_val as u32) as i64)),
    }).collect();
    format!("(Build_SpeedSet [{}] [{}] {})", lims.join("; "), pars.join("; "), cb(s.is_head_end))
}
fn coq_pairs(v: &[(f64, f64)]) -> String {
    format!("[{}]", v.iter().map(|(a, b)| format!("({}, {})", cf(*a), cf(*b))).collect::<Vec<_>>().join("; "))
}
pub fn coq_link(l: &Link) -> String {
    let elevs: Vec<(f64, f64)> = l.elevs.iter().map(|e| (e.offset.value, e.elev.value)).collect();
    let heads: Vec<(f64, f64)> = l.headings.iter().map(|h| (h.offset.value, h.heading.value)).collect();
    let mut keys: Vec<&TrainType> = l.speed_sets.keys().collect();
    keys.sort_by_key(|k| **k as u8);
    let sets: Vec<String> = keys.iter().map(|k| format!("({}, {})", cz(**k as u8 as i64), coq_speed_set(&l.speed_sets[k]))).collect();
    let set = match &l.speed_set { Some(s) => format!("(Some {})", coq_speed_set(s)), None => "None".into() };
    let cats: Vec<String> = l.cat_power_limits.iter().map(|c| format!("({}, {}, {})",
        cf(c.offset_start.value), cf(c.offset_end.value), cf(c.power_limit.value))).collect();
    format!("(Build_Link {} {} {} {} {} {} {} {} [{}] {} [{}])",
        cz(l.idx_curr.idx() as i64), cz(l.idx_next.idx() as i64), cz(l.idx_next_alt.idx() as i64),
        cz(l.idx_prev.idx() as i64), cz(l.idx_prev_alt.idx() as i64), cf(l.length.value),
        coq_pairs(&elevs), coq_pairs(&heads), sets.join("; "), set, cats.join("; "))
}
pub fn coq_net(net: &[Link]) -> String {
    format!("[{}]", net.iter().map(coq_link).collect::<Vec<_>>().join("; "))
}
pub fn coq_tp(tp: &TrainParams) -> String {
    format!("(Build_TrainParams {} {} {} {} {} {} {} {} {})", cf(tp.length.value), cf(tp.speed_max.value),
        cf(tp.towed_mass_static.value), cf(tp.mass_per_brake.value), cz(tp.axle_count as i64),
        cz(tp.train_type as u8 as i64), cf(tp.curve_coeff_0.value), cf(tp.curve_coeff_1.value), cf(tp.curve_coeff_2.value))
}
pub fn coq_parts(parts: &[Vec<u32>]) -> String {
    format!("[{}]", parts.iter().map(|p| format!("[{}]", p.iter().map(|i| cz(*i as i64)).collect::<Vec<_>>().join("; "))).collect::<Vec<_>>().join("; "))
}
pub fn coq_pts(v: &[(f64, f64)]) -> String { coq_pairs(v) }

pub fn net_json(net: &[Link], tp: &TrainParams, parts: &[Vec<u32>]) -> Value {
    // non-finite floats cannot be written as JSON numbers: the yaml text keeps them
    json!({
        "network_yaml": serde_yaml::to_string(&net.to_vec()).unwrap_or_default(),
        "train_params_yaml": serde_yaml::to_string(tp).unwrap_or_default(),
        "extend_calls": parts,
    })
}

// ---------------------------------------------------------------- generators
pub fn mk_limit(a: f64, b: f64, v: f64) -> SpeedLimit {
    SpeedLimit { offset_start: a * uc::M, offset_end: b * uc::M, speed: v * uc::MPS }
}
fn nice(r: &mut Rng, lo: f64, hi: f64) -> f64 {
    // a mixture of round numbers (so that bounds coincide exactly) and arbitrary floats
    match r.below(3) {
        0 => (r.range(lo, hi) / 100.0).round() * 100.0,
        1 => (r.range(lo, hi) / 12.5).round() * 12.5,
        _ => r.range(lo, hi),
    }.max(lo).min(hi)
}

pub struct TrainGen { pub tp: TrainParams }
pub fn gen_train(r: &mut Rng) -> TrainParams {
    let speed_max = *r.pick(&[20.0, 25.0, 30.0, 26.8224, 35.7632]) ;
    let length = match r.below(4) { 0 => 100.0, 1 => 500.0, 2 => nice(r, 50.0, 3000.0), _ => r.range(20.0, 2500.0) };
    let cars = 10 + r.below(150) as u32;
    let train_type = *r.pick(&[TrainType::Freight, TrainType::Passenger, TrainType::Intermodal]);
    TrainParams {
        length: length * uc::M,
        speed_max: speed_max * uc::MPS,
        towed_mass_static: (cars as f64 * r.range(30.0e3, 130.0e3)) * uc::KG,
        mass_per_brake: r.range(20.0e3, 140.0e3) * uc::KG,
        axle_count: cars * 4,
        train_type,
        curve_coeff_0: r.range(0.0, 0.5) * uc::R,
        curve_coeff_1: r.range(0.0, 800.0) * uc::R,
        curve_coeff_2: r.range(0.0, 2000.0) * uc::R,
    }
}

/// a parameter condition that does (want = true) or does not apply to `tp`
pub fn gen_param(r: &mut Rng, tp: &TrainParams, want: bool) -> SpeedParam {
    let (ty, tv) = match r.below(3) {
        0 => (LimitType::MassTotal, tp.towed_mass_static.value),
        1 => (LimitType::MassPerBrake, tp.mass_per_brake.value),
        _ => (LimitType::AxleCount, tp.axle_count as f64),
    };
    let axle = ty == LimitType::AxleCount;
    let below = if axle { (tv - 1.0 - r.below(40) as f64).max(0.0) } else { tv * r.range(0.3, 0.95) };
    let above = if axle { tv + 1.0 + r.below(40) as f64 } else { tv * r.range(1.05, 2.0) };
    // (compare type, limit value) pairs that hold / do not hold, including the boundary value itself
    let holds: Vec<(CompareType, f64)> = vec![
        (CompareType::TpEqualRp, tv), (CompareType::TpGreaterThanRp, below), (CompareType::TpLessThanRp, above),
        (CompareType::TpGreaterThanEqualRp, tv), (CompareType::TpGreaterThanEqualRp, below),
        (CompareType::TpLessThanEqualRp, tv), (CompareType::TpLessThanEqualRp, above)];
    let fails: Vec<(CompareType, f64)> = vec![
        (CompareType::TpEqualRp, above), (CompareType::TpEqualRp, below), (CompareType::TpGreaterThanRp, tv),
        (CompareType::TpGreaterThanRp, above), (CompareType::TpLessThanRp, tv), (CompareType::TpLessThanRp, below),
        (CompareType::TpGreaterThanEqualRp, above), (CompareType::TpLessThanEqualRp, below)];
    let (c, v) = if want { *r.pick(&holds) } else { *r.pick(&fails) };
    SpeedParam { limit_val: v, limit_type: ty, compare_type: c }
}

pub fn sort_limits(v: &mut Vec<SpeedLimit>) {
    v.sort_by(|a, b| a.partial_cmp(b).unwrap_or(std::cmp::Ordering::Equal));
}

/// Restrictions of one link of length `len`: bounds are drawn from a small set of anchors so that
/// nested / overlapping / abutting / equal-start / equal-end / duplicate / zero-length pairs are common.
pub fn gen_limits(r: &mut Rng, len: f64, speed_max: f64, tags: &mut Vec<String>) -> Vec<SpeedLimit> {
    let n = match r.below(10) { 0 => 0, 1 | 2 => 1, 3 | 4 => 2, 5 | 6 => 3, 7 => 4, 8 => 5, _ => 6 };
    let m = 2 + r.below(5);
    let mut anchors: Vec<f64> = (0..m).map(|_| nice(r, 0.0, len)).collect();
    if r.chance(0.6) { anchors.push(0.0); }
    if r.chance(0.6) { anchors.push(len); }
    anchors.sort_by(|a, b| a.partial_cmp(b).unwrap());
    anchors.dedup();
    let speeds = [5.0, 10.0, 15.0, 20.0, 22.352, 25.0, 30.0, 40.0];
    let mut out: Vec<SpeedLimit> = vec![];
    let mut pick_speed = |r: &mut Rng| -> f64 {
        match r.below(8) {
            0 => speed_max,                       // exactly the train's own maximum: never inserted
            1 => speed_max + r.range(0.5, 10.0),  // above
            2 => r.range(1.0, speed_max),
            3 => 0.0_f64.max(if r.chance(0.2) { 0.0 } else { 2.5 }),
            _ => *r.pick(&speeds),
        }
    };
    while out.len() < n {
        let k = anchors.len();
        match r.below(12) {
            0 if k >= 4 && out.len() + 2 <= n => {
                // strictly nested pair
                let mut ix: Vec<usize> = (0..k).collect();
                for i in 0..4 { let j = i + r.below(k - i); ix.swap(i, j); }
                let mut q = [ix[0], ix[1], ix[2], ix[3]]; q.sort();
                let (vo, vi) = (pick_speed(r), pick_speed(r));
                out.push(mk_limit(anchors[q[0]], anchors[q[3]], vo));
                out.push(mk_limit(anchors[q[1]], anchors[q[2]], vi));
                tags.push("shape:nested_pair".into());
            }
            1 => {
                // zero length
                let a = *r.pick(&anchors);
                out.push(mk_limit(a, a, pick_speed(r)));
                tags.push("shape:zero_length".into());
            }
            2 if !out.is_empty() => {
                // same bounds as an earlier one, other speed
                let p = *r.pick(&out);
                out.push(mk_limit(p.offset_start.value, p.offset_end.value, pick_speed(r)));
                tags.push("shape:duplicate_bounds".into());
            }
            3 if !out.is_empty() => {
                // abutting an earlier one
                let p = *r.pick(&out);
                let b = p.offset_end.value;
                let later: Vec<f64> = anchors.iter().cloned().filter(|x| *x > b).collect();
                if !later.is_empty() { out.push(mk_limit(b, *r.pick(&later), pick_speed(r))); tags.push("shape:abutting".into()); }
                else { out.push(mk_limit(0.0, b, pick_speed(r))); }
            }
            _ => {
                let i = r.below(k); let j = r.below(k);
                let (a, b) = (anchors[i.min(j)], anchors[i.max(j)]);
                if a == b && r.chance(0.7) { continue; }
                out.push(mk_limit(a, b, pick_speed(r)));
            }
        }
    }
    out
}

pub struct RouteOpts { pub max_links: usize, pub geom: bool, pub malformed: bool, pub plain_speeds: bool }

pub struct Route { pub net: Vec<Link>, pub tp: TrainParams, pub path: Vec<u32>, pub tags: Vec<String>, pub in_domain: bool }

fn gen_elevs(r: &mut Rng, len: f64, n: usize) -> Vec<Elev> {
    // n >= 2 points, offsets strictly increasing from 0 to len
    let mut offs: Vec<f64> = (0..n.saturating_sub(2)).map(|_| nice(r, len * 0.02, len * 0.98)).collect();
    offs.push(0.0); offs.push(len);
    offs.sort_by(|a, b| a.partial_cmp(b).unwrap()); offs.dedup();
    let mut e = r.range(-50.0, 900.0);
    offs.iter().map(|o| { e += r.range(-30.0, 30.0) * if r.chance(0.2) { 0.0 } else { 1.0 }; Elev::new(*o * uc::M, e * uc::M) }).collect()
}
fn gen_headings(r: &mut Rng, len: f64, n: usize, tags: &mut Vec<String>) -> Vec<Heading> {
    let mut offs: Vec<f64> = (0..n.saturating_sub(2)).map(|_| nice(r, len * 0.02, len * 0.98)).collect();
    offs.push(0.0); offs.push(len);
    offs.sort_by(|a, b| a.partial_cmp(b).unwrap()); offs.dedup();
    let rev = uc::REV.value;
    let mut h = r.range(0.0, rev);
    let mut out = vec![];
    for o in offs {
        out.push(Heading { offset: o * uc::M, heading: h * uc::RAD, lat: None, lon: None });
        let dh = match r.below(5) { 0 => 0.0, 1 => r.range(-0.002, 0.002), 2 => r.range(-0.2, 0.2), 3 => r.range(-1.5, 1.5), _ => r.range(-0.03, 0.03) };
        let mut hn = h + dh;
        if hn >= rev { hn -= rev; tags.push("heading:wrap_up".into()); }
        if hn < 0.0 { hn += rev; tags.push("heading:wrap_down".into()); }
        if hn >= rev || hn < 0.0 { hn = 0.0; }
        h = hn;
    }
    out
}

/// A chain network 1..=n (index 0 is the dummy link) plus optional extra links, a train, and the
/// route [1..=n]. With `geom` the links get varied elevation / heading / catenary data; otherwise
/// the minimum (two elevations).
pub fn gen_route(r: &mut Rng, o: &RouteOpts) -> Route {
    let mut tags: Vec<String> = vec![];
    let mut tp = gen_train(r);
    let n = 1 + r.below(o.max_links);
    tags.push(format!("links:{}", n));
    let mut net: Vec<Link> = vec![Link::default()];
    let mut in_domain = true;
    let other_type = |t: TrainType| if t == TrainType::Freight { TrainType::Passenger } else { TrainType::Freight };
    for i in 1..=n {
        let len = match r.below(4) { 0 => 1000.0 * (1 + r.below(12)) as f64, 1 => nice(r, 300.0, 20000.0), _ => r.range(200.0, 15000.0) };
        // the speed set that will be selected for this train
        // plain_speeds (C06): at most two ordinary restrictions, no zero-length ones -- the speed
        // profile is C13's subject and its known defects must not disturb the geometry check
        let mut lims = if o.plain_speeds {
            let mut v = vec![];
            for _ in 0..r.below(3) { let a = nice(r, 0.0, len * 0.6); let b = nice(r, a + 1.0, len); if a < b { v.push(mk_limit(a, b, *r.pick(&[10.0, 15.0, 20.0]))); } }
            v
        } else { gen_limits(r, len, tp.speed_max.value, &mut tags) };
        if r.chance(0.92) { sort_limits(&mut lims); } else if lims.len() > 1 { tags.push("limits:unsorted".into()); }
        let head = r.chance(0.4);
        tags.push(if head { "set:head_end".into() } else { "set:tail_end".into() });
        let mut params = vec![];
        match r.below(6) {
            0 => { params.push(gen_param(r, &tp, false)); if r.chance(0.5) { params.insert(0, gen_param(r, &tp, true)); } tags.push("gate:not_applicable".into()); }
            1 | 2 => { params.push(gen_param(r, &tp, true)); if r.chance(0.3) { params.push(gen_param(r, &tp, true)); } tags.push("gate:applicable".into()); }
            _ => { tags.push("gate:none".into()); }
        }
        let set = SpeedSet { speed_limits: lims, speed_params: params, is_head_end: head };
        let mut speed_sets: HashMap<TrainType, SpeedSet> = HashMap::new();
        let mut speed_set = None;
        if r.chance(0.5) {
            speed_set = Some(set);
            tags.push("sets:single".into());
        } else {
            speed_sets.insert(tp.train_type, set);
            if r.chance(0.6) {
                // a second set for another train type: must be ignored
                let mut t2 = vec![];
                let mut l2 = gen_limits(r, len, tp.speed_max.value, &mut t2); sort_limits(&mut l2);
                speed_sets.insert(other_type(tp.train_type), SpeedSet { speed_limits: l2, speed_params: vec![], is_head_end: r.chance(0.5) });
                tags.push("sets:by_type_2".into());
            } else { tags.push("sets:by_type_1".into()); }
        }
        let (elevs, headings, cats) = if o.geom {
            let ne = 2 + r.below(7);
            let elevs = gen_elevs(r, len, ne);
            let headings = if r.chance(0.25) { tags.push("headings:none".into()); vec![] } else { let nh = 2 + r.below(7); gen_headings(r, len, nh, &mut tags) };
            let mut cats = vec![];
            if r.chance(0.4) {
                let k = 1 + r.below(3);
                let mut b: Vec<f64> = (0..2 * k).map(|_| nice(r, 0.0, len)).collect();
                b.sort_by(|x, y| x.partial_cmp(y).unwrap());
                for j in 0..k {
                    cats.push(CatPowerLimit { offset_start: b[2 * j] * uc::M, offset_end: b[2 * j + 1] * uc::M,
                        power_limit: r.range(1.0e6, 9.0e6) * uc::W, district_id: if r.chance(0.5) { Some(format!("D{}", r.below(9))) } else { None } });
                }
                tags.push("cat:yes".into());
            }
            (elevs, headings, cats)
        } else {
            (vec![Elev::new((0.0 * uc::M), (0.0 * uc::M)), Elev::new(len * uc::M, (0.0 * uc::M))], vec![], vec![])
        };
        net.push(Link {
            idx_curr: LinkIdx::new(i as u32), idx_flip: LinkIdx::new(0),
            idx_next: LinkIdx::new(if i < n { i as u32 + 1 } else { 0 }), idx_next_alt: LinkIdx::new(0),
            idx_prev: LinkIdx::new(i as u32 - 1), idx_prev_alt: LinkIdx::new(0),
            osm_id: None, length: len * uc::M, elevs, headings, speed_sets, speed_set, cat_power_limits: cats,
            link_idxs_lockout: vec![],
        });
    }
    if o.malformed {
        in_domain = false;
        // posted speeds outside the theorem's hypothesis 0 <= v (validation admits them); a
        // zero-length train (tail-end sets are then not extended)
        let k = 1 + r.below(n);
        let l = &mut net[k];
        let set = if let Some(s) = l.speed_set.as_mut() { s } else { l.speed_sets.get_mut(&tp.train_type).unwrap() };
        if set.speed_limits.is_empty() { set.speed_limits.push(mk_limit(0.0, l.length.value, 10.0)); }
        let j = r.below(set.speed_limits.len());
        match r.below(5) {
            0 => { set.speed_limits[j].speed = -r.range(1.0, 40.0) * uc::MPS; tags.push("malformed:negative_speed".into()); }
            1 => { set.speed_limits[j].speed = f64::INFINITY * uc::MPS; tags.push("malformed:inf_speed".into()); }
            2 => { set.speed_limits[j].speed = f64::NEG_INFINITY * uc::MPS; tags.push("malformed:neg_inf_speed".into()); }
            3 => { set.speed_limits[j].speed = -0.0 * uc::MPS; tags.push("malformed:neg_zero_speed".into()); }
            _ => { set.speed_limits[j].offset_end = f64::INFINITY * uc::M; tags.push("malformed:inf_offset_end".into()); }
        }
        if r.chance(0.2) { tp.length = (0.0 * uc::M); tags.push("malformed:zero_train_length".into()); }
    }
    let path: Vec<u32> = (1..=n as u32).collect();
    Route { net, tp, path, tags, in_domain }
}

/// all compositions of `path` into consecutive non-empty parts when it is short, else `k` random ones
pub fn partitions(r: &mut Rng, path: &[u32], all_up_to: usize, k: usize) -> Vec<Vec<Vec<u32>>> {
    let n = path.len();
    let cut = |mask: u64| -> Vec<Vec<u32>> {
        let mut parts = vec![]; let mut cur = vec![];
        for i in 0..n { cur.push(path[i]); if i + 1 == n || (mask >> i) & 1 == 1 { parts.push(cur.clone()); cur.clear(); } }
        parts
    };
    if n == 0 { return vec![vec![]]; }
    if n <= all_up_to { (0..(1u64 << (n - 1))).map(cut).collect() }
    else {
        let mut v = vec![cut(0)];
        for _ in 0..k { v.push(cut(r.next() & ((1u64 << (n - 1)) - 1))); }
        v.push(cut((1u64 << (n - 1)) - 1));
        v
    }
}

// ---------------------------------------------------------------- the speed oracle
/// The selected speed set of a link for this train (None = extract_speed_set would fail).
pub fn selected_set<'a>(l: &'a Link, tp: &TrainParams) -> Option<&'a SpeedSet> {
    match &l.speed_set { Some(s) => Some(s), None => l.speed_sets.get(&tp.train_type) }
}
fn cmp_holds<T: PartialOrd>(c: CompareType, t: T, l: T) -> bool {
    match c {
        CompareType::TpEqualRp => t == l, CompareType::TpGreaterThanRp => t > l, CompareType::TpLessThanRp => t < l,
        CompareType::TpGreaterThanEqualRp => t >= l, CompareType::TpLessThanEqualRp => t <= l,
    }
}
pub fn set_applies(tp: &TrainParams, s: &SpeedSet) -> bool {
    s.speed_params.iter().all(|p| match p.limit_type {
        LimitType::MassTotal => cmp_holds(p.compare_type, tp.towed_mass_static.value, p.limit_val),
        LimitType::MassPerBrake => cmp_holds(p.compare_type, tp.mass_per_brake.value, p.limit_val),
        LimitType::AxleCount => cmp_holds(p.compare_type, tp.axle_count, p.limit_val as u32),
    })
}
/// Every posted restriction of the route in absolute path coordinates [a, b) @ v, for the
/// applicable sets, tail-end ones extended by the train length.
pub fn abs_restrictions(net: &[Link], tp: &TrainParams, path: &[u32]) -> Vec<(f64, f64, f64)> {
    let mut out = vec![];
    let mut base = 0.0f64;
    for i in path {
        let l = &net[*i as usize];
        if let Some(s) = selected_set(l, tp) {
            if set_applies(tp, s) {
                let ext = if s.is_head_end { 0.0 } else { tp.length.value };
                for sl in &s.speed_limits {
                    out.push((sl.offset_start.value + base, sl.offset_end.value + base + ext, sl.speed.value));
                }
            }
        }
        base = l.length.value + base;
    }
    out
}
pub fn eval_pts(pts: &[(f64, f64)], x: f64) -> f64 {
    let mut v = pts[0].1;
    for (o, s) in pts { if *o <= x { v = *s; } else { break; } }
    v
}
pub fn spec_speed(speed_max: f64, rs: &[(f64, f64, f64)], x: f64) -> f64 {
    let mut m = speed_max;
    for (a, b, v) in rs { if *a <= x && x < *b && *v < m { m = *v; } }
    m
}
/// positions at which two step functions with these breakpoints can differ: every breakpoint and
/// one point inside every gap, plus one beyond the last
pub fn probe_positions(pts: &[(f64, f64)], rs: &[(f64, f64, f64)]) -> Vec<f64> {
    let mut bp: Vec<f64> = pts.iter().map(|p| p.0).collect();
    for (a, b, _) in rs { bp.push(*a); bp.push(*b); }
    bp.retain(|x| x.is_finite() && *x >= 0.0);
    bp.push(0.0);
    bp.sort_by(|a, b| a.partial_cmp(b).unwrap()); bp.dedup();
    let mut xs = vec![];
    for i in 0..bp.len() {
        xs.push(bp[i]);
        if i + 1 < bp.len() { xs.push(bp[i] + (bp[i + 1] - bp[i]) * 0.5); } else { xs.push(bp[i] + 1.0); }
    }
    xs
}
/// (too_high, too_low, non_canonical) verdicts of the implementation's profile against the
/// pointwise minimum recomputed from the network
pub fn speed_oracle(net: &[Link], tp: &TrainParams, path: &[u32], pts: &[(f64, f64)]) -> (Vec<String>, Vec<String>, Vec<String>) {
    let rs = abs_restrictions(net, tp, path);
    let (mut hi, mut lo, mut canon) = (vec![], vec![], vec![]);
    if pts.is_empty() { canon.push("speed profile is empty".to_string()); return (hi, lo, canon); }
    for x in probe_positions(pts, &rs) {
        let got = eval_pts(pts, x);
        let want = spec_speed(tp.speed_max.value, &rs, x);
        if got > want && hi.is_empty() {
            hi.push(format!("enforced limit {} at position {} exceeds the tightest posted restriction {}", got, x, want));
        }
        if got < want && lo.is_empty() {
            let zl = rs.iter().any(|r| r.0 == r.1 && r.2 < tp.speed_max.value);
            lo.push(format!("enforced limit {} at position {} is below the tightest posted restriction {} (over-restriction; {})", got, x, want,
                if zl { "the route carries a zero-length restriction" } else { "no zero-length restriction on the route" }));
        }
    }
    if pts[0].0 != 0.0 { canon.push(format!("first speed point at offset {} instead of 0", pts[0].0)); }
    for w in pts.windows(2) {
        if !(w[0].0 < w[1].0) && canon.len() < 2 { canon.push(format!("speed point offsets not strictly increasing: {} then {}", w[0].0, w[1].0)); }
        if w[0].1 == w[1].1 && canon.len() < 2 { canon.push(format!("redundant speed point: {} at offsets {} and {}", w[0].1, w[0].0, w[1].0)); }
    }
    (hi, lo, canon)
}

/// classification of the pairs of applicable absolute restrictions (generator quality measure)
pub fn pair_tags(rs: &[(f64, f64, f64)], speed_max: f64) -> Vec<String> {
    let mut t = std::collections::BTreeSet::new();
    for (i, x) in rs.iter().enumerate() {
        if x.0 == x.1 { t.insert("pair:zero_length"); }
        if x.2 >= speed_max { t.insert("limit:at_or_above_speed_max"); } else { t.insert("limit:below_speed_max"); }
        for y in rs.iter().skip(i + 1) {
            let (a, b) = if (x.0, x.1) <= (y.0, y.1) { (x, y) } else { (y, x) };
            if a.0 == b.0 && a.1 == b.1 { t.insert("pair:same_bounds"); }
            else if a.0 == b.0 { t.insert("pair:equal_start"); }
            else if a.1 == b.1 { t.insert("pair:equal_end"); }
            else if a.1 == b.0 { t.insert("pair:abutting"); }
            else if a.0 < b.0 && b.1 < a.1 { t.insert("pair:strictly_nested"); }
            else if b.0 < a.1 { t.insert("pair:overlapping"); }
            else { t.insert("pair:disjoint"); }
        }
    }
    t.into_iter().map(|s| s.to_string()).collect()
}
