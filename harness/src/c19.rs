//! C19 -- histories and step counters stay aligned through the whole object tree.
//! Runs the four simulation kinds (LocomotiveSimulation, ConsistSimulation, SetSpeedTrainSim,
//! SpeedLimitTrainSim incl. walk_timed_path) through their public API with save intervals
//! None / 1 / n (and 0), over generated consist compositions, with runs that end in Err and with
//! interleaved set_save_interval calls; reads counter, interval and the `i` column of every
//! *HistoryVec in the tree and compares them with the model (coq/model/Hist.v) evaluated in Coq on
//! the same initial tree and the same call sequence.
use crate::pt::*;
use crate::util::*;
use altrios_core::consist::locomotive::locomotive_model::PowertrainType;
use altrios_core::consist::{Consist, LocoTrait};
use altrios_core::prelude::*;
use altrios_core::track::{LocationMap, SpeedLimit};
use altrios_core::train::TrainSimBuilder;
use altrios_core::uc;
use altrios_core::validate::Valid;
use serde_json::{json, Value};

// ------------------------------------------------------------------ tree capture
#[derive(Clone, Debug, PartialEq)]
pub struct Node { pub i: usize, pub si: Option<usize>, pub hist: Vec<usize>, pub name: String }
#[derive(Clone, Debug)]
pub struct LocoT { pub nd: Node, pub comps: Vec<Node> }
#[derive(Clone, Debug)]
pub struct ConT { pub nd: Node, pub locos: Vec<LocoT> }

fn nd(name: &str, i: usize, si: Option<usize>, hist: &[usize]) -> Node { Node { i, si, hist: hist.to_vec(), name: name.into() } }

pub fn loco_tree(l: &Locomotive, p: &str) -> LocoT {
    let comps = match &l.loco_type {
        PowertrainType::ConventionalLoco(c) => vec![
            nd(&format!("{}fc", p), c.fc.state.i, c.fc.save_interval, &c.fc.history.i),
            nd(&format!("{}gen", p), c.gen.state.i, c.gen.save_interval, &c.gen.history.i),
            nd(&format!("{}edrv", p), c.edrv.state.i, c.edrv.save_interval, &c.edrv.history.i)],
        PowertrainType::BatteryElectricLoco(b) => vec![
            nd(&format!("{}res", p), b.res.state.i, b.res.save_interval, &b.res.history.i),
            nd(&format!("{}edrv", p), b.edrv.state.i, b.edrv.save_interval, &b.edrv.history.i)],
        PowertrainType::HybridLoco(h) => vec![
            nd(&format!("{}fc", p), h.fc.state.i, h.fc.save_interval, &h.fc.history.i),
            nd(&format!("{}gen", p), h.gen.state.i, h.gen.save_interval, &h.gen.history.i),
            nd(&format!("{}res", p), h.res.state.i, h.res.save_interval, &h.res.history.i),
            nd(&format!("{}edrv", p), h.edrv.state.i, h.edrv.save_interval, &h.edrv.history.i)],
        PowertrainType::DummyLoco(_) => vec![],
    };
    LocoT { nd: nd(&format!("{}loco", p), l.state.i, l.get_save_interval(), &l.history.i), comps }
}
pub fn con_tree(c: &Consist) -> ConT {
    ConT { nd: nd("con", c.state.i, c.get_save_interval(), &c.history.i),
        locos: c.loco_vec.iter().enumerate().map(|(k, l)| loco_tree(l, &format!("l{}.", k))).collect() }
}
fn private_si<T: serde::Serialize>(x: &T) -> Option<usize> {
    serde_json::to_value(x).ok().and_then(|v| v.get("save_interval").cloned()).and_then(|v| v.as_u64()).map(|u| u as usize)
}

/// the object tree of one simulation, in the order of coq/model/ExecHist.v
#[derive(Clone, Debug)]
pub enum Tree {
    L { i: usize, loco: LocoT },
    C { i: usize, con: ConT },
    S { nd: Node, con: ConT },
    T { nd: Node, fric: Node, con: ConT },
}
impl Tree {
    pub fn nodes(&self) -> Vec<&Node> {
        fn lo<'a>(l: &'a LocoT, v: &mut Vec<&'a Node>) { v.push(&l.nd); for c in &l.comps { v.push(c); } }
        fn co<'a>(c: &'a ConT, v: &mut Vec<&'a Node>) { v.push(&c.nd); for l in &c.locos { lo(l, v); } }
        let mut v = Vec::new();
        match self {
            Tree::L { loco, .. } => lo(loco, &mut v),
            Tree::C { con, .. } => co(con, &mut v),
            Tree::S { nd, con } => { v.push(nd); co(con, &mut v); }
            Tree::T { nd, fric, con } => { v.push(nd); v.push(fric); co(con, &mut v); }
        }
        v
    }
    pub fn sim_counter(&self) -> Option<usize> {
        match self { Tree::L { i, .. } | Tree::C { i, .. } => Some(*i), _ => None }
    }
    fn coq_node(n: &Node) -> String {
        format!("(Build_node {} {} [{}])", n.i, match n.si { Some(k) => format!("(Some {})", k), None => "None".into() },
            n.hist.iter().map(|x| x.to_string()).collect::<Vec<_>>().join("; "))
    }
    fn coq_loco(l: &LocoT) -> String {
        format!("(Build_loco [{}] {})", l.comps.iter().map(Self::coq_node).collect::<Vec<_>>().join("; "), Self::coq_node(&l.nd))
    }
    fn coq_con(c: &ConT) -> String {
        format!("(Build_consist [{}] {})", c.locos.iter().map(Self::coq_loco).collect::<Vec<_>>().join("; "), Self::coq_node(&c.nd))
    }
    pub fn coq(&self) -> String {
        match self {
            Tree::L { i, loco } => format!("(Build_lsim {} {})", Self::coq_loco(loco), i),
            Tree::C { i, con } => format!("(Build_csim {} {})", Self::coq_con(con), i),
            Tree::S { nd, con } => format!("(Build_ssim {} {})", Self::coq_con(con), Self::coq_node(nd)),
            Tree::T { nd, fric, con } => format!("(Build_tsim {} {} {})", Self::coq_con(con), Self::coq_node(fric), Self::coq_node(nd)),
        }
    }
    pub fn entry(&self) -> &'static str {
        match self { Tree::L { .. } => "x_hist_lsim", Tree::C { .. } => "x_hist_csim", Tree::S { .. } => "x_hist_ssim", Tree::T { .. } => "x_hist_tsim" }
    }
    pub fn kind(&self) -> &'static str {
        match self { Tree::L { .. } => "loco_sim", Tree::C { .. } => "consist_sim", Tree::S { .. } => "set_speed", Tree::T { .. } => "speed_limit" }
    }
    /// labelled values in the order of ExecHist.v (after the `ret` field)
    pub fn outs(&self, ret: i64) -> Outs {
        let mut o = Outs::new();
        o.z("ret", ret);
        if let Some(i) = self.sim_counter() { o.z("sim.i", i as i64); }
        for n in self.nodes() {
            o.z(&format!("{}.i", n.name), n.i as i64);
            o.z(&format!("{}.save_interval", n.name), n.si.map(|x| x as i64).unwrap_or(-1));
            o.z(&format!("{}.history.len", n.name), n.hist.len() as i64);
            for (k, h) in n.hist.iter().enumerate() { o.z(&format!("{}.history.i[{}]", n.name, k), *h as i64); }
        }
        o
    }
    pub fn to_json(&self) -> Value {
        json!({"sim_counter": self.sim_counter(), "nodes": self.nodes().iter().map(|n| json!({"name": n.name, "i": n.i, "save_interval": n.si, "history_i": n.hist})).collect::<Vec<_>>()})
    }
    pub fn aligned(&self) -> bool {
        let ns = self.nodes();
        let f = ns[0];
        ns.iter().all(|n| n.i == f.i && n.si == f.si && n.hist == f.hist) && self.sim_counter().map(|i| i == f.i).unwrap_or(true)
    }
}

pub fn tree_lsim(s: &LocomotiveSimulation) -> Tree { Tree::L { i: s.i, loco: loco_tree(&s.loco_unit, "") } }
pub fn tree_csim(s: &ConsistSimulation) -> Tree { Tree::C { i: s.i, con: con_tree(&s.loco_con) } }
pub fn tree_ssim(s: &SetSpeedTrainSim) -> Tree {
    Tree::S { nd: nd("train", s.state.i, private_si(s), &s.history.i), con: con_tree(&s.loco_con) }
}
pub fn tree_tsim(s: &SpeedLimitTrainSim) -> Tree {
    Tree::T { nd: nd("train", s.state.i, s.get_save_interval(), &s.history.i),
        fric: nd("fric", s.fric_brake.state.i, s.fric_brake.save_interval, &s.fric_brake.history.i), con: con_tree(&s.loco_con) }
}

// ------------------------------------------------------------------ commands
#[derive(Clone, Debug)]
pub enum Cmd { Save, Step(bool), SetSi(Option<usize>) }
fn coq_cmds(cs: &[Cmd]) -> String {
    // run-length encode accepted steps to keep the terms short
    let mut parts: Vec<String> = Vec::new();
    let mut k = 0usize;
    let flush = |k: &mut usize, parts: &mut Vec<String>| { if *k > 0 { parts.push(format!("steps {}", *k)); *k = 0; } };
    for c in cs {
        match c {
            Cmd::Step(true) => k += 1,
            Cmd::Step(false) => { flush(&mut k, &mut parts); parts.push("[CStep false]".into()); }
            Cmd::Save => { flush(&mut k, &mut parts); parts.push("[CSave]".into()); }
            Cmd::SetSi(si) => { flush(&mut k, &mut parts); parts.push(format!("[CSetSI {}]", match si { Some(n) => format!("(Some {})", n), None => "None".into() })); }
        }
    }
    flush(&mut k, &mut parts);
    if parts.is_empty() { "[]".into() } else { format!("({})", parts.join(" ++ ")) }
}
fn cmds_json(cs: &[Cmd]) -> Value {
    Value::Array(cs.iter().map(|c| match c { Cmd::Save => json!("save"), Cmd::Step(b) => json!({"step_ok": b}), Cmd::SetSi(s) => json!({"set_save_interval": s}) }).collect())
}

/// independent restatement of the property on the implementation's tree after a run that started
/// from a freshly built, aligned object with interval `si` and executed `k` steps after the
/// initial save (`walked` = walk()/walk_timed_path() was used, i.e. there was an initial save)
fn oracle_walk(t: &Tree, si: Option<usize>, k: usize, initial_save: bool) -> Vec<String> {
    let mut f = Vec::new();
    let ns = t.nodes();
    let want_i = 1 + k;
    let mut want_hist: Vec<usize> = Vec::new();
    if let Some(n) = si {
        if n > 0 {
            if initial_save && 1 % n == 0 { want_hist.push(1); }
            for j in 1..=k { if j % n == 0 { want_hist.push(j); } }
        }
    }
    let want_len = match si { None => 0, Some(n) if n > 0 => (if initial_save && n == 1 { 1 } else { 0 }) + k / n, _ => 0 };
    if want_hist.len() != want_len { f.push(format!("harness: count formula {} disagrees with enumeration {}", want_len, want_hist.len())); }
    if let Some(i) = t.sim_counter() { if i != want_i { f.push(format!("simulation counter is {} after {} executed steps (expected {})", i, k, want_i)); } }
    for n in &ns {
        if n.i != want_i { f.push(format!("{}: step counter {} after {} executed steps (expected {}; top level has {})", n.name, n.i, k, want_i, ns[0].i)); }
        if n.si != si { f.push(format!("{}: save interval {:?} differs from the one set at the top level {:?}", n.name, n.si, si)); }
        if n.hist.len() != want_len { f.push(format!("{}: history has {} entries, expected {} (interval {:?}, {} executed steps)", n.name, n.hist.len(), want_len, si, k)); }
        else if n.hist != want_hist { f.push(format!("{}: history step indices {:?} differ from the expected {:?}", n.name, n.hist, want_hist)); }
    }
    f
}
/// weaker oracle for arbitrary call sequences from an aligned start: still aligned
fn oracle_aligned(t: &Tree) -> Vec<String> {
    let ns = t.nodes();
    let f0 = ns[0];
    let mut f = Vec::new();
    for n in &ns {
        if n.i != f0.i { f.push(format!("{}: step counter {} differs from {}'s {}", n.name, n.i, f0.name, f0.i)); }
        if n.si != f0.si { f.push(format!("{}: save interval {:?} differs from {}'s {:?}", n.name, n.si, f0.name, f0.si)); }
        if n.hist != f0.hist { f.push(format!("{}: history step indices (len {}) differ from {}'s (len {})", n.name, n.hist.len(), f0.name, f0.hist.len())); }
    }
    if let Some(i) = t.sim_counter() { if i != f0.i { f.push(format!("simulation counter {} differs from {}'s {}", i, f0.name, f0.i)); } }
    f
}

/// valid from ANY start (aligned or not, any mix of intervals): a consist saves its units only when it saves itself,
/// a train simulation saves brake and consist only when it saves itself - so over any call sequence no nested history
/// grows by more entries than the history of the object that gates it (nodes()[0] of these trees)
fn oracle_gated(pre: &Tree, post: &Tree) -> Vec<String> {
    if matches!(pre, Tree::L { .. }) { return vec![]; }
    let (a, b) = (pre.nodes(), post.nodes());
    if a.len() != b.len() || a.is_empty() { return vec![]; }
    let root = b[0].hist.len().saturating_sub(a[0].hist.len());
    let mut f = Vec::new();
    for (x, y) in a.iter().zip(b.iter()).skip(1) {
        let d = y.hist.len().saturating_sub(x.hist.len());
        if d > root { f.push(format!("{}: history grew by {} entries while {}'s (which gates it) grew by {} (intervals {:?} / {:?})", y.name, d, b[0].name, root, y.si, b[0].si)); }
    }
    f
}

// ------------------------------------------------------------------ object builders
fn pick_si(r: &mut Rng) -> Option<usize> {
    match r.below(10) { 0 | 1 => None, 2 | 3 | 4 => Some(1), 5 => Some(2), 6 => Some(3), 7 => Some(1 + r.below(12)), 8 => Some(5 + r.below(60)), _ => Some(1 + r.below(4)) }
}
fn si_tag(si: Option<usize>) -> String {
    match si { None => "interval:None".into(), Some(0) => "interval:0".into(), Some(1) => "interval:1".into(), Some(n) if n <= 4 => "interval:2-4".into(), Some(n) if n <= 16 => "interval:5-16".into(), _ => "interval:>16".into() }
}
fn small_consist(r: &mut Rng, nmax: usize, allow_dummy: bool) -> (Consist, String) {
    let n = 1 + r.below(nmax);
    let mut shape = String::new();
    let locos: Vec<Locomotive> = (0..n).map(|_| {
        let k = r.below(if allow_dummy { 11 } else { 10 });
        if k < 5 { shape.push('C'); rand_conv_loco(r) } else if k < 10 { shape.push('B'); rand_bel_loco(r) } else {
            shape.push('D');
            let mut l = Locomotive::default();
            l.loco_type = PowertrainType::DummyLoco(DummyLoco::default());
            l
        }
    }).collect();
    let mut c = Consist::new(locos, None, Default::default());
    let _ = altrios_core::traits::SerdeAPI::init(&mut c);
    (c, shape)
}

/// consists for the train simulations: the shipped default units (the generated powertrains of
/// pt.rs are tuned for direct power demands, not for a train's traction control)
fn default_consist(r: &mut Rng, nmax: usize) -> (Consist, String) {
    let n = 1 + r.below(nmax);
    let mut shape = String::new();
    let locos: Vec<Locomotive> = (0..n).map(|_| {
        if r.chance(0.6) { shape.push('C'); Locomotive::default() } else { shape.push('B'); Locomotive::default_battery_electric_loco() }
    }).collect();
    let mut c = Consist::new(locos, None, Default::default());
    let _ = altrios_core::traits::SerdeAPI::init(&mut c);
    (c, shape)
}

pub fn chain_network(lens: &[f64], grade: f64) -> Vec<Link> {
    let mut v = vec![Link::default()];
    let n = lens.len();
    let mut elev0 = 100.0;
    for (k, len) in lens.iter().enumerate() {
        let idx = k + 1;
        let mut l = Link::valid();
        l.length = uc::M * *len;
        l.elevs = vec![Elev { offset: uc::M * 0.0, elev: uc::M * elev0 }, Elev { offset: uc::M * *len, elev: uc::M * (elev0 + grade * len) }];
        elev0 += grade * len;
        l.headings = vec![Heading { offset: uc::M * 0.0, heading: uc::RAD * 0.0, lat: None, lon: None }, Heading { offset: uc::M * *len, heading: uc::RAD * 0.0, lat: None, lon: None }];
        for (_, ss) in l.speed_sets.iter_mut() {
            ss.speed_limits = vec![SpeedLimit { offset_start: uc::M * 0.0, offset_end: uc::M * *len, speed: uc::MPS * 20.0 }];
        }
        l.idx_curr = LinkIdx::new(idx as u32);
        l.idx_next = LinkIdx::new(if idx == n { 0 } else { idx as u32 + 1 });
        l.idx_prev = LinkIdx::new(if idx == 1 { 0 } else { idx as u32 - 1 });
        v.push(l);
    }
    v
}

fn err_step(msg: &str) -> Option<usize> {
    // "time step: N" context added by every simulation's step()
    let p = msg.find("time step: ")?;
    let rest = &msg[p + 11..];
    let digits: String = rest.chars().take_while(|c| c.is_ascii_digit()).collect();
    digits.parse().ok()
}

// ------------------------------------------------------------------ case emission
struct Emit<'a> { sink: &'a mut Sink, made: usize }
impl<'a> Emit<'a> {
    #[allow(clippy::too_many_arguments)]
    fn put(&mut self, id: String, sub: &str, pre: &Tree, cmds: &[Cmd], post: Result<(&Tree, i64, String), String>, tags0: &[String],
           fails: Vec<String>, in_domain: bool, extra: Value) {
        let mut coq = format!("{} {} {}", pre.entry(), pre.coq(), coq_cmds(cmds));
        let mut tags = tags0.to_vec();
        if let Err(p) = &post { if !p.contains("divisor of zero") { coq = String::new(); tags.push("panic:not_interval_related(not compared)".into()); } }
        tags.push(format!("sim:{}", pre.kind()));
        tags.push(format!("nodes:{}", match pre.nodes().len() { 0..=4 => "<=4", 5..=9 => "5-9", 10..=19 => "10-19", _ => ">=20" }));
        tags.push(format!("start:{}", if pre.aligned() { "aligned" } else { "misaligned" }));
        let nsteps = cmds.iter().filter(|c| matches!(c, Cmd::Step(true))).count();
        tags.push(format!("steps:{}", match nsteps { 0 => "0", 1..=9 => "1-9", 10..=49 => "10-49", 50..=199 => "50-199", _ => ">=200" }));
        let outcome = match &post {
            Ok((t, ret, _)) => { tags.push(format!("returned:{}", if *ret == 0 { "ok" } else { "err" })); Outcome::Ok(t.outs(*ret)) }
            Err(p) => { tags.push("returned:panic".into()); Outcome::Panic(p.clone()) }
        };
        let msg = match &post { Ok((_, _, m)) => m.clone(), Err(p) => p.clone() };
        self.sink.put(Case { id, kind: format!("{}/{}", pre.kind(), sub), coq, outcome, tags,
            input: json!({"initial_tree": pre.to_json(), "calls": cmds_json(cmds), "message": msg.chars().take(400).collect::<String>(), "setup": extra}),
            oracle_fail: fails, known: vec![], in_domain });
        self.made += 1;
    }
}

/// what the driver needs from a simulation object (all through the public API)
trait SimObj {
    fn tree(&self) -> Tree;
    fn step(&mut self) -> anyhow::Result<()>;
    fn set_si(&mut self, si: Option<usize>);
    fn walk(&mut self) -> anyhow::Result<()>;
    /// number of steps a complete walk executes, from something other than the counters
    fn steps_done(&self) -> usize;
    /// the walk loop's own continuation test (for driving step() by hand)
    fn more(&self) -> bool;
    /// after a rejected step: change the input so that the run can go on (a caller retrying)
    fn repair(&mut self) {}
}

impl SimObj for LocomotiveSimulation {
    fn tree(&self) -> Tree { tree_lsim(self) }
    fn step(&mut self) -> anyhow::Result<()> { LocomotiveSimulation::step(self) }
    fn set_si(&mut self, si: Option<usize>) { self.set_save_interval(si) }
    fn walk(&mut self) -> anyhow::Result<()> { LocomotiveSimulation::walk(self) }
    fn steps_done(&self) -> usize { self.power_trace.len() - 1 }
    fn more(&self) -> bool { self.i < self.power_trace.len() }
    fn repair(&mut self) { let i = self.i; if i < self.power_trace.len() { self.power_trace.pwr[i] = uc::W * 0.0; } }
}
impl SimObj for ConsistSimulation {
    fn tree(&self) -> Tree { tree_csim(self) }
    fn step(&mut self) -> anyhow::Result<()> { ConsistSimulation::step(self) }
    fn set_si(&mut self, si: Option<usize>) { self.set_save_interval(si) }
    fn walk(&mut self) -> anyhow::Result<()> { ConsistSimulation::walk(self) }
    fn steps_done(&self) -> usize { self.power_trace.len() - 1 }
    fn more(&self) -> bool { self.i < self.power_trace.len() }
    fn repair(&mut self) { let i = self.i; if i < self.power_trace.len() { self.power_trace.pwr[i] = uc::W * 0.0; } }
}
impl SimObj for SetSpeedTrainSim {
    fn tree(&self) -> Tree { tree_ssim(self) }
    fn step(&mut self) -> anyhow::Result<()> { SetSpeedTrainSim::step(self) }
    fn set_si(&mut self, si: Option<usize>) { self.set_save_interval(si) }
    fn walk(&mut self) -> anyhow::Result<()> { SetSpeedTrainSim::walk(self) }
    fn steps_done(&self) -> usize { self.speed_trace.len() - 1 }
    fn more(&self) -> bool { self.state.i < self.speed_trace.len() }
    fn repair(&mut self) { let i = self.state.i; if i < self.speed_trace.len() { self.speed_trace.speed[i] = self.speed_trace.speed[i].abs(); } }
}
struct Slts { sim: SpeedLimitTrainSim, network: Vec<Link>, timed: Option<Vec<LinkIdxTime>>, t0: f64 }
impl SimObj for Slts {
    fn tree(&self) -> Tree { tree_tsim(&self.sim) }
    fn step(&mut self) -> anyhow::Result<()> { self.sim.step() }
    fn set_si(&mut self, si: Option<usize>) { self.sim.set_save_interval(si) }
    fn walk(&mut self) -> anyhow::Result<()> {
        match &self.timed { Some(tp) => self.sim.walk_timed_path(&self.network, tp), None => self.sim.walk() }
    }
    // every step advances `state.time` by `state.dt` = 1 s
    fn steps_done(&self) -> usize { ((self.sim.state.time.value - self.t0) / self.sim.state.dt.value).round() as usize }
    fn more(&self) -> bool {
        let s = &self.sim.state; let end = self.sim.path_tpc.offset_end();
        s.offset < end - 1000.0 * uc::FT || (s.offset < end && s.speed.value != 0.0)
    }
    fn repair(&mut self) { self.sim.fric_brake.force_max = uc::N * 1e9; }
}

/// walk(): one case for the whole run
fn drive_walk<S: SimObj>(id: String, sim: &mut S, si: Option<usize>, tags: &[String], em: &mut Emit, extra: Value) {
    let pre = sim.tree();
    let fresh = pre.aligned() && si != Some(0) && pre.nodes().iter().all(|n| n.i == 1 && n.hist.is_empty());
    let mut tags = tags.to_vec();
    let res = catch(std::panic::AssertUnwindSafe(|| sim.walk()));
    let post = sim.tree();
    match res {
        Ok(Ok(())) => {
            tags.push("run:complete".into());
            let k = sim.steps_done();
            let mut cmds = vec![Cmd::Save]; cmds.extend((0..k).map(|_| Cmd::Step(true)));
            let mut fails = if fresh { oracle_walk(&post, si, k, true) } else { vec![] }; fails.extend(oracle_gated(&pre, &post));
            em.put(id, "walk", &pre, &cmds, Ok((&post, 0, String::new())), &tags, fails, fresh, extra);
        }
        Ok(Err(e)) => {
            tags.push("run:err".into());
            let m = format!("{:#}", e);
            match err_step(&m) {
                Some(s) if s >= 1 => {
                    let k = s - 1;
                    let mut cmds = vec![Cmd::Save]; cmds.extend((0..k).map(|_| Cmd::Step(true))); cmds.push(Cmd::Step(false));
                    let mut fails = if fresh { oracle_walk(&post, si, k, true) } else { vec![] }; fails.extend(oracle_gated(&pre, &post));
                    em.put(id, "walk_err", &pre, &cmds, Ok((&post, 1901, m)), &tags, fails, fresh, extra);
                }
                _ => {
                    // an error raised outside step() (e.g. extend_path): counters must be as after the executed steps
                    tags.push("run:err_outside_step".into());
                    let k = sim.steps_done();
                    let mut cmds = vec![Cmd::Save]; cmds.extend((0..k).map(|_| Cmd::Step(true))); cmds.push(Cmd::Step(false));
                    let mut fails = if fresh { oracle_walk(&post, si, k, true) } else { vec![] }; fails.extend(oracle_gated(&pre, &post));
                    em.put(id, "walk_err", &pre, &cmds, Ok((&post, 1901, m)), &tags, fails, fresh, extra);
                }
            }
        }
        Err(p) => {
            tags.push("run:panic".into());
            em.put(id, "walk_panic", &pre, &[Cmd::Save], Err(p), &tags, vec![], false, extra);
        }
    }
}

/// step() / set_save_interval() driven by hand; one case per segment ending at the first Err
/// (the next segment starts from the implementation's tree at that point)
fn drive_manual<S: SimObj>(r: &mut Rng, id: String, sim: &mut S, max_steps: usize, tags: &[String], em: &mut Emit, extra: Value) {
    let mut pre = sim.tree();
    let mut in_dom = pre.aligned() && pre.nodes().iter().all(|n| n.si != Some(0));
    let mut cmds: Vec<Cmd> = Vec::new();
    let mut seg = 0usize;
    let mut calls = 0usize;
    let mut errs_in_a_row = 0usize;
    let p_set = *r.pick(&[0.0, 0.03, 0.1]);
    let mut tags = tags.to_vec();
    tags.push(format!("set_interval_calls:{}", if p_set == 0.0 { "none" } else { "some" }));
    while calls < max_steps && sim.more() {
        if r.chance(p_set) {
            let si = if r.chance(0.05) { Some(0) } else { pick_si(r) };
            if si == Some(0) { in_dom = false; }
            sim.set_si(si);
            cmds.push(Cmd::SetSi(si));
            continue;
        }
        calls += 1;
        let res = catch(std::panic::AssertUnwindSafe(|| sim.step()));
        match res {
            Ok(Ok(())) => { cmds.push(Cmd::Step(true)); errs_in_a_row = 0; }
            Ok(Err(e)) => {
                errs_in_a_row += 1;
                cmds.push(Cmd::Step(false));
                let post = sim.tree();
                let mut fails = if in_dom { oracle_aligned(&post) } else { vec![] };
                fails.extend(oracle_gated(&pre, &post));
                em.put(format!("{}/seg{}", id, seg), "calls_err", &pre, &cmds, Ok((&post, 1901, format!("{:#}", e))), &tags, fails, in_dom, extra.clone());
                seg += 1; pre = post; cmds.clear();
                if errs_in_a_row >= 2 { return; }
                sim.repair();
            }
            Err(p) => {
                cmds.push(Cmd::Step(true));
                em.put(format!("{}/seg{}", id, seg), "calls_panic", &pre, &cmds, Err(p), &tags, vec![], false, extra.clone());
                return;
            }
        }
    }
    let post = sim.tree();
    let mut fails = if in_dom { oracle_aligned(&post) } else { vec![] };
    fails.extend(oracle_gated(&pre, &post));
    em.put(format!("{}/seg{}", id, seg), "calls", &pre, &cmds, Ok((&post, 0, String::new())), &tags, fails, in_dom, extra);
}

/// a power trace of `n` steps whose demand stays inside what the unit can deliver, except at
/// `fail_at` (if any) where it is far above
fn power_trace(r: &mut Rng, n: usize, pmax: f64, fail_at: &[usize]) -> PowerTrace {
    let mut t = vec![0.0]; let mut p = vec![0.0]; let mut e = vec![Some(true)];
    for k in 1..=n {
        t.push(k as f64);
        let frac = (k as f64 * 0.001).min(0.1) * if r.chance(0.2) { 0.0 } else { 1.0 };
        p.push(if fail_at.contains(&k) { pmax * 50.0 + 1e7 } else { pmax * frac });
        e.push(Some(true));
    }
    PowerTrace::new(t, p, e)
}
fn pick_fail(r: &mut Rng, steps: usize) -> Vec<usize> {
    match r.below(10) { 0 | 1 | 2 => vec![1 + r.below(steps)], 3 => vec![1 + r.below(steps), 1 + r.below(steps)], 4 => vec![1], _ => vec![] }
}
fn misalign_loco(r: &mut Rng, l: &mut Locomotive, tags: &mut Vec<String>) {
    if r.chance(0.5) { LocoTrait::step(l); tags.push("pre:stepped_unit".into()); }
    if r.chance(0.6) {
        match &mut l.loco_type {
            PowertrainType::ConventionalLoco(c) => { c.gen.save_interval = Some(2); }
            PowertrainType::BatteryElectricLoco(b) => { b.res.save_interval = None; }
            _ => {}
        }
        tags.push("pre:component_interval".into());
    }
}

fn loco_sim_run(r: &mut Rng, t: usize, em: &mut Emit) {
    let loco = if r.chance(0.5) { rand_conv_loco(r) } else { rand_bel_loco(r) };
    let si = if r.chance(0.04) { Some(0) } else { pick_si(r) };
    let mut tags = vec![si_tag(si)];
    let steps = 1 + r.below(80);
    let fail = pick_fail(r, steps);
    let pmax = loco_rated(&loco) * 0.5;
    let mut sim = LocomotiveSimulation::new(loco, power_trace(r, steps, pmax, &fail), si);
    if r.chance(0.12) { misalign_loco(r, &mut sim.loco_unit, &mut tags); }
    let extra = json!({"steps": steps, "fail_at": fail, "interval": si});
    if r.chance(0.55) { drive_walk(format!("lsim/{}", t), &mut sim, si, &tags, em, extra); }
    else { drive_manual(r, format!("lsim/{}", t), &mut sim, steps, &tags, em, extra); }
}

fn consist_sim_run(r: &mut Rng, t: usize, em: &mut Emit) {
    let (mut con, shape) = small_consist(r, 6, false);
    let si = if r.chance(0.04) { Some(0) } else { pick_si(r) };
    let mut tags = vec![si_tag(si), format!("units:{}", con.loco_vec.len())];
    if shape.contains('D') { tags.push("has:dummy".into()); }
    let steps = 1 + r.below(60);
    let fail = pick_fail(r, steps);
    if r.chance(0.25) { let k = r.below(con.loco_vec.len()); misalign_loco(r, &mut con.loco_vec[k], &mut tags); }
    let pmax: f64 = con.loco_vec.iter().map(loco_rated).sum::<f64>() * 0.3;
    let late_misalign = r.chance(0.05);
    let mut sim = ConsistSimulation::new(con, power_trace(r, steps, pmax, &fail), si);
    if late_misalign { let k = r.below(sim.loco_con.loco_vec.len()); let l = &mut sim.loco_con.loco_vec[k]; l.set_save_interval(Some(3)); tags.push("pre:unit_interval".into()); }
    let extra = json!({"steps": steps, "fail_at": fail, "interval": si, "shape": shape});
    if r.chance(0.55) { drive_walk(format!("csim/{}", t), &mut sim, si, &tags, em, extra); }
    else { drive_manual(r, format!("csim/{}", t), &mut sim, steps, &tags, em, extra); }
}

pub fn train_config(r: &mut Rng) -> TrainConfig {
    let rv: RailVehicle = serde_json::from_value(json!({
        "car_type": "Bulk", "length": 18.0, "axle_count": 4, "brake_count": 1,
        "mass_static_base": 28500.0, "mass_freight": r.range(0.0, 101500.0), "speed_max": 20.0, "braking_ratio": 0.11,
        "mass_rot_per_axle": 750.0, "bearing_res_per_axle": 40.26, "rolling_ratio": 0.001546, "davis_b": 0.0,
        "cd_area": 4.087, "curve_coeff_0": 0.056, "curve_coeff_1": 0.4387579, "curve_coeff_2": 0.01025485})).expect("rail vehicle");
    let mut tc = TrainConfig::valid();
    tc.rail_vehicles = vec![rv];
    let cars = 4 + r.below(14) as u32;
    for (_, v) in tc.n_cars_by_type.iter_mut() { *v = cars; }
    tc
}

fn set_speed_run(r: &mut Rng, t: usize, em: &mut Emit) {
    let (mut con, shape) = default_consist(r, 4);
    let si = if r.chance(0.04) { Some(0) } else { pick_si(r) };
    let mut tags = vec![si_tag(si), format!("units:{}", con.loco_vec.len())];
    if r.chance(0.1) { let k = r.below(con.loco_vec.len()); misalign_loco(r, &mut con.loco_vec[k], &mut tags); }
    let steps = 2 + r.below(70);
    let vmax = r.range(2.0, 9.0);
    let fail = pick_fail(r, steps);
    let time: Vec<f64> = (0..=steps).map(|k| k as f64).collect();
    let speed: Vec<f64> = (0..=steps).map(|k| if fail.contains(&k) { -1.0 } else { (k as f64 * 0.05).min(vmax) }).collect();
    let network = chain_network(&[9000.0], r.range(-0.002, 0.004));
    let tsb = TrainSimBuilder::new(format!("t{}", t), train_config(r), con, None, None, None);
    let sim = tsb.make_set_speed_train_sim(&network, [LinkIdx::new(1)], SpeedTrace::new(time, speed, None), si);
    let mut sim = match sim { Ok(s) => s, Err(e) => { if std::env::var("C19_DEBUG").is_ok() { eprintln!("ssim build: {:#}", e); } return } };
    let extra = json!({"steps": steps, "fail_at": fail, "interval": si, "shape": shape});
    if r.chance(0.55) { drive_walk(format!("ssim/{}", t), &mut sim, si, &tags, em, extra); }
    else { drive_manual(r, format!("ssim/{}", t), &mut sim, steps, &tags, em, extra); }
}

fn speed_limit_run(r: &mut Rng, t: usize, em: &mut Emit) {
    let (mut con, shape) = default_consist(r, 4);
    let si = if r.chance(0.04) { Some(0) } else { pick_si(r) };
    let mut tags = vec![si_tag(si), format!("units:{}", con.loco_vec.len())];
    // the consist handed to the builder carries an interval of its own: the constructor must overwrite it
    let con_si = [None, Some(1), Some(3), Some(2)][t % 4];
    con.set_save_interval(con_si);
    tags.push(format!("consist_interval_before_build:{:?}", con_si));
    let misaligned = r.chance(0.1);
    if misaligned { let k = r.below(con.loco_vec.len()); misalign_loco(r, &mut con.loco_vec[k], &mut tags); }
    let tc = train_config(r);
    let timed = r.chance(0.4);
    // a steep descent with weak brakes makes solve_step (plain walk: when the train gets there) or
    // the path extension inside walk_timed_path (after the steps of the earlier links) fail
    let want_err = r.chance(0.3);
    let lens = if timed { vec![r.range(900.0, 1500.0), r.range(600.0, 900.0), r.range(500.0, 800.0), 500.0] } else { vec![r.range(900.0, 1500.0), r.range(500.0, 900.0)] };
    let mut network = chain_network(&lens, r.range(-0.001, 0.003));
    let steep = if timed { 3 } else { 2 };
    if want_err {
        let l = &mut network[steep];
        let len = l.length.value; let e0 = l.elevs[0].elev.value;
        l.elevs[1].elev = uc::M * (e0 - if timed { 0.15 } else { 0.025 } * len);
    }
    let mut lm = LocationMap::new();
    let loc = |id: &str, idx: u32| Location { location_id: id.into(), offset: uc::M * 0.0, link_idx: LinkIdx::new(idx), is_front_end: false,
        grid_emissions_region: String::new(), electricity_price_region: String::new(), liquid_fuel_price_region: String::new() };
    lm.insert("A".into(), vec![loc("A", 1)]);
    lm.insert("B".into(), vec![loc("B", 2)]);
    let tsb = TrainSimBuilder::new(format!("t{}", t), tc, con, Some("A".into()), Some("B".into()), None);
    let sim = match tsb.make_speed_limit_train_sim(&lm, si, None, None) { Ok(s) => s, Err(e) => { if std::env::var("C19_DEBUG").is_ok() { eprintln!("tsim build: {:#}", e); } return } };
    {
        let tr = tree_tsim(&sim);
        // a unit that was deliberately advanced before the build keeps its own counter: only the interval clause applies
        let mut f = chk_propagated(&tr, "SpeedLimitTrainSim built with a save interval");
        if misaligned { f.retain(|m| !m.contains("step counters start misaligned")); }
        em.put(format!("tsim/{}/constructed", t), "constructed", &tr, &[], Ok((&tr, 0, String::new())), &tags, f, false, json!({"interval": si}));
    }
    let mut s = Slts { sim, network, timed: None, t0: 0.0 };
    if want_err { tags.push(if timed { "setup:steep_descent_on_a_later_link" } else { "setup:weak_brakes_steep_descent" }.to_string()); }
    // the train must be shorter than the first link
    if s.sim.state.length.value >= lens[0] { if std::env::var("C19_DEBUG").is_ok() { eprintln!("tsim {} too long", t); } return; }
    if timed {
        tags.push("walk:timed_path".into());
        let t1 = r.range(5.0, 60.0);
        s.timed = Some(vec![LinkIdxTime::new(LinkIdx::new(1), uc::S * 0.0), LinkIdxTime::new(LinkIdx::new(2), uc::S * t1),
            LinkIdxTime::new(LinkIdx::new(3), uc::S * (t1 + r.range(5.0, 40.0))), LinkIdxTime::new(LinkIdx::new(4), uc::S * 1e6)]);
    } else {
        tags.push("walk:plain".into());
        if let Err(e) = s.sim.extend_path(&s.network, &[LinkIdx::new(1), LinkIdx::new(2)]) { if std::env::var("C19_DEBUG").is_ok() { eprintln!("tsim {} extend_path: {:#}", t, e); } return; }
        if want_err { s.sim.fric_brake.force_max = uc::N * 1.0; }
    }
    s.t0 = s.sim.state.time.value;
    if !(timed && want_err) {
        // dry run on a clone with saving disabled: skip scenarios whose walk would not end within
        // 1500 steps (a train that stalls short of the end makes walk() loop forever)
        let mut probe = Slts { sim: s.sim.clone(), network: s.network.clone(), timed: None, t0: s.t0 };
        probe.sim.set_save_interval(None);
        if timed { if probe.sim.extend_path(&probe.network, &[LinkIdx::new(1), LinkIdx::new(2), LinkIdx::new(3)]).is_err() { return; } }
        let mut k = 0usize;
        while probe.more() && k < 1500 { k += 1; if catch(std::panic::AssertUnwindSafe(|| probe.sim.step())).map(|x| x.is_err()).unwrap_or(true) { break; } }
        if k >= 1500 { if std::env::var("C19_DEBUG").is_ok() { eprintln!("tsim {}: does not finish in 1500 steps, skipped (want_err {} timed {}) offset {} end {} speed {}", t, want_err, timed, probe.sim.state.offset.value, probe.sim.path_tpc.offset_end().value, probe.sim.state.speed.value); } return; }
        tags.push(format!("probe_steps:{}", match k { 0..=9 => "<10", 10..=99 => "10-99", 100..=399 => "100-399", _ => ">=400" }));
    }
    let extra = json!({"interval": si, "shape": shape, "timed": timed, "link_lengths": lens, "want_err": want_err});
    if timed || r.chance(0.5) { drive_walk(format!("tsim/{}", t), &mut s, si, &tags, em, extra); }
    else { drive_manual(r, format!("tsim/{}", t), &mut s, 400, &tags, em, extra); }
}

/// after a constructor that takes a save interval: every nested object carries the top-level interval and the
/// step counters of all nested objects start aligned with the top-level one
fn chk_propagated(t: &Tree, what: &str) -> Vec<String> {
    let ns = t.nodes(); let top = ns[0];
    let mut f = vec![];
    let bad: Vec<&&Node> = ns.iter().filter(|n| n.si != top.si).collect();
    if !bad.is_empty() {
        f.push(format!("{}: nested objects ({} of them, e.g. {}) have save interval {:?} but the top level has {:?}", what, bad.len(), bad[0].name, bad[0].si, top.si));
    }
    let badi: Vec<&&Node> = ns.iter().filter(|n| n.i != top.i).collect();
    if !badi.is_empty() {
        f.push(format!("{}: step counters start misaligned: {} nested object(s), e.g. {}, at {} while the top level is at {}", what, badi.len(), badi[0].name, badi[0].i, top.i));
    }
    f
}

/// objects as their `Default`/`valid` constructors hand them out: is the interval propagated?
fn default_objects(em: &mut Emit) {
    let chk = |t: &Tree, what: &str| -> Vec<String> { chk_propagated(t, what) };
    let s = SetSpeedTrainSim::default();
    let t = tree_ssim(&s);
    let mut fails = chk(&t, "SetSpeedTrainSim::default()");
    if let Err(p) = catch(std::panic::AssertUnwindSafe(|| s.get_save_interval())) { fails.push(format!("SetSpeedTrainSim::default(): get_save_interval() panics: {}", p.replace('\n', " ").chars().take(120).collect::<String>())); }
    em.put("default/set_speed".into(), "default", &t, &[], Ok((&t, 0, String::new())), &["default_object".to_string()], fails, false, json!({}));
    let s = SpeedLimitTrainSim::default();
    let t = tree_tsim(&s);
    em.put("default/speed_limit".into(), "default", &t, &[], Ok((&t, 0, String::new())), &["default_object".to_string()], chk(&t, "SpeedLimitTrainSim::default()"), false, json!({}));
    let s = ConsistSimulation::default();
    let t = tree_csim(&s);
    em.put("default/consist_sim".into(), "default", &t, &[], Ok((&t, 0, String::new())), &["default_object".to_string()], chk(&t, "ConsistSimulation::default()"), false, json!({}));
    let s = LocomotiveSimulation::default();
    let t = tree_lsim(&s);
    em.put("default/loco_sim".into(), "default", &t, &[], Ok((&t, 0, String::new())), &["default_object".to_string()], chk(&t, "LocomotiveSimulation::default()"), false, json!({}));
}

pub fn run(seed: u64, n: usize, sink: &mut Sink) {
    let mut r = Rng::new(seed ^ 0xC19);
    let mut em = Emit { sink, made: 0 };
    default_objects(&mut em);
    let mut t = 0usize;
    while em.made < n {
        let mut rr = r.fork();
        match t % 8 { 0 | 4 => loco_sim_run(&mut rr, t, &mut em), 1 | 5 => consist_sim_run(&mut rr, t, &mut em), 2 | 6 => set_speed_run(&mut rr, t, &mut em), _ => speed_limit_run(&mut rr, t, &mut em) }
        t += 1;
    }
}
