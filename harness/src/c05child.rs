//! child process of C05: `vh c05child --seed S --n K` runs scenario K of the stream and writes its cases.
use crate::util::*;
pub fn run(seed: u64, k: usize, sink: &mut Sink) {
    for c in crate::c05::scenario_cases(seed, k) { sink.put(c); }
}
