//! C08 -- second law; a switched-off engine burns nothing.
//! Cases: interp1d / interp3d directly; component steps; locomotive simulation steps with
//! engine on/off patterns (lock-step: the model starts from the implementation's pre-state).
use crate::pt::*;
use crate::util::*;
use altrios_core::consist::locomotive::locomotive_model::PowertrainType;
use altrios_core::uc;
use altrios_core::utils::{interp1d, interp3d};
use altrios_core::prelude::*;
use serde_json::json;

fn in01(x: f64) -> bool { x > 0.0 && x <= 1.0 }

/// The property evaluated on one accepted locomotive step of the implementation.
pub fn oracle_loco_step(st: &LocoStep, post: &Locomotive) -> Vec<String> {
    let mut f = Vec::new();
    let p = loco_rated(post);
    let tol = 1e-9 * p;
    let etol = tol * st.dt.max(1.0);
    let edrv_chk = |pre: &ElectricDrivetrain, d: &ElectricDrivetrain, f: &mut Vec<String>| {
        let s = &d.state; let s0 = &pre.state;
        if s.pwr_loss.value < -tol { f.push(format!("edrv.pwr_loss negative: {}", s.pwr_loss.value)); }
        if !in01(s.eta.value) { f.push(format!("edrv.eta outside (0,1]: {}", s.eta.value)); }
        if st.pwr > 0.0 && s.pwr_mech_prop_out.value > s.pwr_elec_prop_in.value + tol {
            f.push(format!("edrv traction: mech out {} > elec in {}", s.pwr_mech_prop_out.value, s.pwr_elec_prop_in.value));
        }
        if st.pwr <= 0.0 && s.pwr_elec_prop_in.value.abs() > s.pwr_mech_prop_out.value.abs() + tol {
            f.push(format!("edrv regen: |elec| {} > |mech| {}", s.pwr_elec_prop_in.value, s.pwr_mech_prop_out.value));
        }
        if st.pwr >= 0.0 && s.pwr_mech_dyn_brake.value != 0.0 {
            f.push(format!("dynamic braking {} without braking demand {}", s.pwr_mech_dyn_brake.value, st.pwr));
        }
        if s.pwr_mech_dyn_brake.value < 0.0 { f.push("negative dynamic braking power".into()); }
        if s.energy_loss.value < s0.energy_loss.value - etol { f.push("edrv.energy_loss decreased".into()); }
        if s.energy_mech_dyn_brake.value < s0.energy_mech_dyn_brake.value - etol { f.push("edrv.energy_mech_dyn_brake decreased".into()); }
    };
    match (&st.pre.loco_type, &post.loco_type) {
        (PowertrainType::ConventionalLoco(c0), PowertrainType::ConventionalLoco(c)) => {
            let s = &c.fc.state; let s0 = &c0.fc.state;
            if s.pwr_loss.value < -tol { f.push(format!("fc.pwr_loss negative: {}", s.pwr_loss.value)); }
            if !in01(s.eta.value) { f.push(format!("fc.eta outside (0,1]: {}", s.eta.value)); }
            if s.pwr_brake.value > s.pwr_fuel.value + tol { f.push("fc shaft power exceeds fuel power".into()); }
            if s.energy_fuel.value < s0.energy_fuel.value - etol { f.push("fc.energy_fuel decreased".into()); }
            if s.energy_loss.value < s0.energy_loss.value - etol { f.push("fc.energy_loss decreased".into()); }
            if !st.engine_on {
                if s.pwr_fuel.value != 0.0 { f.push(format!("engine off but pwr_fuel = {}", s.pwr_fuel.value)); }
                if post.state.pwr_aux.value != 0.0 { f.push(format!("engine off but loco pwr_aux = {}", post.state.pwr_aux.value)); }
                if c.gen.state.pwr_elec_aux.value != 0.0 { f.push(format!("engine off but gen pwr_elec_aux = {}", c.gen.state.pwr_elec_aux.value)); }
            }
            let g = &c.gen.state; let g0 = &c0.gen.state;
            if g.pwr_loss.value < -tol { f.push(format!("gen.pwr_loss negative: {}", g.pwr_loss.value)); }
            if !in01(g.eta.value) { f.push(format!("gen.eta outside (0,1]: {}", g.eta.value)); }
            if g.pwr_elec_prop_out.value + g.pwr_elec_aux.value > g.pwr_mech_in.value + tol { f.push("gen electrical out exceeds mechanical in".into()); }
            if g.energy_loss.value < g0.energy_loss.value - etol { f.push("gen.energy_loss decreased".into()); }
            edrv_chk(&c0.edrv, &c.edrv, &mut f);
        }
        (PowertrainType::BatteryElectricLoco(b0), PowertrainType::BatteryElectricLoco(b)) => {
            let s = &b.res.state; let s0 = &b0.res.state;
            if s.pwr_loss.value < -tol { f.push(format!("res.pwr_loss negative: {}", s.pwr_loss.value)); }
            if !in01(s.eta.value) { f.push(format!("res.eta outside (0,1]: {}", s.eta.value)); }
            if s.pwr_out_electrical.value > 0.0 && s.pwr_out_electrical.value > s.pwr_out_chemical.value + tol { f.push("res discharge: electrical exceeds chemical".into()); }
            if s.pwr_out_electrical.value <= 0.0 && s.pwr_out_chemical.value.abs() > s.pwr_out_electrical.value.abs() + tol { f.push("res charge: chemical exceeds electrical".into()); }
            if s.energy_loss.value < s0.energy_loss.value - etol { f.push("res.energy_loss decreased".into()); }
            edrv_chk(&b0.edrv, &b.edrv, &mut f);
        }
        _ => {}
    }
    f
}

fn loco_yaml(l: &Locomotive) -> String { serde_yaml::to_string(l).unwrap_or_default() }

pub fn loco_step_case(id: String, st: &LocoStep, kind: &str, oracle: &dyn Fn(&LocoStep, &Locomotive) -> Vec<String>) -> Case {
    loco_step_case2(id, st, kind, &|a, b| (oracle(a, b), vec![]))
}

pub fn loco_step_case2(id: String, st: &LocoStep, kind: &str, oracle: &dyn Fn(&LocoStep, &Locomotive) -> (Vec<String>, Vec<String>)) -> Case {
    let coq = format!("x_loco_step {} {} {} {}", coq_loco(&st.pre), cf(st.pwr), cf(st.dt), cb(st.engine_on));
    let is_conv = matches!(st.pre.loco_type, PowertrainType::ConventionalLoco(_));
    let mut tags = vec![format!("loco:{}", if is_conv { "conv" } else { "bel" }), format!("mode:{}", st.mode),
        format!("engine:{}", if st.engine_on { "on" } else { "off" })];
    let (outcome, (fails, known)) = match &st.post {
        Ok(post) => {
            tags.push("result:ok".into());
            let e = match &post.loco_type { PowertrainType::ConventionalLoco(c) => &c.edrv, PowertrainType::BatteryElectricLoco(b) => &b.edrv, _ => unreachable!() };
            if e.state.pwr_mech_dyn_brake.value > 0.0 { tags.push("dynbrake:yes".into()); }
            if e.state.pwr_mech_prop_out.value < 0.0 { tags.push("regen:yes".into()); }
            (Outcome::Ok(outs_loco(post)), oracle(st, post))
        }
        Err((-1, m)) => { tags.push("result:panic".into()); (Outcome::Panic(m.clone()), (vec![], vec![])) }
        Err((c, m)) => {
            tags.push(format!("result:err{}", c));
            // a request REFUSED for exceeding a limit is not shaft power: the engine's "previous shaft power" (what the next
            // step's ramp-rate limit starts from) must be what it was before the call
            let mut f = vec![];
            if m.contains("must be less than or equal to") || m.contains("exceeds current max power") {
                if let (PowertrainType::ConventionalLoco(a), Some(Locomotive { loco_type: PowertrainType::ConventionalLoco(b), .. })) = (&st.pre.loco_type, &st.after_err) {
                    if a.fc.state.pwr_brake.value.to_bits() != b.fc.state.pwr_brake.value.to_bits() {
                        f.push(format!("a request refused for exceeding a limit became the engine's previous shaft power ({} -> {}): the next step's ramp-rate limit starts from it", a.fc.state.pwr_brake.value, b.fc.state.pwr_brake.value));
                    }
                }
            }
            // a step refused because the engine is off has not burned fuel: the cumulative fuel energy is what it was
            if m.contains("Engine is off") {
                if let (PowertrainType::ConventionalLoco(a), Some(Locomotive { loco_type: PowertrainType::ConventionalLoco(b), .. })) = (&st.pre.loco_type, &st.after_err) {
                    if a.fc.state.energy_fuel.value.to_bits() != b.fc.state.energy_fuel.value.to_bits() {
                        f.push(format!("a step refused because the engine is off has burned fuel in the cumulative counters ({} -> {} J): a retry counts it twice", a.fc.state.energy_fuel.value, b.fc.state.energy_fuel.value));
                    }
                }
            }
            (Outcome::Err(*c, m.clone()), (f, vec![]))
        }
    };
    Case { id, kind: kind.into(), coq, outcome, tags,
        input: json!({"loco_yaml": loco_yaml(&st.pre), "pwr": fjson(st.pwr), "dt": fjson(st.dt), "engine_on": st.engine_on}),
        oracle_fail: fails, known, in_domain: true }
}

fn interp1d_cases(r: &mut Rng, n: usize, sink: &mut Sink) {
    for k in 0..n {
        let malformed = k % 6 == 5;
        let m = 2 + r.below(7);
        let mut xs = gen_frac(r, m);
        let scale = r.lrange(0.1, 100.0);
        for x in xs.iter_mut() { *x *= scale; }
        let mut ys: Vec<f64> = if r.chance(0.15) { vec![r.range(0.1, 1.0); m] } else { (0..m).map(|_| r.range(0.01, 1.0)).collect() };
        let mut tags = vec![];
        if malformed {
            match r.below(5) {
                0 => { xs.swap(0, m - 1); tags.push("malformed:unsorted".to_string()); }
                1 => { xs[m - 1] = xs[m - 2]; tags.push("malformed:dup_x".into()); }
                2 => { xs.truncate(1); ys.truncate(1); tags.push("malformed:len1".into()); }
                3 => { ys.pop(); tags.push("malformed:short_y".into()); }
                _ => { let v = xs[0]; for x in xs.iter_mut() { *x = v; } tags.push("malformed:all_x_equal".into()); }
            }
        }
        let q = match r.below(6) {
            0 => { tags.push("q:below".into()); xs[0] - r.range(0.01, 1.0) * scale }
            1 => { tags.push("q:above".into()); xs[xs.len() - 1] + r.range(0.01, 1.0) * scale }
            2 => { tags.push("q:knot".into()); *r.pick(&xs) }
            _ => { tags.push("q:between".into()); r.range(xs[0], xs[xs.len() - 1]) }
        };
        let ex = malformed && r.chance(0.3);
        let (xs2, ys2) = (xs.clone(), ys.clone());
        let res = catch(move || interp1d(&q, &xs2, &ys2, ex));
        let mut fails = vec![];
        let outcome = match res {
            Ok(Ok(v)) => {
                if !malformed {
                    let lo = ys.iter().cloned().fold(f64::INFINITY, f64::min);
                    let hi = ys.iter().cloned().fold(f64::NEG_INFINITY, f64::max);
                    if !(v >= lo - 1e-12 && v <= hi + 1e-12) { fails.push(format!("interp1d result {} outside [{}, {}]", v, lo, hi)); }
                }
                let mut o = Outs::new(); o.f("interp1d", v, 1.0); Outcome::Ok(o)
            }
            Ok(Err(e)) => { let (c, m) = err_code(&e); Outcome::Err(c, m) }
            Err(p) => Outcome::Panic(p),
        };
        sink.put(Case { id: format!("interp1d/{}", k), kind: "interp1d".into(),
            coq: format!("x_interp1d {} {} {} {}", cf(q), cfl(&xs), cfl(&ys), cb(ex)),
            outcome, tags, input: json!({"x": fjson(q), "xs": fjson_l(&xs), "ys": fjson_l(&ys), "extrapolate": ex}),
            oracle_fail: fails, known: vec![], in_domain: !malformed });
    }
}

fn interp3d_cases(r: &mut Rng, n: usize, sink: &mut Sink) {
    for k in 0..n {
        let res = rand_res(r);
        let g = res.eta_interp_grid.clone();
        let vals = res.eta_interp_values.clone();
        let mut tags = vec![];
        let mut q = [0.0f64; 3];
        for a in 0..3 {
            let ax = &g[a];
            q[a] = match r.below(5) {
                0 => { tags.push(format!("ax{}:below", a)); ax[0] - r.range(0.01, 2.0) }
                1 => { tags.push(format!("ax{}:above", a)); ax[ax.len() - 1] + r.range(0.01, 2.0) }
                2 => { tags.push(format!("ax{}:knot", a)); *r.pick(ax) }
                _ => { tags.push(format!("ax{}:between", a)); r.range(ax[0], ax[ax.len() - 1]) }
            };
        }
        let (g2, v2) = (g.clone(), vals.clone());
        let rr = catch(move || interp3d(&q, &g2, &v2));
        let mut fails = vec![];
        let outcome = match rr {
            Ok(Ok(v)) => {
                let lo = vals.iter().flatten().flatten().cloned().fold(f64::INFINITY, f64::min);
                let hi = vals.iter().flatten().flatten().cloned().fold(f64::NEG_INFINITY, f64::max);
                if !(v >= lo - 1e-12 && v <= hi + 1e-12) { fails.push(format!("interp3d result {} outside [{}, {}]", v, lo, hi)); }
                let mut o = Outs::new(); o.f("interp3d", v, 1.0); Outcome::Ok(o)
            }
            Ok(Err(e)) => { let (c, m) = err_code(&e); Outcome::Err(c, m) }
            Err(p) => Outcome::Panic(p),
        };
        sink.put(Case { id: format!("interp3d/{}", k), kind: "interp3d".into(),
            coq: format!("x_interp3d {} {} {} {} {} {} {}", cf(q[0]), cf(q[1]), cf(q[2]), cfl(&g[0]), cfl(&g[1]), cfl(&g[2]), cfl3(&vals)),
            outcome, tags, input: json!({"q": fjson_l(&q), "grid": [fjson_l(&g[0]), fjson_l(&g[1]), fjson_l(&g[2])],
                "vals": vals.iter().map(|p| p.iter().map(|rw| fjson_l(rw)).collect::<Vec<_>>()).collect::<Vec<_>>()}),
            oracle_fail: fails, known: vec![], in_domain: true });
    }
}

/// direct component calls (wider input ranges than a locomotive produces)
fn component_cases(r: &mut Rng, n: usize, sink: &mut Sink) {
    for k in 0..n {
        let dt = r.lrange(0.05, 30.0);
        match k % 4 {
            0 => {
                let mut fc = rand_fc(r);
                let p = fc.pwr_out_max.value;
                fc.state.energy_loss = uc::J * r.range(0.0, 1e9);
                fc.state.energy_fuel = uc::J * r.range(0.0, 1e9);
                fc.state.pwr_out_max = uc::W * p * r.range(0.1, 1.0);
                let on = !r.chance(0.3);
                let lim = !r.chance(0.2);
                let (mode, req) = match r.below(7) {
                    0 => ("zero", 0.0), 1 => ("at_transient", fc.state.pwr_out_max.value),
                    2 => ("above_transient", fc.state.pwr_out_max.value * 1.01 + 1.0),
                    3 => ("negative", -p * r.range(0.01, 0.5)),
                    4 => ("tiny", p * 1e-6),
                    _ => ("frac", fc.state.pwr_out_max.value * r.range(0.0, 1.0)),
                };
                let req = if !on && r.chance(0.8) { 0.0 } else { req };
                let pre = fc.clone();
                let res = catch(std::panic::AssertUnwindSafe(|| fc.solve_energy_consumption(uc::W * req, uc::S * dt, on, lim)));
                let mut fails = vec![];
                let outcome = match res {
                    Ok(Ok(())) => {
                        let s = &fc.state;
                        if s.pwr_loss.value < -1e-9 * p { fails.push(format!("fc.pwr_loss negative: {}", s.pwr_loss.value)); }
                        if !in01(s.eta.value) { fails.push(format!("fc.eta outside (0,1]: {}", s.eta.value)); }
                        if !on && s.pwr_fuel.value != 0.0 { fails.push(format!("engine off but pwr_fuel = {}", s.pwr_fuel.value)); }
                        if s.energy_fuel.value < pre.state.energy_fuel.value { fails.push("fc.energy_fuel decreased".into()); }
                        Outcome::Ok(outs_fc(&fc))
                    }
                    Ok(Err(e)) => { let (c, m) = err_code(&e); Outcome::Err(c, m) }
                    Err(pm) => Outcome::Panic(pm),
                };
                sink.put(Case { id: format!("fc_solve/{}", k), kind: "fc_solve".into(),
                    coq: format!("x_fc_solve {} {} {} {} {}", coq_fc(&pre), cf(req), cf(dt), cb(on), cb(lim)),
                    outcome, tags: vec![format!("mode:{}", mode), format!("engine:{}", if on { "on" } else { "off" }), format!("limits:{}", lim)],
                    input: json!({"fc_yaml": serde_yaml::to_string(&pre).unwrap_or_default(), "req": fjson(req), "dt": fjson(dt), "engine_on": on, "assert_limits": lim}),
                    oracle_fail: fails, known: vec![], in_domain: true });
            }
            1 => {
                let pmax = r.lrange(2e5, 8e6);
                let mut g = rand_gen(r, pmax);
                let aux = if r.chance(0.2) { 0.0 } else { r.lrange(1e3, 5e4) };
                let (mode, prop) = match r.below(5) { 0 => ("zero", 0.0), 1 => ("at_max", pmax - aux), 2 => ("above_max", pmax), 3 => ("negative", -pmax * 0.1), _ => ("frac", (pmax - aux) * r.range(0.0, 1.0)) };
                let pre = g.clone();
                let res = catch(std::panic::AssertUnwindSafe(|| g.set_pwr_in_req(uc::W * prop, uc::W * aux, uc::S * dt)));
                let mut fails = vec![];
                let outcome = match res {
                    Ok(Ok(())) => {
                        let s = &g.state;
                        if s.pwr_loss.value < -1e-9 * pmax { fails.push(format!("gen.pwr_loss negative: {}", s.pwr_loss.value)); }
                        if !in01(s.eta.value) { fails.push(format!("gen.eta outside (0,1]: {}", s.eta.value)); }
                        Outcome::Ok(outs_gen(&g))
                    }
                    Ok(Err(e)) => { let (c, m) = err_code(&e); Outcome::Err(c, m) }
                    Err(pm) => Outcome::Panic(pm),
                };
                sink.put(Case { id: format!("gen_req/{}", k), kind: "gen_req".into(),
                    coq: format!("x_gen_req {} {} {} {}", coq_gen(&pre), cf(prop), cf(aux), cf(dt)),
                    outcome, tags: vec![format!("mode:{}", mode)],
                    input: json!({"gen_yaml": serde_yaml::to_string(&pre).unwrap_or_default(), "prop": fjson(prop), "aux": fjson(aux), "dt": fjson(dt)}),
                    oracle_fail: fails, known: vec![], in_domain: true });
            }
            2 => {
                let pmax = r.lrange(2e5, 8e6);
                let mut e = rand_edrv(r, pmax);
                e.state.pwr_mech_regen_max = uc::W * if r.chance(0.4) { 0.0 } else { pmax * r.range(0.05, 1.0) };
                let rm = e.state.pwr_mech_regen_max.value;
                let (mode, req) = match r.below(8) { 0 => ("zero", 0.0), 1 => ("at_max", pmax), 2 => ("above_max", pmax * 1.001),
                    3 => ("regen_frac", -rm * r.range(0.0, 1.0)), 4 => ("at_regen_max", -rm), 5 => ("beyond_regen", -rm - pmax * r.range(0.01, 1.0)),
                    _ => ("frac", pmax * r.range(0.0, 1.0)) };
                let pre = e.clone();
                let res = catch(std::panic::AssertUnwindSafe(|| e.set_pwr_in_req(uc::W * req, uc::S * dt)));
                let mut fails = vec![];
                let outcome = match res {
                    Ok(Ok(())) => {
                        let s = &e.state;
                        if s.pwr_loss.value < 0.0 { fails.push("edrv.pwr_loss negative".into()); }
                        if !in01(s.eta.value) { fails.push(format!("edrv.eta outside (0,1]: {}", s.eta.value)); }
                        if req >= 0.0 && s.pwr_mech_dyn_brake.value != 0.0 { fails.push("dynamic braking without braking demand".into()); }
                        Outcome::Ok(outs_edrv(&e))
                    }
                    Ok(Err(er)) => { let (c, m) = err_code(&er); Outcome::Err(c, m) }
                    Err(pm) => Outcome::Panic(pm),
                };
                sink.put(Case { id: format!("edrv_req/{}", k), kind: "edrv_req".into(),
                    coq: format!("x_edrv_req {} {} {}", coq_edrv(&pre), cf(req), cf(dt)),
                    outcome, tags: vec![format!("mode:{}", mode)],
                    input: json!({"edrv_yaml": serde_yaml::to_string(&pre).unwrap_or_default(), "regen_max": fjson(rm), "req": fjson(req), "dt": fjson(dt)}),
                    oracle_fail: fails, known: vec![], in_domain: true });
            }
            _ => {
                let mut rs = rand_res(r);
                let p = rs.pwr_out_max.value;
                let aux = if r.chance(0.2) { 0.0 } else { r.lrange(1e3, 5e4) };
                if r.chance(0.3) { rs.state.soc = if r.chance(0.5) { rs.min_soc } else { rs.max_soc }; }
                let _ = rs.set_cur_pwr_out_max(uc::W * aux, None, None);
                let (dmax, cmax) = (rs.state.pwr_disch_max.value, rs.state.pwr_charge_max.value);
                let (mode, prop) = match r.below(8) { 0 => ("zero", 0.0), 1 => ("at_disch_max", dmax - aux), 2 => ("above_disch", dmax * 1.01 + 10.0),
                    3 => ("charge_frac", -(cmax + aux) * r.range(0.0, 1.0)), 4 => ("at_charge_max", -(cmax + aux)), 5 => ("beyond_charge", -(cmax + aux) * 1.01 - 10.0),
                    _ => ("disch_frac", (dmax - aux) * r.range(0.0, 1.0)) };
                let pre = rs.clone();
                let res = catch(std::panic::AssertUnwindSafe(|| rs.solve_energy_consumption(uc::W * prop, uc::W * aux, uc::S * dt)));
                let mut fails = vec![];
                let outcome = match res {
                    Ok(Ok(())) => {
                        let s = &rs.state;
                        if s.pwr_loss.value < 0.0 { fails.push("res.pwr_loss negative".into()); }
                        if !in01(s.eta.value) { fails.push(format!("res.eta outside (0,1]: {}", s.eta.value)); }
                        if s.pwr_out_electrical.value > 0.0 && s.pwr_out_electrical.value > s.pwr_out_chemical.value + 1e-9 * p { fails.push("res discharge: electrical exceeds chemical".into()); }
                        Outcome::Ok(outs_res(&rs))
                    }
                    Ok(Err(er)) => { let (c, m) = err_code(&er); Outcome::Err(c, m) }
                    Err(pm) => Outcome::Panic(pm),
                };
                sink.put(Case { id: format!("res_solve/{}", k), kind: "res_solve".into(),
                    coq: format!("x_res_solve {} {} {} {}", coq_res(&pre), cf(prop), cf(aux), cf(dt)),
                    outcome, tags: vec![format!("mode:{}", mode)],
                    input: json!({"res_yaml": serde_yaml::to_string(&pre).unwrap_or_default(), "prop": fjson(prop), "aux": fjson(aux), "dt": fjson(dt)}),
                    oracle_fail: fails, known: vec![], in_domain: true });
            }
        }
    }
}

pub fn run(seed: u64, n: usize, sink: &mut Sink) {
    let mut r = Rng::new(seed ^ 0xC08);
    interp1d_cases(&mut r.fork(), n / 4, sink);
    interp3d_cases(&mut r.fork(), n / 8, sink);
    component_cases(&mut r.fork(), n / 4, sink);
    // locomotive traces
    let mut rr = r.fork();
    let target = n - n / 4 - n / 8 - n / 4;
    let mut made = 0usize;
    let mut t = 0usize;
    while made < target {
        let loco = if t % 2 == 0 { rand_conv_loco(&mut rr) } else { rand_bel_loco(&mut rr) };
        let steps = loco_trace(&mut rr, loco, 12.min(target - made), true);
        for (i, st) in steps.iter().enumerate() {
            sink.put(loco_step_case(format!("loco_step/{}/{}", t, i), st, "loco_step", &oracle_loco_step));
            made += 1;
        }
        t += 1;
    }
}
