//! C04/C05 oracles restated in Rust (independent of the Coq checkers in coq/model/DispPlan.v):
//! occupancy intervals derived from each train's own dispatch path, the conflict/headway/order
//! conditions, and the result conditions on the returned timed link paths.
use crate::disp::*;
use crate::est::{connected, tle};
use altrios_core::meet_pass::est_times::EstTime;
use altrios_core::track::Link;

#[derive(Clone, Debug)]
pub struct Occ { pub link: usize, pub t_in: f64, pub t_ce: Option<f64>, pub t_ax: Option<f64>, pub t_out: Option<f64> }

/// (type, link, time) of the timed, non-fake nodes of a dispatch path
pub fn events_of(t: &TrainSnap) -> Vec<(usize, usize, f64)> {
    t.path.iter().take(t.idx_free.min(t.path.len())).filter(|d| d.ty != 2).map(|d| (d.ty, d.link, d.time)).collect()
}

/// Occupancy per link from the event list (mirror of `occ_of` in coq/model/DispPlan.v): a link is held from
/// the front's arrival (Arrive L) until the tail enters the next link (the Clear event of the following
/// link); `t_end` (Some once the train has left the model) closes what is still held; None = not yet happened.
pub fn occupancy(evs: &[(usize, usize, f64)], t_end: Option<f64>) -> Result<Vec<Occ>, String> {
    let mut closed: Vec<Occ> = vec![];
    let mut open: std::collections::VecDeque<Occ> = Default::default(); // tail first
    for &(ty, l, t) in evs {
        if ty == 0 {
            if let Some(last) = open.back_mut() { last.t_ax = Some(t); }
            open.push_back(Occ { link: l, t_in: t, t_ce: None, t_ax: None, t_out: None });
        } else {
            // tail enters l: every link behind l is released
            loop {
                match open.front_mut() {
                    None => return Err(format!("Clear of link {} which the front never entered", l)),
                    Some(o) if o.link == l => { o.t_ce = Some(t); break; }
                    Some(_) => { let mut o = open.pop_front().unwrap(); o.t_out = Some(t); closed.push(o); }
                }
            }
        }
    }
    for mut o in open { if let Some(te) = t_end { o.t_out = Some(te); if o.t_ax.is_none() { o.t_ax = Some(te); } if o.t_ce.is_none() { o.t_ce = Some(te); } } closed.push(o); }
    Ok(closed)
}
fn leo(a: Option<f64>, b: f64) -> bool { match a { Some(x) => x <= b, None => false } }
fn leoo(a: Option<f64>, b: Option<f64>) -> bool { match (a, b) { (Some(x), Some(y)) => x <= y, (_, None) => true, (None, Some(_)) => false } }
fn of(x: Option<f64>) -> f64 { x.unwrap_or(f64::INFINITY) }

pub fn excl(net: &[Link], l: usize, m: usize) -> bool {
    l < net.len() && m < net.len() && (net[l].idx_flip.idx() == m || net[m].idx_flip.idx() == l
        || net[l].link_idxs_lockout.iter().any(|x| x.idx() == m) || net[m].link_idxs_lockout.iter().any(|x| x.idx() == l))
}

/// C04 on a table of occupancies (one list per train): mutual exclusion on opposite / locked-out links
/// (non-strict: touching at equal endpoints is allowed), headway and order for followers
/// (mirror of `plan_ok` in coq/model/DispPlan.v).
pub fn no_conflict(net: &[Link], occs: &[Vec<Occ>], headway: f64) -> Vec<String> {
    let mut f = vec![];
    for a in 0..occs.len() { for b in 0..occs.len() { if a == b { continue; }
        for x in &occs[a] { for y in &occs[b] {
            if excl(net, x.link, y.link) && !(leo(x.t_out, y.t_in) || leo(y.t_out, x.t_in)) && a < b {
                f.push(format!("conflict: train {} holds link {} during [{}, {}] while train {} holds the excluded link {} during [{}, {}]",
                    a + 1, x.link, x.t_in, of(x.t_out), b + 1, y.link, y.t_in, of(y.t_out)));
            }
            if x.link == y.link && (x.t_in < y.t_in || (x.t_in == y.t_in && a < b)) {
                // x is followed by y over the same link; an opposing movement in between resets the headway rule
                let opposing_between = occs.iter().enumerate().any(|(c, oc)| c != a && c != b && oc.iter().any(|z| excl(net, x.link, z.link) && leo(x.t_out, z.t_in) && leo(z.t_out, y.t_in)));
                let hw = match x.t_ce { Some(c) => c + headway <= y.t_in, None => false };
                if !(opposing_between || hw) {
                    f.push(format!("headway: train {} enters link {} at {} but train {} ahead of it cleared the entry only at {} (headway {})", b + 1, y.link, y.t_in, a + 1, of(x.t_ce), headway));
                }
                // exit end: once y's front has really left the link (strictly before y's own release; a holding
                // closed because the train left the model has ax = out), x's tail had left it a headway earlier
                if let Some(ya) = y.t_ax {
                    let real_exit = match y.t_out { Some(yo) => ya < yo, None => true };
                    let ok = match x.t_out { Some(u) => u + headway <= ya, None => false };
                    if real_exit && !opposing_between && !ok {
                        f.push(format!("exit headway: the front of train {} leaves link {} at {} but the tail of train {} ahead of it left the link only at {} (headway {})", b + 1, y.link, ya, a + 1, of(x.t_out), headway));
                    }
                }
                if !(leoo(x.t_ax, y.t_ax) && leoo(x.t_ce, y.t_ce) && leoo(x.t_out, y.t_out)) {
                    f.push(format!("order: train {} follows train {} into link {} but overtakes it inside (front exit {} vs {}, tail entry {} vs {}, release {} vs {})", b + 1, a + 1, y.link, of(y.t_ax), of(x.t_ax), of(y.t_ce), of(x.t_ce), of(y.t_out), of(x.t_out)));
                }
            }
        } }
    } }
    f
}

// ------------------------------------------------------------------ C04 black box: front intervals of the returned plans
pub fn fronts_ok(net: &[Link], plans: &[Vec<(usize, f64)>]) -> Vec<String> {
    let mut f = vec![];
    let iv = |p: &Vec<(usize, f64)>| -> Vec<(usize, f64, f64)> { (0..p.len()).map(|i| (p[i].0, p[i].1, if i + 1 < p.len() { p[i + 1].1 } else { p[i].1 })).collect() };
    for a in 0..plans.len() { for b in 0..plans.len() { if a == b { continue; }
        for x in iv(&plans[a]) { for y in iv(&plans[b]) {
            if excl(net, x.0, y.0) && !(x.2 <= y.1 || y.2 <= x.1) && a < b {
                f.push(format!("front conflict: train {} has its front on link {} during [{}, {}] while train {} has its front on the excluded link {} during [{}, {}]", a + 1, x.0, x.1, x.2, b + 1, y.0, y.1, y.2));
            }
        } }
    } }
    f
}
pub fn fronts_ok_bool(net: &[Link], plans: &[Vec<(usize, f64)>]) -> bool {
    let iv = |p: &Vec<(usize, f64)>| -> Vec<(usize, f64, f64)> { (0..p.len()).map(|i| (p[i].0, p[i].1, if i + 1 < p.len() { p[i + 1].1 } else { p[i].1 })).collect() };
    for a in 0..plans.len() { for b in 0..plans.len() { if a == b { continue; }
        for x in iv(&plans[a]) { for y in iv(&plans[b]) { if excl(net, x.0, y.0) && !(x.2 <= y.1 || y.2 <= x.1) { return false; } } }
    } }
    true
}

// ------------------------------------------------------------------ C05: the returned result
pub const TRAIN_LABELS: [&str; 9] = ["nonempty", "origin", "departure", "destination", "contiguous", "nondecreasing", "finite_times", "timed_walk", "arrivals_match"];

pub fn rtol(a: f64, b: f64) -> f64 { 1e-9 * ((1.0 + a.abs()) + b.abs()) }

pub fn step_dur(est: &[EstTime], i: usize, j: usize) -> Option<f64> {
    if i >= est.len() { return None; }
    if j != 0 && est[i].idx_next as usize == j { Some(est[i].time_to_next.value) }
    else if j != 0 && est[i].idx_next_alt as usize == j { Some(0.0) } else { None }
}

pub fn timed_walk_ok(est: &[EstTime], t0: f64, w: &[(usize, f64)]) -> bool {
    let (mut i, mut ti) = (0usize, t0);
    for &(j, tj) in w {
        match step_dur(est, i, j) { Some(d) => { if !(ti + d <= tj + rtol(tj, ti + d)) { return false; } } None => return false }
        i = j; ti = tj;
    }
    est.len() >= 1 && i == est.len() - 1
}
pub fn arrivals(est: &[EstTime], w: &[(usize, f64)]) -> Vec<(usize, f64)> {
    w.iter().filter(|p| p.0 < est.len() && crate::dsp::et_code(est[p.0].link_event.est_type) == 0).map(|p| (est[p.0].link_event.link_idx.idx(), p.1)).collect()
}

/// the eight verdicts of `train_checks` (coq/model/DispPlan.v) and the failure texts
pub fn train_checks(net: &[Link], origs: &[usize], dests: &[usize], depart: f64, est: &[EstTime], plan: &[(usize, f64)], cert: &Option<(f64, Vec<(usize, f64)>)>, k: usize) -> (Vec<bool>, Vec<String>) {
    let mut ok = vec![true; 9];
    let mut f = vec![];
    let route: Vec<usize> = plan.iter().map(|p| p.0).collect();
    if plan.is_empty() { ok[0] = false; f.push(format!("train {}: empty route returned", k)); }
    if !route.first().map(|l| origs.contains(l)).unwrap_or(false) { ok[1] = false; f.push(format!("train {}: route starts on link {:?} which is not one of its origins {:?}", k, route.first(), origs)); }
    if !plan.first().map(|p| depart <= p.1).unwrap_or(false) { ok[2] = false; f.push(format!("train {}: first arrival {:?} before its departure time {}", k, plan.first().map(|p| p.1), depart)); }
    let last = route.last().copied().unwrap_or(0);
    if !(dests.contains(&last) && !dests.contains(&0)) { ok[3] = false; f.push(format!("train {}: route ends on link {} which is not one of its destinations {:?}", k, last, dests)); }
    for i in 0..route.len().saturating_sub(1) { if !connected(net, route[i], route[i + 1]) { ok[4] = false; f.push(format!("train {}: links {} -> {} are not connected in the network", k, route[i], route[i + 1])); break; } }
    for i in 0..plan.len().saturating_sub(1) { if !(plan[i].1 <= plan[i + 1].1) { ok[5] = false; f.push(format!("train {}: arrival times decrease: {} then {}", k, plan[i].1, plan[i + 1].1)); break; } }
    if let Some(p) = plan.iter().find(|p| !(p.1 - p.1 == 0.0)) { ok[6] = false; f.push(format!("train {}: arrival time {} at link {} is not a finite time", k, p.1, p.0)); }
    match cert {
        Some((t0, w)) => {
            if !timed_walk_ok(est, *t0, w) { ok[7] = false; f.push(format!("train {}: its timing is not a start-to-end walk of its estimated-time network at free-running pace or slower", k)); }
            let a = arrivals(est, w);
            if !(a.len() == plan.len() && a.iter().zip(plan.iter()).all(|(x, y)| x.0 == y.0 && x.1 == y.1)) { ok[8] = false; f.push(format!("train {}: the Arrive events of its dispatch path differ from the returned timed link path", k)); }
        }
        None => { ok[7] = false; ok[8] = false; f.push(format!("train {}: faster than free-running: no walk of its estimated-time network matches the returned route with these times", k)); }
    }
    (ok, f)
}

/// Black-box certificate search: a start-to-end walk of the estimated-time network whose Arrive links are
/// the plan's links and on which the plan's times can be met without any step being faster than free-running.
pub fn find_timed_walk(est: &[EstTime], plan: &[(usize, f64)]) -> Option<(f64, Vec<(usize, f64)>)> {
    let n = est.len();
    if n == 0 || plan.is_empty() { return None; }
    let ty = |i: usize| crate::dsp::et_code(est[i].link_event.est_type);
    // nodes before the first Arrive: walk back-timed from the first arrival; depth-first with a step budget
    let mut budget = 400_000usize;
    // state: current node, index of the next plan entry to match, current time (None before the first Arrive)
    fn go(est: &[EstTime], plan: &[(usize, f64)], i: usize, k: usize, ti: Option<f64>, acc: &mut Vec<(usize, Option<f64>)>, budget: &mut usize, ty: &dyn Fn(usize) -> usize) -> bool {
        if *budget == 0 { return false; }
        *budget -= 1;
        if i == est.len() - 1 { return k == plan.len(); }
        for (j, d) in [(est[i].idx_next as usize, est[i].time_to_next.value), (est[i].idx_next_alt as usize, 0.0)] {
            if j == 0 || j >= est.len() { continue; }
            let tj: Option<f64>;
            let mut k2 = k;
            if ty(j) == 0 {
                if k >= plan.len() || est[j].link_event.link_idx.idx() != plan[k].0 { continue; }
                let t = plan[k].1;
                if let Some(t_i) = ti { if !(t_i + d <= t + rtol(t, t_i + d)) { continue; } }
                tj = Some(t); k2 = k + 1;
            } else {
                tj = ti.map(|t| t + d);
            }
            acc.push((j, tj));
            if go(est, plan, j, k2, tj, acc, budget, ty) { return true; }
            acc.pop();
        }
        false
    }
    let mut acc: Vec<(usize, Option<f64>)> = vec![];
    if !go(est, plan, 0, 0, None, &mut acc, &mut budget, &ty) { return None; }
    // nodes before the first Arrive get times counted back from it
    let first = acc.iter().position(|p| p.1.is_some())?;
    let mut times: Vec<f64> = acc.iter().map(|p| p.1.unwrap_or(0.0)).collect();
    let mut t = times[first];
    let mut idxs: Vec<usize> = vec![0];
    idxs.extend(acc.iter().map(|p| p.0));
    // idxs[m+1] = acc[m].0 ; step m: idxs[m] -> idxs[m+1]
    let mut t0 = t;
    for m in (0..=first).rev() {
        let d = step_dur(est, idxs[m], idxs[m + 1]).unwrap_or(0.0);
        t -= d;
        if m == 0 { t0 = t; } else { times[m - 1] = t; }
    }
    Some((t0, acc.iter().zip(times.iter()).map(|(p, t)| (p.0, *t)).collect()))
}

// ------------------------------------------------------------------ Coq printing
use crate::util::{cf, cnat};
pub fn coq_plan(p: &[(usize, f64)]) -> String { format!("[{}]", p.iter().map(|x| format!("({}, {})", x.0, cf(x.1))).collect::<Vec<_>>().join("; ")) }
pub fn coq_plans(ps: &[Vec<(usize, f64)>]) -> String { format!("[{}]", ps.iter().map(|p| coq_plan(p)).collect::<Vec<_>>().join("; ")) }
pub fn coq_rnodes(est: &[EstTime]) -> String {
    format!("[{}]", est.iter().map(|e| format!("mkR {} {} {} {} {}", cf(e.time_to_next.value), e.idx_next, e.idx_next_alt, e.link_event.link_idx.idx(), crate::dsp::et_code(e.link_event.est_type))).collect::<Vec<_>>().join("; "))
}
pub fn coq_optf(x: Option<f64>) -> String { match x { Some(v) => format!("(Some {})", cf(v)), None => "None".into() } }
pub fn coq_events(evs: &[(usize, usize, f64)]) -> String { format!("[{}]", evs.iter().map(|e| format!("mkE {} {} {}", e.0, e.1, cf(e.2))).collect::<Vec<_>>().join("; ")) }
