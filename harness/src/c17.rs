//! C17 -- every model object survives save/load in YAML, JSON and bincode, mid-run too.
//!
//! Pure-oracle cases (plus schema-shape correspondence cases, see `shape_cases`): REAL round trips
//! through `SerdeAPI::{to,from}_{yaml,json,bincode}` of every exported type in its default state, in
//! random states and at checkpoints of short simulations. Per (object, format) one case checks
//!   (a) reload == init(original)   bit for bit on the canonical tree (YAML, bincode) / within 1 ulp
//!       per number (JSON), and `PartialEq` modulo the lazily rebuilt caches;
//!   (b) behaviour: the continued trajectory of the reloaded object equals that of the original;
//!   (c) a second round trip returns the first reload exactly.
//! A failure is put into `Case.known` ONLY if the (format, object) pair provably belongs to one of
//! the demonstrated classes; the class predicate is computed from the ORIGINAL object alone
//! (sdutil::skipped_paths / nonfinite_paths / contains_struct / "init() changes the original"),
//! never from the failure. Everything else is an `oracle_fail`.
use crate::pt::*;
use crate::sdutil::*;
use crate::util::*;
use altrios_core::consist::consist_sim::ConsistSimulation;
use altrios_core::consist::consist_utils::PowerDistributionControlType;
use altrios_core::consist::locomotive::loco_sim::LocomotiveSimulationVec;
use altrios_core::consist::locomotive::locomotive_model::PowertrainType;
use altrios_core::consist::Consist;
use altrios_core::consist::LocoTrait;
use altrios_core::prelude::*;
use altrios_core::track::*;
use altrios_core::train::*;
use altrios_core::traits::SerdeAPI;
use altrios_core::uc;
use altrios_core::validate::Valid;
use serde_json::json;
use std::collections::HashMap;
use std::panic::AssertUnwindSafe;

pub const K_BIN_SKIP: &str = "known-class:bincode-skipped-field -- from_bincode fails or misreads an object in which a `skip_serializing_if` field was skipped (state == Default::default(), Option == None): bincode is positional, the derived Deserialize still expects the field";
pub const K_BIN_ANY: &str = "known-class:bincode-deserialize-any -- from_bincode fails for an object containing a `Location` (`is_front_end` uses serde_this_or_that::as_bool = deserialize_any, which bincode does not support)";
pub const K_JSON_NONFINITE: &str = "known-class:json-nonfinite-float -- from_json fails or alters an object containing a non-finite f64 (PathTpc::finish +inf sentinels, NaN offsets): serde_json writes `null`";
pub const K_JSON_INEXACT: &str = "known-class:json-inexact-float-parse -- serde_json (built without `float_roundtrip`) does not parse its own shortest decimal output back to the same f64 for some value in the object (off by 1, sometimes 2 ulp), so (i) the reload can be 2 ulp off, (ii) a second JSON round trip moves that number again (drift) and/or (iii) a decision taken exactly on a limit flips in the continued run";
pub const K_STALE_INIT: &str = "known-class:stale-derived-state -- the object was never initialised (init() changes it: Consist.state.pwr_dyn_brake_max is 0 until the first solve or load), so the reloaded copy accepts braking steps the original rejects";

#[derive(Clone, Copy, PartialEq, Debug)]
pub enum Fmt { Yaml, Json, Bin }
impl Fmt {
    pub fn name(self) -> &'static str { match self { Fmt::Yaml => "yaml", Fmt::Json => "json", Fmt::Bin => "bincode" } }
    pub const ALL: [Fmt; 3] = [Fmt::Yaml, Fmt::Json, Fmt::Bin];
}
pub enum Enc { S(String), B(Vec<u8>) }
impl Enc { fn len(&self) -> usize { match self { Enc::S(s) => s.len(), Enc::B(b) => b.len() } } }

pub fn encode<T: SerdeAPI>(o: &T, f: Fmt) -> Result<Enc, String> {
    let r = catch(AssertUnwindSafe(|| match f {
        Fmt::Yaml => o.to_yaml().map(Enc::S),
        Fmt::Json => o.to_json().map(Enc::S),
        Fmt::Bin => o.to_bincode().map(Enc::B),
    }));
    match r { Ok(Ok(e)) => Ok(e), Ok(Err(e)) => Err(format!("{:#}", e)), Err(p) => Err(format!("PANIC {}", p)) }
}
pub fn decode<T: SerdeAPI>(e: &Enc, f: Fmt) -> Result<T, String> {
    let r = catch(AssertUnwindSafe(|| match (f, e) {
        (Fmt::Yaml, Enc::S(s)) => T::from_yaml(s),
        (Fmt::Json, Enc::S(s)) => T::from_json(s),
        (Fmt::Bin, Enc::B(b)) => T::from_bincode(b),
        _ => unreachable!(),
    }));
    match r { Ok(Ok(e)) => Ok(e), Ok(Err(e)) => Err(format!("{:#}", e)), Err(p) => Err(format!("PANIC {}", p)) }
}

/// `PartialEq` modulo the lazily rebuilt caches: the caches are brought to the same (filled or
/// cleared) state on both sides before comparing.
pub trait Norm { fn norm(&mut self) {} }
impl Norm for Generator { fn norm(&mut self) { self.pwr_in_frac_interp.clear(); } }
impl Norm for ElectricDrivetrain { fn norm(&mut self) { self.pwr_in_frac_interp.clear(); } }
impl Norm for FuelConverter {}
impl Norm for ReversibleEnergyStorage {}
impl Norm for ConventionalLoco { fn norm(&mut self) { self.gen.norm(); self.edrv.norm(); } }
impl Norm for BatteryElectricLoco { fn norm(&mut self) { self.edrv.norm(); } }
impl Norm for HybridLoco { fn norm(&mut self) { self.gen.norm(); self.edrv.norm(); } }
impl Norm for Locomotive {
    fn norm(&mut self) {
        match &mut self.loco_type {
            PowertrainType::ConventionalLoco(c) => c.norm(),
            PowertrainType::BatteryElectricLoco(b) => b.norm(),
            PowertrainType::HybridLoco(h) => h.norm(),
            _ => {}
        }
    }
}
impl Norm for Consist { fn norm(&mut self) { for l in self.loco_vec.iter_mut() { l.norm(); } let _ = self.n_res_equipped(); } }
impl Norm for LocomotiveSimulation { fn norm(&mut self) { self.loco_unit.norm(); } }
impl Norm for LocomotiveSimulationVec { fn norm(&mut self) { for s in self.0.iter_mut() { s.norm(); } } }
impl Norm for ConsistSimulation { fn norm(&mut self) { self.loco_con.norm(); } }
impl Norm for SetSpeedTrainSim { fn norm(&mut self) { self.loco_con.norm(); } }
impl Norm for SpeedLimitTrainSim { fn norm(&mut self) { self.loco_con.norm(); } }
impl Norm for SpeedLimitTrainSimVec { fn norm(&mut self) { for s in self.0.iter_mut() { s.norm(); } } }
impl Norm for TrainSimBuilder { fn norm(&mut self) { self.loco_con.norm(); } }
macro_rules! plain_norm { ($($t:ty),*) => { $(impl Norm for $t {})* } }
plain_norm!(PowerTrace, SpeedTrace, TrainConfig, RailVehicle, InitTrainState, TrainState, TrainParams, PathTpc, TrainRes,
    Link, Network, LinkIdx, LinkPath, Location, SpeedSet, EstTimeNet, TimedLinkPath, LinkIdxTime, Elev, Heading,
    TrainType, DummyLoco, Vec<Link>, Vec<Location>);

/// Which known class does (format, original object) belong to? Computed from the original only.
pub fn class_of(f: Fmt, t_orig: &Node) -> Option<&'static str> {
    match f {
        Fmt::Bin => {
            if !skipped_paths(t_orig).is_empty() { Some(K_BIN_SKIP) }
            else if contains_struct(t_orig, "Location") { Some(K_BIN_ANY) }
            else { None }
        }
        Fmt::Json => if !nonfinite_paths(t_orig).is_empty() { Some(K_JSON_NONFINITE) } else { None },
        Fmt::Yaml => None,
    }
}

/// serde_json alone, on a single number: does printing and parsing return a different f64?
pub fn json_float_inexact(x: f64) -> bool {
    if !x.is_finite() { return false; }
    match serde_json::to_string(&x).ok().and_then(|s| serde_json::from_str::<f64>(&s).ok()) { Some(y) => y.to_bits() != x.to_bits(), None => true }
}
/// the values a number runs through under repeated print/parse (hex bit patterns)
pub fn json_orbit(x: f64, n: usize) -> Vec<String> {
    let mut v = vec![format!("{:016x}", x.to_bits())];
    let mut cur = x;
    for _ in 0..n {
        cur = match serde_json::to_string(&cur).ok().and_then(|s| serde_json::from_str::<f64>(&s).ok()) { Some(y) => y, None => break };
        v.push(format!("{:016x}", cur.to_bits()));
    }
    v
}

pub struct Spec<'a, T> {
    pub kind: &'a str,
    pub id: String,
    pub tags: Vec<String>,
    pub obj: &'a T,
    /// the "subsequent simulation steps": consumes a copy, continues the run, returns (ok?, message, observable tree)
    pub cont: Option<&'a dyn Fn(T) -> (bool, String, Node)>,
    /// formats to exercise
    pub fmts: &'a [Fmt],
}

fn first_line(s: &str) -> String { s.lines().next().unwrap_or("").chars().take(160).collect() }

pub fn roundtrip_cases<T: SerdeAPI + PartialEq + Clone + Norm>(sp: Spec<T>, sink: &mut Sink) {
    let t_orig = to_node(sp.obj);
    // what init() (the code's post-load hook) makes of the original
    let mut o_init = sp.obj.clone();
    let init_res = catch(AssertUnwindSafe(|| o_init.init()));
    let init_err: Option<String> = match init_res { Ok(Ok(())) => None, Ok(Err(e)) => Some(format!("{:#}", e)), Err(p) => Some(format!("PANIC {}", p)) };
    let t_init = to_node(&o_init);
    let init_changes = compare(&t_init, &t_orig, Mode::Bits);
    let nskip = skipped_paths(&t_orig).len();
    let nnonfin = nonfinite_paths(&t_orig).len();
    let ref_beh = sp.cont.map(|c| c(sp.obj.clone()));
    for &f in sp.fmts {
        let mut tags = sp.tags.clone();
        tags.push(format!("fmt:{}", f.name()));
        tags.push(format!("type:{}", sp.kind));
        tags.push(format!("skipped_fields:{}", if nskip == 0 { "none" } else { "some" }));
        tags.push(format!("nonfinite:{}", if nnonfin == 0 { "none" } else { "some" }));
        if init_changes.n_bad > 0 { tags.push("init:changes-original".into()); }
        let class = class_of(f, &t_orig);
        let mut fails: Vec<String> = vec![];
        let mut info = serde_json::Map::new();
        let mut o = Outs::new();
        let mut in_domain = true;
        let mut stale_known = false;
        let mut json_drift_known = false;
        let mut json_off = 0usize;
        let mut json_off_all_inexact = false;
        let mut step = |name: &str, ok: bool| { o.b(name, ok); };
        'chk: {
            // ---- write
            let enc = match encode(sp.obj, f) {
                Ok(e) => e,
                Err(m) => { fails.push(format!("{}: to_{} failed: {}", sp.kind, f.name(), first_line(&m))); step("write", false); break 'chk; }
            };
            step("write", true);
            info.insert("encoded_len".into(), json!(enc.len()));
            // ---- read back
            let dec: T = match decode::<T>(&enc, f) {
                Ok(d) => d,
                Err(m) => {
                    if let Some(ie) = &init_err {
                        // the original itself does not pass its own post-load validation: not a serde failure
                        in_domain = false;
                        tags.push("original:rejected-by-init".into());
                        if first_line(&m) != first_line(ie) && class.is_none() {
                            fails.push(format!("{}: from_{} failed with {:?} but init() of the original fails with {:?}", sp.kind, f.name(), first_line(&m), first_line(ie)));
                        }
                    } else {
                        fails.push(format!("{}: from_{} failed: {}", sp.kind, f.name(), first_line(&m)));
                    }
                    info.insert("read_error".into(), json!(first_line(&m)));
                    step("read", false);
                    break 'chk;
                }
            };
            step("read", true);
            if init_err.is_some() { in_domain = false; tags.push("original:rejected-by-init".into()); }
            // ---- (a) reload == init(original)
            let t_dec = to_node(&dec);
            let mode_a = if f == Fmt::Json { Mode::Ulp(1) } else { Mode::Bits };
            let d = compare(&t_dec, &t_init, mode_a);
            if d.n_bad > 0 {
                let txt = format!("{}: {} reload differs from the original in {} place(s): {}", sp.kind, f.name(), d.n_bad, d.bad.join("; "));
                // JSON: more than one ulp off, but only in numbers that serde_json ALONE (single number, no
                // object involved) fails to round-trip, and by a few ulp at most: the inexact-parse class
                let moved = float_diffs(&t_dec, &t_init);
                if f == Fmt::Json && compare(&t_dec, &t_init, Mode::Ulp(4)).n_bad == 0 && !moved.is_empty()
                    && moved.iter().any(|(_, was)| json_float_inexact(f64::from_bits(*was))) {
                    // (numbers that init() recomputes from parsed ones, e.g. Consist.state.pwr_dyn_brake_max = sum of
                    //  drivetrain ratings, move along with their inputs: hence `any`, with the 4-ulp cap on every number)
                    json_drift_known = true; info.insert("json_reload_beyond_1ulp".into(), json!(txt)); tags.push("json_reload:2+ulp".into());
                } else { fails.push(txt); }
            }
            if f == Fmt::Json {
                json_off = float_diffs(&t_dec, &t_init).len();
                json_off_all_inexact = float_diffs(&t_dec, &t_init).iter().any(|(_, was)| json_float_inexact(f64::from_bits(*was)));
            }
            if f == Fmt::Json { tags.push(format!("json_ulp_off:{}", if d.n_within == 0 { "0" } else if d.n_within < 10 { "1-9" } else { "10+" })); info.insert("json_numbers_off_by_one_ulp".into(), json!(d.n_within)); }
            step("reload_equals_original", d.n_bad == 0);
            if d.n_bad == 0 && d.n_within == 0 && nonfinite_paths(&t_orig).iter().all(|p| !p.ends_with("NaN")) {
                let (mut x, mut y) = (dec.clone(), o_init.clone());
                x.norm(); y.norm();
                if x != y { fails.push(format!("{}: {} reload serializes identically but is != by PartialEq after cache normalisation", sp.kind, f.name())); }
            }
            // ---- (c) second round trip returns the first reload exactly
            match encode(&dec, f).and_then(|e2| decode::<T>(&e2, f)) {
                Ok(dec2) => {
                    let t_dec2 = to_node(&dec2);
                    let d2 = compare(&t_dec2, &t_dec, Mode::Bits);
                    if d2.n_bad > 0 {
                        let txt = format!("{}: second {} round trip drifts in {} place(s): {}", sp.kind, f.name(), d2.n_bad, d2.bad.join("; "));
                        // class (JSON only): nothing but floats moved, each by <= 1 ulp, and each moved float is one
                        // that serde_json on its own (single number, no object involved) fails to round-trip
                        let moved = float_diffs(&t_dec2, &t_dec);
                        let in_class = f == Fmt::Json && compare(&t_dec2, &t_dec, Mode::Ulp(4)).n_bad == 0 && !moved.is_empty()
                            && moved.iter().all(|(_, was)| json_float_inexact(f64::from_bits(*was)));
                        if in_class {
                            json_drift_known = true;
                            let (_, was) = moved[0];
                            info.insert("json_drift".into(), json!({"text": txt, "orbit_of_first": json_orbit(f64::from_bits(was), 8)}));
                        } else { fails.push(txt); }
                    }
                    step("second_roundtrip_equal", d2.n_bad == 0);
                }
                Err(m) => { fails.push(format!("{}: second {} round trip failed: {}", sp.kind, f.name(), first_line(&m))); step("second_roundtrip_equal", false); }
            }
            // ---- (b) behaviour of the reloaded object
            if let (Some(c), Some((rok, rmsg, rtree))) = (sp.cont, ref_beh.as_ref()) {
                let (dok, dmsg, dtree) = c(dec);
                tags.push(format!("continuation:{}", if *rok { "ok" } else { "err" }));
                let mode_b = if f == Fmt::Json && json_off > 0 { Mode::TolScaled(1e-9) } else { Mode::Bits };
                let db = compare(&dtree, rtree, mode_b);
                let same_outcome = dok == *rok && (f == Fmt::Json || first_line(&dmsg) == first_line(rmsg));
                if !same_outcome || db.n_bad > 0 {
                    let txt = format!("{}: after a {} round trip the continued run differs: outcome {} vs {} ({:?} vs {:?}); {} field(s): {}",
                        sp.kind, f.name(), if dok { "ok" } else { "err" }, if *rok { "ok" } else { "err" }, first_line(&dmsg), first_line(rmsg), db.n_bad, db.bad.join("; "));
                    // class: init() changes the original AND the reloaded copy behaves like init(original)
                    let (iok, _imsg, itree) = c(o_init.clone());
                    let like_init = iok == dok && compare(&dtree, &itree, mode_b).n_bad == 0;
                    if init_changes.n_bad > 0 && like_init { stale_known = true; info.insert("stale".into(), json!(txt)); }
                    else if f == Fmt::Json && json_off > 0 && json_off_all_inexact {
                        // the reload is off by one ulp in >= 1 number (each one a value serde_json alone misparses):
                        // a decision taken exactly on a limit can flip in the continued run
                        json_drift_known = true; info.insert("json_continuation".into(), json!(txt));
                    }
                    else { fails.push(txt); }
                }
                if f == Fmt::Json { info.insert("json_continuation_max_rel".into(), json!(db.max_rel)); }
                step("continuation_equal", same_outcome && db.n_bad == 0);
            }
        }
        let mut known = vec![];
        let mut oracle_fail = vec![];
        if !fails.is_empty() {
            match class {
                Some(k) => { known.push(k.to_string()); info.insert("known_class_failures".into(), json!(fails)); tags.push(format!("result:known-{}", k.split(' ').next().unwrap_or("").trim_start_matches("known-class:"))); }
                None => { oracle_fail = fails; tags.push("result:FAIL".into()); }
            }
        } else if stale_known { tags.push("result:known-stale-derived-state".into()); }
        else if json_drift_known { tags.push("result:known-json-inexact-float-parse".into()); }
        else { tags.push("result:ok".into()); }
        if stale_known { known.push(K_STALE_INIT.to_string()); }
        if json_drift_known { known.push(K_JSON_INEXACT.to_string()); }
        if class.is_some() && known.is_empty() { tags.push("in-known-class-but-passed".into()); }
        info.insert("skipped_paths".into(), json!(skipped_paths(&t_orig).into_iter().take(8).collect::<Vec<_>>()));
        info.insert("nonfinite_paths".into(), json!(nonfinite_paths(&t_orig).into_iter().take(8).collect::<Vec<_>>()));
        info.insert("init_changes".into(), json!(init_changes.bad));
        sink.put(Case { id: format!("{}/{}", sp.id, f.name()), kind: format!("roundtrip_{}", f.name()), coq: String::new(),
            outcome: Outcome::Ok(o), tags, input: serde_json::Value::Object(info), oracle_fail, known, in_domain });
    }
}

// ---------------------------------------------------------------- behaviours
fn outcome_of(r: Result<anyhow::Result<()>, String>) -> (bool, String) {
    match r { Ok(Ok(())) => (true, String::new()), Ok(Err(e)) => (false, format!("{:#}", e)), Err(p) => (false, format!("PANIC {}", p)) }
}
fn beh_loco_sim(mut s: LocomotiveSimulation) -> (bool, String, Node) {
    let r = catch(AssertUnwindSafe(|| { while s.i < s.power_trace.len() { s.step()?; } Ok(()) }));
    let (ok, m) = outcome_of(r); (ok, m, to_node(&s))
}
fn beh_loco_sim_walk(mut s: LocomotiveSimulation) -> (bool, String, Node) {
    let r = catch(AssertUnwindSafe(|| s.walk()));
    let (ok, m) = outcome_of(r); (ok, m, to_node(&s))
}
fn beh_consist_sim(mut s: ConsistSimulation) -> (bool, String, Node) {
    let r = catch(AssertUnwindSafe(|| { while s.i < s.power_trace.len() { s.step()?; } Ok(()) }));
    let (ok, m) = outcome_of(r); (ok, m, to_node(&s))
}
fn beh_consist_sim_walk(mut s: ConsistSimulation) -> (bool, String, Node) {
    let r = catch(AssertUnwindSafe(|| s.walk()));
    let (ok, m) = outcome_of(r); (ok, m, to_node(&s))
}
fn beh_set_speed(mut s: SetSpeedTrainSim) -> (bool, String, Node) {
    let r = catch(AssertUnwindSafe(|| { while s.state.i < s.speed_trace.len() { s.step()?; } Ok(()) }));
    let (ok, m) = outcome_of(r); (ok, m, to_node(&s))
}
fn beh_set_speed_walk(mut s: SetSpeedTrainSim) -> (bool, String, Node) {
    let r = catch(AssertUnwindSafe(|| s.walk()));
    let (ok, m) = outcome_of(r); (ok, m, to_node(&s))
}
const SLTS_CAP: usize = 1500;
fn slts_more(s: &SpeedLimitTrainSim) -> bool {
    // the loop condition of SpeedLimitTrainSim::walk_internal
    s.state.offset < s.path_tpc.offset_end() - 1000.0 * uc::FT
        || (s.state.offset < s.path_tpc.offset_end() && s.state.speed != 0.0 * uc::MPS)
}
fn beh_slts(mut s: SpeedLimitTrainSim) -> (bool, String, Node) {
    let r = catch(AssertUnwindSafe(|| { let mut k = 0; while slts_more(&s) && k < SLTS_CAP { s.step()?; k += 1; } Ok(()) }));
    let (ok, m) = outcome_of(r); (ok, m, to_node(&s))
}
fn beh_slts_walk(mut s: SpeedLimitTrainSim) -> (bool, String, Node) {
    let r = catch(AssertUnwindSafe(|| s.walk()));
    let (ok, m) = outcome_of(r); (ok, m, to_node(&s))
}

// ---------------------------------------------------------------- object construction
pub fn repo_root() -> String { std::env::var("VERIF_REPO").unwrap_or_else(|_| "/repo".to_string()) }

pub fn rail_vehicle(r: &mut Rng, name: &str) -> RailVehicle {
    serde_json::from_value(json!({
        "car_type": name, "length": r.range(12.0, 25.0), "axle_count": 4, "brake_count": 1,
        "mass_static_base": r.range(20e3, 35e3), "mass_freight": if r.chance(0.3) { 0.0 } else { r.range(20e3, 100e3) },
        "speed_max": r.range(18.0, 35.0), "braking_ratio": r.range(0.08, 0.2), "mass_rot_per_axle": r.range(500.0, 900.0),
        "bearing_res_per_axle": r.range(30.0, 50.0), "rolling_ratio": r.range(0.001, 0.002), "davis_b": if r.chance(0.5) { 0.0 } else { r.range(0.0, 1e-4) },
        "cd_area": r.range(2.0, 6.0), "curve_coeff_0": 0.056, "curve_coeff_1": 0.4387579, "curve_coeff_2": 0.01025485,
    })).expect("rail vehicle")
}
const WEIRD: &[&str] = &["Bulk", "Manifest_Loaded", "1", "true", "null", "~", "a: b", "# c", " lead", "trail ", "x\ny", "\"q\"", "'s'", "-", "[1]", "{k}", "\u{e9}t\u{e9}", "0x1F", "1e3", ".inf", "", "y", "No"];
pub fn train_config(r: &mut Rng, weird: bool) -> TrainConfig {
    let nt = 1 + r.below(6); // up to six car types: sums over a HashMap of that size depend visibly on its iteration order
    let mut names: Vec<String> = vec![];
    while names.len() < nt {
        let s = if weird { r.pick(WEIRD).to_string() } else { format!("Type{}", names.len()) };
        if !names.contains(&s) { names.push(s); }
    }
    let rvs: Vec<RailVehicle> = names.iter().map(|n| rail_vehicle(r, n)).collect();
    let n_cars: HashMap<String, u32> = names.iter().map(|n| (n.clone(), 1 + r.below(40) as u32)).collect();
    let total: u32 = n_cars.values().sum();
    let tt = *r.pick(&[TrainType::Freight, TrainType::Intermodal, TrainType::Passenger]);
    TrainConfig {
        rail_vehicles: rvs, n_cars_by_type: n_cars, train_type: tt,
        train_length: if r.chance(0.3) { Some(uc::M * r.range(200.0, 1500.0)) } else { None },
        train_mass: if r.chance(0.3) { Some(uc::KG * r.range(1e6, 8e6)) } else { None },
        cd_area_vec: if r.chance(0.3) { Some((0..total).map(|_| uc::M2 * r.range(1.0, 5.0)).collect()) } else { None },
    }
}

/// A chain of `m` real links (plus the fake link 0), random lengths, grades, headings, one or two speed
/// limits per link, optionally OSM ids / lat-lon / catenary limits.
pub fn chain_network(r: &mut Rng, m: usize, tt: TrainType, decorated: bool) -> Network {
    let mut links = vec![json!({"idx_curr":0,"idx_flip":0,"idx_next":0,"idx_next_alt":0,"idx_prev":0,"idx_prev_alt":0,
        "length":0.0,"elevs":[],"headings":[],"speed_sets":{},"speed_set":null,"cat_power_limits":[],"link_idxs_lockout":[]})];
    let mut elev = r.range(0.0, 300.0);
    let ttname = serde_json::to_value(tt).unwrap();
    let ttname = ttname.as_str().unwrap().to_string();
    for k in 1..=m {
        let len = r.range(1500.0, 6000.0).round();
        let e1 = elev + len * r.range(-0.008, 0.008);
        let mid = (len * r.range(0.3, 0.7)).round();
        let emid = elev + (e1 - elev) * mid / len + r.range(-2.0, 2.0);
        let h0 = r.range(0.0, 6.0);
        let v1 = r.range(10.0, 25.0);
        let mut lims = vec![json!({"offset_start":0.0,"offset_end":len,"speed":v1})];
        if r.chance(0.5) { let a = (len * r.range(0.1, 0.4)).round(); let b = (len * r.range(0.5, 0.9)).round(); lims.push(json!({"offset_start":a,"offset_end":b,"speed":v1 * r.range(0.5, 0.9)})); }
        let mut hd0 = json!({"offset":0.0,"heading":h0});
        let mut hd1 = json!({"offset":len,"heading":(h0 + r.range(-0.05, 0.05)).max(0.0).min(6.2)});
        if decorated && r.chance(0.5) { hd0["Lat"] = json!(r.range(30.0, 48.0)); hd0["Lon"] = json!(r.range(-120.0, -80.0)); }
        if decorated && r.chance(0.3) { hd1["Lat"] = json!(r.range(30.0, 48.0)); }
        let mut l = json!({"idx_curr":k,"idx_flip":0,"idx_next": if k < m { k + 1 } else { 0 },"idx_next_alt":0,"idx_prev": k - 1,"idx_prev_alt":0,
            "length":len,"elevs":[{"offset":0.0,"elev":elev},{"offset":mid,"elev":emid},{"offset":len,"elev":e1}],
            "headings":[hd0, hd1],
            "speed_sets":{ttname.clone():{"speed_limits":lims,"speed_params":[],"is_head_end":false}},"speed_set":null,
            "cat_power_limits": if decorated && r.chance(0.3) { json!([{"offset_start":0.0,"offset_end":len,"power_limit":r.range(1e6,8e6),"district_id": if r.chance(0.5) { json!("D1") } else { json!(null) }}]) } else { json!([]) },
            "link_idxs_lockout":[]});
        if decorated && r.chance(0.5) { l["osm_id"] = json!(format!("way/{}", r.below(100000))); }
        links.push(l);
        elev = e1;
    }
    let v: Vec<Link> = serde_json::from_value(serde_json::Value::Array(links)).expect("links");
    let mut n = Network(v);
    // a generated network satisfies every documented rule; if the code's own validation rejects it, that is reported as
    // a case of its own (see `run`), not as a crash of the harness
    if let Err(e) = n.init() {
        NET_REJECTS.lock().unwrap().push(format!("chain of {} physical link(s): {}", m, format!("{:#}", e).lines().take(3).collect::<Vec<_>>().join(" ")));
    }
    n
}
pub static NET_REJECTS: std::sync::Mutex<Vec<String>> = std::sync::Mutex::new(Vec::new());

pub fn small_consist(r: &mut Rng) -> Consist {
    let n = 1 + r.below(3);
    let locos: Vec<Locomotive> = (0..n).map(|_| if r.chance(0.4) { rand_bel_loco(r) } else { rand_conv_loco(r) }).collect();
    let pdct = if r.chance(0.5) { PowerDistributionControlType::Proportional(altrios_core::consist::consist_utils::Proportional) }
        else { PowerDistributionControlType::RESGreedy(altrios_core::consist::consist_utils::RESGreedy) };
    let mut c = Consist::new(locos, None, pdct);
    if r.chance(0.7) { c.init().expect("consist init"); }
    // the limit-checking flag is a public field of every unit: a unit may carry a different one than its consist, and a
    // reload has to give it back unchanged
    if r.chance(0.3) { let k = r.below(c.loco_vec.len()); c.loco_vec[k].assert_limits = !c.loco_vec[k].assert_limits; }
    c
}

pub fn builder(r: &mut Rng, con: Consist, weird: bool, od: Option<(&str, &str)>) -> TrainSimBuilder {
    let tc = train_config(r, weird);
    let its = if r.chance(0.5) { None } else { Some(InitTrainState::new(Some(uc::S * 0.0), None, Some(uc::MPS * 0.0))) };
    TrainSimBuilder::new(if weird { r.pick(WEIRD).to_string() } else { format!("train{}", r.below(1000)) }, tc, con,
        od.map(|x| x.0.to_string()), od.map(|x| x.1.to_string()), its)
}

/// speed trace that follows a plausible profile below `vmax`
pub fn speed_trace(r: &mut Rng, n: usize, vmax: f64, with_engine: bool) -> SpeedTrace {
    let mut t = vec![0.0]; let mut v = vec![0.0];
    let mut cur: f64 = 0.0;
    for k in 1..n {
        let dt = *r.pick(&[1.0, 1.0, 1.0, 0.5, 2.0]);
        let acc = if k < n / 2 { r.range(0.0, 0.12) } else { r.range(-0.15, 0.05) };
        cur = (cur + acc * dt).max(0.0).min(vmax);
        t.push(t[k - 1] + dt); v.push(cur);
    }
    SpeedTrace::new(t, v, if with_engine { Some((0..n).map(|_| r.chance(0.9)).collect()) } else { None })
}

/// trace of accepted demands for a locomotive (from pt::loco_trace), rebuilt as a PowerTrace
pub fn loco_sim_from_trace(r: &mut Rng, loco: Locomotive, n: usize, save: Option<usize>) -> LocomotiveSimulation {
    let steps = loco_trace(r, loco.clone(), n, true);
    let mut time = vec![0.0]; let mut pwr = vec![0.0]; let mut on = vec![Some(true)];
    let mut t = 0.0;
    for s in steps.iter().filter(|s| s.post.is_ok()) {
        t += s.dt; time.push(t); pwr.push(s.pwr); on.push(if r.chance(0.1) && s.engine_on { None } else { Some(s.engine_on) });
    }
    // now and then a demand the unit cannot meet, so that runs ending in Err are exercised too
    if r.chance(0.15) && pwr.len() > 2 { let k = 1 + r.below(pwr.len() - 1); pwr[k] = 1e9; }
    LocomotiveSimulation::new(loco, PowerTrace::new(time, pwr, on), save)
}
pub fn consist_sim_from_trace(r: &mut Rng, con: Consist, n: usize, save: Option<usize>) -> ConsistSimulation {
    let steps = consist_trace(r, con.clone(), n);
    let mut time = vec![0.0]; let mut pwr = vec![0.0]; let mut on = vec![Some(true)];
    let mut t = 0.0;
    for s in steps.iter().filter(|s| s.post.is_ok()) { t += s.dt; time.push(t); pwr.push(s.pwr); on.push(Some(true)); }
    if r.chance(0.15) && pwr.len() > 2 { let k = 1 + r.below(pwr.len() - 1); pwr[k] = 1e10; }
    ConsistSimulation::new(con, PowerTrace::new(time, pwr, on), save)
}

fn checkpoints(r: &mut Rng, n_steps: usize, all: bool) -> Vec<usize> {
    if all || n_steps <= 3 { return (0..=n_steps).collect(); }
    let mut v = vec![0, 1, n_steps, 1 + r.below(n_steps - 1), 1 + r.below(n_steps - 1)];
    v.sort(); v.dedup(); v
}

// ---------------------------------------------------------------- families
fn plain<T: SerdeAPI + PartialEq + Clone + Norm>(kind: &str, id: String, tags: &[&str], obj: &T, sink: &mut Sink) {
    roundtrip_cases(Spec { kind, id, tags: tags.iter().map(|s| s.to_string()).collect(), obj, cont: None, fmts: &Fmt::ALL }, sink);
}
fn with_beh<T: SerdeAPI + PartialEq + Clone + Norm>(kind: &str, id: String, tags: &[&str], obj: &T, cont: &dyn Fn(T) -> (bool, String, Node), sink: &mut Sink) {
    roundtrip_cases(Spec { kind, id, tags: tags.iter().map(|s| s.to_string()).collect(), obj, cont: Some(cont), fmts: &Fmt::ALL }, sink);
}

fn beh_gen(pin: f64, aux: f64) -> impl Fn(Generator) -> (bool, String, Node) {
    move |mut g| {
        use altrios_core::consist::locomotive::powertrain::ElectricMachine;
        let r = catch(AssertUnwindSafe(|| g.set_cur_pwr_max_out(uc::W * pin, Some(uc::W * aux))));
        let (ok, m) = outcome_of(r);
        let mut gg = g.clone(); gg.pwr_in_frac_interp.clear();
        (ok, m, Node::Seq(vec![to_node(&gg), to_node(&g.pwr_in_frac_interp)]))
    }
}
fn beh_edrv(pin: f64, regen: f64) -> impl Fn(ElectricDrivetrain) -> (bool, String, Node) {
    move |mut e| {
        use altrios_core::consist::locomotive::powertrain::ElectricMachine;
        let r = catch(AssertUnwindSafe(|| { e.set_cur_pwr_max_out(uc::W * pin, None)?; e.set_cur_pwr_regen_max(uc::W * regen) }));
        let (ok, m) = outcome_of(r);
        (ok, m, Node::Seq(vec![to_node(&e), to_node(&e.pwr_in_frac_interp)]))
    }
}
fn beh_fc(pwr: f64, dt: f64, on: bool) -> impl Fn(FuelConverter) -> (bool, String, Node) {
    move |mut c| {
        let r = catch(AssertUnwindSafe(|| { c.set_cur_pwr_out_max(uc::S * dt)?; c.solve_energy_consumption(uc::W * pwr, uc::S * dt, on, true) }));
        let (ok, m) = outcome_of(r); (ok, m, to_node(&c))
    }
}
fn beh_res(pwr: f64, aux: f64, dt: f64) -> impl Fn(ReversibleEnergyStorage) -> (bool, String, Node) {
    move |mut c| {
        let r = catch(AssertUnwindSafe(|| { c.set_cur_pwr_out_max(uc::W * aux, None, None)?; c.solve_energy_consumption(uc::W * pwr, uc::W * aux, uc::S * dt) }));
        let (ok, m) = outcome_of(r); (ok, m, to_node(&c))
    }
}
/// a locomotive's "subsequent steps": three trace elements (traction, more traction, braking)
fn beh_loco(fr: [f64; 3], dt: f64) -> impl Fn(Locomotive) -> (bool, String, Node) {
    move |l| {
        let p = loco_rated(&l);
        let tr = PowerTrace::new(vec![0.0, dt, 2.0 * dt, 3.0 * dt], vec![0.0, fr[0] * p, fr[1] * p, fr[2] * p], vec![Some(true); 4]);
        let si = l.get_save_interval();
        beh_loco_sim(LocomotiveSimulation::new(l, tr, si))
    }
}
fn beh_consist(fr: [f64; 3], dt: f64) -> impl Fn(Consist) -> (bool, String, Node) {
    move |c| {
        let p = consist_rated(&c);
        let tr = PowerTrace::new(vec![0.0, dt, 2.0 * dt, 3.0 * dt], vec![0.0, fr[0] * p, fr[1] * p, fr[2] * p], vec![Some(true); 4]);
        let si = c.get_save_interval();
        beh_consist_sim(ConsistSimulation::new(c, tr, si))
    }
}

fn corridor() -> Option<(Network, HashMap<String, Vec<Location>>)> {
    let root = repo_root();
    let n = Network::from_file(format!("{}/python/altrios/resources/networks/simple_corridor_network.yaml", root)).ok()?;
    let l = import_locations(format!("{}/python/altrios/resources/networks/simple_corridor_locations.csv", root)).ok()?;
    Some((n, l))
}

/// every exported type in its default / `valid()` state
fn defaults(sink: &mut Sink) {
    let t = &["state:default"];
    with_beh("FuelConverter", "default/FuelConverter".into(), t, &FuelConverter::default(), &beh_fc(3e5, 1.0, true), sink);
    with_beh("Generator", "default/Generator".into(), t, &Generator::default(), &beh_gen(1e6, 1e4), sink);
    with_beh("ElectricDrivetrain", "default/ElectricDrivetrain".into(), t, &ElectricDrivetrain::default(), &beh_edrv(1e6, 5e5), sink);
    with_beh("ReversibleEnergyStorage", "default/ReversibleEnergyStorage".into(), t, &ReversibleEnergyStorage::default(), &beh_res(2e5, 1e4, 1.0), sink);
    plain("ConventionalLoco", "default/ConventionalLoco".into(), t, &ConventionalLoco::default(), sink);
    plain("BatteryElectricLoco", "default/BatteryElectricLoco".into(), t, &BatteryElectricLoco::default(), sink);
    plain("HybridLoco", "default/HybridLoco".into(), t, &HybridLoco::default(), sink);
    plain("DummyLoco", "default/DummyLoco".into(), t, &DummyLoco::default(), sink);
    with_beh("Locomotive", "default/Locomotive_conv".into(), t, &Locomotive::default(), &beh_loco([0.05, 0.08, -0.05], 1.0), sink);
    with_beh("Locomotive", "default/Locomotive_bel".into(), t, &Locomotive::default_battery_electric_loco(), &beh_loco([0.05, 0.08, -0.05], 1.0), sink);
    with_beh("Consist", "default/Consist".into(), t, &Consist::default(), &beh_consist([0.05, 0.08, 0.02], 1.0), sink);
    with_beh("Consist", "default/Consist_braking_first".into(), t, &Consist::default(), &beh_consist([-0.02, 0.05, 0.02], 1.0), sink);
    plain("PowerTrace", "default/PowerTrace".into(), t, &PowerTrace::default(), sink);
    {
        let mut s = LocomotiveSimulation::default();
        s.power_trace.trim(None, Some(25)).unwrap();
        with_beh("LocomotiveSimulation", "default/LocomotiveSimulation".into(), t, &s, &beh_loco_sim_walk, sink);
        let mut v = LocomotiveSimulationVec::default();
        for x in v.0.iter_mut() { x.power_trace.trim(None, Some(12)).unwrap(); }
        plain("LocomotiveSimulationVec", "default/LocomotiveSimulationVec".into(), t, &v, sink);
        let mut c = ConsistSimulation::default();
        c.power_trace.trim(None, Some(25)).unwrap();
        with_beh("ConsistSimulation", "default/ConsistSimulation".into(), t, &c, &beh_consist_sim_walk, sink);
    }
    {
        let mut st = SpeedTrace::default();
        st.trim(None, Some(40)).unwrap();
        plain("SpeedTrace", "default/SpeedTrace".into(), t, &st, sink);
        let mut s = SetSpeedTrainSim::default();
        s.speed_trace.trim(None, Some(40)).unwrap();
        with_beh("SetSpeedTrainSim", "default/SetSpeedTrainSim".into(), t, &s, &beh_set_speed_walk, sink);
    }
    plain("TrainConfig", "default/TrainConfig_valid".into(), t, &TrainConfig::valid(), sink);
    plain("TrainConfig", "default/TrainConfig_default".into(), t, &TrainConfig::default(), sink);
    plain("RailVehicle", "default/RailVehicle".into(), t, &RailVehicle::default(), sink);
    plain("TrainSimBuilder", "default/TrainSimBuilder".into(), t, &TrainSimBuilder::default(), sink);
    plain("InitTrainState", "default/InitTrainState".into(), t, &InitTrainState::default(), sink);
    plain("TrainState", "default/TrainState".into(), t, &TrainState::default(), sink);
    plain("TrainState", "default/TrainState_valid".into(), t, &TrainState::valid(), sink);
    plain("TrainParams", "default/TrainParams_valid".into(), t, &TrainParams::valid(), sink);
    plain("TrainRes", "default/TrainRes_valid".into(), t, &TrainRes::valid(), sink);
    plain("PathTpc", "default/PathTpc_unfinished".into(), t, &PathTpc::default(), sink);
    plain("PathTpc", "default/PathTpc_valid_finished".into(), t, &PathTpc::valid(), sink);
    with_beh("SpeedLimitTrainSim", "default/SpeedLimitTrainSim_valid".into(), t, &SpeedLimitTrainSim::valid(), &beh_slts_walk, sink);
    plain("SpeedLimitTrainSim", "default/SpeedLimitTrainSim_default".into(), t, &SpeedLimitTrainSim::default(), sink);
    plain("SpeedLimitTrainSimVec", "default/SpeedLimitTrainSimVec".into(), t, &SpeedLimitTrainSimVec(vec![SpeedLimitTrainSim::valid(); 2]), sink);
    plain("Link", "default/Link_default".into(), t, &Link::default(), sink);
    plain("Link", "default/Link_valid".into(), t, &Link::valid(), sink);
    plain("Vec<Link>", "default/VecLink_valid".into(), t, &Vec::<Link>::valid(), sink);
    plain("Network", "default/Network_valid".into(), t, &Network(Vec::<Link>::valid()), sink);
    plain("Network", "default/Network_empty".into(), t, &Network::default(), sink);
    plain("LinkIdx", "default/LinkIdx".into(), t, &LinkIdx::valid(), sink);
    plain("LinkPath", "default/LinkPath".into(), t, &LinkPath(vec![LinkIdx::new(1), LinkIdx::new(4_000_000_000)]), sink);
    plain("Location", "default/Location".into(), t, &Location::default(), sink);
    plain("SpeedSet", "default/SpeedSet_valid".into(), t, &SpeedSet::valid(), sink);
    plain("TrainType", "default/TrainType".into(), t, &TrainType::Freight, sink);
    plain("Elev", "default/Elev".into(), t, &Elev::default(), sink);
    plain("Heading", "default/Heading".into(), t, &Heading::default(), sink);
    plain("LinkIdxTime", "default/LinkIdxTime".into(), t, &LinkIdxTime::default(), sink);
    plain("TimedLinkPath", "default/TimedLinkPath".into(), t, &TimedLinkPath(vec![LinkIdxTime::default(); 2]), sink);
    file_cases("FuelConverter", "default/FuelConverter", &FuelConverter::default(), sink);
    file_cases("PowerTrace", "default/PowerTrace", &PowerTrace::default(), sink);
    file_cases("PathTpc", "default/PathTpc_valid_finished", &PathTpc::valid(), sink);
    { let mut r = Rng::new(171); let l = rand_bel_loco(&mut r); let st = loco_trace(&mut r, l.clone(), 3, false);
      if let Some(m) = st.iter().rev().find_map(|s| s.post.as_ref().ok().cloned()) { file_cases("Locomotive", "default/Locomotive_midrun", &m, sink); } }
    if let Some((net, locs)) = corridor() {
        plain("Network", "default/Network_simple_corridor".into(), t, &net, sink);
        file_cases("Network", "default/Network_simple_corridor", &net, sink);
        let mut r = Rng::new(17);
        let mut con = Consist::default(); con.set_save_interval(None);
        let tsb = builder(&mut r, con, false, Some(("A", "B")));
        plain("TrainSimBuilder", "default/TrainSimBuilder_corridor".into(), t, &tsb, sink);
        if let Ok(slts) = tsb.make_speed_limit_train_sim(&locs, None, None, None) {
            plain("SpeedLimitTrainSim", "default/SpeedLimitTrainSim_corridor_unstarted".into(), t, &slts, sink);
            if let Ok((etn, _)) = make_est_times(slts.clone(), &net) {
                plain("EstTimeNet", "default/EstTimeNet_corridor".into(), t, &etn, sink);
            }
        }
    }
}

/// `to_file` / `from_file` (extension-dispatched: yaml, json, bin) must behave exactly like the
/// string / byte API on the same object
fn file_cases<T: SerdeAPI + PartialEq + Clone + Norm>(kind: &str, id: &str, obj: &T, sink: &mut Sink) {
    let dir = std::env::temp_dir().join(format!("vh_c17_{}", std::process::id()));
    let _ = std::fs::create_dir_all(&dir);
    let t_orig = to_node(obj);
    for (f, ext) in [(Fmt::Yaml, "yaml"), (Fmt::Json, "json"), (Fmt::Bin, "bin")] {
        let path = dir.join(format!("obj.{}", ext));
        // the path already holds an older, LONGER file (a result file that is being reused): to_file has to replace it
        if let Ok(e) = encode(obj, f) {
            let doc: Vec<u8> = match &e { Enc::S(s) => s.as_bytes().to_vec(), Enc::B(b) => b.clone() };
            let mut old = doc.clone(); old.extend_from_slice(b"\n}}}} ::: {{{{ \x01\n"); old.extend_from_slice(&doc);
            let _ = std::fs::write(&path, old);
        }
        let via_file: Result<T, String> = match catch(AssertUnwindSafe(|| obj.to_file(&path).and_then(|_| T::from_file(&path)))) {
            Ok(Ok(x)) => Ok(x), Ok(Err(e)) => Err(format!("{:#}", e)), Err(p) => Err(format!("PANIC {}", p)) };
        let via_mem: Result<T, String> = encode(obj, f).and_then(|e| decode::<T>(&e, f));
        let mut fails = vec![];
        let mut o = Outs::new();
        match (&via_file, &via_mem) {
            (Ok(a), Ok(b)) => { let d = compare(&to_node(a), &to_node(b), Mode::Bits); if d.n_bad > 0 { fails.push(format!("{}: from_file(.{}) and from_{} disagree: {}", kind, ext, f.name(), d.bad.join("; "))); } o.b("file_ok", true); }
            (Err(_), Err(_)) => { o.b("file_ok", false); }
            (a, b) => { fails.push(format!("{}: to_file/from_file(.{}) {} but the in-memory {} round trip {}", kind, ext, if a.is_ok() { "succeeds" } else { "fails" }, f.name(), if b.is_ok() { "succeeds" } else { "fails" })); o.b("file_ok", a.is_ok()); }
        }
        // the two entry points of a format are ONE format: what the string / byte API wrote is read by from_file, and what
        // to_file wrote is read by the string / byte API
        if let (Ok(_), Ok(enc)) = (&via_mem, encode(obj, f)) {
            let bytes: Vec<u8> = match &enc { Enc::S(s) => s.as_bytes().to_vec(), Enc::B(b) => b.clone() };
            let p2 = dir.join(format!("cross.{}", ext));
            let a = std::fs::write(&p2, &bytes).ok().and_then(|_| catch(AssertUnwindSafe(|| T::from_file(&p2))).ok()).map(|r| r.is_ok()).unwrap_or(false);
            let b = catch(AssertUnwindSafe(|| obj.to_file(&p2))).ok().and_then(|r| r.ok()).and_then(|_| std::fs::read(&p2).ok())
                .map(|raw| match f { Fmt::Bin => decode::<T>(&Enc::B(raw), f).is_ok(), _ => decode::<T>(&Enc::S(String::from_utf8_lossy(&raw).to_string()), f).is_ok() }).unwrap_or(false);
            let _ = std::fs::remove_file(&p2);
            if via_file.is_ok() && !a { fails.push(format!("{}: what to_{} wrote cannot be read by from_file(.{})", kind, f.name(), ext)); }
            if via_file.is_ok() && !b { fails.push(format!("{}: what to_file(.{}) wrote cannot be read by from_{}", kind, ext, f.name())); }
        }
        let class = class_of(f, &t_orig);
        let (oracle_fail, known) = if fails.is_empty() { (vec![], if via_file.is_err() { class.map(|k| vec![k.to_string()]).unwrap_or_default() } else { vec![] }) } else { (fails, vec![]) };
        // a failure of BOTH paths outside a known class is an oracle failure of the round trip itself
        let oracle_fail = if oracle_fail.is_empty() && via_file.is_err() && class.is_none() { vec![format!("{}: file round trip (.{}) failed: {}", kind, ext, via_file.as_ref().err().map(|s| first_line(s)).unwrap_or_default())] } else { oracle_fail };
        sink.put(Case { id: format!("{}/file_{}", id, ext), kind: format!("file_{}", f.name()), coq: String::new(), outcome: Outcome::Ok(o),
            tags: vec![format!("fmt:{}", f.name()), format!("type:{}", kind), "api:file".into()], input: json!({}), oracle_fail, known, in_domain: true });
        let _ = std::fs::remove_file(&path);
    }
    let _ = std::fs::remove_dir(&dir);
}

fn family_components(r: &mut Rng, k: usize, sink: &mut Sink) {
    // fresh random components, and the same components after some locomotive steps
    let conv = rand_conv_loco(r);
    let bel = rand_bel_loco(r);
    for (li, loco) in [conv, bel].into_iter().enumerate() {
        let ns = 1 + r.below(6);
        let steps = loco_trace(r, loco.clone(), ns, true);
        let states: Vec<(&str, Locomotive)> = vec![("state:fresh", loco.clone()),
            ("state:midrun", steps.iter().rev().find_map(|s| s.post.as_ref().ok().cloned()).unwrap_or(loco.clone()))];
        for (tag, l) in states {
            let fr = [r.range(0.01, 0.3), r.range(0.01, 0.4), -r.range(0.0, 0.3)];
            let dt = *r.pick(&[1.0, 0.5, 2.0]);
            with_beh("Locomotive", format!("comp/{}/{}/loco{}", k, tag, li), &[tag], &l, &beh_loco(fr, dt), sink);
            match &l.loco_type {
                PowertrainType::ConventionalLoco(c) => {
                    let p = c.fc.pwr_out_max.value;
                    with_beh("FuelConverter", format!("comp/{}/{}/fc", k, tag), &[tag], &c.fc, &beh_fc(c.fc.state.pwr_out_max.value.max(0.1 * p) * r.range(0.0, 0.9), dt, true), sink);
                    with_beh("Generator", format!("comp/{}/{}/gen", k, tag), &[tag, if c.gen.pwr_in_frac_interp.is_empty() { "cache:empty" } else { "cache:filled" }], &c.gen, &beh_gen(p * r.range(0.05, 1.0), p * r.range(0.0, 0.02)), sink);
                    with_beh("ElectricDrivetrain", format!("comp/{}/{}/edrv", k, tag), &[tag, if c.edrv.pwr_in_frac_interp.is_empty() { "cache:empty" } else { "cache:filled" }], &c.edrv, &beh_edrv(p * r.range(0.05, 1.0), 0.0), sink);
                    plain("ConventionalLoco", format!("comp/{}/{}/conv", k, tag), &[tag], c, sink);
                }
                PowertrainType::BatteryElectricLoco(b) => {
                    let p = b.res.pwr_out_max.value;
                    with_beh("ReversibleEnergyStorage", format!("comp/{}/{}/res", k, tag), &[tag], &b.res, &beh_res(p * r.range(-0.3, 0.3), p * r.range(0.0, 0.01), dt), sink);
                    with_beh("ElectricDrivetrain", format!("comp/{}/{}/edrv_bel", k, tag), &[tag, if b.edrv.pwr_in_frac_interp.is_empty() { "cache:empty" } else { "cache:filled" }], &b.edrv, &beh_edrv(p * r.range(0.05, 1.0), p * r.range(0.0, 0.5)), sink);
                    plain("BatteryElectricLoco", format!("comp/{}/{}/bel", k, tag), &[tag], b, sink);
                }
                _ => {}
            }
        }
    }
}

fn family_loco_sim(r: &mut Rng, k: usize, all_ckpt: bool, sink: &mut Sink) {
    let loco = if r.chance(0.5) { rand_conv_loco(r) } else { rand_bel_loco(r) };
    let save = *r.pick(&[None, Some(1), Some(1), Some(3)]);
    let n = 4 + r.below(10);
    let sim0 = loco_sim_from_trace(r, loco, n, save);
    let n_steps = sim0.power_trace.len() - 1;
    let stag = format!("save_interval:{:?}", save);
    // checkpoint 0 with the real walk()
    with_beh("LocomotiveSimulation", format!("locosim/{}/walk", k), &["state:unstarted", &stag], &sim0, &beh_loco_sim_walk, sink);
    let mut s = sim0.clone();
    for c in 0..=n_steps {
        if c > 0 { if catch(AssertUnwindSafe(|| s.step())).map(|x| x.is_err()).unwrap_or(true) { break; } }
        if checkpoints(&mut r.clone(), n_steps, all_ckpt).contains(&c) {
            let ct = format!("checkpoint:{}", if c == 0 { "0" } else if c == n_steps { "end" } else { "mid" });
            with_beh("LocomotiveSimulation", format!("locosim/{}/ckpt{}", k, c), &["state:midrun", &stag, &ct], &s, &beh_loco_sim, sink);
        }
    }
    let _ = r.next();
}

fn family_consist_sim(r: &mut Rng, k: usize, all_ckpt: bool, sink: &mut Sink) {
    let con = rand_consist(r);
    let inited = { let mut c = con.clone(); let _ = c.init(); to_node(&c) == to_node(&con) };
    let save = *r.pick(&[None, Some(1), Some(2)]);
    let n = 3 + r.below(7);
    let sim0 = consist_sim_from_trace(r, con.clone(), n, save);
    let n_steps = sim0.power_trace.len() - 1;
    let itag = if inited { "consist:initialised" } else { "consist:never-initialised" };
    let fr = [r.range(-0.2, 0.3), r.range(0.01, 0.4), -r.range(0.0, 0.3)];
    with_beh("Consist", format!("consistsim/{}/consist", k), &["state:fresh", itag], &con, &beh_consist(fr, 1.0), sink);
    with_beh("ConsistSimulation", format!("consistsim/{}/walk", k), &["state:unstarted", itag], &sim0, &beh_consist_sim_walk, sink);
    let mut s = sim0.clone();
    let cps = checkpoints(r, n_steps, all_ckpt);
    for c in 0..=n_steps {
        if c > 0 { if catch(AssertUnwindSafe(|| s.step())).map(|x| x.is_err()).unwrap_or(true) { break; } }
        if cps.contains(&c) {
            let ct = format!("checkpoint:{}", if c == 0 { "0" } else if c == n_steps { "end" } else { "mid" });
            with_beh("ConsistSimulation", format!("consistsim/{}/ckpt{}", k, c), &["state:midrun", itag, &ct], &s, &beh_consist_sim, sink);
            if c > 0 { with_beh("Consist", format!("consistsim/{}/consist_at{}", k, c), &["state:midrun", itag], &s.loco_con, &beh_consist(fr, 1.0), sink); }
        }
    }
}

fn family_track(r: &mut Rng, k: usize, sink: &mut Sink) {
    let tt = *r.pick(&[TrainType::Freight, TrainType::Intermodal]);
    let m = 1 + r.below(4);
    let decorated = r.chance(0.5);
    let net = chain_network(r, m, tt, decorated);
    let dtag = if decorated { "network:decorated" } else { "network:plain" };
    plain("Network", format!("track/{}/network", k), &[dtag], &net, sink);
    plain("Link", format!("track/{}/link", k), &[dtag], &net.0[1], sink);
    let mut tc = train_config(r, false);
    tc.train_type = tt;
    plain("TrainConfig", format!("track/{}/train_config", k), &["strings:plain"], &tc, sink);
    let tcw = train_config(r, true);
    plain("TrainConfig", format!("track/{}/train_config_weird", k), &["strings:weird"], &tcw, sink);
    if let Ok(tp) = tc.make_train_params() {
        plain("TrainParams", format!("track/{}/train_params", k), &[], &tp, sink);
        let mut p = PathTpc::new(tp);
        let path: Vec<LinkIdx> = (1..=m).map(|i| LinkIdx::new(i as u32)).collect();
        let cut = 1 + r.below(m);
        if p.extend(&net, &path[..cut]).is_ok() {
            plain("PathTpc", format!("track/{}/path_partial", k), &["path:unfinished"], &p, sink);
            if cut < m { let _ = p.extend(&net, &path[cut..]); }
            let mut q = p.clone(); q.finish();
            plain("PathTpc", format!("track/{}/path_finished", k), &["path:finished"], &q, sink);
        }
    }
    let pt = PowerTrace::new((0..6).map(|i| i as f64 * r.range(0.5, 2.0)).collect(), (0..6).map(|_| r.range(-1e6, 3e6)).collect(),
        (0..6).map(|_| *r.pick(&[None, Some(true), Some(false)])).collect());
    plain("PowerTrace", format!("track/{}/power_trace", k), &[], &pt, sink);
    let we = r.chance(0.5);
    plain("SpeedTrace", format!("track/{}/speed_trace", k), &[], &speed_trace(r, 12, 20.0, we), sink);
    let locs = vec![Location { location_id: r.pick(WEIRD).to_string(), offset: uc::M * r.range(0.0, 100.0), link_idx: LinkIdx::new(1 + r.below(m) as u32),
        is_front_end: r.chance(0.5), grid_emissions_region: "MROWc".into(), electricity_price_region: "MN".into(), liquid_fuel_price_region: "MN".into() }];
    plain("Vec<Location>", format!("track/{}/locations", k), &[], &locs, sink);
}

/// the CSV form of a speed trace (`to_csv_file` / `from_csv_file`, the format traces are exchanged in): written onto a path
/// that already holds an OLDER, LONGER trace, read back, it is the trace that was written - same samples, same count
fn csv_case(r: &mut Rng, id: String, st: &SpeedTrace, sink: &mut Sink) {
    let dir = std::env::temp_dir().join(format!("vh_c17_csv_{}", std::process::id()));
    let _ = std::fs::create_dir_all(&dir);
    let path = dir.join("trace.csv");
    let extra = 5 + r.below(10);
    let older = speed_trace(r, st.len() + extra, 15.0, st.engine_on.is_some());
    let mut fails = vec![];
    let res = catch(AssertUnwindSafe(|| -> anyhow::Result<SpeedTrace> { older.to_csv_file(&path)?; st.to_csv_file(&path)?; SpeedTrace::from_csv_file(&path) }));
    match res {
        Ok(Ok(back)) => {
            if back.len() != st.len() { fails.push(format!("speed trace written as CSV over an older file has {} samples when read back, {} were written", back.len(), st.len())); }
            else {
                let same = back.time.iter().zip(st.time.iter()).all(|(a, b)| a.value.to_bits() == b.value.to_bits())
                    && back.speed.iter().zip(st.speed.iter()).all(|(a, b)| a.value.to_bits() == b.value.to_bits());
                if !same { fails.push("speed trace read back from CSV differs from the one written (time or speed samples)".into()); }
                if let (Some(a), Some(b)) = (&back.engine_on, &st.engine_on) { if a != b { fails.push("speed trace read back from CSV differs in engine_on".into()); } }
            }
        }
        Ok(Err(e)) => fails.push(format!("speed trace CSV round trip fails: {}", format!("{:#}", e).lines().next().unwrap_or(""))),
        Err(p) => fails.push(format!("speed trace CSV round trip panics: {}", p)),
    }
    let _ = std::fs::remove_file(&path); let _ = std::fs::remove_dir(&dir);
    let mut o = Outs::new(); o.z("samples", st.len() as i64);
    sink.put(Case { id, kind: "file_csv".into(), coq: String::new(), outcome: Outcome::Ok(o), tags: vec!["fmt:csv".into(), "type:SpeedTrace".into(), "api:file".into()],
        input: json!({"samples": st.len()}), oracle_fail: fails, known: vec![], in_domain: true });
}

fn family_set_speed(r: &mut Rng, k: usize, all_ckpt: bool, sink: &mut Sink) {
    let tt = TrainType::Freight;
    let m = 1 + r.below(3);
    let net = chain_network(r, m, tt, false);
    let mut con = small_consist(r);
    let inited = { let mut c = con.clone(); let _ = c.init(); to_node(&c) == to_node(&con) };
    let itag = if inited { "consist:initialised" } else { "consist:never-initialised" };
    let save = *r.pick(&[None, Some(1), Some(2)]);
    con.set_save_interval(save);
    let mut tsb = builder(r, con, false, None);
    tsb.train_config.train_type = tt;
    plain("TrainSimBuilder", format!("setspeed/{}/builder", k), &[itag], &tsb, sink);
    let n = 6 + r.below(12);
    let mut st = speed_trace(r, n, 12.0, false);
    // rolling start: the simulation begins at speed and the very first step brakes (negative wheel power), so the
    // consist's dynamic-braking limit is read before the consist has ever been solved or loaded
    let rolling = k % 3 == 1;
    if rolling {
        let v0 = 6.0 + (k % 5) as f64;
        tsb = TrainSimBuilder::new(tsb.train_id.clone(), tsb.train_config.clone(), tsb.loco_con.clone(), None, None, Some(InitTrainState::new(Some(uc::S * 0.0), None, Some(uc::MPS * v0))));
        let mut v = v0;
        for i in 0..st.speed.len() { st.speed[i] = uc::MPS * v; v = (v - 0.08 * (1 + i % 3) as f64).max(0.0); }
    }
    csv_case(r, format!("setspeed/{}/trace_csv", k), &st, sink);
    let path: Vec<LinkIdx> = (1..=m).map(|i| LinkIdx::new(i as u32)).collect();
    let sim0 = match catch(AssertUnwindSafe(|| tsb.make_set_speed_train_sim(&net, &path, st, save))) { Ok(Ok(s)) => s, _ => return };
    let itag = if rolling { format!("{}|start:rolling_braking_first", itag) } else { itag.to_string() };
    let itag: &str = &itag;
    let n_steps = sim0.speed_trace.len() - 1;
    with_beh("SetSpeedTrainSim", format!("setspeed/{}/walk", k), &["state:unstarted", itag], &sim0, &beh_set_speed_walk, sink);
    let mut s = sim0.clone();
    let cps = checkpoints(r, n_steps, all_ckpt);
    for c in 0..=n_steps {
        if c > 0 { if catch(AssertUnwindSafe(|| s.step())).map(|x| x.is_err()).unwrap_or(true) { break; } }
        if cps.contains(&c) {
            let ct = format!("checkpoint:{}", if c == 0 { "0" } else if c == n_steps { "end" } else { "mid" });
            with_beh("SetSpeedTrainSim", format!("setspeed/{}/ckpt{}", k, c), &["state:midrun", itag, &ct], &s, &beh_set_speed, sink);
        }
    }
}

fn family_slts(r: &mut Rng, k: usize, all_ckpt: bool, sink: &mut Sink) {
    let tt = TrainType::Freight;
    let m = 1 + r.below(2);
    let net = chain_network(r, m, tt, false);
    let mut con = small_consist(r);
    let inited = { let mut c = con.clone(); let _ = c.init(); to_node(&c) == to_node(&con) };
    let itag = if inited { "consist:initialised" } else { "consist:never-initialised" };
    let save = *r.pick(&[None, None, Some(1), Some(50)]);
    con.set_save_interval(save);
    let mut tsb = builder(r, con, false, Some(("O", "D")));
    tsb.train_config.train_type = tt;
    // keep the train light enough for the small consist
    tsb.train_config.train_mass = None; tsb.train_config.train_length = None; tsb.train_config.cd_area_vec = None;
    for v in tsb.train_config.n_cars_by_type.values_mut() { *v = 1 + (*v % 6); }
    let mk = |id: &str, link: usize| Location { location_id: id.into(), offset: uc::M * 0.0, link_idx: LinkIdx::new(link as u32), is_front_end: false,
        grid_emissions_region: "MROWc".into(), electricity_price_region: "MN".into(), liquid_fuel_price_region: "MN".into() };
    let locs: HashMap<String, Vec<Location>> = HashMap::from([("O".to_string(), vec![mk("O", 1)]), ("D".to_string(), vec![mk("D", m)])]);
    let mut sim0 = match catch(AssertUnwindSafe(|| tsb.make_speed_limit_train_sim(&locs, save, None, None))) { Ok(Ok(s)) => s, _ => return };
    plain("SpeedLimitTrainSim", format!("slts/{}/unstarted_no_path", k), &["state:unstarted", itag, "path:unfinished"], &sim0, sink);
    let path: Vec<LinkIdx> = (1..=m).map(|i| LinkIdx::new(i as u32)).collect();
    if catch(AssertUnwindSafe(|| sim0.extend_path(&net.0, &path))).map(|x| x.is_err()).unwrap_or(true) { return; }
    // a sim whose path is extended but not finished (finite numbers only), and the finished one
    let unfinished = sim0.clone();
    sim0.finish();
    // (the real walk() never returns for a train that stalls short of its destination, so the random family
    //  continues with the same loop under a step cap; walk() itself is exercised on the default objects)
    with_beh("SpeedLimitTrainSim", format!("slts/{}/walk", k), &["state:unstarted", itag, "path:finished"], &sim0, &beh_slts, sink);
    // run to completion once to learn the number of steps
    let mut probe = unfinished.clone();
    let mut n_steps = 0usize;
    while slts_more(&probe) && n_steps < SLTS_CAP { if catch(AssertUnwindSafe(|| probe.step())).map(|x| x.is_err()).unwrap_or(true) { break; } n_steps += 1; }
    let stall = if n_steps >= SLTS_CAP { "run:stalled-at-cap" } else { "run:completes" };
    let cps: Vec<usize> = if all_ckpt { (0..=n_steps).step_by((n_steps / 40).max(1)).collect() } else { let mut v = vec![0, 1, n_steps / 2, n_steps]; v.sort(); v.dedup(); v };
    let mut s = unfinished.clone();
    let mut sf = sim0.clone();
    for c in 0..=n_steps {
        if c > 0 {
            if catch(AssertUnwindSafe(|| s.step())).map(|x| x.is_err()).unwrap_or(true) { break; }
            let _ = catch(AssertUnwindSafe(|| sf.step()));
        }
        if cps.contains(&c) {
            let ct = format!("checkpoint:{}", if c == 0 { "0" } else if c == n_steps { "end" } else { "mid" });
            with_beh("SpeedLimitTrainSim", format!("slts/{}/unfinished_ckpt{}", k, c), &["state:midrun", itag, &ct, "path:unfinished", stall], &s, &beh_slts, sink);
            if c == n_steps / 2 || all_ckpt {
                with_beh("SpeedLimitTrainSim", format!("slts/{}/finished_ckpt{}", k, c), &["state:midrun", itag, &ct, "path:finished", stall], &sf, &beh_slts, sink);
            }
        }
    }
}

fn dump_shapes() {
    let mut seen: Vec<String> = vec![];
    let mut show = |n: &Node| for (name, fields, skipped) in struct_shapes(n) {
        let line = format!("{} present={:?} skipped={:?}", name, fields, skipped);
        if !seen.contains(&line) { println!("{}", line); seen.push(line); }
    };
    let mut r = Rng::new(1);
    let mut l = rand_conv_loco(&mut r); l.state.pwr_out = uc::W * 1.0;
    if let PowertrainType::ConventionalLoco(c) = &mut l.loco_type { c.fc.state.i = 2; c.gen.state.i = 2; c.edrv.state.i = 2; }
    show(&to_node(&l));
    let mut b = rand_bel_loco(&mut r); b.state.i = 3;
    if let PowertrainType::BatteryElectricLoco(x) = &mut b.loco_type { x.res.state.i = 2; x.edrv.state.i = 2; }
    show(&to_node(&b));
    let mut c = Consist::default(); c.state.i = 2; show(&to_node(&c));
    show(&to_node(&PathTpc::valid()));
    let mut s = SpeedLimitTrainSim::valid(); s.state.i = 2; s.fric_brake.state.i = 2; show(&to_node(&s));
    let mut s = SetSpeedTrainSim::default(); s.state.i = 2; show(&to_node(&s));
    show(&to_node(&LocomotiveSimulation::default()));
    show(&to_node(&Link::valid()));
}

pub fn run(seed: u64, n: usize, sink: &mut Sink) {
    if std::env::var("VH_C17_SHAPES").is_ok() { dump_shapes(); return; }
    NET_REJECTS.lock().unwrap().clear();
    let mut r = Rng::new(seed ^ 0xC17);
    let thorough = n >= 100000;
    defaults(sink);
    crate::sdshape::shape_cases(&mut r.fork(), sink);
    let mut k = 0usize;
    while sink.n < n {
        let mut rr = r.fork();
        if let Ok(only) = std::env::var("VH_C17_ONLY") { if only.parse::<usize>().ok() != Some(k) { k += 1; if k > 100000 { break; } continue; } }
        match k % 8 {
            0 | 4 => family_components(&mut rr, k, sink),
            1 => family_loco_sim(&mut rr, k, thorough, sink),
            2 | 6 => family_consist_sim(&mut rr, k, thorough, sink),
            3 => family_track(&mut rr, k, sink),
            5 => family_set_speed(&mut rr, k, thorough, sink),
            _ => family_slts(&mut rr, k, thorough, sink),
        }
        k += 1;
    }
    // every network the generators made satisfies the documented rules (they are made so): one the code's own init()
    // rejects cannot be loaded back from any format - "can be written but not read back"
    let rej = NET_REJECTS.lock().unwrap().clone();
    let mut o = Outs::new(); o.z("generated_networks_rejected_by_init", 0);
    sink.put(Case { id: "generated_networks/init".into(), kind: "generated_network_init".into(), coq: String::new(), outcome: Outcome::Ok(o),
        tags: vec![format!("rejected:{}", rej.len().min(3))], input: json!({"rejected": rej.iter().take(5).collect::<Vec<_>>()}),
        oracle_fail: if rej.is_empty() { vec![] } else { vec![format!("Network::init() rejects {} generated network(s) that satisfy every documented rule (they can be written but not loaded): {}", rej.len(), rej[0])] },
        known: vec![], in_domain: true });
}
