//! C06 -- the path geometry handed to the train model equals the network's geometry.
//! Drives only the public API: PathTpc::new(train_params), .extend(&network, &link_path) for the
//! whole route and for partitions of it, .finish(); reads back link_points(), grades(), curves(),
//! cat_power_limits().  Correspondence: all four vectors and the link points, bit patterns, against
//! coq/model/PathGeom.v evaluated at binary64.  Oracle (independent re-statement on the
//! implementation's output): link points at the cumulative lengths; elevation at every route
//! elevation point and inside every gap equals the elevation obtained by walking the route's own
//! points; grade = slope; curve coefficient = the coefficient formula applied to the true
//! heading-change rate (difference wrapped into (-pi, pi]); catenary limits shifted; ObjState
//! cross-checks; whole == split (PartialEq); non-contiguous / unknown routes rejected with Err.
use crate::trk::*;
use crate::util::*;
use altrios_core::track::*;
use altrios_core::uc;
use serde_json::json;

fn walked_points(net: &[Link], path: &[u32]) -> Vec<(f64, f64, f64)> {
    // (absolute offset, walked elevation, slope to the next point of the same link or NaN)
    let mut out = vec![];
    let mut base = 0.0f64;
    let mut acc = f64::NAN;
    for (k, i) in path.iter().enumerate() {
        let l = &net[*i as usize];
        if l.elevs.is_empty() { base += l.length.value; continue; }
        let e0 = l.elevs[0].elev.value;
        if k == 0 || acc.is_nan() { acc = e0; }
        for (j, e) in l.elevs.iter().enumerate() {
            let slope = if j + 1 < l.elevs.len() {
                (l.elevs[j + 1].elev.value - e.elev.value) / (l.elevs[j + 1].offset.value - e.offset.value)
            } else { f64::NAN };
            out.push((base + e.offset.value, acc + (e.elev.value - e0), slope));
        }
        acc += l.elevs.last().unwrap().elev.value - e0;
        base += l.length.value;
    }
    out
}

fn prc_eval(v: &[PathResCoeff], x: f64) -> f64 {
    let mut c = &v[0];
    for p in v { if p.offset.value <= x { c = p; } else { break; } }
    c.res_net.value + c.res_coeff.value * (x - c.offset.value)
}

fn wrap_pi(d: f64) -> f64 {
    // the signed heading change in (-pi, pi]
    let two_pi = uc::REV.value;
    let mut m = d % two_pi;
    if m > two_pi / 2.0 { m -= two_pi; }
    if m <= -two_pi / 2.0 { m += two_pi; }
    m
}

fn curve_coeff_expected(tp: &TrainParams, dh: f64, len: f64) -> f64 {
    let curvature = wrap_pi(dh).abs() / len;
    let one_degree = (uc::DEG / (uc::FT * 100.0)).value;
    let (c0, c1, c2) = (tp.curve_coeff_0.value, tp.curve_coeff_1.value, tp.curve_coeff_2.value);
    if curvature < one_degree { c0 * curvature }
    else { c0 * one_degree + c1 * (curvature - one_degree) + c2 * (curvature - one_degree) * (curvature - one_degree) }
}

/// the property on one accepted build
pub fn geom_oracle(net: &[Link], tp: &TrainParams, path: &[u32], p: &PathTpc, finished: bool) -> Vec<String> {
    let mut f = vec![];
    let lps = p.link_points();
    // link points: cumulative lengths, route order, dummy at the end
    if lps.len() != path.len() + 1 { f.push(format!("{} link points for a route of {} links", lps.len(), path.len())); return f; }
    let mut base = 0.0f64;
    for (k, i) in path.iter().enumerate() {
        let l = &net[*i as usize];
        if lps[k].offset.value != base { f.push(format!("link point {} at offset {} but the cumulative length is {}", k, lps[k].offset.value, base)); break; }
        if lps[k].link_idx != l.idx_curr { f.push(format!("link point {} names link {} instead of {}", k, lps[k].link_idx, l.idx_curr)); }
        base = l.length.value + base;
    }
    if lps[path.len()].offset.value != base { f.push(format!("end link point at {} but the route length is {}", lps[path.len()].offset.value, base)); }
    if lps[path.len()].link_idx.idx() != 0 { f.push("end link point names a link".into()); }
    // counts
    if !counts_ok(p) { f.push("ObjState cross-check fails: a link point's offset/count does not match grades/curves/cat limits".into()); }
    let gr: Vec<PathResCoeff> = if finished { p.grades()[..p.grades().len() - 1].to_vec() } else { p.grades().to_vec() };
    let cu: Vec<PathResCoeff> = if finished { p.curves()[..p.curves().len() - 1].to_vec() } else { p.curves().to_vec() };
    // elevation at every walked point and inside every gap; grade = slope
    let w = walked_points(net, path);
    let scale = w.iter().map(|q| q.1.abs()).fold(1.0, f64::max);
    for j in 0..w.len() {
        let (x, e, s) = w[j];
        let got = prc_eval(&gr, x);
        if !close(got, e, 1e-9, 1e-9 * scale) { f.push(format!("path elevation {} at position {} but walking the route's elevation points gives {}", got, x, e)); break; }
        if j + 1 < w.len() && w[j + 1].0 > x && !s.is_nan() {
            let xm = x + (w[j + 1].0 - x) * 0.37;
            let em = e + s * (xm - x);
            let gm = prc_eval(&gr, xm);
            if !close(gm, em, 1e-9, 1e-9 * scale) { f.push(format!("path elevation {} at position {} (between elevation points) but the route's own points give {}", gm, xm, em)); break; }
            // the segment that starts at x carries the slope
            if let Some(seg) = gr.iter().find(|g| g.offset.value == x) {
                if !close(seg.res_coeff.value, s, 1e-12, 0.0) { f.push(format!("grade {} on the segment from {} but the slope of the route's points is {}", seg.res_coeff.value, x, s)); break; }
            } else { f.push(format!("no grade point at the elevation point {}", x)); break; }
        }
    }
    // curves: coefficient per heading window; cumulative value; links without headings contribute nothing
    let mut base = 0.0f64;
    let mut cum = 0.0f64;
    'outer: for i in path {
        let l = &net[*i as usize];
        for wd in l.headings.windows(2) {
            let x = base + wd[0].offset.value;
            let len = wd[1].offset.value - wd[0].offset.value;
            let want = curve_coeff_expected(tp, wd[1].heading.value - wd[0].heading.value, len);
            match cu.iter().find(|c| c.offset.value == x) {
                Some(seg) => {
                    if !close(seg.res_coeff.value, want, 1e-9, 1e-15) {
                        f.push(format!("curve coefficient {} on the segment from {} (headings {} -> {} over {} m) but the heading-change rate gives {}",
                            seg.res_coeff.value, x, wd[0].heading.value, wd[1].heading.value, len, want));
                        break 'outer;
                    }
                    if !close(seg.res_net.value, cum, 1e-9, 1e-12) { f.push(format!("cumulative curve resistance {} at {} but summing the segments gives {}", seg.res_net.value, x, cum)); break 'outer; }
                }
                None => { f.push(format!("no curve point at the heading point {}", x)); break 'outer; }
            }
            cum += want * len;
        }
        base += l.length.value;
    }
    // catenary limits shifted by the link's base offset
    let mut base = 0.0f64;
    let mut k = 0usize;
    for i in path {
        let l = &net[*i as usize];
        for c in &l.cat_power_limits {
            match p.cat_power_limits().get(k) {
                Some(pc) => {
                    if pc.offset_start.value != base + c.offset_start.value || pc.offset_end.value != base + c.offset_end.value
                        || pc.power_limit != c.power_limit || pc.district_id != c.district_id {
                        f.push(format!("catenary limit {} of the path is [{}, {}) but the link's limit shifted by {} is [{}, {})", k,
                            pc.offset_start.value, pc.offset_end.value, base, base + c.offset_start.value, base + c.offset_end.value));
                    }
                }
                None => { f.push(format!("catenary limit {} missing from the path", k)); }
            }
            k += 1;
        }
        base = l.length.value + base;
    }
    if p.cat_power_limits().len() != k { f.push(format!("{} catenary limits in the path, {} on the route", p.cat_power_limits().len(), k)); }
    f
}

fn geom_case(id: String, kind: &str, rt: &Route, parts: &[Vec<u32>], fin: bool, whole: Option<&PathTpc>, expect_err: bool) -> Case {
    let mut tags = rt.tags.clone();
    tags.push(format!("extend_calls:{}", parts.len()));
    tags.push(format!("finish:{}", fin));
    let path: Vec<u32> = parts.iter().flatten().cloned().collect();
    let coq = format!("x_path_geom {} {} {} {}", coq_net(&rt.net), coq_tp(&rt.tp), coq_parts(parts), cb(fin));
    let res = run_path(&rt.net, &rt.tp, parts, fin);
    let mut fails = vec![];
    let outcome = match &res {
        Ok(p) => {
            tags.push("result:ok".into());
            if expect_err { fails.push("a non-contiguous route was accepted".to_string()); }
            else if rt.in_domain {
                fails.extend(geom_oracle(&rt.net, &rt.tp, &path, p, fin));
                if let Some(w) = whole { if w != p { fails.push(format!("path built by {} extend calls differs (PartialEq) from the path built in one call", parts.len())); } }
            }
            Outcome::Ok(outs_geom(p))
        }
        Err((-1, m)) => { tags.push("result:panic".into()); if rt.in_domain { fails.push(format!("extend panicked: {}", m)); } Outcome::Panic(m.clone()) }
        Err((c, m)) => {
            tags.push(format!("result:err{}", c));
            if !expect_err && rt.in_domain { fails.push(format!("a contiguous route over a valid network was rejected: {}", &m[..m.len().min(200)])); }
            Outcome::Err(*c, m.clone())
        }
    };
    Case { id, kind: kind.into(), coq, outcome, tags, input: net_json(&rt.net, &rt.tp, parts),
        oracle_fail: fails, known: vec![], in_domain: rt.in_domain }
}

/// What a rejected extension leaves behind: extend() mutates in place and returns early with `?`,
/// so after an Err the object is neither the old path nor a consistent longer one.  Observed and
/// named (known-finding proposal in design/C06.md); the property text speaks of accepted
/// extensions, so this is not counted as a violation.
fn err_atomicity_case(id: String, rt: &Route, good: &[u32], bad: &[u32], rejected_at_first_link: bool) -> Option<Case> {
    let net = rt.net.clone(); let tp = rt.tp; let (g, b) = (good.to_vec(), bad.to_vec());
    let r = catch(move || {
        let mut p = PathTpc::new(tp);
        let lp: Vec<LinkIdx> = g.iter().map(|i| LinkIdx::new(*i)).collect();
        p.extend(&net, &lp).ok()?;
        let before = p.clone();
        let lb: Vec<LinkIdx> = b.iter().map(|i| LinkIdx::new(*i)).collect();
        match p.extend(&net, &lb) { Ok(()) => None, Err(_) => Some((before == p, counts_ok(&p))) }
    });
    let (same, consistent) = match r { Ok(Some(x)) => x, _ => return None };
    let mut tags = rt.tags.clone();
    tags.push(format!("after_err:unchanged={}", same));
    tags.push(format!("after_err:counts_consistent={}", consistent));
    let mut known = vec![];
    let mut fails = vec![];
    if rejected_at_first_link {
        // nothing of the call was acceptable: the path must be exactly what it was (it is, on the unchanged tree)
        tags.push("rejected_at:first_link_of_the_call".into());
        if !same { fails.push(format!("a call rejected at its FIRST link changed the path (index counts consistent afterwards: {})", consistent)); }
    } else if !same || !consistent {
        known.push("after a rejected extend() the PathTpc is left partially extended (link points / speed points of the accepted prefix added, grades / curves not): not atomic".to_string());
    }
    let mut o = Outs::new(); o.b("after_err_unchanged", same); o.b("after_err_counts_consistent", consistent);
    Some(Case { id, kind: "err_atomicity".into(), coq: String::new(), outcome: Outcome::Ok(o), tags,
        input: net_json(&rt.net, &rt.tp, &[good.to_vec(), bad.to_vec()]), oracle_fail: fails, known, in_domain: true })
}

/// PathTpc::clear(offset_back) after the route has been supplied: the links wholly behind offset_back are dropped
/// together with exactly their grades, curves, catenary sections and speed points (model PathGeom.clear).
/// Oracle: what remains is what an independent cut of the original vectors at the new first link gives; the
/// counts stay mutually consistent.
fn clear_cases(r: &mut Rng, n: usize, sink: &mut Sink) {
    let mut made = 0usize; let mut t = 0usize;
    while made < n && t < 20 * n + 20 {
        t += 1;
        let rt = gen_route(r, &RouteOpts { max_links: 7, geom: true, malformed: false, plain_speeds: true });
        if rt.path.len() < 2 { continue; }
        let parts = if r.chance(0.5) { vec![rt.path.clone()] } else { let c = 1 + r.below(rt.path.len() - 1); vec![rt.path[..c].to_vec(), rt.path[c..].to_vec()] };
        let p0 = match run_path(&rt.net, &rt.tp, &parts, false) { Ok(p) => p, Err(_) => continue };
        let lps: Vec<f64> = p0.link_points().iter().map(|l| l.offset.value).collect();
        let end = *lps.last().unwrap();
        // where the rear of the train is: inside a link, exactly on a boundary, several links in, at the ends, outside
        let x = match r.below(8) { 0 => 0.0, 1 => end, 2 => *r.pick(&lps), 3 => end + 10.0, 4 => -5.0, _ => r.range(0.0, end) };
        let mut p = p0.clone();
        let res = catch(std::panic::AssertUnwindSafe(|| p.clear(uc::M * x)));
        let dropped = lps.iter().skip(1).filter(|o| **o < x).count().min(lps.len().saturating_sub(2));
        let with_cats = p0.cat_power_limits().len();
        let mut tags = rt.tags.clone(); tags.push(format!("links_dropped:{}", dropped.min(3))); tags.push(format!("catenary_sections:{}", if with_cats == 0 { "none" } else { "some" }));
        tags.push(format!("offset_back:{}", if x < 0.0 { "before_path" } else if x > end { "beyond_path" } else if lps.contains(&x) { "on_boundary" } else { "inside_link" }));
        let mut fails = vec![];
        let outcome = match &res {
            Ok(Ok(del)) => {
                tags.push("result:ok".into());
                // independent cut: everything that starts before the new first link point goes, nothing else
                let first = p.link_points().first().map(|l| l.offset.value).unwrap_or(f64::NAN);
                // catenary sections by OWNERSHIP (the sections the dropped links contributed go, in order), not by offset: a
                // zero-length section at the very end of a dropped link starts exactly at the new first offset and still belongs
                // to the dropped link (an earlier cut by offset raised a false alarm on such a section: seed 19, case clear/15)
                let n_links_before = p0.link_points().iter().take_while(|l| l.offset.value < first).count();
                let n_drop_cats: usize = p0.link_points().iter().take(n_links_before).map(|l| rt.net.get(l.link_idx.idx()).map(|k| k.cat_power_limits.len()).unwrap_or(0)).sum();
                let keep_cats: Vec<(f64, f64, f64)> = p0.cat_power_limits().iter().skip(n_drop_cats).map(|c| (c.offset_start.value, c.offset_end.value, c.power_limit.value)).collect();
                let got_cats: Vec<(f64, f64, f64)> = p.cat_power_limits().iter().map(|c| (c.offset_start.value, c.offset_end.value, c.power_limit.value)).collect();
                if keep_cats != got_cats { fails.push(format!("after clear({}) the catenary sections are not those of the remaining links: {} kept, {} expected (first remaining link starts at {})", x, got_cats.len(), keep_cats.len(), first)); }
                let keep_gr: Vec<f64> = p0.grades().iter().map(|g| g.offset.value).filter(|o| *o >= first).collect();
                let got_gr: Vec<f64> = p.grades().iter().map(|g| g.offset.value).collect();
                if keep_gr != got_gr { fails.push(format!("after clear({}) the grade points are not those of the remaining links", x)); }
                if !counts_ok(&p) { fails.push(format!("after clear({}) the index counts are no longer mutually consistent", x)); }
                let csum: usize = p.link_points().iter().map(|l| l.cat_power_count).sum();
                if csum != p.cat_power_limits().len() { fails.push(format!("after clear({}) the per-link catenary counts sum to {} but {} sections are stored", x, csum, p.cat_power_limits().len())); }
                let mut o = outs_geom(&p); o.extend(outs_speed(&p));
                o.z("del.grade_count", del.grade_count as i64); o.z("del.curve_count", del.curve_count as i64); o.z("del.cat_power_count", del.cat_power_count as i64);
                Outcome::Ok(o)
            }
            Ok(Err(e)) => { let m = format!("{:#}", e); tags.push("result:err".into());
                let c = if m.contains("first link point offset not greater") { 1501 } else if m.contains("greater than first link point offset") { 1502 } else { 999 };
                Outcome::Err(c, m) }
            Err(pm) => { tags.push("result:panic".into()); fails.push(format!("clear({}) panics: {}", x, pm.chars().take(120).collect::<String>())); Outcome::Panic(pm.clone()) }
        };
        let mut input = net_json(&rt.net, &rt.tp, &parts); input["clear_offset_back"] = fjson(x);
        sink.put(Case { id: format!("clear/{}", t - 1), kind: "clear".into(), coq: format!("x_clear {} {} {} {}", coq_net(&rt.net), coq_tp(&rt.tp), coq_parts(&parts), cf(x)),
            outcome, tags, input, oracle_fail: fails, known: vec![], in_domain: true });
        made += 1;
    }
}

pub fn run(seed: u64, n: usize, sink: &mut Sink) {
    { let mut rc = Rng::new(seed ^ 0xC06_C1EA); clear_cases(&mut rc, (n / 8).max(20), sink); }
    let mut r = Rng::new(seed ^ 0xC06);
    let mut made = 0usize;
    let mut t = 0usize;
    while made < n {
        let mut rt = gen_route(&mut r, &RouteOpts { max_links: 6, geom: true, malformed: false, plain_speeds: true });
        let mut pr = r.fork();
        match t % 10 {
            // ---- non-contiguous / unknown routes: must be rejected with Err (never a panic, never accepted)
            7 => {
                let nl = rt.path.len();
                let bad: Vec<u32> = match pr.below(5) {
                    0 if nl >= 3 => { rt.tags.push("route:skips_a_link".into()); let k = 1 + pr.below(nl - 2); rt.path.iter().cloned().filter(|i| *i as usize != k + 1).collect() }
                    1 if nl >= 2 => { rt.tags.push("route:reversed".into()); rt.path.iter().rev().cloned().collect() }
                    2 if nl >= 2 => { rt.tags.push("route:repeats_a_link".into()); let mut v = rt.path.clone(); let k = pr.below(nl); v.insert(k, rt.path[k]); v }
                    3 => { rt.tags.push("route:contains_dummy_link_0".into()); let mut v = rt.path.clone(); let k = pr.below(nl + 1); v.insert(k, 0); v }
                    _ => { rt.tags.push("route:starts_in_the_middle_then_jumps_back".into()); let mut v: Vec<u32> = rt.path.iter().cloned().skip(nl / 2).collect(); v.extend(rt.path.iter().cloned().take(nl / 2 + 1)); v }
                };
                // a route that happens to be contiguous after the edit is not an error case
                let contiguous = bad.windows(2).all(|w| { let l = &rt.net[w[1] as usize]; w[1] != 0 && w[0] != 0 && (l.idx_prev.idx() as u32 == w[0] || l.idx_prev_alt.idx() as u32 == w[0]) }) && bad.iter().all(|i| *i != 0);
                let ps = partitions(&mut pr, &bad, 2, 1);
                for (j, parts) in ps.iter().enumerate() {
                    if made >= n { break; }
                    sink.put(geom_case(format!("noncontig/{}/{}", t, j), "noncontig", &rt, parts, false, None, !contiguous));
                    made += 1;
                }
                if !contiguous && made < n && rt.path.len() >= 2 {
                    // accepted prefix [1], then a rejected continuation that starts contiguously and breaks later
                    let good = vec![rt.path[0]];
                    let mut badc: Vec<u32> = vec![rt.path[1]]; badc.push(rt.path[0]);
                    if let Some(c) = err_atomicity_case(format!("err_atomicity/{}", t), &rt, &good, &badc, false) { sink.put(c); made += 1; }
                    // ... and a continuation whose very first link does not follow the path's last link
                    let bad1: Vec<u32> = vec![rt.path[0], rt.path[1]];
                    if let Some(c) = err_atomicity_case(format!("err_atomicity_first/{}", t), &rt, &good, &bad1, true) { sink.put(c); made += 1; }
                }
            }
            // ---- data outside the theorem's hypotheses (rejected by network validation): model-vs-code only
            8 => {
                rt.in_domain = false;
                let k = 1 + pr.below(rt.path.len());
                let l = &mut rt.net[k];
                match pr.below(6) {
                    0 => { l.elevs.truncate(1); rt.tags.push("malformed:single_elev".into()); }
                    1 => { l.elevs.clear(); rt.tags.push("malformed:no_elevs".into()); }
                    2 => { let m = l.elevs.len(); l.elevs[m - 1].offset = l.length * 0.9; rt.tags.push("malformed:elev_end_before_length".into()); }
                    3 => { if l.headings.len() > 1 { l.headings.truncate(1); } else { l.headings = vec![Heading { offset: 0.0 * uc::M, heading: 1.0 * uc::RAD, lat: None, lon: None }]; } rt.tags.push("malformed:single_heading".into()); }
                    4 => { l.elevs[0].offset = l.length * 0.05; rt.tags.push("malformed:elev_start_after_zero".into()); }
                    _ => { l.idx_curr = LinkIdx::new(k as u32 + 40); rt.tags.push("malformed:idx_curr_mismatch".into()); }
                }
                let ps = partitions(&mut pr, &rt.path, 2, 1);
                for (j, parts) in ps.iter().enumerate() {
                    if made >= n { break; }
                    sink.put(geom_case(format!("geom_malformed/{}/{}", t, j), "geom_malformed", &rt, parts, false, None, false));
                    made += 1;
                }
            }
            // ---- out-of-range index: a panic of the implementation (index out of bounds), reported as such
            9 => {
                rt.in_domain = false;
                rt.tags.push("route:index_out_of_range".into());
                let mut v = rt.path.clone(); let k = pr.below(v.len() + 1); v.insert(k, rt.net.len() as u32 + pr.below(3) as u32);
                sink.put(geom_case(format!("out_of_range/{}", t), "out_of_range", &rt, &[v], false, None, false));
                made += 1;
            }
            // ---- valid networks, contiguous routes: whole and partitions
            _ => {
                let fin = t % 3 == 0;
                let whole_parts = vec![rt.path.clone()];
                let whole = run_path(&rt.net, &rt.tp, &whole_parts, fin).ok();
                sink.put(geom_case(format!("geom/{}", t), "geom", &rt, &whole_parts, fin, None, false));
                made += 1;
                if rt.path.len() > 1 {
                    let ps = partitions(&mut pr, &rt.path, 3, 2);
                    for (j, parts) in ps.iter().enumerate().skip(1) {
                        if made >= n { break; }
                        sink.put(geom_case(format!("geom_split/{}/{}", t, j), "geom_split", &rt, parts, fin, whole.as_ref(), false));
                        made += 1;
                    }
                }
            }
        }
        t += 1;
    }
}
