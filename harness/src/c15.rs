//! C15 -- estimated-time network well-formed, route-faithful, time-consistent.
//! Every `EstTimeNet` the real `make_est_times` returns on generated networks/trains is checked twice:
//! by the certified checker `est_checks` evaluated inside Coq (coq/model/EstNet.v, soundness for all
//! walks in coq/proofs/EstNetP.v) and by the independent restatement in est.rs; the two verdict vectors
//! must agree and every `false` is a violation with the scenario as replay.
use crate::dsp::*;
use crate::est::*;
use crate::util::*;
use altrios_core::meet_pass::est_times::make_est_times;
use serde_json::json;

pub struct EstScenario { pub sp: NetSpec, pub tr: TrainSpec, pub tags: Vec<String> }

pub fn gen_est_scenario(r: &mut Rng, k: usize) -> EstScenario {
    let family = if r.chance(0.6) { 0 } else { 1 };
    let sidings = *r.pick(&[0usize, 1, 1, 2, 2, 3, 4]);
    let foul = r.chance(0.3);
    let shuffle = r.chance(0.5);
    let sp = gen_spec(r, family, sidings, foul, shuffle);
    let depart = *r.pick(&[0.0, 0.0, 600.0, 3600.0, 7200.5, 86400.0]);
    let mut tr = gen_train(r, &sp, 0, depart);
    let mut tags = vec![format!("family:{}", sp.family), format!("sidings:{}", sidings), format!("foul:{}", foul), format!("shuffle:{}", shuffle),
        format!("dir:{}", if tr.eastbound { "east" } else { "west" }), format!("origs:{}", tr.origs.len()), format!("dests:{}", tr.dests.len()),
        format!("len:{}", tr.length), format!("depart:{}", if depart == 0.0 { "zero" } else { "pos" })];
    // a malformed stream: origin = destination link, or destination not reachable (wrong direction)
    if k % 12 == 11 {
        match r.below(3) {
            0 => { tr.dests = tr.origs.clone(); tags.push("malformed:orig_is_dest".into()); }
            1 => { std::mem::swap(&mut tr.origs, &mut tr.dests); tr.origs = tr.origs.iter().map(|&l| l).collect(); tags.push("malformed:against_direction".into()); }
            _ => { tr.length = 20000.0; tags.push("malformed:train_longer_than_route_links".into()); }
        }
    }
    EstScenario { sp, tr, tags }
}

pub fn run(seed: u64, n: usize, sink: &mut Sink) {
    let mut r = Rng::new(seed ^ 0xC15);
    for k in 0..n {
        let mut rk = r.fork();
        let sc = gen_est_scenario(&mut rk, k);
        let id = format!("est{}", k);
        let input = json!({"spec": sc.sp.to_json(), "train": sc.tr.to_json()});
        let mut tags = sc.tags.clone();
        let net = match build_network(&sc.sp) {
            Ok(n) => n,
            Err(e) => {
                // the generator is meant to produce valid networks only
                sink.put(Case { id, kind: "est_net".into(), coq: String::new(), outcome: Outcome::Err(900, format!("{:#}", e)), tags,
                    input, oracle_fail: vec![format!("generated network rejected by validation: {:#}", e)], known: vec![], in_domain: false });
                continue;
            }
        };
        let ts = build_train(&sc.tr);
        #[cfg(feature = "hooks")]
        altrios_core::meet_pass::est_times::verif_hook::start();
        let res = catch(std::panic::AssertUnwindSafe(|| make_est_times(ts, &net)));
        #[cfg(feature = "hooks")]
        {
            // the two shortest-path passes (update_times_forward / update_times_backward) against their model
            // (coq/model/EstUpdate.v), on the node array make_est_times handed them (hook H3)
            let rec = altrios_core::meet_pass::est_times::verif_hook::take();
            if let (Some((pre, t0)), Ok(Ok((en, _)))) = (rec.last(), &res) {
                if pre.len() <= 260 {
                    let set: Vec<&str> = pre.iter().map(|e| cb(!e.time_sched.value.is_nan())).collect();
                    let mut o = Outs::new();
                    o.z("n", en.val.len() as i64);
                    for (i, e) in en.val.iter().enumerate() {
                        o.f(&format!("n{}.time_sched", i), e.time_sched.value, 1.0); o.f(&format!("n{}.time_to_next", i), e.time_to_next.value, 1.0);
                        o.f(&format!("n{}.dist_to_next", i), e.dist_to_next.value, 1.0);
                        o.z(&format!("n{}.idx_next", i), e.idx_next as i64); o.z(&format!("n{}.idx_next_alt", i), e.idx_next_alt as i64);
                        o.z(&format!("n{}.idx_prev", i), e.idx_prev as i64); o.z(&format!("n{}.idx_prev_alt", i), e.idx_prev_alt as i64);
                    }
                    let relinked = pre.iter().zip(en.val.iter()).filter(|(a, b)| a.idx_next != b.idx_next || a.idx_prev != b.idx_prev).count();
                    let mut tg = sc.tags.clone(); tg.push(format!("nodes_relinked_by_the_passes:{}", match relinked { 0 => "0", 1..=4 => "1-4", _ => "5+" }));
                    tg.push(format!("nodes:{}", match pre.len() { 0..=15 => "<=15", 16..=40 => "16-40", 41..=100 => "41-100", _ => ">100" }));
                    sink.put(Case { id: format!("est{}.passes", k), kind: "update_times".into(),
                        coq: format!("x_update_times {}%N {} [{}] {}", 4 * pre.len() + 10, coq_enodes(pre), set.join("; "), cf(t0.value)),
                        outcome: Outcome::Ok(o), tags: tg, input: json!({"spec": sc.sp.to_json(), "train": sc.tr.to_json(), "passes_only": true}),
                        oracle_fail: vec![], known: vec![], in_domain: true });
                }
            }
        }
        match res {
            Ok(Ok((en, _))) => {
                let v = &en.val;
                let cert = make_cert(&net.0, &sc.tr.origs, &sc.tr.dests, v);
                let (ok, msgs) = est_check(&net.0, &sc.tr.origs, &sc.tr.dests, v, &cert);
                let mut o = Outs::new();
                for (l, b) in EST_LABELS.iter().zip(ok.iter()) { o.b(l, *b); }
                let n_fake = v.iter().filter(|e| et_code(e.link_event.est_type) == 2).count();
                let n_alt = v.iter().filter(|e| e.idx_next_alt != 0).count();
                let n_join = v.iter().filter(|e| e.idx_prev_alt != 0).count();
                tags.push("result:ok".into());
                tags.push(format!("splits:{}", n_alt.min(5)));
                tags.push(format!("joins:{}", n_join.min(5)));
                tags.push(format!("nodes:{}", match v.len() { 0..=15 => "<=15", 16..=40 => "16-40", 41..=100 => "41-100", _ => ">100" }));
                let _ = n_fake;
                let coq = format!("x_est_ok {} {} {} {} {}", coq_links(&net.0), coq_nats(&sc.tr.origs), coq_nats(&sc.tr.dests), coq_enodes(v), coq_cert(&cert));
                let mut input = input;
                input["est_time_net"] = json!(v.iter().map(est_json).collect::<Vec<_>>());
                sink.put(Case { id, kind: "est_ok".into(), coq, outcome: Outcome::Ok(o), tags, input, oracle_fail: msgs, known: vec![], in_domain: true });
            }
            Ok(Err(e)) => {
                let m = format!("{:#}", e);
                let code = if m.contains("All times are 0.0") { 1 } else if m.contains("No valid paths") { 2 } else if m.contains("cannot be fake") { 3 } else { 9 };
                tags.push(format!("result:err{}", code));
                sink.put(Case { id, kind: "est_err".into(), coq: String::new(), outcome: Outcome::Err(code, m.chars().take(300).collect()), tags, input,
                    oracle_fail: vec![], known: vec![], in_domain: false });
            }
            Err(p) => {
                // make_est_times' own structural assert!s (they all mention est_time*) are C15 violations: the
                // construction produced a malformed network.  A panic raised inside the train simulation that
                // make_est_times drives (e.g. the braking-point overspeed assert) is outside C15's statement
                // (property C03/C05 territory): counted and tagged, not reported here.
                let structural = p.contains("est_time") || p.contains("est_idx") || p.contains("EstType");
                tags.push((if structural { "result:panic_structural_assert" } else { "result:panic_in_train_sim" }).into());
                let fails = if structural { vec![format!("make_est_times panicked on a structural assert instead of returning a well-formed network or an error: {}", p.chars().take(200).collect::<String>())] } else { vec![] };
                sink.put(Case { id, kind: (if structural { "est_panic" } else { "est_panic_sim" }).into(), coq: String::new(), outcome: Outcome::Panic(p.clone()), tags, input,
                    oracle_fail: fails, known: vec![], in_domain: false });
            }
        }
    }
}
