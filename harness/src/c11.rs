//! C11 -- power and energy agree across train, consist and locomotive levels.
//! Real SetSpeedTrainSim and SpeedLimitTrainSim runs (shipped route/train, generated consists of
//! 1..8 conventional / battery units under both policies, save_interval = 1); lock-step on the
//! bookkeeping that ties the levels together (the wheel power chosen by the train is an input),
//! oracle on every step, on the histories and on the trip-level getters.
use crate::pt::*;
use crate::util::*;
use altrios_core::consist::locomotive::locomotive_model::PowertrainType;
use altrios_core::consist::Consist;
use altrios_core::prelude::*;
use altrios_core::train::TrainState;
use altrios_core::validate::Valid;
use serde_json::json;

fn chk(f: &mut Vec<String>, what: &str, a: f64, b: f64, scale: f64) {
    if !close(a, b, 1e-8, 1e-9 * scale) { f.push(format!("{}: {} vs {} (diff {:e})", what, a, b, a - b)); }
}
fn coq_te(s: &TrainState) -> String {
    format!("(Build_TrainEnergy {} {} {} {})", cf(s.pwr_whl_out.value), cf(s.energy_whl_out.value),
        cf(s.energy_whl_out_pos.value), cf(s.energy_whl_out_neg.value))
}
fn fuel_sum(c: &Consist) -> f64 { c.loco_vec.iter().map(|l| match &l.loco_type { PowertrainType::ConventionalLoco(x) => x.fc.state.energy_fuel.value, PowertrainType::HybridLoco(x) => x.fc.state.energy_fuel.value, _ => 0.0 }).sum() }
fn chem_sum(c: &Consist) -> f64 { c.loco_vec.iter().map(|l| match &l.loco_type { PowertrainType::BatteryElectricLoco(x) => x.res.state.energy_out_chemical.value, PowertrainType::HybridLoco(x) => x.res.state.energy_out_chemical.value, _ => 0.0 }).sum() }
fn has_hybrid(c: &Consist) -> bool { c.loco_vec.iter().any(|l| matches!(l.loco_type, PowertrainType::HybridLoco(_))) }

pub fn oracle_levels(ts: &TrainState, c: &Consist, f: &mut Vec<String>) {
    let p = consist_rated(c); let e = p * 1000.0;
    let s = &c.state;
    if ts.pwr_whl_out.value != s.pwr_out_req.value { f.push(format!("train demands {} but the consist was asked for {}", ts.pwr_whl_out.value, s.pwr_out_req.value)); }
    chk(f, "train wheel power vs consist delivered power", ts.pwr_whl_out.value, s.pwr_out.value, p);
    chk(f, "consist delivered power vs sum over locomotives", s.pwr_out.value, c.loco_vec.iter().map(|l| l.state.pwr_out.value).sum(), p);
    chk(f, "wheel energy train vs consist", ts.energy_whl_out.value, s.energy_out.value, e);
    chk(f, "wheel energy consist vs sum over locomotives", s.energy_out.value, c.loco_vec.iter().map(|l| l.state.energy_out.value).sum(), e);
    chk(f, "positive wheel energy train vs consist", ts.energy_whl_out_pos.value, s.energy_out_pos.value, e);
    chk(f, "negative wheel energy train vs consist", ts.energy_whl_out_neg.value, s.energy_out_neg.value, e);
    chk(f, "fuel energy consist vs sum over locomotives", s.energy_fuel.value, fuel_sum(c), e);
    chk(f, "battery energy consist vs sum over locomotives", s.energy_res.value, chem_sum(c), e);
}

struct Sim { set: Option<SetSpeedTrainSim>, lim: Option<SpeedLimitTrainSim> }
impl Sim {
    fn state(&self) -> &TrainState { if let Some(s) = &self.set { &s.state } else { &self.lim.as_ref().unwrap().state } }
    fn con(&self) -> &Consist { if let Some(s) = &self.set { &s.loco_con } else { &self.lim.as_ref().unwrap().loco_con } }
    fn step(&mut self) -> anyhow::Result<()> { if let Some(s) = &mut self.set { s.step() } else { self.lim.as_mut().unwrap().step() } }
    fn done(&self) -> bool {
        if let Some(s) = &self.set { s.state.i >= s.speed_trace.len() } else { false }
    }
}

// ---------------------------------------------------------------- whole train step (TrainFull.v)
/// Lock-step on the WHOLE `SetSpeedTrainSim::step` / `SpeedLimitTrainSim::step` (train dynamics +
/// consist + locomotives, model coq/model/TrainFull.v) over generated routes, trains and consists,
/// and on whole runs of several such steps; the level oracle is applied after every sampled step.
fn full_outcome(s: &crate::train::StepRec) -> Outcome {
    use crate::train::outs_post;
    match (&s.post, &s.post_con) {
        (Ok(p), Some(c)) => { let mut o = outs_post(p); o.extend(outs_consist(c)); Outcome::Ok(o) }
        (Ok(p), None) => Outcome::Ok(outs_post(p)),
        (Err((-1, m)), _) => Outcome::Panic(m.clone()),
        (Err((998, m)), _) => { let (c, _) = consist_err_code(&anyhow::anyhow!("{}", m)); Outcome::Err(c, m.clone()) }
        (Err((c, m)), _) => Outcome::Err(*c, m.clone()),
    }
}
fn full_cases(r: &mut Rng, n: usize, sink: &mut Sink) {
    use crate::c12::{sample_steps, sl_opts, ss_opts, step_tags};
    use crate::train::*;
    record_consists(true);
    let per_run = 10usize;
    let mut made = 0usize; let mut t = 0usize;
    while made < n {
        let ss = t % 2 == 0;
        let mut rr = r.fork();
        let ctx = if ss {
            let mut o = ss_opts(&mut rr, t, t % 4 != 0); o.n_steps = 25 + rr.below(50); o.default_consist = t % 6 == 5;
            if o.init == 2 { o.init = 1; }
            ss_run(&mut rr, format!("full{}", t), &o)
        } else {
            let mut o = sl_opts(&mut rr, t); o.max_steps = 40 + rr.below(60); o.default_consist = t % 6 == 5;
            sl_run(&mut rr, format!("full{}", t), &o)
        };
        t += 1;
        if ctx.steps.is_empty() { if t > 50 * (n + 1) { break; } continue; }
        let kind = if ss { "ss_full_step" } else { "sl_full_step" };
        let fm = |c: &Consist| c.force_max().ok().map(|f| f.value);
        let term = |s: &StepRec, run_n: Option<usize>| -> String {
            let (con, fmax) = match s.pre_con.as_ref().and_then(|c| fm(c).map(|f| (c, f))) { Some(x) => x, None => return String::new() };
            if has_hybrid(con) { return String::new(); }
            let e = &ctx.envs[s.ver];
            if ss {
                let head = match run_n { Some(k) => format!("x_ss_full_run {}", format!("{}%N", k)), None => "x_ss_full_step".to_string() };
                format!("{} {} {} {} {} {} {} {}", head, e.env_coq, cfl(&ctx.times), cfl(&ctx.speeds), cf(fmax), coq_tstate(&s.pre), coq_cache(&s.pre_cache), coq_consist(con))
            } else {
                let head = match run_n { Some(k) => format!("x_sl_full_run {}", format!("{}%N", k)), None => "x_sl_full_step".to_string() };
                let fb = match &s.pre_fb { Some(f) => f, None => return String::new() };
                format!("{} {} {} {} (Build_SLState {} {} {} {}) {}", head, e.env_coq, e.pts_coq, cf(fmax), coq_tstate(&s.pre), coq_cache(&s.pre_cache), coq_fb(fb), cnat(s.pre_idx), coq_consist(con))
            }
        };
        for i in sample_steps(&mut rr, &ctx, per_run) {
            let s = &ctx.steps[i];
            let mut tags = step_tags(&ctx, s, if ss { "set_speed" } else { "speed_limit" });
            if let Some(c) = &s.pre_con { tags.push(format!("units:{}", c.loco_vec.len())); }
            let mut fails = vec![];
            let mut in_domain = !ctx.tags.iter().any(|t| t == "init:inconsistent");
            if let (Ok(p), Some(c)) = (&s.post, &s.post_con) {
                oracle_levels(&p.st, c, &mut fails);
                if c.loco_vec.iter().any(|l| l.state.pwr_out_max.value < 0.0) { tags.push("neg_limit:yes".into()); in_domain = false; }
                let pw = p.st.pwr_whl_out.value;
                tags.push(format!("sign:{}", if pw > 0.0 { "traction" } else if pw < 0.0 { "braking" } else { "zero" }));
            }
            sink.put(Case { id: format!("{}/{}/{}", kind, ctx.id, s.k), kind: kind.into(), coq: term(s, None), outcome: full_outcome(s), tags,
                input: json!({"run": ctx.input, "step": s.k}), oracle_fail: fails, known: vec![], in_domain });
            made += 1;
        }
        // the real SetSpeedTrainSim::walk() from the first sample to the last against ss_full_walk
        if let (true, Some((res, st, cache, con)), Some(s0)) = (ss, &ctx.ss_walk, ctx.steps.first()) {
            if let (Some(c0), false) = (&s0.pre_con, has_hybrid(con)) {
                if let Some(fmax) = fm(c0) {
                    let n_tr = ctx.times.len();
                    let mut tags = ctx.tags.clone(); tags.push("sim:set_speed".into()); tags.push(format!("walk_steps:{}", bucket(st.i.saturating_sub(s0.pre.i))));
                    let mut fails = vec![];
                    let outcome = match res {
                        Ok(()) => {
                            oracle_levels(st, con, &mut fails);
                            if st.i != n_tr.max(s0.pre.i) { fails.push(format!("walk() returned Ok with step counter {} for a trace of {} samples", st.i, n_tr)); }
                            let p = Post { st: *st, cache: *cache, fb: None, idx: 0 };
                            let mut o = outs_post(&p); o.extend(outs_consist(con)); tags.push("result:ok".into()); Outcome::Ok(o)
                        }
                        Err((-1, m)) => { tags.push("result:panic".into()); Outcome::Panic(m.clone()) }
                        Err((998, m)) => { let (c, _) = consist_err_code(&anyhow::anyhow!("{}", m)); tags.push(format!("result:err{}", c)); Outcome::Err(c, m.clone()) }
                        Err((c, m)) => { tags.push(format!("result:err{}", c)); Outcome::Err(*c, m.clone()) }
                    };
                    let e = &ctx.envs[s0.ver];
                    let coq = format!("x_ss_full_walk {}%N {} {} {} {} {} {} {}", n_tr + 5, e.env_coq, cfl(&ctx.times), cfl(&ctx.speeds), cf(fmax), coq_tstate(&s0.pre), coq_cache(&s0.pre_cache), coq_consist(c0));
                    if let Some(tp) = &ctx.tp {
                        let route_z = format!("[{}]", ctx.route.path.iter().map(|l| cz(l.idx() as i64)).collect::<Vec<_>>().join("; "));
                        let coq2 = format!("x_ss_whole_sim {}%N {} {} {} {} {} {} {} {} {} {}", n_tr + 5, crate::trk::coq_net(&ctx.route.network), crate::trk::coq_tp(tp), route_z,
                            coq_rp(&ctx.rp), cf(fmax), cfl(&ctx.times), cfl(&ctx.speeds), coq_tstate(&s0.pre), coq_cache(&s0.pre_cache), coq_consist(c0));
                        let mut tg = tags.clone(); tg.push("from:network+route".into());
                        sink.put(Case { id: format!("ss_whole_sim/{}", ctx.id), kind: "ss_whole_sim".into(), coq: coq2, outcome: outcome.clone(), tags: tg,
                            input: json!({"run": ctx.input, "whole_walk": true, "end_to_end": true}), oracle_fail: vec![], known: vec![], in_domain: true });
                        made += 1;
                    }
                    sink.put(Case { id: format!("ss_full_walk/{}", ctx.id), kind: "ss_full_walk".into(), coq, outcome, tags,
                        input: json!({"run": ctx.input, "whole_walk": true}), oracle_fail: fails, known: vec![], in_domain: true });
                    made += 1;
                }
            }
        }
        // a whole run of consecutive steps under one version of the path: only the end state is compared
        let v0 = ctx.steps[0].ver;
        let m = ctx.steps.iter().take_while(|s| s.ver == v0 && s.post.is_ok()).count().min(12 + rr.below(20));
        if m >= 2 {
            let last = &ctx.steps[m - 1];
            let mut tags = ctx.tags.clone(); tags.push(format!("sim:{}", if ss { "set_speed" } else { "speed_limit" })); tags.push(format!("run_len:{}", bucket(m)));
            let mut fails = vec![];
            if let (Ok(p), Some(c)) = (&last.post, &last.post_con) { oracle_levels(&p.st, c, &mut fails); }
            sink.put(Case { id: format!("{}_run/{}", if ss { "ss_full" } else { "sl_full" }, ctx.id), kind: if ss { "ss_full_run".into() } else { "sl_full_run".into() },
                coq: term(&ctx.steps[0], Some(m)), outcome: full_outcome(last), tags,
                input: json!({"run": ctx.input, "steps": m}), oracle_fail: fails, known: vec![], in_domain: true });
            made += 1;
        }
    }
    record_consists(false);
}

/// The real `SpeedLimitTrainSim::walk()` from start to end against `sl_full_walk` (TrainFull.v): the
/// model is started from the implementation's initial state and consist and must arrive at the same
/// final train state, brake state, braking-point index and complete consist state after the same
/// number of steps -- or stop with the same error.
pub fn full_walk_cases(r: &mut Rng, n: usize, n_prep: usize, sink: &mut Sink) {
    use crate::c12::sl_opts;
    use crate::train::*;
    let mut t = 0usize; let mut made = 0usize; let mut made_prep = 0usize;
    while (made < n || made_prep < n_prep) && t < 20 * (n + n_prep) + 20 {
        let mut rr = r.fork();
        let mut o = sl_opts(&mut rr, t); o.schedule = 0; o.default_consist = t % 4 != 3; o.max_total = 14000.0;
        o.size = [0, 1, 0, 2][t % 4]; o.clean_start = true; o.profile = [0, 2, 1, 3, 0][t % 5];
        if t % 3 != 0 { o.ramp_up_time = None; }
        t += 1;
        let (train, route, made_sim) = sl_make(&mut rr, &o);
        let mut sim = match made_sim { Ok(s) => s, Err(_) => continue };
        if !is_strap(&sim.train_res) || has_hybrid(&sim.loco_con) { continue; }
        if catch(std::panic::AssertUnwindSafe(|| sim.extend_path(&route.network, &route.path))).map(|x| x.is_err()).unwrap_or(true) { continue; }
        sim.set_save_interval(None);
        let rp = res_params(&sim.train_res);
        let env = sl_env(&sim, &rp);
        // what extend_path derived from the network: braking points and speed profile (model: WholeSim.sl_prepare)
        if let (true, Ok(tp)) = (made_prep < n_prep, builder(&train, None, true).train_config.make_train_params()) {
            let route_z = format!("[{}]", route.path.iter().map(|l| cz(l.idx() as i64)).collect::<Vec<_>>().join("; "));
            let (pts, idx) = braking_points(&sim);
            let mut o = outs_points(&pts, idx); o.extend(crate::trk::outs_speed(&sim.path_tpc));
            let mut tg = route.tags.clone(); tg.extend(train.tags.clone()); tg.push("from:network+route".into());
            sink.put(Case { id: format!("sl_prepare/{}", t - 1), kind: "sl_prepare".into(),
                coq: format!("x_sl_prepare 200000%N {} {} {} {} {} {} {}", crate::trk::coq_net(&route.network), crate::trk::coq_tp(&tp), route_z, coq_rp(&rp), coq_fb(&fb_of(&sim)), coq_tstate(&sim.state), coq_cache(&res_cache(&sim.train_res))),
                outcome: Outcome::Ok(o), tags: tg, input: json!({"sim": "speed_limit", "route": route_json(&route), "train": train_json(&train), "prepare_only": true}),
                oracle_fail: vec![], known: vec![], in_domain: true });
            made_prep += 1;
        }
        if made >= n { continue; }
        let fmax = match sim.loco_con.force_max() { Ok(f) => f.value, Err(_) => continue };
        let end = sim.path_tpc.offset_end().value;
        let (pre, pre_cache, pre_fb, pre_idx, pre_con) = (sim.state, res_cache(&sim.train_res), fb_of(&sim), braking_idx(&sim), sim.loco_con.clone());
        // the real walk, in a thread with a wall-clock bound
        let (tx, rx) = std::sync::mpsc::channel();
        let mut c = sim.clone();
        std::thread::spawn(move || {
            let res = std::panic::catch_unwind(std::panic::AssertUnwindSafe(|| c.walk()));
            let _ = tx.send((c, match res { Ok(Ok(())) => Ok(()), Ok(Err(e)) => Err(train_err_code(&e)), Err(_) => Err((-1, "panic".to_string())) }));
        });
        let (post, res) = match rx.recv_timeout(std::time::Duration::from_secs(20)) { Ok(x) => x, Err(_) => continue };
        let steps = post.state.i.saturating_sub(pre.i);
        if steps > 6000 { continue; }
        let mut tags = route.tags.clone(); tags.extend(train.tags.clone());
        tags.push("sim:speed_limit".into()); tags.push(format!("walk_steps:{}", bucket(steps / 100)));
        tags.push(format!("units:{}", pre_con.loco_vec.len()));
        let mut fails = vec![];
        let outcome = match &res {
            Ok(()) => {
                tags.push("result:ok".into());
                oracle_levels(&post.state, &post.loco_con, &mut fails);
                // where an accepted walk ends (theorem sl_full_walk_end)
                let (x, v) = (post.state.offset.value, post.state.speed.value);
                if !(x >= end - 1000.0 * 0.3048 && (x >= end || v == 0.0)) { fails.push(format!("walk() returned Ok at offset {} with speed {} although the path ends at {}", x, v, end)); }
                let p = Post { st: post.state, cache: res_cache(&post.train_res), fb: Some(fb_of(&post)), idx: braking_idx(&post) };
                let mut oo = outs_post(&p); oo.extend(outs_consist(&post.loco_con)); Outcome::Ok(oo)
            }
            Err((-1, m)) => { tags.push("result:panic".into()); Outcome::Panic(m.clone()) }
            Err((998, m)) => { let (c, _) = consist_err_code(&anyhow::anyhow!("{}", m)); tags.push(format!("result:err{}", c)); Outcome::Err(c, m.clone()) }
            Err((c, m)) => { tags.push(format!("result:err{}", c)); Outcome::Err(*c, m.clone()) }
        };
        let in_domain = !post.loco_con.loco_vec.iter().any(|l| l.state.pwr_out_max.value < 0.0);
        let coq = format!("x_sl_full_walk {}%N {} {} {} {} (Build_SLState {} {} {} {}) {}", steps + 5, env.env_coq, env.pts_coq, cf(end), cf(fmax),
            coq_tstate(&pre), coq_cache(&pre_cache), coq_fb(&pre_fb), cnat(pre_idx), coq_consist(&pre_con));
        // the same walk END TO END from the user's inputs (network, train parameters, route): the model builds the
        // path, the speed profile and the braking points itself (WholeSim.v) before walking
        if let Ok(tp) = builder(&train, None, true).train_config.make_train_params() {
            let route_z = format!("[{}]", route.path.iter().map(|l| cz(l.idx() as i64)).collect::<Vec<_>>().join("; "));
            let coq2 = format!("x_sl_whole_sim 200000%N {}%N {} {} {} {} {} {} {} {} {}", steps + 5, crate::trk::coq_net(&route.network), crate::trk::coq_tp(&tp), route_z,
                coq_rp(&rp), cf(fmax), coq_fb(&pre_fb), coq_tstate(&pre), coq_cache(&pre_cache), coq_consist(&pre_con));
            let mut tg = tags.clone(); tg.push("from:network+route".into());
            sink.put(Case { id: format!("sl_whole_sim/{}", t - 1), kind: "sl_whole_sim".into(), coq: coq2, outcome: outcome.clone(), tags: tg,
                input: json!({"sim": "speed_limit", "route": route_json(&route), "train": train_json(&train), "dt": o.dt, "ramp_up_time": o.ramp_up_time, "whole_walk": true, "end_to_end": true}),
                oracle_fail: vec![], known: vec![], in_domain });
        }
        sink.put(Case { id: format!("sl_full_walk/{}", t - 1), kind: "sl_full_walk".into(), coq, outcome, tags,
            input: json!({"sim": "speed_limit", "route": route_json(&route), "train": train_json(&train), "dt": o.dt, "ramp_up_time": o.ramp_up_time, "whole_walk": true}),
            oracle_fail: fails, known: vec![], in_domain });
        made += 1;
    }
}

/// The simulation of a dispatched train: the real `walk_timed_path(network, timed_path)` (piecewise path supply,
/// stepping until the time of the last supplied link, final walk) against `sl_timed_walk` (WholeSim.v), fed with the
/// network, the train parameters and the timed link path only.
fn timed_walk_cases(r: &mut Rng, n: usize, sink: &mut Sink) {
    use crate::c12::sl_opts;
    use crate::train::*;
    use altrios_core::train::LinkIdxTime;
    let mut t = 0usize; let mut made = 0usize;
    while made < n && t < 30 * n + 30 {
        let mut rr = r.fork();
        let mut o = sl_opts(&mut rr, t); o.schedule = 0; o.default_consist = t % 4 != 3; o.max_total = 12000.0;
        o.size = [0, 1, 0][t % 3]; o.clean_start = true; o.profile = [0, 1, 0, 2][t % 4]; o.ramp_up_time = None;
        // piecewise supply needs a first piece that holds the train: long links
        if (t + 1) % 3 != 0 { o.profile = 2; o.max_total = 30000.0; }
        t += 1;
        let (train, route, made_sim) = sl_make(&mut rr, &o);
        let mut sim = match made_sim { Ok(s) => s, Err(_) => continue };
        if !is_strap(&sim.train_res) || has_hybrid(&sim.loco_con) || route.path.len() < 2 { continue; }
        sim.set_save_interval(None);
        let tp = match builder(&train, None, true).train_config.make_train_params() { Ok(p) => p, Err(_) => continue };
        let rp = res_params(&sim.train_res);
        let fmax = match sim.loco_con.force_max() { Ok(f) => f.value, Err(_) => continue };
        // times: links become available in bursts (several due at once) or late (the train waits at the end of what it has)
        let mode = t % 3;
        let mut tt = sim.state.time.value; let mut timed = vec![];
        for (i, l) in route.path.iter().enumerate() {
            timed.push(LinkIdxTime::new(*l, altrios_core::uc::S * tt));
            let len = route.network[l.idx()].length.value;
            tt += match mode { 0 => 0.0, 1 => (len / 12.0).round() + if i % 3 == 2 { 120.0 } else { 0.0 }, _ => if i % 2 == 0 { 0.0 } else { (len / 6.0).round() + 30.0 } };
        }
        let (pre, pre_cache, pre_fb, pre_con) = (sim.state, res_cache(&sim.train_res), fb_of(&sim), sim.loco_con.clone());
        let net = route.network.clone(); let tl = timed.clone();
        let (tx, rx) = std::sync::mpsc::channel();
        let mut c = sim.clone();
        std::thread::spawn(move || {
            let res = std::panic::catch_unwind(std::panic::AssertUnwindSafe(|| c.walk_timed_path(&net, &tl)));
            let _ = tx.send((c, match res { Ok(Ok(())) => Ok(()), Ok(Err(e)) => Err(train_err_code(&e)), Err(_) => Err((-1, "panic".to_string())) }));
        });
        let (post, res) = match rx.recv_timeout(std::time::Duration::from_secs(20)) { Ok(x) => x, Err(_) => continue };
        let steps = post.state.i.saturating_sub(pre.i);
        if steps > 5000 { continue; }
        let mut tags = route.tags.clone(); tags.extend(train.tags.clone());
        tags.push("sim:speed_limit".into()); tags.push(format!("timed_path:{}", ["all_links_due_at_once", "links_released_at_running_pace", "links_released_late_in_pairs"][mode]));
        tags.push(format!("walk_steps:{}", bucket(steps / 100))); tags.push(format!("path_links:{}", bucket(route.path.len())));
        let mut fails = vec![];
        let outcome = match &res {
            Ok(()) => {
                tags.push("result:ok".into());
                oracle_levels(&post.state, &post.loco_con, &mut fails);
                let end = post.path_tpc.offset_end().value; let (x, v) = (post.state.offset.value, post.state.speed.value);
                if !(x >= end - 1000.0 * 0.3048 && (x >= end || v == 0.0)) { fails.push(format!("walk_timed_path returned Ok at offset {} with speed {} although the supplied path ends at {}", x, v, end)); }
                let p = Post { st: post.state, cache: res_cache(&post.train_res), fb: Some(fb_of(&post)), idx: braking_idx(&post) };
                let mut oo = outs_post(&p); oo.extend(outs_consist(&post.loco_con)); Outcome::Ok(oo)
            }
            Err((-1, m)) => { tags.push("result:panic".into()); Outcome::Panic(m.clone()) }
            Err((998, m)) => { let (c, _) = consist_err_code(&anyhow::anyhow!("{}", m)); tags.push(format!("result:err{}", c)); Outcome::Err(c, m.clone()) }
            Err((c, m)) => { tags.push(format!("result:err{}", c)); Outcome::Err(*c, m.clone()) }
        };
        let in_domain = !post.loco_con.loco_vec.iter().any(|l| l.state.pwr_out_max.value < 0.0);
        let tl_coq = format!("[{}]", timed.iter().map(|x| format!("({}, {})", cz(x.link_idx.idx() as i64), cf(x.time.value))).collect::<Vec<_>>().join("; "));
        let coq = format!("x_sl_timed_walk 200000%N {}%N {} {} {} {} {} {} {} {} {}", steps + 10, crate::trk::coq_net(&route.network), crate::trk::coq_tp(&tp), tl_coq,
            coq_rp(&rp), cf(fmax), coq_fb(&pre_fb), coq_tstate(&pre), coq_cache(&pre_cache), coq_consist(&pre_con));
        sink.put(Case { id: format!("sl_timed_walk/{}", t - 1), kind: "sl_timed_walk".into(), coq, outcome, tags,
            input: json!({"sim": "speed_limit", "route": route_json(&route), "train": train_json(&train), "timed_path": timed.iter().map(|x| json!([x.link_idx.idx(), x.time.value])).collect::<Vec<_>>()}),
            oracle_fail: fails, known: vec![], in_domain });
        made += 1;
    }
}

/// Trip-level outputs of a simulation made by TrainSimBuilder::make_speed_limit_train_sim(locations, save,
/// simulation_days, scenario_year): the annualisation factor is 365.25 / simulation_days whatever the scenario year.
fn builder_trip_cases(r: &mut Rng, n: usize, sink: &mut Sink) {
    use crate::train::*;
    for k in 0..n {
        let train = gen_train(r, k % 3, k % 2 == 0);
        // days up to and beyond a year (factor below 1: a multi-year simulation is scaled DOWN to one year)
        let days = if k % 4 == 3 { None } else if k % 4 == 1 { Some(*r.pick(&[365, 366, 400, 731, 1461])) } else { Some(r.int(1, 60) as i32) };
        let year = if k % 5 == 4 { None } else { Some(2020 + r.int(0, 30) as i32) };
        let b = builder(&train, None, true);
        let mut sim = match catch(std::panic::AssertUnwindSafe(|| b.make_speed_limit_train_sim(&location_map(), Some(1), days, year))) { Ok(Ok(s)) => s, _ => continue };
        if has_hybrid(&sim.loco_con) { continue; }
        let mut fails = vec![];
        let fac = sim.get_scaling_factor(true);
        let want = match days { Some(d) => 365.25 / d as f64, None => 365.25 };
        chk(&mut fails, "annualisation factor of a simulation made by the builder", fac, want, 1.0);
        chk(&mut fails, "factor without annualisation", sim.get_scaling_factor(false), 1.0, 1.0);
        let (ef, er) = (sim.get_energy_fuel(true).value, sim.get_net_energy_res(true).value);
        let e = consist_rated(&sim.loco_con) * 1000.0;
        let mut o = Outs::new(); o.f("trip.energy_fuel", ef, e); o.f("trip.net_energy_res", er, e); o.f("trip.factor", fac, 1.0);
        sink.put(Case { id: format!("trip_builder/{}", k), kind: "trip_outputs_builder".into(),
            coq: format!("x_trip_outputs {} true {}", coq_consist(&sim.loco_con), copt(days.map(|d| cf(d as f64)))),
            outcome: Outcome::Ok(o), tags: vec![format!("days:{}", days.map(|_| "some").unwrap_or("none")), format!("scenario_year:{}", year.map(|_| "some").unwrap_or("none"))],
            input: json!({"simulation_days": days, "scenario_year": year, "train": train_json(&train)}), oracle_fail: fails, known: vec![], in_domain: true });
    }
}

pub fn run(seed: u64, n: usize, sink: &mut Sink) {
    { let mut rb = Rng::new(seed ^ 0xC11_B17D); builder_trip_cases(&mut rb, (n / 40).max(6), sink); }
    let mut r = Rng::new(seed ^ 0xC11);
    let n_full = n * 2 / 5;
    { let mut rf = r.fork(); full_cases(&mut rf, n_full, sink); }
    { let mut rf = r.fork(); full_walk_cases(&mut rf, (n / 120).max(3), 0, sink); }
    { let mut rt = Rng::new(seed ^ 0xC11_71ED); timed_walk_cases(&mut rt, (n / 120).max(4), sink); }
    let n = n - n_full;
    let mut made = 0usize; let mut t = 0usize;
    let mut fleet: Vec<SpeedLimitTrainSim> = vec![];
    while made < n {
        let use_default = t % 5 == 4;
        // every seventh run (set-speed) carries a hybrid locomotive: outside the Coq model, oracle only
        let with_hybrid = t % 14 == 6;
        let mut con = if use_default { Consist::default() } else { rand_consist(&mut r) };
        if with_hybrid { con.loco_vec.push(Locomotive::default_hybrid_electric_loco()); }
        let _ = altrios_core::traits::SerdeAPI::init(&mut con);
        let kind = if t % 2 == 0 { "set_speed" } else { "speed_limit" };
        let days = if r.chance(0.5) { Some(if r.chance(0.25) { *r.pick(&[365, 366, 400, 731]) } else { r.int(1, 30) as i32 }) } else { None };
        let mut irregular = false;
        let mut sim = if t % 2 == 0 {
            let mut s = SetSpeedTrainSim::default(); s.loco_con = con; s.set_save_interval(Some(1));
            // irregular time stamps (the shipped trace is uniform 1 s): the speeds stay the trace's
            if t % 4 != 0 {
                let mut tt = s.speed_trace.time[0].value;
                for i in 1..s.speed_trace.time.len() {
                    let dt = *r.pick(&[0.25, 0.5, 1.0, 1.0, 1.5, 2.0, 3.0]);
                    tt += dt; s.speed_trace.time[i] = altrios_core::uc::S * tt;
                }
                irregular = true;
            }
            Sim { set: Some(s), lim: None }
        } else {
            let mut v = SpeedLimitTrainSim::valid();
            // tonne-kilometres need a non-zero freight mass (it is zero in valid()); it enters no dynamics
            v.state.mass_freight = altrios_core::uc::KG * r.lrange(1e5, 1e7);
            let mut s = SpeedLimitTrainSim::new(v.train_id.clone(), &v.origs, &v.dests, con, v.state, v.train_res.clone(), v.path_tpc.clone(), v.fric_brake.clone(), Some(1), days, None);
            s.braking_points = v.braking_points.clone();
            Sim { set: None, lim: Some(s) }
        };
        let steps = 14.min(n - made);
        let mut rejected = false;
        for i in 0..steps {
            if sim.done() { break; }
            let pre_ts = *sim.state();
            let pre_con = sim.con().clone();
            let res = catch(std::panic::AssertUnwindSafe(|| sim.step()));
            let (ts, cpost) = (*sim.state(), sim.con().clone());
            let (p, dt) = (ts.pwr_whl_out.value, ts.dt.value);
            let mut tags = vec![format!("sim:{}", kind), format!("dt:{}", if irregular { "irregular" } else { "uniform" }), format!("units:{}", pre_con.loco_vec.len()),
                format!("sign:{}", if p > 0.0 { "traction" } else if p < 0.0 { "braking" } else { "zero" })];
            let mut fails = vec![]; let mut known = vec![];
            let mut in_domain = true;
            let outcome = match res {
                Ok(Ok(())) => {
                    tags.push("result:ok".into());
                    if cpost.loco_vec.iter().any(|l| l.state.pwr_out_max.value < 0.0) {
                        // outside the theorem's hypothesis (known finding C10/1); levels must still agree
                        tags.push("neg_limit:yes".into()); in_domain = false;
                    }
                    oracle_levels(&ts, &cpost, &mut fails);
                    let mut o = Outs::new();
                    let e = consist_rated(&cpost) * 100.0;
                    o.f("train.pwr_whl_out", ts.pwr_whl_out.value, e / 100.0); o.f("train.energy_whl_out", ts.energy_whl_out.value, e);
                    o.f("train.energy_whl_out_pos", ts.energy_whl_out_pos.value, e); o.f("train.energy_whl_out_neg", ts.energy_whl_out_neg.value, e);
                    if !has_hybrid(&cpost) { o.extend(outs_consist(&cpost)); }
                    Outcome::Ok(o)
                }
                Ok(Err(e)) => { rejected = true; let (c, m) = consist_err_code(&e); tags.push(format!("result:err{}", c)); Outcome::Err(c, m) }
                Err(pm) => { rejected = true; tags.push("result:panic".into()); Outcome::Panic(pm) }
            };
            // when the train-level step fails before/after the consist is involved the bookkeeping model
            // has nothing to say: only accepted steps are lock-stepped
            let coq = if rejected || has_hybrid(&pre_con) { String::new() } else { format!("x_train_consist_step {} {} {} {}", coq_te(&pre_ts), coq_consist(&pre_con), cf(p), cf(dt)) };
            let _ = &mut known;
            sink.put(Case { id: format!("{}/{}/{}", kind, t, i), kind: format!("{}_step", kind), coq, outcome, tags,
                input: json!({"consist_yaml": serde_yaml::to_string(&pre_con).unwrap_or_default(), "sim": kind, "step": i, "default_consist": use_default}),
                oracle_fail: fails, known, in_domain });
            made += 1;
            if rejected { break; }
        }
        // end of run: histories and trip-level getters
        if !rejected {
            let mut fails = vec![];
            let (ts, con) = (*sim.state(), sim.con().clone());
            // histories hold the same step at the same index at all three levels
            let (th_p, th_e): (Vec<f64>, Vec<f64>) = if let Some(s) = &sim.set { (s.history.pwr_whl_out.iter().map(|x| x.value).collect(), s.history.energy_whl_out.iter().map(|x| x.value).collect()) }
                else { let s = sim.lim.as_ref().unwrap(); (s.history.pwr_whl_out.iter().map(|x| x.value).collect(), s.history.energy_whl_out.iter().map(|x| x.value).collect()) };
            let ch_req: Vec<f64> = con.history.pwr_out_req.iter().map(|x| x.value).collect();
            let ch_e: Vec<f64> = con.history.energy_out.iter().map(|x| x.value).collect();
            if th_p.len() != ch_req.len() { fails.push(format!("history lengths differ: train {} consist {}", th_p.len(), ch_req.len())); }
            let rated = consist_rated(&con);
            for k in 0..th_p.len().min(ch_req.len()) {
                if th_p[k] != ch_req[k] { fails.push(format!("saved step {}: train pwr_whl_out {} vs consist pwr_out_req {}", k, th_p[k], ch_req[k])); break; }
                if !close(th_e[k], ch_e[k], 1e-8, 1e-6 * rated) { fails.push(format!("saved step {}: train energy_whl_out {} vs consist energy_out {}", k, th_e[k], ch_e[k])); break; }
                let lsum: f64 = con.loco_vec.iter().map(|l| l.history.energy_out.get(k).map(|x| x.value).unwrap_or(f64::NAN)).sum();
                if !close(ch_e[k], lsum, 1e-8, 1e-6 * rated) { fails.push(format!("saved step {}: consist energy_out {} vs sum over locomotive histories {}", k, ch_e[k], lsum)); break; }
            }
            // trip-level getters
            let (ef, er, km, mgkm, fac, ef1, er1) = if let Some(s) = &mut sim.set {
                // SetSpeedTrainSim has no annualisation getters: use the consist's
                (s.loco_con.get_energy_fuel().value, s.loco_con.get_net_energy_res().value, f64::NAN, f64::NAN, 1.0, s.loco_con.get_energy_fuel().value, s.loco_con.get_net_energy_res().value)
            } else {
                let s = sim.lim.as_mut().unwrap();
                (s.get_energy_fuel(true).value, s.get_net_energy_res(true).value, s.get_kilometers(true), s.get_megagram_kilometers(true),
                 s.get_scaling_factor(true), s.get_energy_fuel(false).value, s.get_net_energy_res(false).value)
            };
            let e = rated * 1000.0;
            chk(&mut fails, "trip fuel (not annualised) vs consist total", ef1, con.state.energy_fuel.value, e);
            chk(&mut fails, "trip battery energy (not annualised) vs consist total", er1, con.state.energy_res.value, e);
            chk(&mut fails, "trip fuel = total x factor", ef, fuel_sum(&con) * fac, e * fac);
            chk(&mut fails, "trip battery energy = total x factor", er, chem_sum(&con) * fac, e * fac);
            let want_fac = match days { Some(d) if sim.lim.is_some() => 365.25 / d as f64, None if sim.lim.is_some() => 365.25, _ => 1.0 };
            chk(&mut fails, "annualisation factor", fac, want_fac, 1.0);
            if sim.lim.is_some() {
                chk(&mut fails, "kilometres = distance x factor", km, ts.total_dist.value / 1000.0 * fac, 1.0);
                chk(&mut fails, "megagram-kilometres = freight mass x distance x factor", mgkm, ts.mass_freight.value / 1000.0 * ts.total_dist.value / 1000.0 * fac, 1.0);
            }
            let mut o = Outs::new();
            o.f("trip.energy_fuel", ef, e); o.f("trip.net_energy_res", er, e); o.f("trip.factor", fac, 1.0);
            let dcoq = if sim.lim.is_some() { copt(days.map(|d| cf(d as f64))) } else { "None".into() };
            let ann = sim.lim.is_some();
            sink.put(Case { id: format!("{}/{}/trip", kind, t), kind: "trip_outputs".into(),
                coq: if has_hybrid(&con) { String::new() } else { format!("x_trip_outputs {} {} {}", coq_consist(&con), cb(ann), dcoq) },
                outcome: Outcome::Ok(o), tags: vec![format!("sim:{}", kind), format!("days:{}", days.map(|d| d.to_string()).unwrap_or("none".into()))],
                input: json!({"consist_yaml": serde_yaml::to_string(&con).unwrap_or_default(), "days": days}),
                oracle_fail: fails, known: vec![], in_domain: true });
        }
        if let Some(s) = &sim.lim { if fleet.len() < 16 { fleet.push(s.clone()); } }
        t += 1;
    }
    // fleet level (SpeedLimitTrainSimVec): every trip output of a set of simulations is the IN-ORDER sum of its members' own
    // outputs - members annualised with their own simulation_days, and the sum bit-identical whatever the worker count
    let mut groups: Vec<&[SpeedLimitTrainSim]> = fleet.chunks(4).collect();
    groups.push(&fleet[..]); if fleet.len() > 7 { groups.push(&fleet[..7]); groups.push(&fleet[2..]); }
    for (j, chunk) in groups.into_iter().enumerate() {
        if chunk.len() < 2 { continue; }
        let v = SpeedLimitTrainSimVec(chunk.to_vec());
        let mut fails = vec![];
        for ann in [true, false] {
            let want_f = chunk.iter().fold(0.0, |a, s| a + s.get_energy_fuel(ann).value);
            let want_r = chunk.iter().fold(0.0, |a, s| a + s.get_net_energy_res(ann).value);
            let want_k = chunk.iter().fold(0.0, |a, s| a + s.get_kilometers(ann));
            let want_m = chunk.iter().fold(0.0, |a, s| a + s.get_megagram_kilometers(ann));
            for threads in [1usize, 3, 8] {
                let pool = rayon::ThreadPoolBuilder::new().num_threads(threads).build().expect("pool");
                let (gf, gr, gk, gm) = pool.install(|| (v.get_energy_fuel(ann).value, v.get_net_energy_res(ann).value, v.get_kilometers(ann), v.get_megagram_kilometers(ann)));
                for (what, got, want) in [("fuel", gf, want_f), ("net battery energy", gr, want_r), ("kilometres", gk, want_k), ("megagram-kilometres", gm, want_m)] {
                    if got.to_bits() != want.to_bits() && !(got == want) {
                        fails.push(format!("fleet {} (annualize={}, {} worker(s)): {} is not the in-order sum of the members' own outputs {}", what, ann, threads, got, want));
                    }
                }
            }
        }
        fails.dedup();
        let mut o = Outs::new(); o.z("members", chunk.len() as i64);
        sink.put(Case { id: format!("fleet/{}", j), kind: "fleet_trip_outputs".into(), coq: String::new(), outcome: Outcome::Ok(o),
            tags: vec![format!("members:{}", chunk.len())], input: json!({"members": chunk.len()}), oracle_fail: fails.into_iter().take(4).collect(), known: vec![], in_domain: true });
    }
}
