//! C05 -- dispatch returns a complete, valid, memory-safe plan or an explicit error.
//! (i)  the three `unsafe` sentinel scans through hook H2 on generated vectors satisfying and violating
//!      the asserted preconditions, lock-step against the checked Gallina models (coq/model/Scans.v);
//! (ii) whole-system scenarios (the C04 scenarios) run in a child process with a CPU-time bound, in a
//!      build with debug assertions and overflow checks: outcome classes Ok(plan) / Err(stuck) /
//!      Err(other) / Panic / hang / abort; every Ok plan is checked by `train_checks` inside Coq
//!      (soundness: proofs/DispPlanP.v result_ok_sound) and by the Rust restatement in plan.rs.
//! Without cargo feature `hooks` part (i) is skipped and the free-running certificate is found by search
//! instead of being read off the final dispatch path.
use crate::disp::*;
use crate::dsp::*;
use crate::plan::*;
use crate::util::*;
use serde_json::{json, Value};

pub const K: u64 = 0xC04; // C04 and C05 share the scenario stream
pub const CHILD_TIMEOUT_S: f64 = 60.0;

/// Scenario indices from CORPUS_BASE on name the entries of corpus/dispatch.json (committed scenarios that
/// once exposed a defect; they run first in every check and do not depend on the generator's code).
pub const CORPUS_BASE: usize = 1_000_000;
pub fn corpus() -> Vec<Value> {
    let root = std::env::var("VERIF_ROOT").unwrap_or_else(|_| "/verif".to_string());
    std::fs::read_to_string(format!("{}/corpus/dispatch.json", root)).ok().and_then(|t| serde_json::from_str::<Value>(&t).ok())
        .and_then(|v| v.as_array().cloned()).unwrap_or_default()
}
pub fn scenario(seed: u64, k: usize) -> DispScenario {
    if k >= CORPUS_BASE {
        let c = corpus();
        if let Some(e) = c.get(k - CORPUS_BASE) {
            if let (Some(sp), Some(tr)) = (NetSpec::from_json(&e["spec"]), e["trains"].as_array().and_then(|a| a.iter().map(TrainSpec::from_json).collect::<Option<Vec<_>>>())) {
                return DispScenario { sp, trains: tr, tags: vec![format!("corpus:{}", e["name"].as_str().unwrap_or("?")), format!("trains:{}", e["trains"].as_array().map(|a| a.len()).unwrap_or(0))] };
            }
        }
    }
    let mut r = Rng::new(seed ^ K);
    let mut rk = r.fork();
    for _ in 0..k { rk = r.fork(); }
    let mut sc = gen_disp_scenario(&mut rk, k);
    // malformed stream: a lock-out declaration naming no link of the network (accepted by validation up to
    // /repo commit b470048, where `advance` then panicked; rejected by validation since 536e04e)
    if k % 25 == 24 {
        let l = sc.sp.fwd_idx[sc.sp.segs.len() / 2];
        // n_links() is the length of the network: exactly one past the last link, then further out
        sc.sp.extra_lockout.push((l, sc.sp.n_links() + [0, 3, 1][(k / 25) % 3]));
        sc.tags.push("malformed:lockout_out_of_range".into());
    }
    sc
}

fn class_tags(o: &DispOutcome) -> String {
    match o { DispOutcome::Ok(_) => "outcome:ok_plan", DispOutcome::ErrStuck(..) => "outcome:err_stuck", DispOutcome::ErrOther(_) => "outcome:err_other",
        DispOutcome::Panic(_) => "outcome:panic", DispOutcome::Skipped(_) => "outcome:skipped_est_times" }.to_string()
}

/// All C05 cases of scenario k (runs the dispatcher in this process; call from the child).
pub fn scenario_cases(seed: u64, k: usize) -> Vec<Case> {
    let sc = scenario(seed, k);
    let id = format!("disp{}", k);
    let input = sc.to_json();
    let mut tags = sc.tags.clone();
    let malformed = tags.iter().any(|t| t.starts_with("malformed:"));
    let run = match run_scenario(&sc) {
        Ok(r) => r,
        Err(e) => return vec![Case { id, kind: "disp_net".into(), coq: String::new(), outcome: Outcome::Err(900, e.clone()), tags, input,
            oracle_fail: if malformed { vec![] } else { vec![e] }, known: vec![], in_domain: false }],
    };
    tags.push(class_tags(&run.outcome));
    tags.push(format!("hooks:{}", if run.hooked { "on" } else { "off" }));
    match &run.outcome {
        DispOutcome::Skipped(why) => vec![Case { id, kind: "disp_skipped".into(), coq: String::new(), outcome: Outcome::Err(800, why.clone()), tags, input,
            oracle_fail: vec![], known: vec![], in_domain: false }],
        DispOutcome::Panic(m) => vec![Case { id, kind: "disp_panic".into(), coq: String::new(), outcome: Outcome::Panic(m.clone()), tags, input,
            oracle_fail: vec![format!("run_dispatch panicked on inputs accepted by network validation and make_est_times{}: {}",
                if malformed { " (lock-out index outside the network)" } else { "" }, m.chars().take(200).collect::<String>())], known: vec![], in_domain: !malformed }],
        DispOutcome::ErrOther(m) => {
            // an error that does not name the trains that could not be routed
            let names_train = m.contains("train ") || m.contains("Train ");
            vec![Case { id, kind: "disp_err_other".into(), coq: String::new(), outcome: Outcome::Err(700, m.clone()), tags, input,
                oracle_fail: if names_train { vec![] } else { vec![format!("run_dispatch returned an error that names no train: {}", m.chars().take(200).collect::<String>())] },
                known: vec![], in_domain: false }]
        }
        DispOutcome::ErrStuck(ids, m) => {
            let n = sc.trains.len();
            let mut sorted = ids.clone(); sorted.sort(); sorted.dedup();
            let ok = !ids.is_empty() && ids.iter().all(|&i| i >= 1 && i <= n) && sorted.len() == ids.len();
            let mut o = Outs::new(); o.b("stuck_names_trains", ok);
            vec![Case { id, kind: "disp_stuck".into(), coq: format!("x_stuck_ok {} {}", n, coq_nats(ids)), outcome: Outcome::Ok(o), tags, input,
                oracle_fail: if ok { vec![] } else { vec![format!("stuck-trains error does not name a non-empty set of valid train indices: {}", m)] }, known: vec![], in_domain: true }]
        }
        DispOutcome::Ok(plans) => {
            let n = sc.trains.len();
            let mut o = Outs::new();
            let mut fails = vec![];
            o.b("count", plans.len() == n);
            if plans.len() != n { fails.push(format!("{} routes returned for {} trains", plans.len(), n)); }
            let mut certs: Vec<Option<(f64, Vec<(usize, f64)>)>> = vec![];
            for i in 0..n.min(plans.len()) {
                let est = &run.ests[i];
                // certificate: the final dispatch path when the hook is there, otherwise a search
                let cert = if let Some(fin) = run.snaps.iter().rev().find(|s| s.label == "final") {
                    let p = &fin.trains[i + 1].path;
                    Some((p[0].time, p.iter().skip(1).map(|d| (d.est_idx, d.time)).collect::<Vec<_>>()))
                } else { find_timed_walk(est, &plans[i]) };
                let (ok, f) = train_checks(&run.net, &sc.trains[i].origs, &sc.trains[i].dests, sc.trains[i].depart, est, &plans[i], &cert, i + 1);
                for (l, b) in TRAIN_LABELS.iter().zip(ok.iter()) { o.b(&format!("t{}.{}", i + 1, l), *b); }
                fails.extend(f);
                certs.push(cert);
            }
            let ts: Vec<String> = (0..n).map(|i| format!("mkT {} {} {} {}", coq_nats(&sc.trains[i].origs), coq_nats(&sc.trains[i].dests), cf(sc.trains[i].depart), coq_rnodes(&run.ests[i]))).collect();
            let cs: Vec<String> = certs.iter().map(|c| match c { Some((t0, w)) => format!("({}, {})", cf(*t0), coq_plan(w)), None => format!("({}, [])", cf(0.0)) }).collect();
            let coq = format!("x_result_ok {} [{}] {} [{}]", coq_links(&run.net), ts.join("; "), coq_plans(plans), cs.join("; "));
            let mut input = input;
            input["plans"] = json!(plans.iter().map(|p| p.iter().map(|x| json!([x.0, fjson(x.1)])).collect::<Vec<_>>()).collect::<Vec<_>>());
            tags.push(format!("cert:{}", if run.hooked { "dispatch_path" } else { "search" }));
            // does some train leave its shortest path (an alternate edge of its estimated-time network with a
            // running time on the fake node that opens the branch)?
            let mut diverted = 0usize;
            for (i, c) in certs.iter().enumerate() {
                if let Some((_, w)) = c {
                    let est = &run.ests[i];
                    let mut prev = 0usize;
                    let mut d = false;
                    for (j, _) in w { if *j != 0 && prev < est.len() && est[prev].idx_next_alt as usize == *j { d = true; } prev = *j; }
                    if d { diverted += 1; }
                }
            }
            tags.push(format!("trains_diverted_onto_alternate_branch:{}", diverted.min(3)));
            vec![Case { id, kind: "disp_result".into(), coq, outcome: Outcome::Ok(o), tags, input, oracle_fail: fails, known: vec![], in_domain: true }]
        }
    }
}

// ------------------------------------------------------------------ the three scans through hook H2
#[cfg(feature = "hooks")]
mod scans {
    use super::*;
    use altrios_core::meet_pass::disp_structs::{DivergeNode, TrainIdxsView};
    use altrios_core::meet_pass::train_disp::verif_scans as vs;
    use altrios_core::track::LinkIdx;
    use altrios_core::traits::Idx;
    use std::num::NonZeroU16;

    fn tr(i: usize) -> Option<NonZeroU16> { NonZeroU16::new(i as u16) }

    pub fn calc_case(r: &mut Rng, id: String) -> Case {
        let n = 1 + r.below(9);
        let violate = r.below(6); // 0: div_idx out of range, 1: sentinel train not last, else valid
        let tsent = r.below(4);
        let mut dn: Vec<(usize, usize)> = (0..n).map(|i| (r.below(4), 1 + i / (1 + r.below(2)))).collect();
        if violate != 1 { dn[n - 1].0 = tsent; } else { dn[n - 1].0 = tsent + 1; }
        if r.chance(0.3) { let v = dn[n - 1].1; for x in dn.iter_mut() { x.1 = v; } } // long runs of equal disp_node_idx
        let div_idx = if violate == 0 { n + r.below(3) } else { r.below(n) };
        let nodes: Vec<DivergeNode> = dn.iter().map(|x| DivergeNode::new(tr(x.0), tr(x.1))).collect();
        let res = catch(std::panic::AssertUnwindSafe(|| vs::calc_idx_sentinels(div_idx, tr(tsent), &nodes)));
        let coq = format!("x_calc_idx_sentinels {} {} [{}]", div_idx, tsent, dn.iter().map(|x| format!("({}, {})", x.0, x.1)).collect::<Vec<_>>().join("; "));
        let pre = div_idx < n && dn[n - 1].0 == tsent;
        let mut fails = vec![];
        let outcome = match res {
            Ok((d, j)) => {
                if !pre { fails.push("calc_idx_sentinels returned although an asserted precondition fails".into()); }
                if !(j <= n) { fails.push(format!("calc_idx_sentinels ran past the buffer: {} > {}", j, n)); }
                let mut o = Outs::new(); o.z("disp_node_idx_sentinel", d as i64); o.z("div_idx", j as i64); Outcome::Ok(o)
            }
            Err(m) => Outcome::Panic(m),
        };
        Case { id, kind: "scan_calc".into(), coq, outcome, tags: vec![format!("pre:{}", pre)], input: json!({"div_idx": div_idx, "tsent": tsent, "div_nodes": dn}),
            oracle_fail: fails, known: vec![], in_domain: true }
    }

    pub fn find_case(r: &mut Rng, id: String) -> Case {
        let n = 1 + r.below(12);
        let nl = 2 + r.below(40);
        let mut path: Vec<u32> = (0..n).map(|_| if r.chance(0.4) { 0 } else { r.below(nl) as u32 }).collect();
        if r.chance(0.5) { let last = path.len() - 1; path[last] = 0; }
        let blocked: Vec<usize> = (0..nl).map(|_| if r.chance(0.25) { 1 + r.below(5) } else { 0 }).collect();
        let sent_mode = r.below(8); // 0: sentinel outside the buffer, 1: split >= sentinel, else inside
        let idx_sentinel = if sent_mode == 0 { n + r.below(3) } else { r.below(n) };
        let idx_split = if sent_mode == 1 { idx_sentinel + r.below(3) } else { r.below(idx_sentinel + 1) };
        let (opt, ocoq, otag) = match r.below(3) {
            0 => { let c = r.below(nl) as u32; (vs::LinkOpt::Single(LinkIdx::new(c)), format!("(LSingle {})", cz(c as i64)), "single") }
            1 => { let mn = r.below(nl); let df = r.below(17); (vs::LinkOpt::Range(mn, df), format!("(LRange {} {})", cz(mn as i64), cz(df as i64)), "range") }
            _ => (vs::LinkOpt::Check, "LCheck".to_string(), "check"),
        };
        let mut buf: Vec<LinkIdx> = path.iter().map(|&x| LinkIdx::new(x)).collect();
        let bl: Vec<Option<NonZeroU16>> = blocked.iter().map(|&x| tr(x)).collect();
        let res = catch(std::panic::AssertUnwindSafe(|| vs::find_train_intersect(idx_split, idx_sentinel, opt, &mut buf, &bl)));
        let coq = format!("x_find_train_intersect {} {} {} [{}] {}", idx_split, idx_sentinel, ocoq, path.iter().map(|&x| cz(x as i64)).collect::<Vec<_>>().join("; "), coq_nats(&blocked));
        let mut fails = vec![];
        let outcome = match res {
            Ok(i) => {
                let after: Vec<u32> = buf.iter().map(|l| l.idx() as u32).collect();
                if after != path { fails.push("find_train_intersect did not restore the overwritten sentinel".into()); }
                if idx_split < idx_sentinel && !(idx_split <= i && i <= idx_sentinel) { fails.push(format!("find_train_intersect stopped at {} outside [{}, {}]", i, idx_split, idx_sentinel)); }
                let mut o = Outs::new(); o.z("idx_split", i as i64); for (q, v) in after.iter().enumerate() { o.z(&format!("path[{}]", q), *v as i64); } Outcome::Ok(o)
            }
            Err(m) => { if idx_split < idx_sentinel && idx_sentinel < n && !m.contains("index out of bounds") { fails.push(format!("find_train_intersect panicked although its asserted precondition holds: {}", m)); } Outcome::Panic(m) }
        };
        Case { id, kind: "scan_find".into(), coq, outcome, tags: vec![format!("opt:{}", otag), format!("search:{}", idx_split < idx_sentinel), format!("sentinel_in_buffer:{}", idx_sentinel < n)],
            input: json!({"idx_split": idx_split, "idx_sentinel": idx_sentinel, "path": path, "blocked": blocked}), oracle_fail: fails, known: vec![], in_domain: true }
    }

    pub fn add_case(r: &mut Rng, id: String) -> Case {
        let n = 1 + r.below(10);
        let tb: Vec<usize> = (0..n).map(|_| r.below(6)).collect();
        let mode = r.below(8); // 0: base.end != len, 1: begin > end, else valid
        let e = if mode == 0 { r.below(n) } else { n };
        let b = if mode == 1 { e + 1 + r.below(2) } else { r.below(e + 1) };
        let ab = r.below(n + 1); let ae = if r.chance(0.1) { ab + r.below(n + 3) } else { ab + r.below((n + 1 - ab).max(1)) };
        let mut buf: Vec<Option<NonZeroU16>> = tb.iter().map(|&x| tr(x)).collect();
        let res = catch(std::panic::AssertUnwindSafe(|| vs::add_blocking_trains(&mut buf, &TrainIdxsView::new(b as u32, e as u32), &TrainIdxsView::new(ab as u32, ae as u32))));
        let coq = format!("x_add_blocking_trains {} ({}, {}) ({}, {})", coq_nats(&tb), b, e, ab, ae);
        let pre = b <= e && n == e;
        let mut fails = vec![];
        let outcome = match res {
            Ok(v) => {
                if !pre { fails.push("add_blocking_trains returned although an asserted precondition fails".into()); }
                let mut o = Outs::new(); o.z("idx_begin", v.idx_begin as i64); o.z("idx_end", v.idx_end as i64);
                for (q, x) in buf.iter().enumerate() { o.z(&format!("tb[{}]", q), x.idx() as i64); } Outcome::Ok(o)
            }
            Err(m) => Outcome::Panic(m),
        };
        Case { id, kind: "scan_add".into(), coq, outcome, tags: vec![format!("pre:{}", pre)], input: json!({"tb": tb, "base": [b, e], "add": [ab, ae]}), oracle_fail: fails, known: vec![], in_domain: true }
    }
}

pub fn run(seed: u64, n: usize, sink: &mut Sink) {
    // (i) scans
    #[cfg(feature = "hooks")]
    {
        let mut r = Rng::new(seed ^ 0xC05);
        for k in 0..(3 * n) {
            let c = match k % 3 { 0 => scans::calc_case(&mut r, format!("calc{}", k)), 1 => scans::find_case(&mut r, format!("find{}", k)), _ => scans::add_case(&mut r, format!("add{}", k)) };
            sink.put(c);
        }
    }
    // (ii) whole-system scenarios, one child process each: the committed corpus first, then the generated stream
    let ks: Vec<usize> = (0..corpus().len()).map(|i| CORPUS_BASE + i).chain(0..n).collect();
    for k in ks {
        match run_child("c05child", seed, k, CHILD_TIMEOUT_S) {
            Ok(cases) => for v in &cases { sink.put(case_from_json(v)); },
            Err(why) => {
                let sc = scenario(seed, k);
                let mut tags = sc.tags.clone();
                tags.push((if why.contains("hang") { "outcome:hang" } else { "outcome:abort" }).to_string());
                sink.put(Case { id: format!("disp{}", k), kind: "disp_abort".into(), coq: String::new(), outcome: Outcome::Panic(why.clone()), tags, input: sc.to_json(),
                    oracle_fail: vec![format!("dispatch scenario did not terminate normally: {}", why)], known: vec![], in_domain: true });
            }
        }
    }
}

/// developer aid: `vh dispdbg --seed S --n K` prints scenario K, the plans and the last snapshots
pub fn debug_scenario(seed: u64, k: usize) {
    let sc = scenario(seed, k);
    println!("spec {}", sc.to_json());
    let run = run_scenario(&sc).expect("net");
    match &run.outcome {
        DispOutcome::Ok(plans) => { for (i, p) in plans.iter().enumerate() { println!("plan train {}: {:?}", i + 1, p); } }
        DispOutcome::ErrStuck(ids, m) => println!("stuck {:?} {}", ids, m),
        DispOutcome::ErrOther(m) => println!("err {}", m),
        DispOutcome::Panic(m) => println!("panic {}", m),
        DispOutcome::Skipped(m) => println!("skipped {}", m),
    }
    for (si, s) in run.snaps.iter().enumerate() {
        println!("--- snap {} {} train_curr {}", si, s.label, s.train_curr);
        for (ti, t) in s.trains.iter().enumerate().skip(1) {
            println!("  train {} fin {} blocked {} fixed {} free {} front {} back {} tu {} tun {} path {:?}", ti, t.finished, t.is_blocked, t.idx_fixed, t.idx_free, t.idx_front, t.idx_back, t.time_update, t.time_update_next,
                t.path.iter().map(|d| (d.ty, d.link, d.time, d.auth_idx)).collect::<Vec<_>>());
        }
        for (l, st) in s.auths.iter().enumerate() { if st.len() > 1 { println!("  link {}: {:?}", l, st.iter().skip(1).map(|a| (a.train, a.ae, a.ax, a.ce, a.cx)).collect::<Vec<_>>()); } }
    }
}
