//! Helper for C17/C18: a bit-exact, canonical capture of any `Serialize` value as a tree.
//!
//! Why not serde_json: it turns non-finite floats into `null` (exactly the sentinels C17 is about)
//! and prints floats in decimal. This serializer keeps every `f64` as its 64-bit pattern, records
//! which struct fields the derive-generated code *skipped* (`skip_serializing_if`; serde calls
//! `SerializeStruct::skip_field` for those), keeps struct names, and sorts map entries by key, so
//! that two trees are equal iff the two objects serialize to the same data irrespective of hash-map
//! iteration order.
use serde::ser::{self, Serialize};
use std::fmt::Write as _;

#[derive(Clone, Debug, PartialEq)]
pub enum Node {
    Null,
    Bool(bool),
    Int(i128),
    F(u64),
    Str(String),
    Seq(Vec<Node>),
    /// entries sorted by the canonical text of the key
    Map(Vec<(Node, Node)>),
    /// struct name, present fields in declaration order, names of fields skipped by `skip_serializing_if`
    Struct(&'static str, Vec<(&'static str, Node)>, Vec<&'static str>),
    /// enum variant (unit variants carry `Null`)
    Variant(&'static str, Box<Node>),
}

#[derive(Debug)]
pub struct SerErr(String);
impl std::fmt::Display for SerErr {
    fn fmt(&self, f: &mut std::fmt::Formatter) -> std::fmt::Result { write!(f, "{}", self.0) }
}
impl std::error::Error for SerErr {}
impl ser::Error for SerErr {
    fn custom<T: std::fmt::Display>(msg: T) -> Self { SerErr(msg.to_string()) }
}

pub struct BitSer;
pub struct SeqS(Vec<Node>);
pub struct VarSeqS(&'static str, Vec<Node>);
pub struct MapS(Vec<(Node, Node)>, Option<Node>);
pub struct StructS(&'static str, Vec<(&'static str, Node)>, Vec<&'static str>);
pub struct VarStructS(&'static str, &'static str, Vec<(&'static str, Node)>, Vec<&'static str>);

pub fn to_node<T: Serialize + ?Sized>(t: &T) -> Node {
    t.serialize(BitSer).expect("BitSer never fails")
}

fn canon_map(mut v: Vec<(Node, Node)>) -> Node {
    v.sort_by(|a, b| text(&a.0).cmp(&text(&b.0)));
    Node::Map(v)
}

impl ser::Serializer for BitSer {
    type Ok = Node;
    type Error = SerErr;
    type SerializeSeq = SeqS;
    type SerializeTuple = SeqS;
    type SerializeTupleStruct = SeqS;
    type SerializeTupleVariant = VarSeqS;
    type SerializeMap = MapS;
    type SerializeStruct = StructS;
    type SerializeStructVariant = VarStructS;
    fn serialize_bool(self, v: bool) -> Result<Node, SerErr> { Ok(Node::Bool(v)) }
    fn serialize_i8(self, v: i8) -> Result<Node, SerErr> { Ok(Node::Int(v as i128)) }
    fn serialize_i16(self, v: i16) -> Result<Node, SerErr> { Ok(Node::Int(v as i128)) }
    fn serialize_i32(self, v: i32) -> Result<Node, SerErr> { Ok(Node::Int(v as i128)) }
    fn serialize_i64(self, v: i64) -> Result<Node, SerErr> { Ok(Node::Int(v as i128)) }
    fn serialize_u8(self, v: u8) -> Result<Node, SerErr> { Ok(Node::Int(v as i128)) }
    fn serialize_u16(self, v: u16) -> Result<Node, SerErr> { Ok(Node::Int(v as i128)) }
    fn serialize_u32(self, v: u32) -> Result<Node, SerErr> { Ok(Node::Int(v as i128)) }
    fn serialize_u64(self, v: u64) -> Result<Node, SerErr> { Ok(Node::Int(v as i128)) }
    fn serialize_f32(self, v: f32) -> Result<Node, SerErr> { Ok(Node::F((v as f64).to_bits())) }
    fn serialize_f64(self, v: f64) -> Result<Node, SerErr> { Ok(Node::F(v.to_bits())) }
    fn serialize_char(self, v: char) -> Result<Node, SerErr> { Ok(Node::Str(v.to_string())) }
    fn serialize_str(self, v: &str) -> Result<Node, SerErr> { Ok(Node::Str(v.to_string())) }
    fn serialize_bytes(self, v: &[u8]) -> Result<Node, SerErr> {
        Ok(Node::Seq(v.iter().map(|b| Node::Int(*b as i128)).collect()))
    }
    fn serialize_none(self) -> Result<Node, SerErr> { Ok(Node::Null) }
    fn serialize_some<T: ?Sized + Serialize>(self, v: &T) -> Result<Node, SerErr> { v.serialize(BitSer) }
    fn serialize_unit(self) -> Result<Node, SerErr> { Ok(Node::Null) }
    fn serialize_unit_struct(self, _n: &'static str) -> Result<Node, SerErr> { Ok(Node::Null) }
    fn serialize_unit_variant(self, _n: &'static str, _i: u32, var: &'static str) -> Result<Node, SerErr> {
        Ok(Node::Variant(var, Box::new(Node::Null)))
    }
    fn serialize_newtype_struct<T: ?Sized + Serialize>(self, _n: &'static str, v: &T) -> Result<Node, SerErr> {
        v.serialize(BitSer)
    }
    fn serialize_newtype_variant<T: ?Sized + Serialize>(self, _n: &'static str, _i: u32, var: &'static str, v: &T) -> Result<Node, SerErr> {
        Ok(Node::Variant(var, Box::new(v.serialize(BitSer)?)))
    }
    fn serialize_seq(self, _l: Option<usize>) -> Result<SeqS, SerErr> { Ok(SeqS(vec![])) }
    fn serialize_tuple(self, _l: usize) -> Result<SeqS, SerErr> { Ok(SeqS(vec![])) }
    fn serialize_tuple_struct(self, _n: &'static str, _l: usize) -> Result<SeqS, SerErr> { Ok(SeqS(vec![])) }
    fn serialize_tuple_variant(self, _n: &'static str, _i: u32, var: &'static str, _l: usize) -> Result<VarSeqS, SerErr> {
        Ok(VarSeqS(var, vec![]))
    }
    fn serialize_map(self, _l: Option<usize>) -> Result<MapS, SerErr> { Ok(MapS(vec![], None)) }
    fn serialize_struct(self, n: &'static str, _l: usize) -> Result<StructS, SerErr> { Ok(StructS(n, vec![], vec![])) }
    fn serialize_struct_variant(self, n: &'static str, _i: u32, var: &'static str, _l: usize) -> Result<VarStructS, SerErr> {
        Ok(VarStructS(n, var, vec![], vec![]))
    }
}
impl ser::SerializeSeq for SeqS {
    type Ok = Node; type Error = SerErr;
    fn serialize_element<T: ?Sized + Serialize>(&mut self, v: &T) -> Result<(), SerErr> { self.0.push(v.serialize(BitSer)?); Ok(()) }
    fn end(self) -> Result<Node, SerErr> { Ok(Node::Seq(self.0)) }
}
impl ser::SerializeTuple for SeqS {
    type Ok = Node; type Error = SerErr;
    fn serialize_element<T: ?Sized + Serialize>(&mut self, v: &T) -> Result<(), SerErr> { self.0.push(v.serialize(BitSer)?); Ok(()) }
    fn end(self) -> Result<Node, SerErr> { Ok(Node::Seq(self.0)) }
}
impl ser::SerializeTupleStruct for SeqS {
    type Ok = Node; type Error = SerErr;
    fn serialize_field<T: ?Sized + Serialize>(&mut self, v: &T) -> Result<(), SerErr> { self.0.push(v.serialize(BitSer)?); Ok(()) }
    fn end(self) -> Result<Node, SerErr> { Ok(Node::Seq(self.0)) }
}
impl ser::SerializeTupleVariant for VarSeqS {
    type Ok = Node; type Error = SerErr;
    fn serialize_field<T: ?Sized + Serialize>(&mut self, v: &T) -> Result<(), SerErr> { self.1.push(v.serialize(BitSer)?); Ok(()) }
    fn end(self) -> Result<Node, SerErr> { Ok(Node::Variant(self.0, Box::new(Node::Seq(self.1)))) }
}
impl ser::SerializeMap for MapS {
    type Ok = Node; type Error = SerErr;
    fn serialize_key<T: ?Sized + Serialize>(&mut self, k: &T) -> Result<(), SerErr> { self.1 = Some(k.serialize(BitSer)?); Ok(()) }
    fn serialize_value<T: ?Sized + Serialize>(&mut self, v: &T) -> Result<(), SerErr> {
        let k = self.1.take().expect("value without key");
        self.0.push((k, v.serialize(BitSer)?)); Ok(())
    }
    fn end(self) -> Result<Node, SerErr> { Ok(canon_map(self.0)) }
}
impl ser::SerializeStruct for StructS {
    type Ok = Node; type Error = SerErr;
    fn serialize_field<T: ?Sized + Serialize>(&mut self, k: &'static str, v: &T) -> Result<(), SerErr> { self.1.push((k, v.serialize(BitSer)?)); Ok(()) }
    fn skip_field(&mut self, k: &'static str) -> Result<(), SerErr> { self.2.push(k); Ok(()) }
    fn end(self) -> Result<Node, SerErr> { Ok(Node::Struct(self.0, self.1, self.2)) }
}
impl ser::SerializeStructVariant for VarStructS {
    type Ok = Node; type Error = SerErr;
    fn serialize_field<T: ?Sized + Serialize>(&mut self, k: &'static str, v: &T) -> Result<(), SerErr> { self.2.push((k, v.serialize(BitSer)?)); Ok(()) }
    fn skip_field(&mut self, k: &'static str) -> Result<(), SerErr> { self.3.push(k); Ok(()) }
    fn end(self) -> Result<Node, SerErr> { Ok(Node::Variant(self.1, Box::new(Node::Struct(self.0, self.2, self.3)))) }
}

// ---------------------------------------------------------------- canonical text / digest
fn text_into(n: &Node, s: &mut String) {
    match n {
        Node::Null => s.push('~'),
        Node::Bool(b) => s.push(if *b { 'T' } else { 'F' }),
        Node::Int(i) => { let _ = write!(s, "{}", i); }
        Node::F(b) => { let _ = write!(s, "x{:016x}", b); }
        Node::Str(t) => { let _ = write!(s, "{:?}", t); }
        Node::Seq(v) => { s.push('['); for x in v { text_into(x, s); s.push(','); } s.push(']'); }
        Node::Map(v) => { s.push('{'); for (k, x) in v { text_into(k, s); s.push(':'); text_into(x, s); s.push(','); } s.push('}'); }
        Node::Struct(n, f, sk) => {
            let _ = write!(s, "{}(", n);
            for (k, x) in f { let _ = write!(s, "{}=", k); text_into(x, s); s.push(','); }
            for k in sk { let _ = write!(s, "-{},", k); }
            s.push(')');
        }
        Node::Variant(v, x) => { let _ = write!(s, "<{}>", v); text_into(x, s); }
    }
}
/// canonical text: floats as hex bit patterns, maps sorted
pub fn text(n: &Node) -> String { let mut s = String::new(); text_into(n, &mut s); s }
/// 128-bit digest of the canonical text (two independent FNV-1a style lanes) + length
pub fn digest(n: &Node) -> String {
    let t = text(n);
    let (mut a, mut b) = (0xcbf29ce484222325u64, 0x84222325cbf29ce4u64);
    for c in t.bytes() {
        a = (a ^ c as u64).wrapping_mul(0x100000001b3);
        b = (b ^ (c as u64).wrapping_add(0x9e)).wrapping_mul(0x9E3779B97F4A7C15) ^ (b >> 29);
    }
    format!("{:016x}{:016x}:{}", a, b, t.len())
}

// ---------------------------------------------------------------- class predicates
fn walk<'a>(n: &'a Node, path: &mut String, f: &mut dyn FnMut(&str, &'a Node)) {
    f(path, n);
    let l = path.len();
    match n {
        Node::Seq(v) => for (i, x) in v.iter().enumerate() { let _ = write!(path, "[{}]", i); walk(x, path, f); path.truncate(l); },
        Node::Map(v) => for (k, x) in v { let _ = write!(path, "{{{}}}", text(k)); walk(x, path, f); path.truncate(l); },
        Node::Struct(_, fs, _) => for (k, x) in fs { let _ = write!(path, ".{}", k); walk(x, path, f); path.truncate(l); },
        Node::Variant(v, x) => { let _ = write!(path, "<{}>", v); walk(x, path, f); path.truncate(l); }
        _ => {}
    }
}
/// paths of struct fields that `skip_serializing_if` left out of the serialized data
pub fn skipped_paths(n: &Node) -> Vec<String> {
    let mut out = vec![];
    walk(n, &mut String::new(), &mut |p, x| if let Node::Struct(name, _, sk) = x { for k in sk { out.push(format!("{}.{}({})", p, k, name)); } });
    out
}
/// paths of non-finite floats
pub fn nonfinite_paths(n: &Node) -> Vec<String> {
    let mut out = vec![];
    walk(n, &mut String::new(), &mut |p, x| if let Node::F(b) = x { if !f64::from_bits(*b).is_finite() { out.push(format!("{}={}", p, f64::from_bits(*b))); } });
    out
}
pub fn contains_struct(n: &Node, name: &str) -> bool {
    let mut found = false;
    walk(n, &mut String::new(), &mut |_, x| if let Node::Struct(s, _, _) = x { if *s == name { found = true; } });
    found
}
pub fn count_floats(n: &Node) -> usize {
    let mut c = 0;
    walk(n, &mut String::new(), &mut |_, x| if let Node::F(_) = x { c += 1; });
    c
}
/// (struct name, declared field names incl. skipped in serialization order of the present ones, skipped names)
pub fn struct_shapes(n: &Node) -> Vec<(&'static str, Vec<&'static str>, Vec<&'static str>)> {
    let mut out: Vec<(&'static str, Vec<&'static str>, Vec<&'static str>)> = vec![];
    walk(n, &mut String::new(), &mut |_, x| if let Node::Struct(s, fs, sk) = x {
        out.push((*s, fs.iter().map(|(k, _)| *k).collect(), sk.clone()));
    });
    out
}

// ---------------------------------------------------------------- comparison
fn ord(bits: u64) -> i128 {
    // monotone map of finite doubles to integers (adjacent doubles differ by 1; +0 and -0 coincide)
    if bits >> 63 == 0 { bits as i128 } else { -((bits & 0x7fff_ffff_ffff_ffff) as i128) }
}
pub fn ulp_dist(a: u64, b: u64) -> Option<u128> {
    let (x, y) = (f64::from_bits(a), f64::from_bits(b));
    if a == b { return Some(0); }
    if !x.is_finite() || !y.is_finite() { return None; }
    Some((ord(a) - ord(b)).unsigned_abs())
}

#[derive(Default, Debug)]
pub struct Diff {
    /// differences that violate the comparison mode (path: description), first few only
    pub bad: Vec<String>,
    pub n_bad: usize,
    /// floats that differ but are within the allowed tolerance
    pub n_within: usize,
    pub max_ulp: u128,
    pub max_rel: f64,
}
#[derive(Clone, Copy)]
pub enum Mode {
    /// every float bit-identical
    Bits,
    /// every float within `k` units in the last place
    Ulp(u128),
    /// |a-b| <= rel*max(|a|,|b|) + abs
    Tol(f64, f64),
    /// |a-b| <= rel*max(|a|,|b|) + rel*scale, scale = largest finite magnitude among the float
    /// fields of the same struct / elements of the same sequence (both sides)
    TolScaled(f64),
}
impl Diff {
    fn bad(&mut self, p: &str, m: String) { self.n_bad += 1; if self.bad.len() < 6 { self.bad.push(format!("{}: {}", if p.is_empty() { "." } else { p }, m)); } }
}
fn kind(n: &Node) -> &'static str {
    match n { Node::Null => "null", Node::Bool(_) => "bool", Node::Int(_) => "int", Node::F(_) => "float", Node::Str(_) => "str",
        Node::Seq(_) => "seq", Node::Map(_) => "map", Node::Struct(..) => "struct", Node::Variant(..) => "variant" }
}
fn mag(n: &Node) -> f64 { if let Node::F(b) = n { let x = f64::from_bits(*b).abs(); if x.is_finite() { x } else { 0.0 } } else { 0.0 } }
fn cmp_into(a: &Node, b: &Node, mode: Mode, scale: f64, path: &mut String, d: &mut Diff) {
    let l = path.len();
    match (a, b) {
        (Node::Null, Node::Null) => {}
        (Node::Bool(x), Node::Bool(y)) => if x != y { d.bad(path, format!("{} vs {}", x, y)); },
        (Node::Int(x), Node::Int(y)) => if x != y { d.bad(path, format!("{} vs {}", x, y)); },
        (Node::Str(x), Node::Str(y)) => if x != y { d.bad(path, format!("{:?} vs {:?}", x, y)); },
        (Node::F(x), Node::F(y)) => {
            if x == y { return; }
            let (fx, fy) = (f64::from_bits(*x), f64::from_bits(*y));
            let u = ulp_dist(*x, *y);
            let rel = if fx.is_finite() && fy.is_finite() { (fx - fy).abs() / fx.abs().max(fy.abs()).max(1e-300) } else { f64::INFINITY };
            let ok = match mode {
                Mode::Bits => false,
                Mode::Ulp(k) => u.map(|u| u <= k).unwrap_or(false),
                Mode::Tol(r, ab) => fx.is_finite() && fy.is_finite() && (fx - fy).abs() <= r * fx.abs().max(fy.abs()) + ab,
                Mode::TolScaled(r) => fx.is_finite() && fy.is_finite() && (fx - fy).abs() <= r * fx.abs().max(fy.abs()) + r * scale,
            };
            if ok {
                d.n_within += 1;
                if let Some(u) = u { d.max_ulp = d.max_ulp.max(u); }
                if rel.is_finite() { d.max_rel = d.max_rel.max(rel); }
            } else {
                d.bad(path, format!("{:e} ({:016x}) vs {:e} ({:016x}){}", fx, x, fy, y, u.map(|u| format!(", {} ulp", u)).unwrap_or_default()));
            }
        }
        (Node::Seq(x), Node::Seq(y)) => {
            if x.len() != y.len() { d.bad(path, format!("length {} vs {}", x.len(), y.len())); return; }
            let sc = x.iter().chain(y.iter()).map(mag).fold(scale, f64::max);
            for (i, (p, q)) in x.iter().zip(y).enumerate() { let _ = write!(path, "[{}]", i); cmp_into(p, q, mode, sc, path, d); path.truncate(l); }
        }
        (Node::Map(x), Node::Map(y)) => {
            if x.len() != y.len() { d.bad(path, format!("map size {} vs {}", x.len(), y.len())); return; }
            for ((k1, p), (k2, q)) in x.iter().zip(y) {
                if k1 != k2 { d.bad(path, format!("map key {} vs {}", text(k1), text(k2))); continue; }
                let _ = write!(path, "{{{}}}", text(k1)); cmp_into(p, q, mode, scale, path, d); path.truncate(l);
            }
        }
        (Node::Struct(n1, f1, s1), Node::Struct(n2, f2, s2)) => {
            if n1 != n2 { d.bad(path, format!("struct {} vs {}", n1, n2)); return; }
            if s1 != s2 || f1.len() != f2.len() {
                d.bad(path, format!("{}: present/skipped fields differ: skipped {:?} vs {:?}", n1, s1, s2));
                // still compare the common fields by name
            }
            // natural magnitude of a field = largest magnitude among the fields of the same struct (and, for
            // history structs, the vectors) whose names share its physical-quantity prefix (pwr_, energy_, ...)
            let group = |k: &str| -> f64 {
                let pre = k.split('_').next().unwrap_or("");
                f1.iter().chain(f2.iter()).filter(|(k2, _)| k2.split('_').next().unwrap_or("") == pre)
                    .map(|(_, x)| match x { Node::Seq(v) => v.iter().map(mag).fold(0.0, f64::max), _ => mag(x) }).fold(0.0, f64::max)
            };
            for (k, p) in f1 {
                if let Some((_, q)) = f2.iter().find(|(k2, _)| k2 == k) {
                    let pre = k.split('_').next().unwrap_or("");
                    let sc = if pre == "pwr" || pre == "energy" || pre == "force" { group(k).max(if pre == "pwr" { scale } else { 0.0 }) } else { group(k) };
                    let _ = write!(path, ".{}", k); cmp_into(p, q, mode, sc, path, d); path.truncate(l);
                }
            }
        }
        (Node::Variant(v1, p), Node::Variant(v2, q)) => {
            if v1 != v2 { d.bad(path, format!("variant {} vs {}", v1, v2)); return; }
            let _ = write!(path, "<{}>", v1); cmp_into(p, q, mode, scale, path, d); path.truncate(l);
        }
        _ => d.bad(path, format!("{} vs {}", kind(a), kind(b))),
    }
}
pub fn compare(a: &Node, b: &Node, mode: Mode) -> Diff {
    let mut d = Diff::default();
    cmp_into(a, b, mode, 0.0, &mut String::new(), &mut d);
    d
}

/// all float leaves (bit patterns)
pub fn floats(n: &Node) -> Vec<u64> {
    let mut out = vec![];
    walk(n, &mut String::new(), &mut |_, x| if let Node::F(b) = x { out.push(*b); });
    out
}
/// pairs of float leaves at which two trees of the same shape differ
pub fn float_diffs(a: &Node, b: &Node) -> Vec<(u64, u64)> {
    let (x, y) = (floats(a), floats(b));
    if x.len() != y.len() { return vec![]; }
    x.into_iter().zip(y).filter(|(p, q)| p != q).collect()
}
