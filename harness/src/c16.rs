//! C16 -- network validation accepts exactly the consistent networks and never aborts.
//! Generated valid networks (main line, optional siding with switches, optional reverse-direction
//! twins, catenary, lockouts, both speed layouts) and EVERY single-fault mutation of them (each rule
//! broken in isolation at every link) plus out-of-range references, NaN and +-inf fields, loaded
//! through Network::from_json / from_yaml / from_file (current and legacy layout) / init; the
//! outcome class (Ok / Err / panic) is compared with the model (coq/model/Validate.v, repaired
//! behaviour) evaluated in Coq on the same network.
use crate::util::*;
use altrios_core::prelude::*;
use altrios_core::track::{CatPowerLimit, CompareType, LimitType, SpeedLimit, SpeedParam};
use altrios_core::traits::SerdeAPI;
use altrios_core::uc;
use altrios_core::validate::ObjState;
use serde_json::{json, Value};
use std::collections::HashMap;

#[derive(Clone, Debug, PartialEq)]
pub struct SpeedSetM { pub limits: Vec<(f64, f64, f64)>, pub params: Vec<(f64, i64, i64)>, pub head: bool }
#[derive(Clone, Debug, PartialEq)]
pub struct LinkM {
    pub curr: u32, pub flip: u32, pub next: u32, pub next_alt: u32, pub prev: u32, pub prev_alt: u32,
    pub length: f64, pub elevs: Vec<(f64, f64)>, pub headings: Vec<(f64, f64)>,
    pub speed_sets: Vec<(i64, SpeedSetM)>, pub speed_set: Option<SpeedSetM>,
    pub cat: Vec<(f64, f64, f64)>, pub lockout: Vec<u32>,
}
impl LinkM {
    pub fn dummy() -> Self {
        LinkM { curr: 0, flip: 0, next: 0, next_alt: 0, prev: 0, prev_alt: 0, length: 0.0, elevs: vec![], headings: vec![],
            speed_sets: vec![], speed_set: None, cat: vec![], lockout: vec![] }
    }
}

fn train_type(t: i64) -> TrainType {
    match t { 1 => TrainType::Freight, 2 => TrainType::Passenger, 3 => TrainType::Intermodal, 4 => TrainType::HighSpeedPassenger,
        5 => TrainType::TiltTrain, 6 => TrainType::Commuter, _ => TrainType::None }
}
fn train_type_name(t: i64) -> &'static str {
    match t { 1 => "Freight", 2 => "Passenger", 3 => "Intermodal", 4 => "HighSpeedPassenger", 5 => "TiltTrain", 6 => "Commuter", _ => "None" }
}
fn speed_set_real(s: &SpeedSetM) -> SpeedSet {
    SpeedSet {
        speed_limits: s.limits.iter().map(|(a, b, v)| SpeedLimit { offset_start: uc::M * *a, offset_end: uc::M * *b, speed: uc::MPS * *v }).collect(),
        speed_params: s.params.iter().map(|(v, t, c)| SpeedParam { limit_val: *v,
            limit_type: match t { 3 => LimitType::MassTotal, 5 => LimitType::AxleCount, _ => LimitType::MassPerBrake },
            compare_type: match c { 2 => CompareType::TpGreaterThanRp, 3 => CompareType::TpLessThanRp, 4 => CompareType::TpGreaterThanEqualRp, 5 => CompareType::TpLessThanEqualRp, _ => CompareType::TpEqualRp } }).collect(),
        is_head_end: s.head,
    }
}
pub fn link_real(l: &LinkM) -> Link {
    let mut speed_sets = HashMap::new();
    for (t, s) in &l.speed_sets { speed_sets.insert(train_type(*t), speed_set_real(s)); }
    Link {
        idx_curr: LinkIdx::new(l.curr), idx_flip: LinkIdx::new(l.flip), idx_next: LinkIdx::new(l.next), idx_next_alt: LinkIdx::new(l.next_alt),
        idx_prev: LinkIdx::new(l.prev), idx_prev_alt: LinkIdx::new(l.prev_alt), osm_id: None, length: uc::M * l.length,
        elevs: l.elevs.iter().map(|(o, e)| Elev { offset: uc::M * *o, elev: uc::M * *e }).collect(),
        headings: l.headings.iter().map(|(o, h)| Heading { offset: uc::M * *o, heading: uc::RAD * *h, lat: None, lon: None }).collect(),
        speed_sets, speed_set: l.speed_set.as_ref().map(speed_set_real),
        cat_power_limits: l.cat.iter().map(|(a, b, p)| CatPowerLimit { offset_start: uc::M * *a, offset_end: uc::M * *b, power_limit: uc::W * *p, district_id: None }).collect(),
        link_idxs_lockout: l.lockout.iter().map(|i| LinkIdx::new(*i)).collect(),
    }
}

// ---------------------------------------------------------------- Coq printing
fn cn(i: u32) -> String { format!("{}%N", i) }
fn coq_speed_set(s: &SpeedSetM) -> String {
    format!("(Build_SpeedSet [{}] [{}] {})",
        s.limits.iter().map(|(a, b, v)| format!("Build_SpeedLimit {} {} {}", cf(*a), cf(*b), cf(*v))).collect::<Vec<_>>().join("; "),
        s.params.iter().map(|(v, t, c)| format!("Build_SpeedParam {} {} {}", cf(*v), cz(*t), cz(*c))).collect::<Vec<_>>().join("; "), cb(s.head))
}
pub fn coq_link(l: &LinkM) -> String {
    format!("(Build_Link {} {} {} {} {} {} {} [{}] [{}] [{}] {} [{}] [{}])",
        cn(l.curr), cn(l.flip), cn(l.next), cn(l.next_alt), cn(l.prev), cn(l.prev_alt), cf(l.length),
        l.elevs.iter().map(|(o, e)| format!("Build_Elev {} {}", cf(*o), cf(*e))).collect::<Vec<_>>().join("; "),
        l.headings.iter().map(|(o, h)| format!("Build_Heading {} {}", cf(*o), cf(*h))).collect::<Vec<_>>().join("; "),
        l.speed_sets.iter().map(|(t, s)| format!("({}, {})", cz(*t), coq_speed_set(s))).collect::<Vec<_>>().join("; "),
        match &l.speed_set { Some(s) => format!("(Some {})", coq_speed_set(s)), None => "None".into() },
        l.cat.iter().map(|(a, b, p)| format!("Build_CatLimit {} {} {}", cf(*a), cf(*b), cf(*p))).collect::<Vec<_>>().join("; "),
        l.lockout.iter().map(|i| cn(*i)).collect::<Vec<_>>().join("; "))
}
pub fn coq_net(n: &[LinkM]) -> String { format!("[{}]", n.iter().map(coq_link).collect::<Vec<_>>().join("; ")) }
fn coq_link_old(l: &LinkM) -> String {
    format!("(Build_LinkOld {} {} {} {} {} {} {} [{}] [{}] [{}] [{}] [{}])",
        cn(l.curr), cn(l.flip), cn(l.next), cn(l.next_alt), cn(l.prev), cn(l.prev_alt), cf(l.length),
        l.elevs.iter().map(|(o, e)| format!("Build_Elev {} {}", cf(*o), cf(*e))).collect::<Vec<_>>().join("; "),
        l.headings.iter().map(|(o, h)| format!("Build_Heading {} {}", cf(*o), cf(*h))).collect::<Vec<_>>().join("; "),
        l.speed_sets.iter().map(|(t, s)| format!("Build_OldSpeedSet [{}] [{}] {} {}",
            s.limits.iter().map(|(a, b, v)| format!("Build_SpeedLimit {} {} {}", cf(*a), cf(*b), cf(*v))).collect::<Vec<_>>().join("; "),
            s.params.iter().map(|(v, t, c)| format!("Build_SpeedParam {} {} {}", cf(*v), cz(*t), cz(*c))).collect::<Vec<_>>().join("; "),
            cz(*t), cb(s.head))).collect::<Vec<_>>().join("; "),
        l.cat.iter().map(|(a, b, p)| format!("Build_CatLimit {} {} {}", cf(*a), cf(*b), cf(*p))).collect::<Vec<_>>().join("; "),
        l.lockout.iter().map(|i| cn(*i)).collect::<Vec<_>>().join("; "))
}

// ---------------------------------------------------------------- legacy layout (link_old.rs), written by hand
fn yf(x: f64) -> String {
    if x.is_nan() { ".nan".into() } else if x == f64::INFINITY { ".inf".into() } else if x == f64::NEG_INFINITY { "-.inf".into() } else { format!("{:?}", x) }
}
fn legacy_yaml(n: &[LinkM]) -> String {
    let mut s = String::from("---\n");
    for l in n {
        s += &format!("- elevs: [{}]\n", l.elevs.iter().map(|(o, e)| format!("{{offset: {}, elev: {}}}", yf(*o), yf(*e))).collect::<Vec<_>>().join(", "));
        s += &format!("  headings: [{}]\n", l.headings.iter().map(|(o, h)| format!("{{offset: {}, heading: {}}}", yf(*o), yf(*h))).collect::<Vec<_>>().join(", "));
        s += "  speed_sets:";
        if l.speed_sets.is_empty() { s += " []\n"; } else {
            s += "\n";
            for (t, ss) in &l.speed_sets {
                s += &format!("    - speed_limits: [{}]\n", ss.limits.iter().map(|(a, b, v)| format!("{{offset_start: {}, offset_end: {}, speed: {}}}", yf(*a), yf(*b), yf(*v))).collect::<Vec<_>>().join(", "));
                s += &format!("      speed_params: [{}]\n", ss.params.iter().map(|(v, t, c)| format!("{{limit_val: {}, limit_type: {}, compare_type: {}}}", yf(*v),
                    match t { 3 => "MassTotal", 5 => "AxleCount", _ => "MassPerBrake" },
                    match c { 2 => "TpGreaterThanRp", 3 => "TpLessThanRp", 4 => "TpGreaterThanEqualRp", 5 => "TpLessThanEqualRp", _ => "TpEqualRp" })).collect::<Vec<_>>().join(", "));
                s += &format!("      train_type: {}\n      is_head_end: {}\n", train_type_name(*t), ss.head);
            }
        }
        s += &format!("  cat_power_limits: [{}]\n", l.cat.iter().map(|(a, b, p)| format!("{{offset_start: {}, offset_end: {}, power_limit: {}, district_id: ~}}", yf(*a), yf(*b), yf(*p))).collect::<Vec<_>>().join(", "));
        s += &format!("  length: {}\n  idx_next: {}\n  idx_next_alt: {}\n  idx_prev: {}\n  idx_prev_alt: {}\n  idx_curr: {}\n  idx_flip: {}\n", yf(l.length), l.next, l.next_alt, l.prev, l.prev_alt, l.curr, l.flip);
        s += &format!("  link_idxs_lockout: [{}]\n", l.lockout.iter().map(|i| i.to_string()).collect::<Vec<_>>().join(", "));
    }
    s
}

// ---------------------------------------------------------------- generator of valid networks
fn gen_speed_set(r: &mut Rng, len: f64) -> SpeedSetM {
    let k = 1 + r.below(3);
    // sorted lexicographically by (start, end, speed), adjacent (start, end) pairs distinct
    let mut lim: Vec<(f64, f64, f64)> = (0..k).map(|_| {
        let a = if r.chance(0.4) { 0.0 } else { (r.range(0.0, 0.8) * len).floor() };
        let b = if r.chance(0.4) { len } else { a + (r.range(0.05, 1.0) * (len - a)).floor() };
        (a, b, *r.pick(&[5.0, 10.0, 13.4, 20.0, 26.8, 35.0]))
    }).collect();
    lim.sort_by(|x, y| x.partial_cmp(y).unwrap());
    lim.dedup_by(|x, y| x.0 == y.0 && x.1 == y.1);
    let np = r.below(3);
    let mut params: Vec<(f64, i64, i64)> = (0..np).map(|_| {
        let t = *r.pick(&[3i64, 4, 5]);
        (if t == 5 { (r.below(400) + 1) as f64 } else { r.range(1e3, 2e5) }, t, 1 + r.below(5) as i64)
    }).collect();
    params.dedup();
    SpeedSetM { limits: lim, params, head: r.chance(0.2) }
}
fn gen_link_body(r: &mut Rng, l: &mut LinkM, ncat: usize) {
    let len = (r.lrange(50.0, 20000.0)).floor() + if r.chance(0.3) { 0.25 } else { 0.0 };
    l.length = len;
    let ne = 2 + r.below(4);
    let mut offs: Vec<f64> = (0..ne - 2).map(|_| (r.range(0.01, 0.99) * len * 8.0).floor() / 8.0).filter(|x| *x > 0.0 && *x < len).collect();
    offs.sort_by(|a, b| a.partial_cmp(b).unwrap()); offs.dedup();
    let mut e = vec![(0.0, r.range(0.0, 500.0))];
    for o in offs { e.push((o, r.range(0.0, 500.0))); }
    e.push((len, r.range(0.0, 500.0)));
    l.elevs = e;
    l.headings = if r.chance(0.4) { vec![] } else {
        let mut h = vec![(0.0, r.range(0.0, 6.28))];
        if r.chance(0.5) { h.push(((len * 0.5 * 8.0).floor() / 8.0, if r.chance(0.2) { 0.0 } else { r.range(0.0, 6.28) })); }
        h.push((len, r.range(0.0, 6.28)));
        h
    };
    if r.chance(0.7) {
        let nt = 1 + r.below(3);
        let mut tys: Vec<i64> = vec![1, 2, 3, 4, 5, 6];
        for k in 0..nt { let j = k + r.below(6 - k); tys.swap(k, j); }
        l.speed_sets = tys[..nt].iter().map(|t| (*t, gen_speed_set(r, len))).collect();
        l.speed_set = None;
    } else {
        l.speed_sets = vec![];
        l.speed_set = Some(gen_speed_set(r, len));
    }
    // catenary sections in order, non-overlapping (abutting allowed), inside the link
    let mut cuts: Vec<f64> = (0..2 * ncat).map(|_| (r.range(0.0, 1.0) * len).floor()).collect();
    cuts.sort_by(|a, b| a.partial_cmp(b).unwrap());
    l.cat = (0..ncat).map(|k| (cuts[2 * k], cuts[2 * k + 1], r.lrange(1e5, 1e7))).collect();
    if ncat >= 2 && r.chance(0.3) { l.cat[1].0 = l.cat[0].1; if l.cat[1].1 < l.cat[1].0 { l.cat[1].1 = l.cat[1].0; } }
}

/// main line 1..m, optional siding (switch at `a`, rejoining at `b` >= a + 2), optional reverse twins
pub fn gen_valid(r: &mut Rng, multi_cat: bool) -> (Vec<LinkM>, Vec<String>) {
    let mut tags = vec![];
    let m = 1 + r.below(5);
    let mut n: Vec<LinkM> = vec![LinkM::dummy()];
    for i in 1..=m {
        let mut l = LinkM::dummy();
        l.curr = i as u32; l.next = if i < m { i as u32 + 1 } else { 0 }; l.prev = if i > 1 { i as u32 - 1 } else { 0 };
        n.push(l);
    }
    if m >= 3 && r.chance(0.6) {
        let a = 1 + r.below(m - 2); let b = a + 2 + r.below(m - a - 1);
        let k = 1 + r.below(2);
        let s1 = n.len() as u32;
        for j in 0..k {
            let mut l = LinkM::dummy();
            l.curr = s1 + j as u32;
            l.prev = if j == 0 { a as u32 } else { s1 + j as u32 - 1 };
            l.next = if j == k - 1 { b as u32 } else { s1 + j as u32 + 1 };
            n.push(l);
        }
        n[a].next_alt = s1; n[b].prev_alt = s1 + k as u32 - 1;
        tags.push("topology:siding".to_string());
    } else { tags.push("topology:line".into()); }
    let phys = n.len() - 1;
    if r.chance(0.5) {
        tags.push("flips:yes".into());
        let f = |i: u32| if i == 0 { 0 } else { i + phys as u32 };
        for i in 1..=phys {
            let o = n[i].clone();
            let mut l = LinkM::dummy();
            l.curr = f(o.curr); l.flip = o.curr;
            l.next = f(o.prev); l.next_alt = f(o.prev_alt); l.prev = f(o.next); l.prev_alt = f(o.next_alt);
            n.push(l);
            n[i].flip = f(o.curr);
        }
    } else { tags.push("flips:no".into()); }
    let total = n.len();
    for i in 1..total {
        let ncat = if multi_cat { 2 + r.below(2) } else { r.below(2) };
        let mut l = n[i].clone();
        gen_link_body(r, &mut l, ncat);
        if r.chance(0.25) { l.lockout = (0..1 + r.below(2)).map(|_| r.below(total) as u32).collect(); }
        n[i] = l;
    }
    // a reverse twin has the same length
    for i in 1..total { let f = n[i].flip as usize; if f > i { n[f].length = n[i].length; let len = n[i].length; let mut l = n[f].clone(); regen_for_len(r, &mut l, len); n[f] = l; } }
    tags.push(format!("links:{}", total));
    tags.push(format!("catenary:{}", if multi_cat { ">=2 sections on every link" } else { "<=1 section per link" }));
    if r.chance(0.3) { n[0].speed_set = Some(SpeedSetM { limits: vec![], params: vec![], head: false }); tags.push("dummy:speed_set_some_empty".into()); }
    (n, tags)
}
fn regen_for_len(_r: &mut Rng, l: &mut LinkM, len: f64) {
    // keep the profile shape but make it span the twin's length exactly
    l.elevs = vec![(0.0, l.elevs[0].1), (len, l.elevs[l.elevs.len() - 1].1)];
    if !l.headings.is_empty() { l.headings = vec![(0.0, l.headings[0].1), (len, l.headings[l.headings.len() - 1].1)]; }
    let fix = |s: &mut SpeedSetM| { for x in s.limits.iter_mut() { if x.0 > len { x.0 = 0.0; } if x.1 > len || x.1 < x.0 { x.1 = len; } } s.limits.sort_by(|x, y| x.partial_cmp(y).unwrap()); s.limits.dedup_by(|x, y| x.0 == y.0 && x.1 == y.1); };
    for (_, s) in l.speed_sets.iter_mut() { fix(s); }
    if let Some(s) = l.speed_set.as_mut() { fix(s); }
    l.cat.retain(|c| c.1 <= len);
}

// ---------------------------------------------------------------- single-fault mutations
/// what the documented rules say about the mutated network
#[derive(Clone, Copy, PartialEq, Debug)]
pub enum Expect { Reject, ModelDecides }

pub const LINK_MUTATIONS: &[&str] = &[
    "length_zero", "length_negative", "length_nan", "length_inf",
    "elevs_empty", "elevs_single", "elevs_unsorted", "elevs_duplicate_offset", "elevs_first_not_zero", "elevs_last_not_length",
    "elevs_negative_offset", "elev_nan", "elev_inf", "elev_offset_nan",
    "headings_single", "headings_unsorted", "headings_first_not_zero", "headings_last_not_length", "heading_full_turn", "heading_negative", "heading_nan",
    "speed_both_layouts", "speed_neither_layout", "speed_set_without_limits", "speed_limit_start_after_end", "speed_limit_negative_offset",
    "speed_nan", "speed_limits_duplicate_pair", "speed_limits_unsorted", "speed_limit_end_inf",
    "speed_param_negative", "speed_param_axles_fractional", "speed_params_duplicate", "speed_param_nan",
    "cat_negative_start", "cat_start_after_end", "cat_negative_power", "cat_overlap", "cat_beyond_length", "cat_power_nan", "cat_disjoint_added",
    "idx_curr_off_by_one", "idx_curr_zero", "flip_is_self", "flip_not_mutual", "flip_one_sided_to_lower", "flip_one_sided_to_higher", "flip_claims_paired_lower", "flip_equals_next", "next_not_reciprocated", "prev_not_reciprocated", "next_alt_not_reciprocated", "prev_alt_not_reciprocated",
    "next_alt_without_next", "prev_alt_without_prev", "coincident_switch_points",
    "flip_out_of_range", "next_out_of_range", "next_alt_out_of_range", "prev_out_of_range", "prev_alt_out_of_range", "ref_u32_max",
    "lockout_out_of_range", "lockout_u32_max",
];
pub const NET_MUTATIONS: &[&str] = &["net_empty", "net_only_dummy", "dummy_real_idx", "dummy_has_length", "dummy_has_elevs", "dummy_has_next",
    "dummy_speed_set_with_limits", "dummy_has_cat", "dummy_lockout_out_of_range", "dummy_removed"];

fn first_speed_set(l: &mut LinkM) -> Option<&mut SpeedSetM> {
    if let Some(s) = l.speed_set.as_mut() { return Some(s); }
    l.speed_sets.first_mut().map(|x| &mut x.1)
}

/// apply mutation `name` at link `k` (>= 1); None if not applicable to this link
pub fn mutate_link(name: &str, n: &mut Vec<LinkM>, k: usize, r: &mut Rng) -> Option<Expect> {
    let total = n.len() as u32;
    let len = n[k].length;
    let other = |k: usize, total: u32| -> u32 { let mut o = 1 + ((k as u32) % (total - 1)); if o == k as u32 { o = 1 + (o % (total - 1)); } o };
    use Expect::*;
    let l = &mut n[k];
    Some(match name {
        "length_zero" => { l.length = 0.0; Reject }
        "length_negative" => { l.length = -len; Reject }
        "length_nan" => { l.length = f64::NAN; Reject }
        "length_inf" => { l.length = f64::INFINITY; let e = l.elevs.len() - 1; l.elevs[e].0 = f64::INFINITY; if let Some(h) = l.headings.last_mut() { h.0 = f64::INFINITY; } ModelDecides }
        "elevs_empty" => { l.elevs.clear(); Reject }
        "elevs_single" => { l.elevs.truncate(1); Reject }
        "elevs_unsorted" => { if l.elevs.len() < 3 { l.elevs.insert(1, (len * 0.5, 1.0)); } l.elevs.swap(1, 2); if l.elevs[1].0 == l.elevs[2].0 { return None; } Reject }
        "elevs_duplicate_offset" => { let e = l.elevs[0]; l.elevs.insert(1, (e.0, e.1 + 1.0)); Reject }
        "elevs_first_not_zero" => { l.elevs[0].0 = (len * 0.001).min(l.elevs[1].0 * 0.5); if l.elevs[0].0 == 0.0 { return None; } Reject }
        "elevs_last_not_length" => { let e = l.elevs.len() - 1; l.elevs[e].0 = len + 1.0; Reject }
        "elevs_negative_offset" => { l.elevs[0].0 = -1.0; Reject }
        "elev_nan" => { let j = r.below(l.elevs.len()); l.elevs[j].1 = f64::NAN; Reject }
        "elev_inf" => { let j = r.below(l.elevs.len()); l.elevs[j].1 = if r.chance(0.5) { f64::INFINITY } else { f64::NEG_INFINITY }; Reject }
        "elev_offset_nan" => { let j = r.below(l.elevs.len()); l.elevs[j].0 = f64::NAN; Reject }
        "headings_single" => { if l.headings.is_empty() { l.headings = vec![(0.0, 1.0)]; } else { l.headings.truncate(1); } Reject }
        "headings_unsorted" => { if l.headings.is_empty() { return None; } if l.headings.len() < 3 { l.headings.insert(1, (len * 0.5, 1.0)); } l.headings.swap(1, 2); Reject }
        "headings_first_not_zero" => { if l.headings.is_empty() { return None; } l.headings[0].0 = (len * 0.001).min(l.headings[1].0 * 0.5); if l.headings[0].0 == 0.0 { return None; } Reject }
        "headings_last_not_length" => { if l.headings.is_empty() { return None; } let e = l.headings.len() - 1; l.headings[e].0 = len + 1.0; Reject }
        "heading_full_turn" => { if l.headings.is_empty() { return None; } l.headings[0].1 = if r.chance(0.5) { 6.283185307179586 } else { 7.0 }; Reject }
        "heading_negative" => { if l.headings.is_empty() { return None; } l.headings[0].1 = -0.5; Reject }
        "heading_nan" => { if l.headings.is_empty() { return None; } l.headings[0].1 = f64::NAN; Reject }
        "speed_both_layouts" => { if l.speed_sets.is_empty() { let s = l.speed_set.clone().unwrap(); l.speed_sets = vec![(1, s)]; } else { l.speed_set = Some(l.speed_sets[0].1.clone()); } Reject }
        "speed_neither_layout" => { l.speed_sets.clear(); l.speed_set = None; Reject }
        "speed_set_without_limits" => { let s = first_speed_set(l)?; s.limits.clear(); Reject }
        "speed_limit_start_after_end" => { let s = first_speed_set(l)?; let x = s.limits.len() - 1; s.limits[x].0 = s.limits[x].1 + 1.0; Reject }
        "speed_limit_negative_offset" => { let s = first_speed_set(l)?; s.limits[0].0 = -1.0; Reject }
        "speed_nan" => { let s = first_speed_set(l)?; s.limits[0].2 = f64::NAN; Reject }
        "speed_limits_duplicate_pair" => { let s = first_speed_set(l)?; let x = s.limits[0]; s.limits.insert(1, (x.0, x.1, x.2 + 1.0)); Reject }
        "speed_limits_unsorted" => { let s = first_speed_set(l)?; let x = s.limits[0]; s.limits.insert(0, (x.0 + 1.0, x.1 + 1.0, x.2)); Reject }
        "speed_limit_end_inf" => { let s = first_speed_set(l)?; let x = s.limits.len() - 1; s.limits[x].1 = f64::INFINITY; ModelDecides }
        "speed_param_negative" => { let s = first_speed_set(l)?; s.params.insert(0, (-1.0, 3, 1)); Reject }
        "speed_param_axles_fractional" => { let s = first_speed_set(l)?; s.params.insert(0, (7.5, 5, 1)); Reject }
        "speed_params_duplicate" => { let s = first_speed_set(l)?; s.params.insert(0, (100.0, 3, 2)); s.params.insert(0, (100.0, 3, 2)); Reject }
        "speed_param_nan" => { let s = first_speed_set(l)?; s.params.insert(0, (f64::NAN, 4, 1)); Reject }
        "cat_negative_start" => { if l.cat.is_empty() { l.cat.push((0.0, len * 0.5, 1e6)); } l.cat[0].0 = -1.0; Reject }
        "cat_start_after_end" => { if l.cat.is_empty() { l.cat.push((0.0, len * 0.5, 1e6)); } let c = l.cat[0]; l.cat[0] = (c.1 + 1.0, c.1, c.2); Reject }
        "cat_negative_power" => { if l.cat.is_empty() { l.cat.push((0.0, len * 0.5, 1e6)); } l.cat[0].2 = -1.0; Reject }
        "cat_overlap" => { l.cat = vec![(0.0, len * 0.5, 1e6), (len * 0.25, len * 0.75, 2e6)]; Reject }
        "cat_beyond_length" => { l.cat = vec![(0.0, len + 1.0, 1e6)]; Reject }
        "cat_power_nan" => { if l.cat.is_empty() { l.cat.push((0.0, len * 0.5, 1e6)); } l.cat[0].2 = f64::NAN; Reject }
        // not a fault: two disjoint sections must still be accepted
        "cat_disjoint_added" => { l.cat = vec![(0.0, len * 0.25, 1e6), (len * 0.5, len * 0.75, 2e6)]; return Some(ModelDecides); }
        "idx_curr_off_by_one" => { l.curr += 1; Reject }
        "idx_curr_zero" => { l.curr = 0; Reject }
        "flip_is_self" => { l.flip = l.curr; Reject }
        "flip_not_mutual" => { if total < 3 { return None; } let o = other(k, total); if n[o as usize].flip == k as u32 { return None; } n[k].flip = o; Reject }
        // one-sided reverse-direction claims, towards a lower- and a higher-numbered link, on a base
        // without reverse twins so that nothing else is violated
        "flip_one_sided_to_lower" => { if k < 2 || n.iter().any(|x| x.flip != 0) { return None; } let o = 1 + r.below(k - 1) as u32; n[k].flip = o; Reject }
        "flip_one_sided_to_higher" => { if (k as u32) + 1 >= total || n.iter().any(|x| x.flip != 0) { return None; } let o = k as u32 + 1 + r.below((total - 1 - k as u32) as usize) as u32; n[k].flip = o; Reject }
        // a third link claims a member of an existing pair (the pair itself stays mutual)
        "flip_claims_paired_lower" => { if k < 3 || n[k].flip == 0 { return None; } let tw = n[k].flip as usize; let cands: Vec<u32> = (1..k as u32).filter(|o| *o as usize != tw && n[*o as usize].flip != 0).collect(); if cands.is_empty() { return None; } let o = *r.pick(&cands); n[tw].flip = 0; n[k].flip = o; ModelDecides }
        "flip_equals_next" => { if l.next == 0 { return None; } l.flip = l.next; Reject }
        "next_not_reciprocated" => { if total < 3 { return None; } let o = other(k, total); let t = &n[o as usize]; if t.prev == k as u32 || t.prev_alt == k as u32 { return None; } n[k].next = o; Reject }
        "prev_not_reciprocated" => { if total < 3 { return None; } let o = other(k, total); let t = &n[o as usize]; if t.next == k as u32 || t.next_alt == k as u32 { return None; } n[k].prev = o; Reject }
        // the ALTERNATE successor / predecessor names a link that does not point back (the primary one stays as it is)
        "next_alt_not_reciprocated" => { if total < 4 || l.next == 0 || l.next_alt != 0 { return None; } let nx = l.next;
            let o = (1..total).find(|o| *o != k as u32 && *o != nx && n[*o as usize].prev != k as u32 && n[*o as usize].prev_alt != k as u32 && *o != n[k].flip)?; n[k].next_alt = o; Reject }
        "prev_alt_not_reciprocated" => { if total < 4 || l.prev == 0 || l.prev_alt != 0 { return None; } let pv = l.prev;
            let o = (1..total).find(|o| *o != k as u32 && *o != pv && n[*o as usize].next != k as u32 && n[*o as usize].next_alt != k as u32 && *o != n[k].flip)?; n[k].prev_alt = o; Reject }
        "next_alt_without_next" => { if l.next != 0 { return None; } l.next_alt = other(k, total); if total < 3 { l.next_alt = k as u32; } Reject }
        "prev_alt_without_prev" => { if l.prev != 0 { return None; } l.prev_alt = other(k, total); if total < 3 { l.prev_alt = k as u32; } Reject }
        "coincident_switch_points" => {
            // this link diverges (next_alt real) and its next link converges (prev_alt real)
            if l.next == 0 { return None; }
            let nx = l.next as usize;
            if n[k].next_alt == 0 || n[nx].prev_alt != 0 { return None; }
            n[nx].prev_alt = n[k].next_alt; Reject
        }
        "flip_out_of_range" => { l.flip = total + r.below(5) as u32; Reject }
        "next_out_of_range" => { l.next = total + r.below(5) as u32; Reject }
        "next_alt_out_of_range" => { if l.next == 0 { return None; } l.next_alt = total + r.below(5) as u32; Reject }
        "prev_out_of_range" => { l.prev = total + r.below(5) as u32; Reject }
        "prev_alt_out_of_range" => { if l.prev == 0 { return None; } l.prev_alt = total + r.below(5) as u32; Reject }
        "ref_u32_max" => { match r.below(3) { 0 => l.flip = u32::MAX, 1 => l.next = u32::MAX, _ => l.prev = u32::MAX }; Reject }
        "lockout_out_of_range" => { l.lockout.push(total + r.below(5) as u32); Reject }
        "lockout_u32_max" => { l.lockout.push(u32::MAX); Reject }
        _ => return None,
    })
}
pub fn mutate_net(name: &str, n: &mut Vec<LinkM>, _r: &mut Rng) -> Option<Expect> {
    use Expect::*;
    Some(match name {
        "net_empty" => { n.clear(); Reject }
        "net_only_dummy" => { n.truncate(1); Reject }
        "dummy_real_idx" => { n[0].curr = 1; Reject }
        "dummy_has_length" => { n[0].length = 1.0; Reject }
        "dummy_has_elevs" => { n[0].elevs = vec![(0.0, 0.0), (1.0, 0.0)]; Reject }
        "dummy_has_next" => { n[0].next = 1; Reject }
        "dummy_speed_set_with_limits" => { n[0].speed_set = Some(SpeedSetM { limits: vec![(0.0, 1.0, 5.0)], params: vec![], head: false }); Reject }
        "dummy_has_cat" => { n[0].cat = vec![(0.0, 1.0, 1e6)]; Reject }
        "dummy_lockout_out_of_range" => { let t = n.len() as u32; n[0].lockout = vec![t + 3]; Reject }
        "dummy_removed" => { n.remove(0); Reject }
        _ => return None,
    })
}

// ---------------------------------------------------------------- running the real code
#[derive(Debug, Clone, PartialEq)]
enum Out { Ok, Err(String), Panic(String) }
impl Out { fn class(&self) -> &'static str { match self { Out::Ok => "ok", Out::Err(_) => "err", Out::Panic(_) => "panic" } } }
fn run_res<T>(f: impl FnOnce() -> anyhow::Result<T>) -> Out {
    match catch(std::panic::AssertUnwindSafe(f)) { Ok(Ok(_)) => Out::Ok, Ok(Err(e)) => Out::Err(format!("{:#}", e).chars().take(300).collect()), Err(p) => Out::Panic(p.chars().take(300).collect()) }
}
fn finite(n: &[LinkM]) -> bool {
    let f = |x: f64| x.is_finite();
    n.iter().all(|l| f(l.length) && l.elevs.iter().all(|e| f(e.0) && f(e.1)) && l.headings.iter().all(|h| f(h.0) && f(h.1))
        && l.cat.iter().all(|c| f(c.0) && f(c.1) && f(c.2))
        && l.speed_sets.iter().map(|x| &x.1).chain(l.speed_set.iter()).all(|s| s.limits.iter().all(|x| f(x.0) && f(x.1) && f(x.2)) && s.params.iter().all(|p| f(p.0))))
}

/// load the network through every advertised route; returns (route, outcome) pairs
fn load_all(n: &[LinkM], case_no: usize) -> Vec<(String, Out)> {
    let links: Vec<Link> = n.iter().map(link_real).collect();
    let mut outs = vec![];
    // 1. the structs as built in memory: Network::init (what every from_* calls after parsing)
    { let l2 = links.clone(); outs.push(("init".to_string(), run_res(move || { let mut net = Network(l2); net.init() }))); }
    // 2. YAML text (carries NaN / inf)
    if let Ok(y) = serde_yaml::to_string(&Network(links.clone())) {
        outs.push(("from_yaml".into(), run_res(|| Network::from_yaml(&y))));
        // 3. a .yaml file through from_file (falls back to the legacy parser on any error)
        let p = std::env::temp_dir().join(format!("vh_c16_{}_{}.yaml", std::process::id(), case_no));
        if std::fs::write(&p, &y).is_ok() { outs.push(("from_file".into(), run_res(|| Network::from_file(&p)))); let _ = std::fs::remove_file(&p); }
    }
    // 4. JSON text (cannot carry non-finite numbers)
    if finite(n) {
        if let Ok(j) = serde_json::to_string(&Network(links.clone())) { outs.push(("from_json".into(), run_res(|| Network::from_json(&j)))); }
    }
    outs
}

/// coarse class of the rule a mutation breaks (keeps the VIOLATION lines few)
fn rule_class(m: &str) -> &str {
    if m.starts_with("cat_") || m.starts_with("w_cat") { "catenary sections" }
    else if m.contains("lockout") { "lockout reference outside the network" }
    else if m.contains("out_of_range") || m.contains("u32_max") { "link reference outside the network" }
    else if m == "none" || m == "w_valid" { "unmutated" }
    else { m }
}

fn emit(sink: &mut Sink, id: String, kind: &str, n: &[LinkM], coq: String, mut tags: Vec<String>, expect: Option<bool>, case_no: usize, mutation: &str, at: usize) {
    let outs = load_all(n, case_no);
    let mut fails = vec![];
    let first = outs[0].1.clone();
    for (route, o) in &outs {
        if o.class() != first.class() { fails.push(format!("loading routes disagree: {} gives {} but {} gives {}", outs[0].0, first.class(), route, o.class())); }
        if let Out::Panic(p) = o { fails.push(format!("{} aborts instead of returning an error value [{}]: {}", route, rule_class(mutation), p.replace('\n', " ").chars().take(60).collect::<String>())); break; }
    }
    match (expect, &first) {
        (Some(true), Out::Err(m)) => fails.push(format!("a network satisfying every documented rule is rejected [{}]: {}", rule_class(mutation), m.replace('\n', " ").chars().skip(40).take(120).collect::<String>())),
        (Some(false), Out::Ok) => fails.push(format!("a network violating a documented rule is accepted [{}]", rule_class(mutation))),
        _ => {}
    }
    tags.push(format!("expect:{}", match expect { Some(true) => "accept", Some(false) => "reject", None => "model_decides" }));
    tags.push(format!("routes:{}", outs.len()));
    let outcome = match &first { Out::Ok => Outcome::Ok(Outs::new()), Out::Err(m) => Outcome::Err(999, m.clone()), Out::Panic(p) => Outcome::Panic(p.clone()) };
    sink.put(Case { id, kind: kind.into(), coq, outcome, tags,
        input: json!({"mutation": mutation, "at_link": at, "network_yaml": serde_yaml::to_string(&Network(n.iter().map(link_real).collect())).unwrap_or_default(),
                      "routes": outs.iter().map(|(r, o)| json!({"route": r, "outcome": o.class()})).collect::<Vec<_>>()}),
        oracle_fail: fails, known: vec![], in_domain: true });
}

fn expressible(n: &[LinkM]) -> bool { n.iter().all(|l| l.speed_set.is_none()) }

/// the legacy layout: the same network written as link_old.rs expects it, loaded through
/// Network::from_file (which falls back to NetworkOld), must give the same Network
fn legacy_case(sink: &mut Sink, id: String, n: &[LinkM], mut tags: Vec<String>, expect_ok: Option<bool>, case_no: usize, mutation: &str) {
    let y = legacy_yaml(n);
    let p = std::env::temp_dir().join(format!("vh_c16_old_{}_{}.yaml", std::process::id(), case_no));
    if std::fs::write(&p, &y).is_err() { return; }
    let res = catch(std::panic::AssertUnwindSafe(|| Network::from_file(&p)));
    let _ = std::fs::remove_file(&p);
    let mut fails = vec![];
    let want = Network(n.iter().map(link_real).collect());
    let outcome = match res {
        Ok(Ok(net)) => {
            if net != want { fails.push("loading the legacy layout yields a different network than the current layout".to_string()); }
            if expect_ok == Some(false) { fails.push(format!("a legacy-layout network violating a documented rule is accepted [{}]", rule_class(mutation))); }
            Outcome::Ok(Outs::new())
        }
        Ok(Err(e)) => {
            let m: String = format!("{:#}", e).chars().take(300).collect();
            if expect_ok == Some(true) { fails.push(format!("a legacy-layout network satisfying every documented rule is rejected [{}]", rule_class(mutation))); }
            Outcome::Err(999, m)
        }
        Err(pn) => { fails.push(format!("from_file (legacy layout) aborts instead of returning an error value [{}]: {}", rule_class(mutation), pn.replace('\n', " ").chars().take(60).collect::<String>())); Outcome::Panic(pn) }
    };
    tags.push("layout:legacy".into());
    tags.push(format!("expect:{}", match expect_ok { Some(true) => "accept", Some(false) => "reject", None => "model_decides" }));
    sink.put(Case { id, kind: "legacy".into(), coq: format!("x_validate_legacy [{}]", n.iter().map(coq_link_old).collect::<Vec<_>>().join("; ")),
        outcome, tags, input: json!({"mutation": mutation, "legacy_yaml": y}), oracle_fail: fails, known: vec![], in_domain: true });
}

/// `ObjState for Link::validate` on one link (public trait method)
fn link_case(sink: &mut Sink, id: String, l: &LinkM, tags: Vec<String>, mutation: &str, expect: Option<bool>) {
    let real = link_real(l);
    let res = catch(std::panic::AssertUnwindSafe(|| real.validate()));
    let mut fails = vec![];
    let outcome = match res {
        Ok(Ok(())) => { if expect == Some(false) { fails.push(format!("Link::validate accepts a link violating a documented rule [{}]", rule_class(mutation))); } Outcome::Ok(Outs::new()) }
        Ok(Err(e)) => { if expect == Some(true) { fails.push(format!("Link::validate rejects a link satisfying every documented rule [{}]", rule_class(mutation))); } Outcome::Err(999, format!("{:?}", e).chars().take(300).collect()) }
        Err(p) => { fails.push(format!("Link::validate aborts [{}]: {}", mutation, p.chars().take(100).collect::<String>())); Outcome::Panic(p) }
    };
    sink.put(Case { id, kind: "link".into(), coq: format!("x_validate_link {}", coq_link(l)), outcome, tags,
        input: json!({"mutation": mutation, "link_yaml": serde_yaml::to_string(&real).unwrap_or_default()}), oracle_fail: fails, known: vec![], in_domain: true });
}

/// the witness networks of coq/proofs/C16P.v, replayed on the real code
fn witness_cases(sink: &mut Sink, made: &mut usize) {
    let speed = SpeedSetM { limits: vec![(0.0, 100.0, 20.0)], params: vec![], head: false };
    let link = |curr: u32, flip: u32, next: u32, prev: u32, cat: Vec<(f64, f64, f64)>, lock: Vec<u32>| LinkM {
        curr, flip, next, next_alt: 0, prev, prev_alt: 0, length: 100.0, elevs: vec![(0.0, 5.0), (100.0, 6.0)], headings: vec![],
        speed_sets: vec![(1, speed.clone())], speed_set: None, cat, lockout: lock };
    let cat = |a: f64, b: f64| (a, b, 1e6);
    let nets: Vec<(&str, Vec<LinkM>, bool)> = vec![
        ("w_valid", vec![LinkM::dummy(), link(1, 3, 2, 0, vec![cat(0.0, 40.0), cat(40.0, 100.0)], vec![3]), link(2, 4, 0, 1, vec![], vec![]),
            link(3, 1, 0, 4, vec![], vec![]), link(4, 2, 3, 0, vec![], vec![])], true),
        ("w_out_of_range", vec![LinkM::dummy(), link(1, 0, 7, 0, vec![], vec![])], false),
        ("w_cat_disjoint", vec![LinkM::dummy(), link(1, 0, 0, 0, vec![cat(0.0, 10.0), cat(20.0, 30.0)], vec![])], true),
        ("w_cat_overlap", vec![LinkM::dummy(), link(1, 0, 0, 0, vec![cat(0.0, 20.0), cat(10.0, 30.0)], vec![])], false),
        ("w_bad_lockout", vec![LinkM::dummy(), link(1, 0, 0, 0, vec![], vec![9])], false),
    ];
    for (name, n, ok) in nets {
        emit(sink, format!("witness/{}", name), "witness", &n, format!("x_validate {}", coq_net(&n)), vec![format!("witness:{}", name)], Some(ok), *made, name, 1);
        *made += 1;
    }
}

pub fn run(seed: u64, n_cases: usize, sink: &mut Sink) {
    let mut r = Rng::new(seed ^ 0xC16);
    let mut made = 0usize;
    let mut t = 0usize;
    witness_cases(sink, &mut made);
    while made < n_cases {
        // one valid network in eight has two or more catenary sections on every link (the code in
        // /repo rejects those: finding (i)); the others have at most one so that the remaining
        // rules are exercised independently of that defect
        let multi_cat = t % 8 == 7;
        let (base, tags) = gen_valid(&mut r, multi_cat);
        emit(sink, format!("net{}/valid", t), "valid", &base, format!("x_validate {}", coq_net(&base)), tags.clone(), Some(true), made, "none", 0); made += 1;
        if expressible(&base) { legacy_case(sink, format!("net{}/valid/legacy", t), &base, tags.clone(), Some(true), made, "none"); made += 1; }
        else {
            // the same topology (switches, reverse twins, lock-outs) made expressible in the legacy layout
            let mut lb = base.clone();
            for (i, l) in lb.iter_mut().enumerate() { if let Some(ss) = l.speed_set.take() { if i > 0 { l.speed_sets = vec![(1, ss)]; } } }
            let mut tg = tags.clone(); tg.push("legacy:speed_set_dropped".into());
            legacy_case(sink, format!("net{}/valid/legacy_topology", t), &lb, tg, Some(true), made, "none"); made += 1;
        }
        link_case(sink, format!("net{}/valid/link1", t), &base[1], tags.clone(), "none", Some(true)); made += 1;
        // every link mutation at every link
        for (mi, m) in LINK_MUTATIONS.iter().enumerate() {
            for k in 1..base.len() {
                if made >= n_cases { break; }
                // in the quick tier not every (mutation, link) pair of every network: a rotating third, every pair over three networks
                if (mi + k + t) % 3 != 0 && base.len() > 3 { continue; }
                let mut n = base.clone();
                let mut rr = r.fork();
                if let Some(exp) = mutate_link(m, &mut n, k, &mut rr) {
                    // "model decides" mutations are not run on the multi-section bases (which the code in /repo rejects anyway)
                    if multi_cat && exp == Expect::ModelDecides && *m != "cat_disjoint_added" { continue; }
                    let mut tg = tags.clone(); tg.push(format!("mutation:{}", m));
                    let expect = if *m == "cat_disjoint_added" { Some(true) } else if exp == Expect::Reject { Some(false) } else { None };
                    emit(sink, format!("net{}/{}/{}", t, m, k), "mutation", &n, format!("x_validate {}", coq_net(&n)), tg.clone(), expect, made, m, k); made += 1;
                    if k == 1 + (t % (base.len() - 1)) && !m.starts_with("idx") && !m.contains("range") && !m.contains("recipro") && !m.contains("flip") && !m.contains("switch") && !m.contains("lockout") && !m.contains("u32") && !m.contains("_alt_") {
                        link_case(sink, format!("net{}/{}/{}/link", t, m, k), &n[k], tg.clone(), m, expect); made += 1;
                    }
                    if expressible(&n) && (mi + t) % 7 == 0 { legacy_case(sink, format!("net{}/{}/{}/legacy", t, m, k), &n, tg, expect, made, m); made += 1; }
                }
            }
        }
        for m in NET_MUTATIONS {
            if made >= n_cases { break; }
            let mut n = base.clone();
            let mut rr = r.fork();
            if let Some(_) = mutate_net(m, &mut n, &mut rr) {
                let mut tg = tags.clone(); tg.push(format!("mutation:{}", m));
                emit(sink, format!("net{}/{}", t, m), "mutation", &n, format!("x_validate {}", coq_net(&n)), tg, Some(false), made, m, 0); made += 1;
            }
        }
        t += 1;
    }
}
