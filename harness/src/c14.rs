//! C14 -- a set-speed run follows its trace; wheel power is inertia plus resistance, clipped.
//! Kinds: `ss_step` (lock-step on SetSpeedTrainSim::step over irregular traces; all TrainState fields
//! are emitted, C14 compares time/speed/dt and the power/energy group), `ss_hist` (oracle on every
//! row of every run: row n is the trace's n-th sample), `ss_reject` (malformed stream: traces with a
//! negative sample, traces whose time and speed vectors differ in length).
use crate::c12::{emit_hist, emit_steps, ss_opts};
use crate::train::*;
use crate::util::*;
use altrios_core::prelude::*;
use serde_json::json;

/// independent restatement of the wheel-power law for the row saved at step k
pub fn oracle_c14(ctx: &RunCtx, s: &StepRec, p: &Post) -> Vec<String> {
    let mut f = Vec::new();
    let i = s.pre.i;
    if i == 0 || i >= ctx.times.len() || i >= ctx.speeds.len() { return f; }
    let (t_i, t_p, v_i, v_p) = (ctx.times[i], ctx.times[i - 1], ctx.speeds[i], ctx.speeds[i - 1]);
    let dt = t_i - t_p;
    let st = &p.st;
    if st.time.value != t_i { f.push(format!("time after step {} is {} but the trace says {}", i, st.time.value, t_i)); }
    if st.speed.value != v_i { f.push(format!("speed after step {} is {} but the trace says {}", i, st.speed.value, v_i)); }
    if st.dt.value != dt { f.push(format!("dt after step {} is {} but the trace's step is {}", i, st.dt.value, dt)); }
    if st.i != i + 1 { f.push(format!("step counter {} after step {}", st.i, i)); }
    if let Some(cl) = &s.cl {
        let res_net = st.res_rolling.value + st.res_bearing.value + st.res_davis_b.value + st.res_aero.value + st.res_grade.value + st.res_curve.value;
        let mc = st.mass_static.value + st.mass_rot.value;
        let mean = 0.5 * (v_i + v_p);
        let p_res = res_net * mean;
        // rate of change of the kinetic energy of the compound mass
        let p_acc = if dt != 0.0 { (0.5 * mc * v_i * v_i - 0.5 * mc * v_p * v_p) / dt } else { f64::NAN };
        let pos = cl[0].min((s.pre.pwr_whl_out.value + cl[1] * s.pre.dt.value).max(0.0));
        let neg = cl[2].max(0.0);
        let want = (p_acc + p_res).max(-neg).min(pos);
        let scale = 1e-9 * (p_acc.abs() + p_res.abs() + pos.abs() + 1.0);
        if dt != 0.0 {
            if (st.pwr_res.value - p_res).abs() > scale { f.push(format!("pwr_res {} != res_net * mean speed = {}", st.pwr_res.value, p_res)); }
            if (st.pwr_accel.value - p_acc).abs() > scale { f.push(format!("pwr_accel {} != d/dt of the compound mass's kinetic energy = {}", st.pwr_accel.value, p_acc)); }
            if (st.pwr_whl_out.value - want).abs() > scale { f.push(format!("pwr_whl_out {} != clip(-dyn_brake_max, traction ceiling, inertia + resistance) = {}", st.pwr_whl_out.value, want)); }
        }
        if st.pwr_whl_out.value > pos + scale || st.pwr_whl_out.value < -neg - scale { f.push(format!("pwr_whl_out {} outside [-{}, {}]", st.pwr_whl_out.value, neg, pos)); }
        let e = st.pwr_whl_out.value * dt;
        let etol = 1e-9 * (st.energy_whl_out.value.abs() + e.abs() + 1.0);
        if (st.energy_whl_out.value - (s.pre.energy_whl_out.value + e)).abs() > etol { f.push(format!("energy_whl_out {} != previous {} + power * trace dt {}", st.energy_whl_out.value, s.pre.energy_whl_out.value, e)); }
        let (dpos, dneg) = if st.pwr_whl_out.value >= 0.0 { (e, 0.0) } else { (0.0, -e) };
        if (st.energy_whl_out_pos.value - (s.pre.energy_whl_out_pos.value + dpos)).abs() > etol { f.push(format!("energy_whl_out_pos {} != previous {} + {}", st.energy_whl_out_pos.value, s.pre.energy_whl_out_pos.value, dpos)); }
        if (st.energy_whl_out_neg.value - (s.pre.energy_whl_out_neg.value + dneg)).abs() > etol { f.push(format!("energy_whl_out_neg {} != previous {} + {}", st.energy_whl_out_neg.value, s.pre.energy_whl_out_neg.value, dneg)); }
    }
    f
}

/// which bound of the clip was active, and whether the ramp term (previous step's dt) set the ceiling
fn tags_c14(ctx: &RunCtx, s: &StepRec) -> Vec<String> {
    let mut t = vec![];
    if let (Ok(p), Some(cl)) = (&s.post, &s.cl) {
        let ramp = (s.pre.pwr_whl_out.value + cl[1] * s.pre.dt.value).max(0.0);
        let pos = cl[0].min(ramp); let neg = cl[2].max(0.0);
        let raw = p.st.pwr_accel.value + p.st.pwr_res.value;
        t.push(format!("clip:{}", if raw > pos { if ramp < cl[0] { "ceiling_ramp_term(previous dt)" } else { "ceiling_pwr_out_max" } } else if raw < -neg { "floor_dyn_brake_max" } else { "none" }));
        let i = s.pre.i;
        if i >= 1 && i < ctx.times.len() {
            let dt = ctx.times[i] - ctx.times[i - 1];
            t.push(format!("dt_vs_previous:{}", if dt == s.pre.dt.value { "same" } else if dt > s.pre.dt.value { "longer" } else { "shorter" }));
        }
    }
    t
}

fn reject_cases(r: &mut Rng, n: usize, sink: &mut Sink) {
    for k in 0..n {
        let mut rr = r.fork();
        let mode = k % 4; // 0: negative at index >= 1, 1: negative first sample, 2: time vector shorter, 3: speed vector shorter
        let mut o = ss_opts(&mut rr, k, true);
        o.n_steps = 12 + rr.below(20); o.init = 0; o.overrun = false; o.default_consist = true;
        let at = if mode == 0 { 1 + rr.below(o.n_steps - 1) } else { 0 };
        if mode <= 1 { o.negative_at = Some(at); }
        let mut ctx = ss_run_with(&mut rr, format!("rej{}", k), &o, mode);
        ctx.tags.push(format!("malformed:{}", ["negative_sample", "negative_first_sample", "time_vector_shorter", "speed_vector_shorter"][mode]));
        // the property: a trace containing a negative speed is rejected (an error value, no step taken
        // with the negative sample)
        let mut fails = vec![];
        let last = ctx.steps.last();
        let rejected = matches!(last.map(|s| &s.post), Some(Err((c, _))) if *c == 1202);
        // a violation is a step ACCEPTED with the negative sample (as its new or as its previous speed), or a run that
        // completed; a run that stopped with another error before it ever reached the negative sample was rejected all the
        // same and took no step with it (an earlier version of this oracle demanded the negative-speed error itself and
        // raised a false alarm on such a run: seed 9, case ss_reject/24)
        let used = ctx.finished_ok || ctx.steps.iter().any(|s| s.post.is_ok() && (s.pre.i == at || s.pre.i == at + 1));
        if mode <= 1 && !rejected && used {
            fails.push(format!("trace with negative speed {} at sample {} was not rejected: the run {} ({} steps taken)", ctx.speeds[at], at,
                if ctx.finished_ok { "completed" } else { "ended otherwise" }, ctx.steps.len()));
        }
        // emit the deciding step as a lock-step case (the step that meets the negative sample / the short vector)
        let idx = if mode == 1 { 0 } else { ctx.steps.len().saturating_sub(1) };
        if let Some(s) = ctx.steps.get(idx) {
            let mut tags = ctx.tags.clone();
            match &s.post { Ok(_) => tags.push("result:ok".into()), Err((-1, _)) => tags.push("result:panic".into()), Err((c, _)) => tags.push(format!("result:err{}", c)) }
            let coq = if consist_failed(s) { String::new() } else { ss_coq(&ctx, s) };
            sink.put(Case { id: format!("ss_reject/{}", k), kind: "ss_reject".into(), coq, outcome: step_outcome(s), tags,
                input: json!({"run": ctx.input, "step": s.k}), oracle_fail: fails, known: vec![], in_domain: false });
        }
    }
}

/// like ss_run, with the malformed variants that need access to the trace vectors
fn ss_run_with(r: &mut Rng, id: String, o: &SsOpts, mode: usize) -> RunCtx {
    if mode <= 1 { return ss_run(r, id, o); }
    ss_run_short(r, id, o, mode == 2)
}

pub fn run(seed: u64, n: usize, sink: &mut Sink) {
    let mut r = Rng::new(seed ^ 0xC14);
    let n_rej = (n / 12).max(4);
    reject_cases(&mut r, n_rej, sink);
    let per_run = 30;
    let n_runs = ((n - n_rej) / per_run).max(2);
    for t in 0..n_runs {
        let mut rr = r.fork();
        let mut o = ss_opts(&mut rr, t, t % 5 != 4);
        // init 2 (the state's clock AND speed differ from the trace's first sample) is kept for every second such run: the
        // trace, not the state, supplies the previous speed of the first step
        if o.init == 2 && t % 2 == 1 { o.init = 1; }
        if t % 6 == 2 { o.init = 4; }
        // every fourth run starts with a state clock that differs from the trace's first time stamp
        if o.init == 1 && t % 4 == 1 { o.init = 3; }
        if o.init == 0 && t % 8 == 3 { o.init = 3; }
        let ctx = ss_run(&mut rr, format!("ss{}", t), &o);
        emit_steps(&mut rr, &ctx, true, per_run, sink, &oracle_c14, &tags_c14);
        emit_hist(&ctx, true, sink, &oracle_c14);
    }
}
