//! Meet-pass scenarios (C04, C05, C15): generated networks (single track with passing sidings, a
//! junction family, lock-out declarations at switches), generated trains, and the exact Coq
//! printing of networks, estimated-time networks and plans.  Everything derives from a `Rng`.
use crate::util::*;
use altrios_core::meet_pass::disp_structs::EstType;
use altrios_core::meet_pass::est_times::{make_est_times, EstTime, EstTimeNet};
use altrios_core::track::{Link, LinkIdx, Location, Network, PathTpc, TrainParams};
use altrios_core::train::SpeedLimitTrainSim;
use altrios_core::traits::SerdeAPI;
use altrios_core::uc;
use altrios_core::validate::Valid;
use serde_json::{json, Value};

// ------------------------------------------------------------------ network specification
/// One physical track segment, described in its "forward" (west to east) direction.
#[derive(Clone, Debug)]
pub struct Seg {
    pub len: f64,
    pub speed: f64,
    /// forward successors (segment ids), primary first; at most two
    pub succ: Vec<usize>,
    /// lock-out group: all directed links of the segments sharing a group (>0) exclude each other
    pub group: usize,
    pub role: &'static str,
    /// list the forward predecessors in reverse order (which of two joining links is `idx_prev`)
    pub swap_pred: bool,
}

#[derive(Clone, Debug)]
pub struct NetSpec {
    pub family: String,
    pub segs: Vec<Seg>,
    /// forward-direction entry segments (west end) and exit segments (east end)
    pub west: Vec<usize>,
    pub east: Vec<usize>,
    /// directed link index of (segment, forward?) -- a permutation of 1..=2*segs
    pub fwd_idx: Vec<usize>,
    pub rev_idx: Vec<usize>,
    /// elevation of the west end of every segment and of its east end
    pub elev_w: Vec<f64>,
    pub elev_e: Vec<f64>,
    /// lock-out declaration style: 0 none, 1 both directions of the other foul links, 2 same direction only
    pub lockout_style: usize,
    /// malformed stream: extra (directed link, lock-out entry) pairs appended verbatim -- used to declare
    /// lock-outs that network validation accepts although they name no link of the network
    pub extra_lockout: Vec<(usize, usize)>,
}

impl NetSpec {
    pub fn n_links(&self) -> usize { 2 * self.segs.len() + 1 }
    pub fn to_json(&self) -> Value {
        json!({"family": self.family, "segs": self.segs.iter().map(|s| json!({"len": fjson(s.len), "speed": fjson(s.speed),
            "succ": s.succ, "group": s.group, "role": s.role, "swap_pred": s.swap_pred})).collect::<Vec<_>>(), "west": self.west, "east": self.east,
            "fwd_idx": self.fwd_idx, "rev_idx": self.rev_idx, "elev_w": fjson_l(&self.elev_w), "elev_e": fjson_l(&self.elev_e),
            "lockout_style": self.lockout_style, "extra_lockout": self.extra_lockout})
    }
}

impl NetSpec {
    /// inverse of `to_json` (corpus scenarios are stored in that form)
    pub fn from_json(v: &Value) -> Option<NetSpec> {
        let us = |x: &Value| -> Option<Vec<usize>> { x.as_array()?.iter().map(|y| y.as_u64().map(|z| z as usize)).collect() };
        let role = |r: &str| -> &'static str { match r { "west" => "west", "west_a" => "west_a", "west_b" => "west_b", "trunk" => "trunk", "main" => "main", "foul" => "foul",
            "sid_main" => "sid_main", "sid_side" => "sid_side", "east_a" => "east_a", "east_b" => "east_b", _ => "other" } };
        let segs: Option<Vec<Seg>> = v["segs"].as_array()?.iter().map(|s| Some(Seg { len: jf(&s["len"]), speed: jf(&s["speed"]), succ: us(&s["succ"])?,
            group: s["group"].as_u64()? as usize, role: role(s["role"].as_str()?), swap_pred: s["swap_pred"].as_bool()? })).collect();
        Some(NetSpec { family: v["family"].as_str()?.to_string(), segs: segs?, west: us(&v["west"])?, east: us(&v["east"])?, fwd_idx: us(&v["fwd_idx"])?, rev_idx: us(&v["rev_idx"])?,
            elev_w: jfl(&v["elev_w"]), elev_e: jfl(&v["elev_e"]), lockout_style: v["lockout_style"].as_u64()? as usize,
            extra_lockout: v["extra_lockout"].as_array()?.iter().filter_map(|p| Some((p.get(0)?.as_u64()? as usize, p.get(1)?.as_u64()? as usize))).collect() })
    }
}
impl TrainSpec {
    pub fn from_json(v: &Value) -> Option<TrainSpec> {
        let us = |x: &Value| -> Option<Vec<usize>> { x.as_array()?.iter().map(|y| y.as_u64().map(|z| z as usize)).collect() };
        Some(TrainSpec { id: v["id"].as_str()?.to_string(), eastbound: v["eastbound"].as_bool()?, origs: us(&v["origs"])?, dests: us(&v["dests"])?,
            length: jf(&v["length"]), depart: jf(&v["depart"]), speed_max: v.get("speed_max").and_then(|x| if x.is_null() { None } else { Some(jf(x)) }) })
    }
}

fn pick2(v: &[usize]) -> (usize, usize) {
    (v.first().copied().unwrap_or(0), v.get(1).copied().unwrap_or(0))
}

/// The `Vec<Link>` described by a spec, as the JSON the real `Network::from_json` reads (so the
/// network goes through the real deserialisation and validation).
pub fn spec_links_json(sp: &NetSpec) -> Value {
    let n = sp.segs.len();
    let mut pred: Vec<Vec<usize>> = vec![vec![]; n];
    for (i, s) in sp.segs.iter().enumerate() { for &j in &s.succ { pred[j].push(i); } }
    for (i, s) in sp.segs.iter().enumerate() { if s.swap_pred { pred[i].reverse(); } }
    let mut links = vec![Value::Null; 2 * n + 1];
    links[0] = json!({"idx_curr": 0, "idx_flip": 0, "idx_next": 0, "idx_next_alt": 0, "idx_prev": 0, "idx_prev_alt": 0,
        "elevs": [], "headings": [], "length": 0.0});
    for (i, s) in sp.segs.iter().enumerate() {
        let group_links = |same_dir_fwd: bool| -> Vec<usize> {
            if s.group == 0 || sp.lockout_style == 0 { return vec![]; }
            let mut v = vec![];
            for (j, t) in sp.segs.iter().enumerate() {
                if j != i && t.group == s.group {
                    match sp.lockout_style {
                        1 => { v.push(sp.fwd_idx[j]); v.push(sp.rev_idx[j]); }
                        _ => { v.push(if same_dir_fwd { sp.fwd_idx[j] } else { sp.rev_idx[j] }); }
                    }
                }
            }
            v
        };
        let speed_set = json!({"speed_limits": [{"offset_start": 0.0, "offset_end": s.len, "speed": s.speed}], "is_head_end": false});
        // forward link
        let (nx, nxa) = pick2(&s.succ.iter().map(|&j| sp.fwd_idx[j]).collect::<Vec<_>>());
        let (pv, pva) = pick2(&pred[i].iter().map(|&j| sp.fwd_idx[j]).collect::<Vec<_>>());
        links[sp.fwd_idx[i]] = json!({"idx_curr": sp.fwd_idx[i], "idx_flip": sp.rev_idx[i], "idx_next": nx, "idx_next_alt": nxa,
            "idx_prev": pv, "idx_prev_alt": pva, "length": s.len,
            "elevs": [{"offset": 0.0, "elev": sp.elev_w[i]}, {"offset": s.len, "elev": sp.elev_e[i]}], "headings": [],
            "speed_set": speed_set, "link_idxs_lockout": group_links(true)});
        // reverse link: successors are the flips of the forward predecessors
        let (nx, nxa) = pick2(&pred[i].iter().map(|&j| sp.rev_idx[j]).collect::<Vec<_>>());
        let (pv, pva) = pick2(&s.succ.iter().map(|&j| sp.rev_idx[j]).collect::<Vec<_>>());
        links[sp.rev_idx[i]] = json!({"idx_curr": sp.rev_idx[i], "idx_flip": sp.fwd_idx[i], "idx_next": nx, "idx_next_alt": nxa,
            "idx_prev": pv, "idx_prev_alt": pva, "length": s.len,
            "elevs": [{"offset": 0.0, "elev": sp.elev_e[i]}, {"offset": s.len, "elev": sp.elev_w[i]}], "headings": [],
            "speed_set": speed_set, "link_idxs_lockout": group_links(false)});
    }
    for &(l, x) in &sp.extra_lockout {
        if let Some(a) = links[l]["link_idxs_lockout"].as_array_mut() { a.push(json!(x)); }
    }
    Value::Array(links)
}

pub fn build_network(sp: &NetSpec) -> anyhow::Result<Network> {
    Network::from_json(spec_links_json(sp).to_string())
}

/// Generate a network specification.
/// family 0: single track, `k` passing sidings (0..=4); 1: junction family (two western and/or two
/// eastern branches, optional sidings on the trunk); `foul`: short foul links at the switches with
/// lock-out declarations.
pub fn gen_spec(r: &mut Rng, family: usize, k: usize, foul: bool, shuffle: bool) -> NetSpec {
    let mut segs: Vec<Seg> = vec![];
    let speed_base = *r.pick(&[8.0, 12.0, 18.0, 25.0]);
    let spd = |r: &mut Rng| -> f64 { if r.chance(0.7) { speed_base } else { *r.pick(&[6.0, 10.0, 15.0, 22.0]) } };
    let mut group = 0usize;
    let add = |segs: &mut Vec<Seg>, len: f64, speed: f64, group: usize, role: &'static str| -> usize {
        segs.push(Seg { len, speed, succ: vec![], group, role, swap_pred: false }); segs.len() - 1
    };
    let main_len = |r: &mut Rng| -> f64 { (r.range(3000.0, 12000.0) / 10.0).round() * 10.0 };
    // terminal segments are usually long enough for the longest generated train (5000 m)
    let term_len = |r: &mut Rng| -> f64 { if r.chance(0.85) { (r.range(5200.0, 14000.0) / 10.0).round() * 10.0 } else { (r.range(1500.0, 5000.0) / 10.0).round() * 10.0 } };
    let sid_len = |r: &mut Rng| -> f64 { *r.pick(&[800.0, 1500.0, 2500.0, 4000.0]) + (r.below(50) as f64) * 10.0 };
    // west end: one terminal, or two branches joining
    let mut west = vec![];
    let mut heads: Vec<usize>; // segments whose `succ` must be connected to what comes next
    let two_w = family == 1 && r.chance(0.7);
    let two_e = family == 1 && (!two_w || r.chance(0.6));
    if two_w {
        let a = add(&mut segs, term_len(r), spd(r), 0, "west_a");
        let b = add(&mut segs, term_len(r), spd(r), 0, "west_b");
        west.push(a); west.push(b);
        let j = add(&mut segs, main_len(r), spd(r), 0, "trunk");
        segs[a].succ.push(j); segs[b].succ.push(j);
        heads = vec![j];
    } else {
        let a = add(&mut segs, term_len(r), spd(r), 0, "west");
        west.push(a);
        heads = vec![a];
        if k == 0 && !two_e {
            let b = add(&mut segs, main_len(r), spd(r), 0, "main");
            segs[a].succ = vec![b];
            heads = vec![b];
        }
    }
    for si in 0..k {
        let stem = heads[0];
        let nxt_len = if si + 1 == k && !two_e { term_len(r) } else { main_len(r) };
        let lm = sid_len(r);
        let ls = if r.chance(0.5) { lm } else { sid_len(r) };
        let (vm, vs) = (spd(r), spd(r).min(15.0));
        // primary branch: main or siding first (both orders occur in real data)
        let main_first = r.chance(0.7);
        let (m, s);
        if foul {
            group += 1; let g1 = group; group += 1; let g2 = group;
            let fl = *r.pick(&[60.0, 100.0, 150.0]);
            let fm1 = add(&mut segs, fl, vm, g1, "foul");
            let fs1 = add(&mut segs, fl, vs, g1, "foul");
            m = add(&mut segs, lm, vm, 0, "sid_main");
            s = add(&mut segs, ls, vs, 0, "sid_side");
            let fm2 = add(&mut segs, fl, vm, g2, "foul");
            let fs2 = add(&mut segs, fl, vs, g2, "foul");
            if main_first { segs[stem].succ = vec![fm1, fs1]; } else { segs[stem].succ = vec![fs1, fm1]; }
            segs[fm1].succ = vec![m]; segs[fs1].succ = vec![s];
            segs[m].succ = vec![fm2]; segs[s].succ = vec![fs2];
            let nxt = add(&mut segs, nxt_len, spd(r), 0, "main");
            segs[fm2].succ = vec![nxt]; segs[fs2].succ = vec![nxt];
            segs[nxt].swap_pred = r.chance(0.3);
            heads = vec![nxt];
        } else {
            m = add(&mut segs, lm, vm, 0, "sid_main");
            s = add(&mut segs, ls, vs, 0, "sid_side");
            if main_first { segs[stem].succ = vec![m, s]; } else { segs[stem].succ = vec![s, m]; }
            let nxt = add(&mut segs, nxt_len, spd(r), 0, "main");
            segs[m].succ = vec![nxt]; segs[s].succ = vec![nxt];
            segs[nxt].swap_pred = r.chance(0.3);
            heads = vec![nxt];
        }
    }
    let mut east = vec![];
    if two_e {
        let stem = heads[0];
        let a = add(&mut segs, term_len(r), spd(r), 0, "east_a");
        let b = add(&mut segs, term_len(r), spd(r), 0, "east_b");
        segs[stem].succ = vec![a, b];
        east.push(a); east.push(b);
    } else {
        east.push(heads[0]);
    }
    let n = segs.len();
    // index permutation
    let mut perm: Vec<usize> = (1..=2 * n).collect();
    if shuffle {
        for i in (1..perm.len()).rev() { let j = r.below(i + 1); perm.swap(i, j); }
    } else {
        // forward links first, then the flips in reverse order (as in the shipped corridor file)
        perm = (1..=n).chain((n + 1..=2 * n).rev()).collect();
    }
    let fwd_idx: Vec<usize> = perm[..n].to_vec();
    let rev_idx: Vec<usize> = perm[n..].to_vec();
    // elevations: node potential along the forward direction with gentle grades; both branches of a
    // siding must meet again at the same elevation, so the grade is applied per "stage".
    let mut elev_w = vec![0.0; n];
    let mut elev_e = vec![0.0; n];
    let grade = if r.chance(0.4) { 0.0 } else { r.range(-0.004, 0.004) };
    // process in index order (construction order is topological); an east-end elevation already fixed by a
    // sibling (same successor) is reused.
    let mut fixed_w: Vec<Option<f64>> = vec![None; n];
    for i in 0..n {
        let w = fixed_w[i].unwrap_or(0.0);
        elev_w[i] = w;
        // siblings sharing a successor must agree on the east elevation
        let mut e = w + grade * segs[i].len;
        if let Some(&j) = segs[i].succ.first() { if let Some(x) = fixed_w[j] { e = x; } }
        elev_e[i] = (e * 1000.0).round() / 1000.0;
        for &j in &segs[i].succ { if fixed_w[j].is_none() { fixed_w[j] = Some(elev_e[i]); } }
    }
    let lockout_style = if foul { if r.chance(0.75) { 1 } else { 2 } } else { 0 };
    NetSpec { family: (if family == 0 { "line" } else { "junction" }).to_string(), segs, west, east, fwd_idx, rev_idx, elev_w, elev_e, lockout_style, extra_lockout: vec![] }
}

// ------------------------------------------------------------------ trains
#[derive(Clone, Debug)]
pub struct TrainSpec {
    pub id: String,
    pub eastbound: bool,
    pub origs: Vec<usize>,   // directed link indices
    pub dests: Vec<usize>,
    pub length: f64,
    pub depart: f64,
    /// the train's own maximum speed [m/s] (None: the fixture's)
    pub speed_max: Option<f64>,
}
impl TrainSpec {
    pub fn to_json(&self) -> Value {
        json!({"id": self.id, "eastbound": self.eastbound, "origs": self.origs, "dests": self.dests,
               "length": fjson(self.length), "depart": fjson(self.depart), "speed_max": self.speed_max.map(fjson)})
    }
}

fn loc(link: usize) -> Location {
    Location { location_id: format!("L{}", link), offset: 0.0 * uc::M, link_idx: LinkIdx::new(link as u32), is_front_end: false,
        grid_emissions_region: String::new(), electricity_price_region: String::new(), liquid_fuel_price_region: String::new() }
}

/// The same construction as `speed_limit_train_sim_fwd()` in altrios-core (valid train simulation,
/// fresh path), with our origins/destinations, length and departure time.
pub fn build_train(t: &TrainSpec) -> SpeedLimitTrainSim {
    let mut s = SpeedLimitTrainSim::valid();
    s.train_id = t.id.clone();
    let mut tp = TrainParams::valid();
    tp.length = t.length * uc::M;
    if let Some(v) = t.speed_max { tp.speed_max = v * uc::MPS; }
    s.path_tpc = PathTpc::new(tp);
    s.state.length = t.length * uc::M;
    s.state.offset = t.length * uc::M;
    s.state.time = t.depart * uc::S;
    s.origs = t.origs.iter().map(|&l| loc(l)).collect();
    s.dests = t.dests.iter().map(|&l| loc(l)).collect();
    s
}

pub fn gen_train(r: &mut Rng, sp: &NetSpec, k: usize, depart: f64) -> TrainSpec {
    let eastbound = r.chance(0.5);
    let pickset = |r: &mut Rng, v: &[usize]| -> Vec<usize> {
        if v.len() == 1 || r.chance(0.4) { v.to_vec() } else { vec![*r.pick(v)] }
    };
    let (w, e) = (pickset(r, &sp.west), pickset(r, &sp.east));
    let (origs, dests) = if eastbound {
        (w.iter().map(|&i| sp.fwd_idx[i]).collect(), e.iter().map(|&i| sp.fwd_idx[i]).collect())
    } else {
        (e.iter().map(|&i| sp.rev_idx[i]).collect(), w.iter().map(|&i| sp.rev_idx[i]).collect())
    };
    let length = *r.pick(&[400.0, 1000.0, 2000.0, 2000.0, 3000.0, 5000.0]);
    TrainSpec { id: format!("T{}", k + 1), eastbound, origs, dests, length, depart, speed_max: None }
}

// ------------------------------------------------------------------ Coq printing
pub fn et_code(t: EstType) -> usize { match t { EstType::Arrive => 0, EstType::Clear => 1, EstType::Fake => 2 } }

/// `mkL next next_alt prev prev_alt flip [lockouts]`
pub fn coq_links(net: &[Link]) -> String {
    let ls: Vec<String> = net.iter().map(|l| format!("mkL {} {} {} {} {} [{}]", l.idx_next.idx(), l.idx_next_alt.idx(), l.idx_prev.idx(),
        l.idx_prev_alt.idx(), l.idx_flip.idx(), l.link_idxs_lockout.iter().map(|x| x.idx().to_string()).collect::<Vec<_>>().join(";"))).collect();
    format!("[{}]%nat", ls.join("; "))
}
pub fn coq_nats(v: &[usize]) -> String { format!("[{}]%nat", v.iter().map(|x| x.to_string()).collect::<Vec<_>>().join(";")) }

pub fn est_json(e: &EstTime) -> Value {
    json!([fjson(e.time_sched.value), fjson(e.time_to_next.value), fjson(e.dist_to_next.value), fjson(e.speed.value),
        e.idx_next, e.idx_next_alt, e.idx_prev, e.idx_prev_alt, e.link_event.link_idx.idx(), et_code(e.link_event.est_type)])
}
