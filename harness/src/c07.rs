//! C07 -- train resistance forces equal their physical definitions at every position.
//! Kinds: `calc_idx` (LinSearchHint::calc_idx directly: all three directions, hints at / before /
//! beyond the true index, positions on knots, sentinel tables, malformed tables), `update_res`
//! (TrainRes::update_res directly along forward, backward and hypothesis-violating position
//! sequences, with path extension and `finish()` in between), `aggregate` (TrainSimBuilder's
//! per-car aggregation), `ss_step` / `sl_step` (lock-step inside real runs; the force saved at step k
//! is paired with the position and speed saved at step k-1), `ss_hist` / `sl_hist` (oracle on all rows).
use crate::c12::{emit_hist, emit_steps, sl_opts, ss_opts};
use crate::train::*;
use crate::util::*;
use altrios_core::lin_search_hint::{Dir, LinSearchHint};
use altrios_core::prelude::*;
use altrios_core::track::PathResCoeff;
use altrios_core::train::ResMethod;
use altrios_core::traits::Mass;
use altrios_core::uc;
use serde_json::json;

const G: f64 = 9.801_548_494_963_14;
const RHO: f64 = 1.225;

/// slope of the raw network's elevation profile at path position x under the forward convention
/// (segment with start < x <= end); None when x is within 1e-6 m of a knot or outside the route
pub fn grade_at(rt: &Route, x: f64) -> Option<f64> {
    let mut base = 0.0;
    for li in &rt.path {
        let l = &rt.network[li.idx()];
        let len = l.length.value;
        if x > base && x <= base + len {
            if l.elevs.is_empty() { if (x - base).abs() < 1e-6 || (x - base - len).abs() < 1e-6 { return None; } return Some(0.0); }
            let xo = x - base;
            for w in l.elevs.windows(2) {
                if (xo - w[0].offset.value).abs() < 1e-6 || (xo - w[1].offset.value).abs() < 1e-6 { return None; }
                if xo > w[0].offset.value && xo <= w[1].offset.value {
                    return Some((w[1].elev.value - w[0].elev.value) / (w[1].offset.value - w[0].offset.value));
                }
            }
            return None;
        }
        base += len;
    }
    None
}

/// The property on one evaluation: `post` holds the forces computed for a train whose front was at
/// `front` with speed `speed`.
pub fn oracle_res(rt: &Route, path: &PathTpc, rp: &[f64; 4], front: f64, speed: f64, post: &TrainState) -> Vec<String> {
    let mut f = Vec::new();
    let len = post.length.value; let back = front - len;
    let w = post.mass_static.value * G;
    let ftol = 1e-9 * w.abs().max(1.0);
    let chk = |name: &str, got: f64, want: f64, tol: f64, f: &mut Vec<String>| {
        if !((got - want).abs() <= tol + 1e-9 * want.abs()) { f.push(format!("{}: reported {} but its definition gives {}", name, got, want)); }
    };
    chk("weight_static (g * static mass)", post.weight_static.value, w, 0.0, &mut f);
    chk("res_bearing (per-axle total)", post.res_bearing.value, rp[0], 0.0, &mut f);
    chk("res_rolling (ratio * weight)", post.res_rolling.value, rp[1] * w, ftol * 1e-3, &mut f);
    chk("res_davis_b (coefficient * speed * weight)", post.res_davis_b.value, rp[2] * speed * w, ftol * 1e-3, &mut f);
    chk("res_aero (cd_area * rho * speed^2)", post.res_aero.value, rp[3] * RHO * speed * speed, ftol * 1e-3, &mut f);
    let end = path.link_points().last().map(|l| l.offset.value).unwrap_or(0.0);
    if back >= -1e-9 && front <= end + 1e-9 && len > 0.0 {
        if let (Some(ef), Some(eb)) = (elev_at(rt, front), elev_at(rt, back.max(0.0))) {
            let want = w * (ef - eb) / len;
            let tol = w / len * 1e-9 * (ef.abs() + eb.abs() + 1.0);
            chk("res_grade (weight * elevation difference front-rear / length)", post.res_grade.value, want, tol, &mut f);
            chk("elev_front (track elevation at the front)", post.elev_front.value, ef, 1e-9 * (ef.abs() + 1.0), &mut f);
        }
        let cf_ = cum_at(path.curves(), front); let cb_ = cum_at(path.curves(), back);
        chk("res_curve (weight * cumulative curve resistance difference / length)", post.res_curve.value, w * (cf_ - cb_) / len,
            w / len * 1e-9 * (cf_.abs() + cb_.abs() + 1.0), &mut f);
        if let Some(gf) = grade_at(rt, front) { chk("grade_front (track grade at the front)", post.grade_front.value, gf, 1e-9, &mut f); }
        if back > 0.0 { if let Some(gb) = grade_at(rt, back) { chk("grade_back (track grade at the rear)", post.grade_back.value, gb, 1e-9, &mut f); } }
    }
    f
}

fn gen_table(r: &mut Rng, m: usize, sentinel: bool) -> Vec<[f64; 3]> {
    let mut t = vec![];
    let mut off = if r.chance(0.7) { 0.0 } else { r.range(0.0, 100.0).round() };
    let mut net = r.range(-50.0, 500.0);
    for _ in 0..m {
        let len = if r.chance(0.4) { r.lrange(0.5, 40.0) } else { r.lrange(50.0, 15000.0) };
        let len = (len * 4.0).round() / 4.0 + 0.25;
        let c = match r.below(6) { 0 => 0.0, 1 => 0.025, 2 => -0.025, _ => r.range(-0.025, 0.025) };
        t.push([off, c, net]);
        net += c * len; off += len;
    }
    t.push([off, 0.0, net]);
    if sentinel { t.push([f64::INFINITY, 0.0, net]); }
    t
}
fn to_prc(t: &[[f64; 3]]) -> Vec<PathResCoeff> {
    t.iter().map(|p| PathResCoeff { offset: uc::M * p[0], res_coeff: uc::R * p[1], res_net: uc::M * p[2] }).collect()
}

fn calc_idx_cases(r: &mut Rng, n: usize, sink: &mut Sink) {
    for k in 0..n {
        let malformed = k % 9 == 8;
        let m = 1 + r.below(9);
        let sent = r.chance(0.3);
        let mut t = gen_table(r, m, sent);
        let mut tags = vec![];
        if malformed {
            match r.below(4) {
                0 => { t.clear(); tags.push("malformed:empty".to_string()); }
                1 => { t.truncate(1); tags.push("malformed:single_entry".into()); }
                2 => { let a = r.below(t.len()); let b = r.below(t.len()); t.swap(a, b); tags.push("malformed:unsorted".into()); }
                _ => { let a = 1 + r.below(t.len() - 1); t[a][0] = t[a - 1][0]; tags.push("malformed:duplicate_offset".into()); }
            }
        }
        let nt = t.len();
        let finite: Vec<f64> = t.iter().map(|p| p[0]).filter(|x| x.is_finite()).collect();
        let (lo, hi) = if finite.is_empty() { (0.0, 1.0) } else { (finite[0], finite[finite.len() - 1]) };
        let x = match r.below(9) {
            0 if !finite.is_empty() => { tags.push("x:on_knot".into()); *r.pick(&finite) }
            1 if !finite.is_empty() => { tags.push("x:just_after_knot".into()); let o = *r.pick(&finite); o + o.abs().max(1.0) * 1e-12 }
            2 if !finite.is_empty() => { tags.push("x:just_before_knot".into()); let o = *r.pick(&finite); o - o.abs().max(1.0) * 1e-12 }
            3 => { tags.push("x:first".into()); lo }
            4 => { tags.push("x:last_finite".into()); hi }
            5 => { tags.push("x:beyond_last_finite".into()); hi + r.range(0.1, 100.0) }
            6 => { tags.push("x:before_first".into()); lo - r.range(0.1, 100.0) }
            _ => { tags.push("x:inside".into()); r.range(lo, hi) }
        };
        let dir = match r.below(5) { 0 | 1 => Dir::Fwd, 2 | 3 => Dir::Bwd, _ => Dir::Unk };
        let prc = to_prc(&t);
        // the true index by position only
        let truth = if nt >= 2 { seg_at(&prc, x) } else { 0 };
        let (hint, hkind) = match r.below(8) {
            0 => (0usize, "zero"),
            1 | 2 => (truth, "at_true_index"),
            3 => (truth.saturating_sub(1 + r.below(3)), "before"),
            4 => ((truth + 1 + r.below(3)).min(nt.saturating_sub(1)), "after"),
            5 => (nt.saturating_sub(1), "last_entry"),
            6 => (nt + r.below(3), "out_of_range"),
            _ => (r.below(nt.max(1)), "random"),
        };
        tags.push(format!("dir:{}", coq_dir(&dir))); tags.push(format!("hint:{}", hkind));
        let valid_hint = match dir { Dir::Bwd => hint + 1 < nt && x <= t[hint + 1][0], _ => hint + 1 < nt && (hint == 0 || t[hint][0] < x) };
        let in_dom = !malformed && nt >= 2 && valid_hint;
        let prc2 = prc.clone();
        let dcoq = coq_dir(&dir);
        let res = catch(std::panic::AssertUnwindSafe(move || { let s: &[PathResCoeff] = &prc2; s.calc_idx(uc::M * x, hint, &dir) }));
        let mut fails = vec![];
        let outcome = match res {
            Ok(Ok(i)) => {
                tags.push("result:ok".into());
                if in_dom {
                    // the result's closed segment holds x; strictly inside a segment it is the unique index
                    let ok_seg = i + 1 < nt && (i == 0 || t[i][0] <= x) && x <= t[i + 1][0];
                    if !ok_seg { fails.push(format!("calc_idx returned {} but x = {} is not in [off_i, off_i+1] = [{}, {}]", i, x, t[i][0], t.get(i + 1).map(|p| p[0]).unwrap_or(f64::NAN))); }
                    let on_knot = t.iter().any(|p| p[0] == x);
                    if !on_knot && x > lo && i != truth { fails.push(format!("calc_idx returned {} but the segment holding x = {} is {}", i, x, truth)); }
                }
                let mut o = Outs::new(); o.z("r.idx", i as i64); Outcome::Ok(o)
            }
            Ok(Err(e)) => { let (c, m) = train_err_code(&e); tags.push(format!("result:err{}", c)); Outcome::Err(c, m) }
            Err(p) => { tags.push("result:panic".into()); Outcome::Panic(p) }
        };
        sink.put(Case { id: format!("calc_idx/{}", k), kind: "calc_idx".into(),
            coq: format!("x_calc_idx {} {} {} {}", coq_prcs_raw(&t), cf(x), cnat(hint), dcoq), outcome, tags,
            input: json!({"table": t.iter().map(|p| fjson_l(p)).collect::<Vec<_>>(), "x": fjson(x), "hint": hint, "dir": dcoq}),
            oracle_fail: fails, known: vec![], in_domain: in_dom });
    }
}

/// direct evaluation sequences on the train_res / path of a freshly built simulation
fn update_res_cases(r: &mut Rng, n: usize, sink: &mut Sink) {
    let mut made = 0usize; let mut t = 0usize;
    while made < n {
        let mut rr = r.fork();
        let r = &mut rr;
        let train = gen_train(r, [0, 1, 2][t % 3], true);
        let tl = train.length();
        let route = gen_route(r, [0, 1, 2, 1][t % 4], tl + 800.0, 25.0);
        let b = builder(&train, None, false);
        // supply only part of the route first, the rest is added while the sequence runs
        let split = if t % 3 == 0 && route.path.len() >= 2 {
            let mut acc = 0.0; let mut k = 0; while k < route.path.len() && acc < tl + 300.0 { acc += route.network[route.path[k].idx()].length.value; k += 1; } k.min(route.path.len()) } else { route.path.len() };
        let made_sim = catch(std::panic::AssertUnwindSafe(|| b.make_set_speed_train_sim_and_parts(&route.network, &route.path[..split].to_vec(), SpeedTrace::new(vec![0.0, 1.0], vec![0.0, 0.0], None), None)));
        let (sim, mut path, mut tr) = match made_sim { Ok(Ok((s, _, p, tr, _))) => (s, p, tr), _ => { t += 1; if t > 10 * n + 50 { break; } continue; } };
        let rp = res_params(&tr);
        let mut st = sim.state;
        let mode = t % 4; // 0,1 forward; 2 backward (Unk then Bwd); 3 forward with a regression (violates the hypothesis)
        let finish = t % 5 == 4;
        let mut extended = split == route.path.len();
        let mut x = tl;
        let nsteps = 6 + r.below(10).min(n - made);
        let mut base_tags = route.tags.clone(); base_tags.extend(train.tags.clone());
        base_tags.push(format!("seq:{}", ["forward", "forward", "backward", "forward_with_regression"][mode]));
        if finish { path.finish(); base_tags.push("path:finished(sentinel)".into()); }
        let mut regressed = false;
        // last position the implementation accepted (its index caches stand there)
        let mut x_acc: Option<f64> = None;
        if mode == 2 { x = path.offset_end().value; }
        for s in 0..nsteps {
            if made >= n { break; }
            let end = path.offset_end().value;
            let dir = if mode == 2 { if s == 0 { Dir::Unk } else { Dir::Bwd } } else { Dir::Fwd };
            if mode == 2 && s > 0 {
                let d = match r.below(5) { 0 => 0.0, 1 => r.lrange(0.01, 5.0), 2 => r.lrange(5.0, 200.0), _ => r.lrange(100.0, 6000.0) };
                x = if r.chance(0.08) { tl - r.range(0.1, 50.0) } else { (x - d).max(tl) };
            } else if mode != 2 && s > 0 {
                if !extended && !finish && x > end - 400.0 {
                    let _ = path.extend(&route.network, &route.path[split..].to_vec()); extended = true;
                }
                let end = path.offset_end().value;
                let d = match r.below(6) { 0 => 0.0, 1 => r.lrange(0.01, 5.0), 2 => r.lrange(5.0, 200.0), 3 => (end - x) * r.range(0.2, 1.0), _ => r.lrange(100.0, 6000.0) };
                if mode == 3 && s == nsteps / 2 { x = (x - r.lrange(50.0, 3000.0)).max(tl); regressed = true; }
                else { x = if r.chance(0.06) { end + r.range(0.1, 50.0) } else { (x + d).min(end) }; }
            }
            let v = if r.chance(0.2) { 0.0 } else { r.range(0.0, 25.0) };
            st.offset = uc::M * x; st.speed = uc::MPS * v;
            // a position behind (Fwd) / ahead of (Bwd) the last accepted one violates the direction hypothesis
            // (it happens here after an out-of-range probe beyond a sentinel was accepted and x is clamped back)
            if let Some(xa) = x_acc { if (matches!(dir, Dir::Fwd) && x < xa) || (matches!(dir, Dir::Bwd) && x > xa) { regressed = true; } }
            let pre = st; let pre_cache = res_cache(&tr);
            let res = catch(std::panic::AssertUnwindSafe(|| tr.update_res(&mut st, &path, &dir)));
            if matches!(res, Ok(Ok(()))) { x_acc = Some(x); }
            let mut tags = base_tags.clone();
            if regressed { tags.push("seq:direction_hypothesis_violated".into()); }
            tags.push(format!("dir:{}", coq_dir(&dir)));
            let in_dom = !regressed && x >= tl && x <= path.offset_end().value;
            let mut fails = vec![];
            let outcome = match res {
                Ok(Ok(())) => {
                    tags.push("result:ok".into());
                    let post_cache = res_cache(&tr);
                    if pre_cache[0] != post_cache[0] || pre_cache[1] != post_cache[1] { tags.push(format!("grade_cache_moved:{}", bucket((post_cache[0] as i64 - pre_cache[0] as i64).unsigned_abs() as usize + (post_cache[1] as i64 - pre_cache[1] as i64).unsigned_abs() as usize))); }
                    tags.push(format!("train_spans_segments:{}", bucket(post_cache[0] - post_cache[1].min(post_cache[0]))));
                    if in_dom {
                        fails = oracle_res(&route, &path, &rp, x, v, &st);
                        if (st.offset_back.value - (x - st.length.value)).abs() > 1e-9 * x.abs().max(1.0) { fails.push(format!("offset_back {} != front {} - length {}", st.offset_back.value, x, st.length.value)); }
                    }
                    let mut o = outs_tstate(&st); outs_cache(&mut o, &post_cache); Outcome::Ok(o)
                }
                Ok(Err(e)) => { let (c, m) = train_err_code(&e); tags.push(format!("result:err{}", c)); st = pre; Outcome::Err(c, m) }
                Err(p) => { tags.push("result:panic".into()); st = pre; Outcome::Panic(p) }
            };
            sink.put(Case { id: format!("update_res/{}/{}", t, s), kind: "update_res".into(),
                coq: format!("x_update_res {} {} {} {} {} {}", coq_prcs(path.grades()), coq_prcs(path.curves()), coq_rp(&rp), coq_tstate(&pre), coq_cache(&pre_cache), coq_dir(&dir)),
                outcome, tags, input: json!({"route": route_json(&route), "train": train_json(&train), "sequence_mode": mode, "step": s, "front": fjson(x), "speed": fjson(v)}),
                oracle_fail: fails, known: vec![], in_domain: in_dom });
            made += 1;
        }
        t += 1;
    }
}

fn aggregate_cases(r: &mut Rng, n: usize, sink: &mut Sink) {
    for k in 0..n {
        let sz = r.below(3);
        let train = gen_train(r, sz, k % 3 != 2);
        let route = gen_route(r, 3, 0.0, 25.0);
        let mut b = builder(&train, None, false);
        // every third train carries a TrainConfig.train_mass override (replaces the cars' summed mass; the locomotives are still added)
        let ov: Option<f64> = if k % 3 == 1 { Some(r.lrange(2e5, 2e7).floor()) } else { None };
        b.train_config.train_mass = ov.map(|m| uc::KG * m);
        let made = catch(std::panic::AssertUnwindSafe(|| b.make_set_speed_train_sim_and_parts(&route.network, &route.path, SpeedTrace::new(vec![0.0, 1.0], vec![0.0, 0.0], None), None)));
        let (sim, tr, fbk) = match made { Ok(Ok((s, _, _, tr, fbk))) => (s, tr, fbk), _ => continue };
        let rp = res_params(&tr);
        let loco_mass = train.consist.mass().ok().flatten().map(|m| m.value).unwrap_or(0.0);
        let total: u32 = train.n_cars.values().sum();
        let cars = train.rvs.iter().map(|rv| format!("Build_Car {} {} {} {} {} {} {} {} {} {} {}",
            cf(train.n_cars[&rv.car_type] as f64), cf(rv.length.value), cf(rv.axle_count as f64), cf(rv.mass_static_base.value),
            cf(rv.mass_freight.value), cf(rv.braking_ratio.value), cf(rv.mass_rot_per_axle.value), cf(rv.bearing_res_per_axle.value),
            cf(rv.rolling_ratio.value), cf(rv.davis_b.value), cf(rv.cd_area.value))).collect::<Vec<_>>().join("; ");
        let s = &sim.state;
        let mut o = Outs::new();
        o.f("agg.length", s.length.value, 1.0); o.f("agg.mass_static", s.mass_static.value, 1.0); o.f("agg.mass_rot", s.mass_rot.value, 1.0);
        o.f("agg.mass_freight", s.mass_freight.value, 1.0); o.f("agg.fric_brake.force_max", fbk.force_max.value, 1.0);
        o.f("agg.bearing", rp[0], 1.0); o.f("agg.rolling", rp[1], 1e-6); o.f("agg.davis_b", rp[2], 1e-9); o.f("agg.cd_area", rp[3], 1.0);
        // oracle: static mass = cars + locomotives; weight follows in update_res
        let mut fails = vec![];
        let cars_mass: f64 = train.rvs.iter().map(|rv| (rv.mass_static_base.value + rv.mass_freight.value) * train.n_cars[&rv.car_type] as f64).sum();
        let sum_mass = cars_mass; let cars_mass = ov.unwrap_or(sum_mass);
        if !close(s.mass_static.value, cars_mass + loco_mass, 1e-12, 0.0) { fails.push(format!("static mass {} != cars{} {} + locomotives {}", s.mass_static.value, if ov.is_some() { " (train_mass override)" } else { "" }, cars_mass, loco_mass)); }
        let roll: f64 = train.rvs.iter().map(|rv| rv.rolling_ratio.value * (rv.mass_static_base.value + rv.mass_freight.value) * train.n_cars[&rv.car_type] as f64).sum::<f64>() / cars_mass;
        if !close(rp[1], roll, 1e-12, 0.0) { fails.push(format!("rolling coefficient {} != mass-weighted mean {}", rp[1], roll)); }
        // the other train-level coefficients: per-axle bearing total, mass-weighted Davis-B, summed drag area
        let nc = |rv: &RailVehicle| train.n_cars[&rv.car_type] as f64;
        let bearing: f64 = train.rvs.iter().map(|rv| rv.bearing_res_per_axle.value * rv.axle_count as f64 * nc(rv)).sum();
        if !close(rp[0], bearing, 1e-12, 0.0) { fails.push(format!("bearing resistance {} != per-axle total over all cars {}", rp[0], bearing)); }
        let davis: f64 = train.rvs.iter().map(|rv| rv.davis_b.value * (rv.mass_static_base.value + rv.mass_freight.value) * nc(rv)).sum::<f64>() / cars_mass;
        if !close(rp[2], davis, 1e-12, 1e-15) { fails.push(format!("Davis-B coefficient {} != mass-weighted mean {}", rp[2], davis)); }
        let cda: f64 = train.rvs.iter().map(|rv| rv.cd_area.value * nc(rv)).sum();
        if !close(rp[3], cda, 1e-12, 0.0) { fails.push(format!("drag area {} != sum over all cars {}", rp[3], cda)); }
        let mut tags = train.tags.clone(); tags.push("result:ok".into()); tags.push(format!("train_mass_override:{}", ov.is_some()));
        sink.put(Case { id: format!("aggregate/{}", k), kind: "aggregate".into(),
            coq: format!("x_aggregate_ov {} [{}] {} {}", match ov { Some(m) => format!("(Some {})", cf(m)), None => "None".into() }, cars, cf(total as f64), cf(loco_mass)), outcome: Outcome::Ok(o), tags,
            input: json!({"train": train_json(&train), "loco_mass": fjson(loco_mass), "train_mass_override": ov}), oracle_fail: fails, known: vec![], in_domain: true });
    }
}

/// the force saved at step k (post) belongs to the position and speed saved at step k-1 (pre)
fn oracle_c07(ctx: &RunCtx, s: &StepRec, p: &Post) -> Vec<String> {
    oracle_res(&ctx.route, &ctx.envs[s.ver].path, &ctx.rp, s.pre.offset.value, s.pre.speed.value, &p.st)
}
fn tags_c07(_ctx: &RunCtx, s: &StepRec) -> Vec<String> {
    let mut t = vec![];
    if let Ok(p) = &s.post {
        let moved = (p.cache[0] as i64 - s.pre_cache[0] as i64).unsigned_abs() as usize + (p.cache[1] as i64 - s.pre_cache[1] as i64).unsigned_abs() as usize;
        t.push(format!("grade_cache_moved:{}", bucket(moved)));
        t.push(format!("train_spans_segments:{}", bucket(p.cache[0].saturating_sub(p.cache[1]))));
    }
    if s.ver > 0 { t.push("after_path_extension".into()); }
    t
}

pub fn run(seed: u64, n: usize, sink: &mut Sink) {
    let mut r = Rng::new(seed ^ 0xC07);
    let n_idx = n / 4; let n_upd = n / 4; let n_agg = n / 20;
    calc_idx_cases(&mut r, n_idx, sink);
    update_res_cases(&mut r, n_upd, sink);
    aggregate_cases(&mut r, n_agg, sink);
    let per_run = 20;
    let n_runs = ((n - n_idx - n_upd - n_agg) / (2 * per_run)).max(2);
    for t in 0..n_runs {
        let mut rr = r.fork();
        let o = ss_opts(&mut rr, t, t % 2 == 0);
        let ctx = ss_run(&mut rr, format!("ss{}", t), &o);
        emit_steps(&mut rr, &ctx, true, per_run, sink, &oracle_c07, &tags_c07);
        emit_hist(&ctx, true, sink, &oracle_c07);
    }
    for t in 0..n_runs {
        let mut rr = r.fork();
        let o = sl_opts(&mut rr, t);
        let ctx = sl_run(&mut rr, format!("sl{}", t), &o);
        emit_steps(&mut rr, &ctx, false, per_run, sink, &oracle_c07, &tags_c07);
        emit_hist(&ctx, false, sink, &oracle_c07);
    }
}
