(* MassP.v -- proofs about coq/model/MassParams.v (C20).
   Facts that only depend on the shape of the code are proved for every carrier (hence for
   binary64 too); facts that need arithmetic (the value resolved by a side effect reproduces the
   requested mass / force exactly) are proved at the real-number instance. *)
From Coq Require Import Reals Lra List Bool ZArith Lia.
From AltModel Require Import Num MassParams.
From AltProofs Require Import NumR.
Import ListNotations.

(* ------------------------------------------------------------------ generic part *)
Section Generic.
  Context {F : Type} {NO : NumOps F}.
  Notation Comp := (Comp (F:=F)). Notation LocoM := (LocoM (F:=F)).

  (* the getter is its own consistency check *)
  Lemma comp_getter_consistent (c : Comp) m d :
    comp_mass c = Ok (Some m) -> comp_derived c = Some d -> almost_eq m d = true.
  Proof. unfold comp_mass. intros H Hd. rewrite Hd in H. destruct (cm_mass c) as [m'|]; [|discriminate].
    destruct (almost_eq m' d) eqn:E; inversion H; subst; auto. Qed.

  Lemma comp_mass_is_field (c : Comp) r : comp_mass c = Ok r -> r = cm_mass c.
  Proof. unfold comp_mass. destruct (comp_derived c), (cm_mass c); try (intros H; inversion H; auto; fail).
    destruct (almost_eq _ _); intros H; inversion H; auto. Qed.

  (* ---- each side-effect option does exactly what it says (post-state of an accepted call) *)
  Lemma comp_set_mass_to_none (c : Comp) se :
    comp_set_mass c None se = ({| cm_mass := None; cm_spec := None; cm_ext := cm_ext c |}, Ok tt).
  Proof. unfold comp_set_mass. destruct (comp_derived c); reflexivity. Qed.

  Lemma comp_set_mass_underived (c : Comp) m se : comp_derived c = None ->
    comp_set_mass c (Some m) se = ({| cm_mass := Some m; cm_spec := cm_spec c; cm_ext := cm_ext c |}, Ok tt).
  Proof. unfold comp_set_mass. intros ->. reflexivity. Qed.

  Lemma comp_set_mass_same (c : Comp) m d se : comp_derived c = Some d -> neqb d m = true ->
    comp_set_mass c (Some m) se = ({| cm_mass := Some m; cm_spec := cm_spec c; cm_ext := cm_ext c |}, Ok tt).
  Proof. unfold comp_set_mass. intros -> ->. reflexivity. Qed.

  Lemma comp_set_mass_extensive (c : Comp) m d sp : comp_derived c = Some d -> neqb d m = false -> cm_spec c = Some sp ->
    comp_set_mass c (Some m) MS_Extensive = ({| cm_mass := Some m; cm_spec := Some sp; cm_ext := nmul sp m |}, Ok tt).
  Proof. unfold comp_set_mass. intros -> -> ->. reflexivity. Qed.
  Lemma comp_set_mass_intensive (c : Comp) m d : comp_derived c = Some d -> neqb d m = false ->
    comp_set_mass c (Some m) MS_Intensive = ({| cm_mass := Some m; cm_spec := Some (ndiv (cm_ext c) m); cm_ext := cm_ext c |}, Ok tt).
  Proof. unfold comp_set_mass. intros -> ->. reflexivity. Qed.
  Lemma comp_set_mass_none (c : Comp) m d : comp_derived c = Some d -> neqb d m = false ->
    comp_set_mass c (Some m) MS_None = ({| cm_mass := Some m; cm_spec := None; cm_ext := cm_ext c |}, Ok tt).
  Proof. unfold comp_set_mass. intros -> ->. reflexivity. Qed.

  (* a component setter never fails and always installs the requested mass *)
  Lemma comp_set_mass_accepts (c : Comp) new se :
    snd (comp_set_mass c new se) = Ok tt /\ cm_mass (fst (comp_set_mass c new se)) = new.
  Proof. unfold comp_set_mass, comp_derived. destruct (cm_spec c) as [sp|], new as [m|]; cbn; auto.
    destruct (neqb _ _); cbn; auto. destruct se; cbn; auto. Qed.

  (* ---- locomotive getters *)
  Lemma loco_mass_consistent (l : LocoM) m d :
    loco_mass l = Ok (Some m) -> loco_derived l = Ok (Some d) -> forall m', lm_mass l = Some m' ->
    m = m' /\ almost_eq m' d = true.
  Proof. unfold loco_mass. intros H Hd m' Hm. rewrite Hd in H; cbn in H. rewrite Hm in H.
    destruct (almost_eq m' d) eqn:E; inversion H; subst; auto. Qed.

  Lemma loco_force_consistent (l : LocoM) f :
    loco_force_max l = Ok f -> f = lm_force l /\
    forall mu m, lm_mu l = Some mu -> lm_mass l = Some m -> almost_eq f (nmul (nmul mu m) grav) = true.
  Proof. unfold loco_force_max, loco_check_force. intros H.
    destruct (lm_mu l) as [mu|] eqn:Eu, (lm_mass l) as [m|] eqn:Em; cbn in H;
      try (inversion H; subst; split; auto; intros; discriminate).
    destruct (almost_eq (lm_force l) _) eqn:E; cbn in H; inversion H; subst. split; auto.
    intros ? ? X Y; inversion X; inversion Y; subst; auto. Qed.

  Lemma loco_mu_consistent (l : LocoM) u :
    loco_mu l = Ok u -> u = lm_mu l /\ loco_check_force l = Ok tt.
  Proof. unfold loco_mu. destruct (loco_check_force l) as [[]| |]; cbn; intros H; inversion H; auto. Qed.

  (* ---- set_force_max / set_mu: the options that cannot fail do exactly what they say *)
  Lemma set_force_set_mu_to_none (l : LocoM) f :
    loco_set_force_max l f FS_SetMuToNone = (with_mu (with_force l f) None, Ok tt).
  Proof. reflexivity. Qed.
  Lemma set_force_set_mass_to_none (l : LocoM) f :
    loco_set_force_max l f FS_SetMassToNone = (with_mass (with_force l f) None, Ok tt).
  Proof. reflexivity. Qed.
  Lemma set_force_set_both_to_none (l : LocoM) f :
    loco_set_force_max l f FS_SetMassAndMuToNone = (with_mass (with_mu (with_force l f) None) None, Ok tt).
  Proof. reflexivity. Qed.
  Lemma set_force_update_mu (l : LocoM) f :
    loco_set_force_max l f FS_UpdateMu =
    (with_mu (with_force l f) (match lm_mass l with Some m => Some (ndiv f (nmul m grav)) | None => None end), Ok tt).
  Proof. reflexivity. Qed.
  Lemma set_mu_set_mass_to_none (l : LocoM) u :
    loco_set_mu l u US_SetMassToNone = (with_mass (with_mu l (Some u)) None, Ok tt).
  Proof. reflexivity. Qed.
  Lemma set_mu_force_max (l : LocoM) u l' :
    loco_set_mu l u US_ForceMax = (l', Ok tt) ->
    exists m, loco_mass (with_mu l (Some u)) = Ok (Some m) /\ l' = with_force (with_mu l (Some u)) (nmul (nmul u grav) m).
  Proof. unfold loco_set_mu; cbv zeta. destruct (loco_mass (with_mu l (Some u))) as [[m|]| |]; intros H; inversion H; eauto. Qed.

  (* ---- set_mass at the locomotive level: what an accepted call has done *)
  Lemma loco_set_mass_accepted (l : LocoM) new se l' :
    loco_set_mass l new se = (l', Ok tt) ->
    se = MS_None /\
    exists l2 mu m, loco_mu l2 = Ok (Some mu) /\ loco_mass l2 = Ok (Some m) /\
      l' = with_force l2 (nmul (nmul mu m) grav) /\
      (forall nm, new = Some nm -> lm_mass l2 = Some nm) /\ lm_mu l2 = lm_mu l.
  Proof. unfold loco_set_mass. destruct se; try (intros H; inversion H; fail).
    destruct (loco_derived l) as [d| |]; try (intros H; inversion H; fail).
    destruct new as [nm|].
    - set (l1 := match d with Some dm => if negb (neqb dm nm) then loco_expunge l else l | None => l end).
      destruct (loco_mu (with_mass l1 (Some nm))) as [[mu|]| |] eqn:Eu; try (intros H; inversion H; fail).
      destruct (loco_mass (with_mass l1 (Some nm))) as [[m|]| |] eqn:Em; try (intros H; inversion H; fail).
      intros H; inversion H; subst l'. split; auto. exists (with_mass l1 (Some nm)), mu, m.
      repeat split; auto; try (intros ? X; inversion X; subst; reflexivity).
      unfold l1. destruct d as [dm|]; [destruct (negb (neqb dm nm))|]; reflexivity.
    - destruct d as [dm|]; try (intros H; inversion H; fail).
      destruct (loco_mu (with_mass l (Some dm))) as [[mu|]| |] eqn:Eu; try (intros H; inversion H; fail).
      destruct (loco_mass (with_mass l (Some dm))) as [[m|]| |] eqn:Em; try (intros H; inversion H; fail).
      intros H; inversion H; subst l'. split; auto. exists (with_mass l (Some dm)), mu, m.
      repeat split; auto; try (intros ? X; discriminate). Qed.

  (* rejected calls return an error value (trivially: the result type has nothing else) and a
     side effect other than None is always rejected at the locomotive level, leaving it untouched *)
  Lemma loco_set_mass_other_side_effect_rejected (l : LocoM) new se :
    se <> MS_None -> loco_set_mass l new se = (l, Err 2030).
  Proof. destruct se; try congruence; reflexivity. Qed.

  (* ---- consist: mass and force are the sums over the units *)
  Lemma mapM_res_Forall2 {A B} (f : A -> res B) (l : list A) (r : list B) :
    Forall2 (fun x y => f x = Ok y) l r -> mapM_res f l = Ok r.
  Proof. induction 1 as [|x y l r H _ IH]; cbn; auto. rewrite H; cbn. rewrite IH; cbn. reflexivity. Qed.

  Lemma consist_mass_sum (ls : list LocoM) (ms : list F) :
    ls <> [] -> Forall2 (fun l m => loco_mass l = Ok (Some m)) ls ms ->
    consist_mass ls = Ok (Some (fold_left (fun acc m => nadd m acc) ms n0)).
  Proof. intros Hne H. unfold consist_mass. destruct ls as [|l0 t]; [congruence|].
    inversion H as [|? m0 ? mt H0 Ht]; subst. rewrite H0; cbn [bind is_none].
    rewrite (mapM_res_Forall2 loco_mass (l0 :: t) (map Some (m0 :: mt))).
    2:{ clear -H. induction H; cbn; constructor; auto. }
    cbn [bind].
    assert (forallb (fun m : option F => Bool.eqb (is_none m) false) (map Some (m0 :: mt)) = true) as ->.
    { apply forallb_forall. intros x Hx. apply in_map_iff in Hx. destruct Hx as (y & <- & _). reflexivity. }
    f_equal. f_equal. generalize (m0 :: mt) (@n0 F NO). induction l as [|a l IH]; intros acc; cbn; auto. Qed.

  Lemma consist_mass_none (ls : list LocoM) :
    ls <> [] -> Forall (fun l => loco_mass l = Ok None) ls -> consist_mass ls = Ok None.
  Proof. intros Hne H. unfold consist_mass. destruct ls as [|l0 t]; [congruence|].
    inversion H as [|? ? H0 Ht]; subst. rewrite H0; cbn [bind is_none].
    rewrite (mapM_res_Forall2 loco_mass (l0 :: t) (map (fun _ => None) (l0 :: t))).
    2:{ clear -H. induction H; cbn; constructor; auto. }
    cbn [bind].
    assert (forallb (fun m : option F => Bool.eqb (is_none m) true) (map (fun _ : LocoM => None) (l0 :: t)) = true) as ->.
    { apply forallb_forall. intros x Hx. apply in_map_iff in Hx. destruct Hx as (y & <- & _). reflexivity. }
    reflexivity. Qed.

  Lemma consist_force_sum (ls : list LocoM) (fs : list F) :
    Forall2 (fun l f => loco_force_max l = Ok f) ls fs ->
    consist_force_max ls = Ok (fold_left (fun acc f => nadd f acc) fs n0).
  Proof. intros H. unfold consist_force_max. rewrite (mapM_res_Forall2 _ _ _ H). reflexivity. Qed.

  (* a unit whose getter fails makes the consist getter fail: nothing is silently dropped *)
  Lemma consist_force_err (ls : list LocoM) pre l post c :
    ls = pre ++ l :: post -> Forall (fun x => exists f, loco_force_max x = Ok f) pre ->
    loco_force_max l = Err c -> consist_force_max ls = Err c.
  Proof. intros -> Hp He. unfold consist_force_max. induction Hp as [|x pre (f & Hf) _ IH]; cbn.
    - rewrite He; reflexivity.
    - rewrite Hf; cbn. destruct (mapM_res loco_force_max (pre ++ l :: post)); cbn in *; try discriminate; auto. Qed.

  Lemma train_mass_static_def override cars consist :
    train_mass_static (F:=F) override cars consist =
    nadd (match override with Some m => m | None => cars_mass cars end)
         (match consist with Some m => m | None => n0 end).
  Proof. reflexivity. Qed.
End Generic.

(* ------------------------------------------------------------------ the reals *)
Open Scope R_scope.

Lemma eps_pos : 0 < eps (F:=R).
Proof. unfold eps; numR. unfold Rpow10. apply Rmult_lt_0_compat; [lra|].
  apply Rinv_0_lt_compat. apply pow_lt. lra. Qed.

Lemma almost_eq_refl (x : R) : almost_eq x x = true.
Proof. unfold almost_eq; numR. apply orb_true_iff. right. apply Rltb_true.
  replace (x - x) with 0 by lra. rewrite Rabs_R0. apply eps_pos. Qed.

Lemma almost_eq_of_eq (x y : R) : x = y -> almost_eq x y = true.
Proof. intros ->. apply almost_eq_refl. Qed.

Lemma grav_pos : 0 < grav (F:=R).
Proof. unfold grav; numR. unfold Rpow10. apply Rmult_lt_0_compat; [apply IZR_lt; lia|].
  apply Rinv_0_lt_compat. apply pow_lt. lra. Qed.

Opaque grav.

Lemma Reqb_false_iff a b : Reqb a b = false <-> a <> b.
Proof. destruct (Reqb_spec a b); split; intros; auto; try discriminate; contradiction. Qed.

(* after an accepted component set_mass the getter returns the requested mass (no Err): the
   value resolved by the side effect reproduces it exactly *)
Theorem comp_mass_after_set (c : Comp (F:=R)) m se :
  m <> 0 -> cm_ext c <> 0 -> (forall sp, cm_spec c = Some sp -> sp <> 0) ->
  comp_mass (fst (comp_set_mass c (Some m) se)) = Ok (Some m).
Proof. intros Hm He Hs. unfold comp_set_mass, comp_derived.
  destruct (cm_spec c) as [sp|] eqn:Es.
  - specialize (Hs sp eq_refl). numR.
    destruct (Reqb_spec (cm_ext c / sp) m) as [E|E]; cbn [negb fst].
    + unfold comp_mass, comp_derived; cbn. rewrite ?Es. numR. rewrite almost_eq_of_eq; auto.
    + destruct se; cbn [fst]; unfold comp_mass, comp_derived; cbn; numR; auto.
      * rewrite almost_eq_of_eq; auto. field; auto.
      * rewrite almost_eq_of_eq; auto. field; auto.
  - cbn. unfold comp_mass, comp_derived; cbn. rewrite ?Es. reflexivity. Qed.

(* the same for "set to unknown" *)
Theorem comp_mass_after_unset (c : Comp (F:=R)) se :
  comp_mass (fst (comp_set_mass c None se)) = Ok None.
Proof. rewrite comp_set_mass_to_none. reflexivity. Qed.

(* ---- force invariant: after EVERY accepted setter call, from ANY state, the stored maximum
   force equals mu * mass * g whenever both are known (check_force_max passes).  The only side
   condition: UpdateMu divides by the mass, which must not be 0. *)
Definition call_ok (l : LocoM (F:=R)) (c : LCmd (F:=R)) : Prop :=
  match c with
  | LSetForce _ FS_UpdateMu => forall m, lm_mass l = Some m -> m <> 0
  | _ => True
  end.

Lemma check_after_set_mass (l : LocoM (F:=R)) new se l' :
  loco_set_mass l new se = (l', Ok tt) -> loco_check_force l' = Ok tt.
Proof. intros H. destruct (loco_set_mass_accepted l new se l' H) as (_ & l2 & mu & m & Hu & Hm & -> & _ & _).
  apply loco_mu_consistent in Hu. destruct Hu as [Hu _].
  unfold loco_check_force, with_force; cbn. rewrite <- Hu.
  destruct (lm_mass l2) as [m2|] eqn:E2; auto.
  assert (m = m2) as ->.
  { unfold loco_mass in Hm. destruct (loco_derived l2) as [[d|]| |]; cbn in Hm; try discriminate; rewrite E2 in Hm.
    - destruct (almost_eq m2 d); inversion Hm; auto.
    - inversion Hm; auto. }
  rewrite almost_eq_refl. reflexivity. Qed.

Theorem force_consistent_after_accepted_call (l : LocoM (F:=R)) c l' :
  call_ok l c -> loco_call l c = (l', Ok tt) -> loco_check_force l' = Ok tt.
Proof. destruct c as [new se|f se|u se]; cbn [loco_call call_ok]; intros Hc H.
  - eapply check_after_set_mass; eauto.
  - destruct se.
    + unfold loco_set_force_max in H; cbv zeta in H. destruct (loco_mu (with_force l f)) as [[mu|]| |]; try (inversion H; fail).
      eapply check_after_set_mass; eauto.
    + rewrite set_force_update_mu in H. inversion H; subst l'. unfold loco_check_force; cbn.
      destruct (lm_mass l) as [m|] eqn:Em; auto. specialize (Hc m eq_refl).
      rewrite almost_eq_of_eq; auto. numR. pose proof grav_pos. field. split; auto. lra.
    + inversion H; subst. reflexivity.
    + inversion H; subst. unfold loco_check_force; cbn. destruct (lm_mu l); reflexivity.
    + inversion H; subst. reflexivity.
  - destruct se.
    + unfold loco_set_mu in H; cbv zeta in H. eapply check_after_set_mass; eauto.
    + apply set_mu_force_max in H. destruct H as (m & Hm & ->). unfold loco_check_force; cbn.
      destruct (lm_mass l) as [m2|] eqn:E2; auto.
      assert (m = m2) as ->.
      { unfold loco_mass in Hm. destruct (loco_derived (with_mu l (Some u))) as [[d|]| |]; cbn in Hm; try discriminate; rewrite E2 in Hm.
        - destruct (almost_eq m2 d); inversion Hm; auto.
        - inversion Hm; auto. }
      rewrite almost_eq_of_eq; auto. numR. ring.
    + inversion H; subst. reflexivity. Qed.

(* ... hence after any sequence of setter calls, whatever was accepted or rejected before *)
Fixpoint loco_calls (l : LocoM (F:=R)) (cs : list (LCmd (F:=R))) : LocoM (F:=R) :=
  match cs with [] => l | c :: t => loco_calls (fst (loco_call l c)) t end.

Theorem force_consistent_after_any_sequence (l : LocoM (F:=R)) cs c l' :
  let s := loco_calls l cs in
  call_ok s c -> loco_call s c = (l', Ok tt) ->
  loco_check_force l' = Ok tt /\ (forall f, loco_force_max l' = Ok f -> f = lm_force l') /\
  exists f, loco_force_max l' = Ok f.
Proof. cbv zeta. intros Hc H. pose proof (force_consistent_after_accepted_call _ _ _ Hc H) as X.
  split; auto. unfold loco_force_max. rewrite X; cbn. split; [intros f E; inversion E; auto|eauto]. Qed.

(* the resolved values, over the reals: requested force / mu are reproduced exactly *)
Theorem set_force_update_mu_exact (l : LocoM (F:=R)) f m :
  lm_mass l = Some m -> m <> 0 ->
  let l' := fst (loco_set_force_max l f FS_UpdateMu) in
  exists mu, lm_mu l' = Some mu /\ mu * m * grav = f /\ lm_force l' = f /\ lm_mass l' = Some m.
Proof. intros Hm Hz. rewrite set_force_update_mu. cbn. rewrite Hm. eexists; split; [reflexivity|].
  numR. pose proof grav_pos. repeat split; auto. field. split; auto. lra. Qed.

Theorem set_mu_mass_exact (l : LocoM (F:=R)) u l' :
  u <> 0 -> loco_set_mu l u US_Mass = (l', Ok tt) ->
  lm_mu l' = Some u /\ lm_mass l' = Some (lm_force l / (u * grav)) /\ lm_force l' = lm_force l.
Proof. intros Hu H. unfold loco_set_mu in H; cbv zeta in H.
  destruct (loco_set_mass_accepted _ _ _ _ H) as (_ & l2 & mu & m & Hmu & Hm & -> & Hnm & Hsame).
  specialize (Hnm _ eq_refl). apply loco_mu_consistent in Hmu. destruct Hmu as [Hmu _].
  cbn in Hsame. rewrite Hsame in Hmu. inversion Hmu; subst mu.
  assert (m = lm_force l / (u * grav)) as ->.
  { unfold loco_mass in Hm. cbn [with_mu lm_force] in *. destruct (loco_derived l2) as [[d|]| |]; cbn in Hm; try discriminate; rewrite Hnm in Hm.
    - destruct (almost_eq _ d); inversion Hm; auto.
    - inversion Hm; auto. }
  unfold with_force; cbn. repeat split; auto. numR. pose proof grav_pos. field. split; auto. lra. Qed.

(* ---- recorded: calls that return Err but leave a partially updated object behind *)
Definition bel_blank : LocoM (F:=R) :=
  {| lm_pt := PTBel {| cm_mass := None; cm_spec := None; cm_ext := 1 |};
     lm_mass := None; lm_mu := None; lm_ballast := None; lm_baseline := None; lm_force := 5 |}.

(* set_mass assigns `mass` before the `mu()` lookup that fails *)
Theorem set_mass_partial_update :
  exists e, loco_set_mass bel_blank (Some 7) MS_None = (with_mass bel_blank (Some 7), Err e) /\
            with_mass bel_blank (Some 7) <> bel_blank.
Proof. exists 2032%Z. split; [reflexivity|]. unfold with_mass, bel_blank; cbn. intros H; inversion H. Qed.

(* set_force_max assigns `force_max` first: with the Mass side effect and no adhesion coefficient
   the call fails and the force has been overwritten *)
Theorem set_force_max_partial_update :
  exists e, loco_set_force_max bel_blank 9 FS_Mass = (with_force bel_blank 9, Err e) /\
            with_force bel_blank 9 <> bel_blank.
Proof. exists 2041%Z. split; [reflexivity|]. unfold with_force, bel_blank; cbn. intros H; inversion H. lra. Qed.

(* set_mu assigns `mu` first *)
Theorem set_mu_partial_update :
  exists e, loco_set_mu bel_blank 3 US_ForceMax = (with_mu bel_blank (Some 3), Err e) /\
            with_mu bel_blank (Some 3) <> bel_blank.
Proof. exists 2051%Z. split; [reflexivity|]. unfold with_mu, bel_blank; cbn. intros H; inversion H. Qed.

Arguments almost_eq : simpl never.

(* recorded: with an adhesion coefficient and a mass known, `set_mass` to a DIFFERENT mass is
   never accepted: the `mu()` lookup re-checks the old force against the new mass.  (Stated for a
   unit without component masses; the new mass has already been stored when the call fails.) *)
Theorem set_mass_rejects_every_real_change (mu m f nm : R) :
  almost_eq f (mu * nm * grav) = false ->
  let l := {| lm_pt := PTBel {| cm_mass := None; cm_spec := None; cm_ext := 1 |};
              lm_mass := Some m; lm_mu := Some mu; lm_ballast := None; lm_baseline := None; lm_force := f |} in
  loco_set_mass l (Some nm) MS_None = (with_mass l (Some nm), Err 2021%Z).
Proof. intros H. cbv zeta. unfold loco_set_mass, loco_derived, comp_mass, comp_derived; cbn.
  unfold loco_mu, loco_check_force; cbn. numR. rewrite H. reflexivity. Qed.

(* the sums of the consist getters are the mathematical sums *)
Lemma fold_sum (l : list R) : fold_left (fun acc x => nadd x acc) l 0 = fold_right Rplus 0 l.
Proof. numR. assert (forall a, fold_left (fun acc x => x + acc) l a = a + fold_right Rplus 0 l) as X.
  { induction l as [|x t IH]; intros a; cbn; [lra|]. rewrite IH. lra. }
  rewrite X. lra. Qed.

Lemma example_component :
  let c := {| cm_mass := Some 10; cm_spec := Some 4; cm_ext := 40 |} in
  comp_mass c = Ok (Some 10) /\
  fst (comp_set_mass c (Some 20) MS_Extensive) = {| cm_mass := Some 20; cm_spec := Some 4; cm_ext := 4 * 20 |}.
Proof. cbv zeta. split.
  - unfold comp_mass, comp_derived; cbn. replace (40 / 4) with 10 by (unfold Rdiv; lra). rewrite almost_eq_refl. reflexivity.
  - unfold comp_set_mass, comp_derived; cbn. destruct (Reqb_spec (40 / 4) 20) as [E|E]; [exfalso; lra|]. reflexivity. Qed.
