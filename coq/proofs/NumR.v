(* NumR.v -- working with the model at the real-number instance. *)
From Coq Require Import Reals Lra List Bool ZArith Lia.
From AltModel Require Import Num.
Import ListNotations.
Open Scope R_scope.

(* unfold the dictionary at R *)
Ltac numR := cbn [n0 n1 nadd nsub nmul ndiv nneg nabs nsqrt nleb nltb neqb nmax nmin nofZ nlit ninf R_ops] in *.

Ltac dleb := match goal with
  | |- context [Rleb ?a ?b] => destruct (Rleb_spec a b)
  | |- context [Rltb ?a ?b] => destruct (Rltb_spec a b)
  | |- context [Reqb ?a ?b] => destruct (Reqb_spec a b)
  | H : context [Rleb ?a ?b] |- _ => destruct (Rleb_spec a b)
  | H : context [Rltb ?a ?b] |- _ => destruct (Rltb_spec a b)
  | H : context [Reqb ?a ?b] |- _ => destruct (Reqb_spec a b)
  end.

Lemma Rleb_true a b : Rleb a b = true <-> a <= b.
Proof. destruct (Rleb_spec a b); split; intros; auto; try discriminate; lra. Qed.
Lemma Rltb_true a b : Rltb a b = true <-> a < b.
Proof. destruct (Rltb_spec a b); split; intros; auto; try discriminate; lra. Qed.
Lemma Reqb_true a b : Reqb a b = true <-> a = b.
Proof. destruct (Reqb_spec a b); split; intros; auto; try discriminate; lra. Qed.
Lemma Rleb_false a b : Rleb a b = false <-> b < a.
Proof. destruct (Rleb_spec a b); split; intros; auto; try discriminate; lra. Qed.
Lemma Rltb_false a b : Rltb a b = false <-> b <= a.
Proof. destruct (Rltb_spec a b); split; intros; auto; try discriminate; lra. Qed.

(* results *)
Lemma bind_ok {A B} (r : res A) (f : A -> res B) b :
  bind r f = Ok b -> exists a, r = Ok a /\ f a = Ok b.
Proof. destruct r; cbn; intros H; try discriminate. eauto. Qed.
Lemma ensure_ok b c : ensure b c = Ok tt -> b = true.
Proof. unfold ensure; destruct b; auto; discriminate. Qed.
Lemma ensure_ok' b c u : ensure b c = Ok u -> b = true.
Proof. unfold ensure; destruct b; auto; discriminate. Qed.

(* peel one [let?] off a hypothesis [H : bind r f = Ok x] *)
Ltac bind_inv H :=
  let a := fresh "a" in let Ha := fresh "Ha" in
  apply bind_ok in H; destruct H as (a & Ha & H).

(* generic run of a fallible step function: stops at the first error, like [?] *)
Section Run.
  Context {St Inp : Type} (step : St -> Inp -> res St).
  Fixpoint run (s : St) (ins : list Inp) : res St :=
    match ins with
    | [] => Ok s
    | i :: t => match step s i with Ok s' => run s' t | Err c => Err c | Panic c => Panic c end
    end.

  Lemma run_app s a b : run s (a ++ b) = bind (run s a) (fun s' => run s' b).
  Proof. revert s; induction a as [|i a IH]; intros s; cbn; auto.
    destruct (step s i); cbn; auto. Qed.

  (* an invariant of accepted steps holds after every accepted prefix *)
  Lemma run_inv (Inv : St -> Prop) :
    (forall s i s', Inv s -> step s i = Ok s' -> Inv s') ->
    forall ins s s', Inv s -> run s ins = Ok s' -> Inv s'.
  Proof. intros Hstep ins; induction ins as [|i t IH]; intros s s' Hi Hr; cbn in Hr.
    - inversion Hr; subst; auto.
    - destruct (step s i) as [s1| |] eqn:E; try discriminate.
      apply (IH s1 s'); [exact (Hstep s i s1 Hi E)|exact Hr]. Qed.

  (* ... and a relation between consecutive states holds along every accepted run *)
  Lemma run_rel (Inv : St -> Prop) (Rel : St -> St -> Prop) :
    (forall s, Rel s s) -> (forall a b c, Rel a b -> Rel b c -> Rel a c) ->
    (forall s i s', Inv s -> step s i = Ok s' -> Inv s' /\ Rel s s') ->
    forall ins s s', Inv s -> run s ins = Ok s' -> Inv s' /\ Rel s s'.
  Proof. intros Hr Ht Hstep ins; induction ins as [|i t IH]; intros s s' Hi Hrun; cbn in Hrun.
    - inversion Hrun; subst; auto.
    - destruct (step s i) eqn:E; try discriminate.
      destruct (Hstep _ _ _ Hi E) as [Hi' Hrel]. destruct (IH _ _ Hi' Hrun). split; eauto. Qed.

  (* every prefix of an accepted run is an accepted run *)
  Lemma run_prefix s a b s' : run s (a ++ b) = Ok s' -> exists m, run s a = Ok m /\ run m b = Ok s'.
  Proof. rewrite run_app. intros H. apply bind_ok in H. exact H. Qed.
End Run.

(* the same lifts when every input satisfies a side condition [P] (e.g. dt > 0) *)
Section RunP.
  Context {St Inp : Type} (step : St -> Inp -> res St) (P : Inp -> Prop).

  Lemma run_inv_P (Inv : St -> Prop) :
    (forall s i s', P i -> Inv s -> step s i = Ok s' -> Inv s') ->
    forall ins s s', Forall P ins -> Inv s -> run step s ins = Ok s' -> Inv s'.
  Proof. intros Hstep ins; induction ins as [|i t IH]; intros s s' HP Hi Hr; cbn in Hr.
    - inversion Hr; subst; auto.
    - inversion HP as [|? ? Pi Pt]; subst.
      destruct (step s i) as [s1| |] eqn:E; try discriminate.
      apply (IH s1 s' Pt); [exact (Hstep s i s1 Pi Hi E)|exact Hr]. Qed.

  Lemma run_rel_P (Inv : St -> Prop) (Rel : St -> St -> Prop) :
    (forall s, Rel s s) -> (forall a b c, Rel a b -> Rel b c -> Rel a c) ->
    (forall s i s', P i -> Inv s -> step s i = Ok s' -> Inv s' /\ Rel s s') ->
    forall ins s s', Forall P ins -> Inv s -> run step s ins = Ok s' -> Inv s' /\ Rel s s'.
  Proof. intros Hr Ht Hstep ins; induction ins as [|i t IH]; intros s s' HP Hi Hrun; cbn in Hrun.
    - inversion Hrun; subst; auto.
    - inversion HP as [|? ? Pi Pt]; subst.
      destruct (step s i) as [s1| |] eqn:E; try discriminate.
      destruct (Hstep _ _ _ Pi Hi E) as [Hi' Hrel]. destruct (IH _ _ Pt Hi' Hrun). split; eauto. Qed.
End RunP.
