(* ExampleP.v -- the hypotheses of the locomotive theorems are satisfiable: a concrete conventional
   locomotive is well-formed, starts with a closed ledger, and an actual step is accepted. *)
From Coq Require Import Reals Lra Lia List Bool ZArith.
From AltModel Require Import Num Interp Powertrain Loco.
From AltProofs Require Import NumR InterpP PowertrainP LocoP C08P C01P.
Import ListNotations.
Open Scope R_scope.

Definition fcs0 : FCState (F:=R) := Build_FCState 1%Z 0 0 0 0 0 0 0 0 0 0 true.
Definition fc0 : FC (F:=R) := Build_FC fcs0 1000 100 10 [0; 1] [/2; /2] 1.
Definition gs0 : GenState (F:=R) := Build_GenState 1%Z 0 0 0 0 0 0 0 0 0 0 0 0.
Definition gen0 : Gen (F:=R) := Build_Gen gs0 [0; 1] [1; 1] [] 2000.
Definition es0 : EdrvState (F:=R) := Build_EdrvState 1%Z 0 0 0 0 0 0 0 0 0 0 0 0 0 0 0.
Definition edrv0 : Edrv (F:=R) := Build_Edrv es0 [0; 1] [1; 1] [] 2000.
Definition ls0 : LocoState (F:=R) := Build_LocoState 1%Z 0 0 0 0 0 0 0.
Definition loco0 : Loco (F:=R) := Build_Loco (PConv (Build_Conv fc0 gen0 edrv0)) ls0 true 0 0.

Lemma map_ok_flat (a : R) : 0 < a <= 1 -> map_ok [0; 1] [a; a].
Proof. intros Ha. unfold map_ok. split; [|split; [reflexivity|split; [cbn; lia|]]].
  - intros i Hi. cbn in Hi. assert (i = 0%nat) by lia. subst. cbn. lra.
  - exists a. split; [lra|]. intros e [<-|[<-|[]]]; lra. Qed.

Example loco0_ok : loco_ok loco0.
Proof. unfold loco_ok, loco0, fc_ok, gen_ok, edrv_ok. cbn [lc_type ptype_ok cv_fc cv_gen cv_edrv lc_pwr_aux_offset lc_pwr_aux_traction_coeff].
  unfold fc0, gen0, edrv0. cbn [fc_frac fc_eta_interp fc_pwr_idle_fuel gen_frac gen_eta_interp edrv_frac edrv_eta_interp].
  split; [split; [split; [apply map_ok_flat; lra|cbn; lra]|split; apply map_ok_flat; lra]|split; cbn; lra]. Qed.

Example loco0_ledger : ledger_state loco0.
Proof. split; [exact loco0_ok|]. unfold energy_ledger, loco0. cbn. repeat split; lra. Qed.

(* an accepted engine step exists, with the efficiency the interpolation returns for this map *)
Lemma interp_flat (x a : R) : interp1d x [0; 1] [a; a] false = Ok ((0 + a + a) / 2).
Proof. unfold interp1d, sumF, lenF. cbn [fold_left length forallb]. numR. change (IZR (Z.of_nat 2)) with 2.
  destruct (Reqb_spec a ((0 + a + a) / 2)) as [E|E]; [|exfalso; lra]. reflexivity. Qed.

Definition fc1 : FC (F:=R) := Build_FC (Build_FCState 1%Z 500 0 0 0 0 0 0 0 0 0 true) 1000 100 10 [0; 1] [/2; /2] 1.

Example fc1_step_accepted : exists c', fc_solve fc1 100 1 true true = Ok c'.
Proof.
  unfold fc_solve, fc1. cbn [fc_state fc_pwr_out_max fcs_pwr_out_max fc_frac fc_eta_interp negb orb].
  unfold ensure, almost_le. rewrite eps3_val. numR.
  assert (H1 : Rltb 100 (1000 * (1 + / 1000)) = true) by (apply Rltb_true; lra).
  assert (H2 : Rltb 100 (500 * (1 + / 1000)) = true) by (apply Rltb_true; lra).
  assert (H3 : Rleb 0 100 = true) by (apply Rleb_true; lra).
  rewrite H1, H2, H3. cbn [orb bind]. rewrite interp_flat. cbn [bind].
  unfold fc_solve_eta, ensure, almost_le. rewrite eps3_val. numR.
  cbn [fc_state fc_pwr_out_max fcs_pwr_out_max fc_pwr_idle_fuel fcs_energy_loss negb orb].
  rewrite H1, H2, H3. cbn [orb bind].
  assert (H4 : Rleb 0 (1 * ((0 + / 2 + / 2) / 2)) = true) by (apply Rleb_true; lra). rewrite H4. cbn [orb bind].
  assert (H5 : Rleb 0 (0 + (100 / (1 * ((0 + / 2 + / 2) / 2)) + 1 - 100) * 1) = true).
  { apply Rleb_true. replace (1 * ((0 + / 2 + / 2) / 2)) with (/ 2) by lra. unfold Rdiv. rewrite Rinv_inv. lra. }
  rewrite H5. cbn [bind]. eexists. reflexivity.
Qed.
