(* SchedP.v -- C18: any complete interleaving of a batch equals the element-wise serial walk
   (including the error outcome); an element's failure does not reach the others; the folds the
   code performs over hash containers do not depend on the iteration order. *)
From Coq Require Import Reals Lra List Bool ZArith Lia Arith Permutation.
From AltModel Require Import Num Sched.
From AltProofs Require Import NumR.
Import ListNotations.
Open Scope nat_scope.

Lemma iter_succ_r {A} n (f : A -> A) x : Nat.iter (S n) f x = Nat.iter n f (f x).
Proof. induction n as [|n IH]; [reflexivity|]. simpl in *. rewrite IH. reflexivity. Qed.
Lemma iter_add {A} n m (f : A -> A) x : Nat.iter (n + m) f x = Nat.iter n f (Nat.iter m f x).
Proof. induction n as [|n IH]; [reflexivity|]. simpl. rewrite IH. reflexivity. Qed.
Lemma nth_error_ext {A} : forall l l' : list A, (forall k, nth_error l k = nth_error l' k) -> l = l'.
Proof. induction l as [|x l IH]; intros [|y l'] H; auto.
  - specialize (H 0). discriminate. - specialize (H 0). discriminate.
  - pose proof (H 0) as H0. cbn in H0. inversion H0; subst. f_equal. apply IH. intros k. exact (H (S k)). Qed.

(* ---------------------------------------------------------------- batches *)
Section BatchP.
Context {St Inp : Type} (step : St -> Inp -> res St).
Notation elem := (elem St Inp).
Notation step_elem := (step_elem step).
Notation walk_elem := (walk_elem step).
Notation run_sched := (run_sched step).

(* a worker step never touches the element's inputs *)
Lemma step_elem_trace e : e_trace (step_elem e) = e_trace e.
Proof. unfold Sched.step_elem. destruct (e_state e); try reflexivity.
  destruct (nth_error (e_trace e) (e_pos e)); try reflexivity. destruct (step a i); reflexivity. Qed.
Lemma iter_step_trace n e : e_trace (Nat.iter n step_elem e) = e_trace e.
Proof. induction n as [|n IH]; [reflexivity|]. simpl Nat.iter. rewrite step_elem_trace. exact IH. Qed.
Lemma walk_elem_trace e : e_trace (walk_elem e) = e_trace e.
Proof. apply iter_step_trace. Qed.

(* finished or failed elements are fixed points *)
Definition done (e : elem) : Prop := failed e = true \/ remaining e = 0.
Lemma step_elem_done e : done e -> step_elem e = e.
Proof. unfold done, failed, remaining, Sched.step_elem. intros [H|H].
  - destruct (e_state e); try discriminate; reflexivity.
  - destruct (e_state e); try reflexivity.
    assert (E : nth_error (e_trace e) (e_pos e) = None) by (apply nth_error_None; lia). rewrite E. reflexivity. Qed.
Lemma iter_done n e : done e -> Nat.iter n step_elem e = e.
Proof. intros H. induction n as [|n IH]; [reflexivity|]. simpl Nat.iter. rewrite IH. apply step_elem_done. exact H. Qed.

Lemma classic_done e : done e \/ ~ done e.
Proof. unfold done. destruct (failed e); [left; left; reflexivity|].
  destruct (Nat.eq_dec (remaining e) 0) as [E|E]; [left; right; exact E|right; intros [H|H]; [discriminate|contradiction]]. Qed.

(* a step either finishes/fails the element or consumes exactly one trace entry *)
Lemma step_elem_progress e : ~ done e -> done (step_elem e) \/ remaining (step_elem e) = remaining e - 1.
Proof. unfold done, failed, remaining, Sched.step_elem. intros Hn.
  destruct (e_state e) eqn:Es; try (exfalso; apply Hn; left; reflexivity).
  destruct (nth_error (e_trace e) (e_pos e)) eqn:En.
  - destruct (step a i); cbn; [right; lia|left; left; reflexivity|left; left; reflexivity].
  - exfalso. apply Hn. right. apply nth_error_None in En. lia. Qed.

Lemma iter_reaches_done : forall n e, remaining e <= n -> done (Nat.iter n step_elem e).
Proof. induction n as [|n IH]; intros e Hr.
  - right. cbn. lia.
  - (* iterate from the inside: iter (S n) f e = iter n f (f e) *)
    rewrite iter_succ_r.
    destruct (classic_done e) as [Hd|Hd].
    + rewrite (step_elem_done e Hd). rewrite (iter_done n e Hd). exact Hd.
    + destruct (step_elem_progress e Hd) as [H|H].
      * rewrite (iter_done n _ H). exact H.
      * apply IH. lia.
Qed.

(* once enough steps were given, more steps change nothing: n >= remaining => iter n = walk *)
Lemma iter_ge_walk n e : remaining e <= n -> Nat.iter n step_elem e = walk_elem e.
Proof. intros Hr. unfold Sched.walk_elem.
  replace n with ((n - remaining e) + remaining e) by lia. rewrite iter_add.
  apply iter_done. apply iter_reaches_done. lia. Qed.

(* ---- scheduling *)
Lemma update_length {A} k (f : A -> A) l : length (update k f l) = length l.
Proof. revert k. induction l as [|x t IH]; intros [|k]; cbn; auto. Qed.
Lemma update_nth_same {A} k (f : A -> A) l : nth_error (update k f l) k = option_map f (nth_error l k).
Proof. revert k. induction l as [|x t IH]; intros [|k]; cbn; auto. Qed.
Lemma update_nth_other {A} k j (f : A -> A) l : j <> k -> nth_error (update k f l) j = nth_error l j.
Proof. revert k j. induction l as [|x t IH]; intros [|k] [|j] H; cbn; auto; try contradiction; try (apply IH; lia). Qed.

Lemma run_sched_length sched b : length (run_sched sched b) = length b.
Proof. unfold Sched.run_sched. revert b. induction sched as [|k s IH]; intros b; [reflexivity|].
  cbn [fold_left]. rewrite IH. apply update_length. Qed.

(* THE independence lemma: after ANY schedule, element k has received exactly as many of its own
   steps as k occurs in the schedule -- nothing else about the schedule, and nothing about the
   other elements, matters *)
Lemma run_sched_nth sched : forall b k,
  nth_error (run_sched sched b) k =
  option_map (Nat.iter (count_occ Nat.eq_dec sched k) step_elem) (nth_error b k).
Proof. unfold Sched.run_sched. induction sched as [|j s IH]; intros b k.
  - cbn. destruct (nth_error b k); reflexivity.
  - cbn [fold_left count_occ]. rewrite IH. destruct (Nat.eq_dec j k) as [E|E].
    + subst j. rewrite update_nth_same. destruct (nth_error b k); cbn [option_map]; [|reflexivity].
      rewrite iter_succ_r. reflexivity.
    + rewrite update_nth_other by congruence. reflexivity. Qed.

Theorem sched_independent sched b : complete sched b -> run_sched sched b = map walk_elem b.
Proof. intros Hc. apply nth_error_ext. intros k. rewrite run_sched_nth, nth_error_map.
  destruct (nth_error b k) as [e|] eqn:E; [|reflexivity]. cbn [option_map]. f_equal.
  apply iter_ge_walk. exact (Hc k e E). Qed.

(* any (possibly incomplete, e.g. interrupted by another element's error) schedule leaves every
   element on its own walk: whoever has received all its steps equals its isolated walk *)
Theorem sched_partial sched b k e : nth_error b k = Some e -> remaining e <= count_occ Nat.eq_dec sched k ->
  nth_error (run_sched sched b) k = Some (walk_elem e).
Proof. intros E H. rewrite run_sched_nth, E. cbn. f_equal. apply iter_ge_walk. exact H. Qed.

(* error isolation: replacing element j by ANY other element (one that fails, say) changes nothing
   about element k <> j, whatever the schedule; and nobody's inputs are ever modified *)
Theorem error_isolated sched b j k (e' : elem) : k <> j ->
  nth_error (run_sched sched (update j (fun _ => e') b)) k = nth_error (run_sched sched b) k.
Proof. intros H. rewrite !run_sched_nth. rewrite update_nth_other by exact H. reflexivity. Qed.
Theorem inputs_untouched sched b k e e0 :
  nth_error b k = Some e0 -> nth_error (run_sched sched b) k = Some e -> e_trace e = e_trace e0.
Proof. intros E0 E. rewrite run_sched_nth, E0 in E. cbn in E. inversion E. apply iter_step_trace. Qed.

(* the serial batch (try_for_each): elements up to and including the first failing one are walked,
   the rest are left untouched *)
Theorem walk_serial_all_ok b :
  (forall e, In e b -> failed (walk_elem e) = false) -> walk_serial step b = map walk_elem b.
Proof. induction b as [|e t IH]; intros H; [reflexivity|]. cbn [walk_serial map].
  rewrite (H e (or_introl eq_refl)). rewrite IH; [reflexivity|]. intros x Hx. apply H. right. exact Hx. Qed.
Theorem walk_serial_first_failure pre e post :
  (forall x, In x pre -> failed (walk_elem x) = false) -> failed (walk_elem e) = true ->
  walk_serial step (pre ++ e :: post) = map walk_elem pre ++ walk_elem e :: post.
Proof. induction pre as [|p pre IH]; intros H He.
  - cbn. rewrite He. reflexivity.
  - cbn [app walk_serial map]. rewrite (H p (or_introl eq_refl)). rewrite IH; [reflexivity| |exact He].
    intros x Hx. apply H. right. exact Hx. Qed.

(* tie to the generic [run] of NumR.v: the state a walk ends with is the run over the remaining trace *)
Lemma walk_elem_state e s : e_state e = Ok s -> e_pos e <= length (e_trace e) ->
  e_state (walk_elem e) = run step s (skipn (e_pos e) (e_trace e)).
Proof.
  unfold Sched.walk_elem. remember (remaining e) as n eqn:En. revert e s En.
  induction n as [|n IH]; intros e s En Es Hp.
  - cbn. unfold remaining in En. rewrite skipn_all2 by lia. cbn. exact Es.
  - rewrite iter_succ_r. unfold remaining in En.
    destruct (nth_error (e_trace e) (e_pos e)) as [i|] eqn:Ei; [|apply nth_error_None in Ei; lia].
    assert (Esk : skipn (e_pos e) (e_trace e) = i :: skipn (S (e_pos e)) (e_trace e)).
    { clear - Ei. revert Ei. generalize (e_pos e) as p. generalize (e_trace e) as l.
      induction l as [|x l IHl]; intros [|p] H; cbn in *; try discriminate.
      - inversion H; reflexivity. - apply IHl. exact H. }
    rewrite Esk. cbn [run].
    assert (Est' : step_elem e = match step s i with
                                 | Ok s' => {| e_trace := e_trace e; e_pos := S (e_pos e); e_state := Ok s' |}
                                 | Err c => {| e_trace := e_trace e; e_pos := e_pos e; e_state := Err c |}
                                 | Panic c => {| e_trace := e_trace e; e_pos := e_pos e; e_state := Panic c |}
                                 end).
    { unfold Sched.step_elem. rewrite Es, Ei. reflexivity. }
    rewrite Est'. assert (Hlt : e_pos e < length (e_trace e)) by (apply nth_error_Some; congruence).
    destruct (step s i) as [s'|c|c].
    + rewrite (IH {| e_trace := e_trace e; e_pos := S (e_pos e); e_state := Ok s' |} s'); cbn; auto; lia.
    + rewrite iter_done; [reflexivity|]. left. reflexivity.
    + rewrite iter_done; [reflexivity|]. left. reflexivity.
Qed.

End BatchP.

(* ---------------------------------------------------------------- folds over hash containers *)
(* HashMap::iter() yields the entries in some order; keys are unique.  A permutation of a key-unique
   association list models "another iteration order of the same map". *)
Section FindKey.
Context {K V : Type} (eqb : K -> K -> bool) (eqb_eq : forall a b, eqb a b = true <-> a = b).

Lemma find_key_in k v (l : list (K * V)) : NoDup (map fst l) -> In (k, v) l -> find_key eqb k l = Some v.
Proof. induction l as [|[k' v'] l IH]; intros Hnd Hin; [contradiction|]. cbn in Hnd. inversion Hnd as [|x xs Hx Hxs]; subst.
  cbn [find_key]. destruct Hin as [E|Hin].
  - inversion E; subst. rewrite (proj2 (eqb_eq k k) eq_refl). reflexivity.
  - destruct (eqb k k') eqn:Ek.
    + apply eqb_eq in Ek. subst k'. exfalso. apply Hx. change k with (fst (k, v)). apply in_map. exact Hin.
    + apply IH; assumption. Qed.
Lemma find_key_some k v (l : list (K * V)) : find_key eqb k l = Some v -> In (k, v) l.
Proof. induction l as [|[k' v'] l IH]; cbn; [discriminate|]. destruct (eqb k k') eqn:Ek.
  - intros H; inversion H; subst. apply eqb_eq in Ek. subst. left. reflexivity.
  - intros H. right. apply IH. exact H. Qed.
Lemma find_key_none k (l : list (K * V)) : find_key eqb k l = None -> ~ In k (map fst l).
Proof. induction l as [|[k' v'] l IH]; cbn; [tauto|]. destruct (eqb k k') eqn:Ek; [discriminate|].
  intros H [E|Hin]; [subst; rewrite (proj2 (eqb_eq k k) eq_refl) in Ek; discriminate|exact (IH H Hin)]. Qed.

(* extract_speed_set, and every `map.get(key)` lookup, is independent of the iteration order *)
Theorem find_key_perm k (l l' : list (K * V)) :
  NoDup (map fst l) -> Permutation l l' -> find_key eqb k l = find_key eqb k l'.
Proof. intros Hnd Hp. assert (Hnd' : NoDup (map fst l')) by (eapply Permutation_NoDup; [apply Permutation_map; exact Hp|exact Hnd]).
  destruct (find_key eqb k l) as [v|] eqn:E.
  - symmetry. apply find_key_in; [exact Hnd'|]. eapply Permutation_in; [exact Hp|]. apply find_key_some. exact E.
  - destruct (find_key eqb k l') as [v|] eqn:E'; [|reflexivity].
    exfalso. apply (find_key_none k l E). apply find_key_some in E'.
    change k with (fst (k, v)). apply in_map. eapply Permutation_in; [apply Permutation_sym; exact Hp|exact E']. Qed.
End FindKey.

(* cars_total: the u32 sum (and whether it overflows) does not depend on the order of the values *)
Definition zsum (l : list Z) : Z := fold_right Z.add 0%Z l.
Lemma zsum_perm l l' : Permutation l l' -> zsum l = zsum l'.
Proof. unfold zsum. induction 1 as [|x l l' Hp IH|x y l|l l' l'' Hp1 IH1 Hp2 IH2]; cbn [fold_right]; [reflexivity|rewrite IH; reflexivity|lia|congruence]. Qed.
Lemma cars_fold_panic l c :
  fold_left (fun acc n => let? a := acc in if (n + a <=? u32_max)%Z then Ok (n + a)%Z else Panic 1801) l (Panic c) = Panic c.
Proof. induction l as [|n l IH]; [reflexivity|]. cbn [fold_left bind]. exact IH. Qed.
Lemma cars_fold_spec l : Forall (fun n => 0 <= n)%Z l -> forall a, (0 <= a <= u32_max)%Z ->
  fold_left (fun acc n => let? a := acc in if (n + a <=? u32_max)%Z then Ok (n + a)%Z else Panic 1801) l (Ok a)
  = if (a + zsum l <=? u32_max)%Z then Ok (a + zsum l)%Z else Panic 1801.
Proof. induction 1 as [|n l Hn Hl IH]; intros a Ha.
  - cbn. rewrite Z.add_0_r. destruct (a <=? u32_max)%Z eqn:E; [reflexivity|]. apply Z.leb_gt in E. lia.
  - cbn [fold_left bind zsum fold_right]. destruct (n + a <=? u32_max)%Z eqn:E.
    + apply Z.leb_le in E. rewrite IH by lia. replace (n + a + zsum l)%Z with (a + (n + zsum l))%Z by lia. reflexivity.
    + rewrite cars_fold_panic. apply Z.leb_gt in E.
      assert (Hs : (0 <= fold_right Z.add 0 l)%Z) by (clear - Hl; induction Hl; cbn; lia).
      destruct (a + (n + fold_right Z.add 0 l) <=? u32_max)%Z eqn:E2; [apply Z.leb_le in E2; lia|reflexivity].
Qed.

Theorem cars_total_perm l l' : Forall (fun n => 0 <= n)%Z l -> Permutation l l' -> cars_total l = cars_total l'.
Proof. intros Hl Hp. assert (Hl' : Forall (fun n => 0 <= n)%Z l') by (eapply Permutation_Forall; eassumption).
  unfold cars_total. assert (H0 : (0 <= 0 <= u32_max)%Z) by (unfold u32_max; lia).
  rewrite (cars_fold_spec l Hl 0%Z H0), (cars_fold_spec l' Hl' 0%Z H0). rewrite (zsum_perm l l' Hp). reflexivity. Qed.

(* perform_speed_join: with pairwise distinct speed differences the candidate chosen does not depend
   on the order in which add_new_join_paths pushed the candidates *)
Open Scope R_scope.
Definition jstep (best : R * option nat) (c : nat * R) : R * option nat :=
  if Rltb (snd c) (fst best) then (snd c, Some (fst c)) else best.
Lemma join_choice_fold thr cands : join_choice (F:=R) thr cands = snd (fold_left jstep cands (thr, None)).
Proof. reflexivity. Qed.
Lemma jstep_comm b x y : snd x <> snd y -> jstep (jstep b x) y = jstep (jstep b y) x.
Proof. destruct b as [bd bi], x as [ix dx], y as [iy dy]. unfold jstep. cbn [fst snd]. intros Hne.
  destruct (Rltb_spec dx bd), (Rltb_spec dy bd); cbn [fst snd];
    repeat match goal with |- context [Rltb ?a ?b] => destruct (Rltb_spec a b) end; try reflexivity; try lra. Qed.
Lemma jfold_perm l l' : Permutation l l' -> NoDup (map snd l) -> forall b, fold_left jstep l b = fold_left jstep l' b.
Proof. induction 1 as [|x l l' Hp IH|x y l|l l' l'' Hp1 IH1 Hp2 IH2]; intros Hnd b.
  - reflexivity.
  - cbn in Hnd. inversion Hnd; subst. cbn [fold_left]. apply IH. assumption.
  - cbn in Hnd. inversion Hnd as [|a t Ha Ht]; subst. cbn [fold_left]. rewrite (jstep_comm b y x); [reflexivity|].
    intros E. apply Ha. left. symmetry. exact E.
  - rewrite IH1 by exact Hnd. apply IH2. eapply Permutation_NoDup; [apply Permutation_map; exact Hp1|exact Hnd]. Qed.
Theorem join_choice_perm thr l l' : NoDup (map snd l) -> Permutation l l' ->
  join_choice (F:=R) thr l = join_choice thr l'.
Proof. intros Hnd Hp. rewrite !join_choice_fold. rewrite (jfold_perm l l' Hp Hnd). reflexivity. Qed.

(* the hypothesis is needed: two candidates that tie exactly are resolved by position *)
Theorem join_choice_tie_refuted :
  exists thr l l', Permutation l l' /\ join_choice (F:=R) thr l <> join_choice thr l'.
Proof. exists 1, [(1%nat, 0); (2%nat, 0)], [(2%nat, 0); (1%nat, 0)]. split; [apply perm_swap|].
  rewrite !join_choice_fold. unfold jstep. cbn [fold_left fst snd].
  assert (E1 : Rltb 0 1 = true) by (apply Rltb_true; lra).
  assert (E0 : Rltb 0 0 = false) by (apply Rltb_false; lra).
  rewrite E1. cbn [fst snd]. rewrite E0. cbn. discriminate. Qed.

