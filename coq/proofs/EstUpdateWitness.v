(* EstUpdateWitness.v -- machine-checked witness of known finding C15/1 at the level of the MODEL of the two
   scheduling passes (EstUpdate.v, binary64 instance): a 14-node estimated-time array as make_est_times hands it to
   the passes (one siding: a split and a join), departure time 0; after both passes a node on the slower
   alternate branch is scheduled at a NEGATIVE time.  The array is the input of harness case est208.passes
   (VERIF_SEED 20261001), on which the real passes produce bit-identical output. *)
From Coq Require Import ZArith List Bool Floats Uint63.
From AltModel Require Import Num TrackNet EstNet EstUpdate.
Import ListNotations.
Arguments Fp (m e)%uint63_scope.
Arguments Fn (m e)%uint63_scope.

Definition w_nodes : list (enode (F:=float)) := [mkN Fnan (Fp 0 2101) (Fp 0 2101) 1 0 0 0 0 2; mkN Fnan (Fp 0 2101) (Fp 0 2101) 2 0 0 0 0 2; mkN Fnan (Fp 0 2101) (Fp 5497558138880000 2061) 3 0 1 0 2 0; mkN Fnan (Fp 7622310301556745 2054) (Fp 8444249301319680 2057) 4 7 2 0 2 1; mkN Fnan (Fp 4773346480051540 2057) (Fp 8950024650096640 2060) 5 0 3 0 7 0; mkN Fnan (Fp 8725724278030336 2054) (Fp 8180366510653440 2058) 6 0 4 0 5 0; mkN Fnan (Fp 0 2101) (Fp 0 2101) 12 0 5 0 7 1; mkN Fnan (Fp 7620071536342694 2054) (Fp 8444249301319680 2057) 8 0 3 0 0 2; mkN Fnan (Fp 8000647332539314 2056) (Fp 8950024650096640 2060) 9 0 7 0 1 0; mkN Fnan (Fp 7271436898358616 2054) (Fp 8180366510653440 2058) 10 0 8 0 5 0; mkN Fnan (Fp 0 2101) (Fp 0 2101) 11 0 9 0 1 1; mkN Fnan (Fp 0 2101) (Fp 0 2101) 12 0 10 0 0 2; mkN Fnan (Fp 0 2101) (Fp 0 2101) 13 0 6 11 0 2; mkN Fnan (Fp 0 2101) (Fp 0 2101) 0 0 12 0 0 2].
Definition w_set : list bool := [false; false; false; false; false; false; false; false; false; false; false; false; false; false].
Definition w_t0 : float := (Fp 0 2101).

Definition some_negative (ns : list (enode (F:=float))) : bool := existsb (fun n => PrimFloat.ltb (n_ts n) 0%float) ns.
Definition all_input_times_nonneg : bool :=
  forallb (fun n => PrimFloat.leb 0%float (n_ttn n)) w_nodes && PrimFloat.leb 0%float w_t0.

(* the inputs are innocent (non-negative departure time and durations) ... *)
Example witness_input_ok : all_input_times_nonneg = true.
Proof. vm_compute. reflexivity. Qed.

(* ... the passes accept them, yet the result contains a negative scheduled time *)
Theorem update_times_negative_sched_witness :
  exists ns', update_times 66 w_nodes w_set w_t0 = Ok ns' /\ some_negative ns' = true.
Proof. eexists. split; [vm_compute; reflexivity|vm_compute; reflexivity]. Qed.
