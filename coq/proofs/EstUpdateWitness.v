(* EstUpdateWitness.v -- machine-checked witness of known finding C15/1 at the level of the MODEL of the two
   scheduling passes (EstUpdate.v, binary64 instance): a 14-node estimated-time array as make_est_times hands it to
   the passes (one siding: a split and a join), departure time 0; after both passes a node on the slower
   alternate branch is scheduled at a NEGATIVE time.  The array is the input of harness case est208.passes
   (VERIF_SEED 20261001), on which the real passes produce bit-identical output. *)
From Coq Require Import ZArith List Bool Floats Uint63.
From AltModel Require Import Num TrackNet EstNet EstUpdate.
Import ListNotations.
Arguments Fp (m e)%uint63_scope.
Arguments Fn (m e)%uint63_scope.

Definition w_nodes : list (enode (F:=float)) := [mkN Fnan (Fp 0 2101) (Fp 0 2101) 1 0 0 0 0 2; mkN Fnan (Fp 0 2101) (Fp 0 2101) 2 0 0 0 0 2; mkN Fnan (Fp 0 2101) (Fp 5497558138880000 2061) 3 0 1 0 2 0; mkN Fnan (Fp 7622310301556745 2054) (Fp 8444249301319680 2057) 4 7 2 0 2 1; mkN Fnan (Fp 4773346480051540 2057) (Fp 8950024650096640 2060) 5 0 3 0 7 0; mkN Fnan (Fp 8725724278030336 2054) (Fp 8180366510653440 2058) 6 0 4 0 5 0; mkN Fnan (Fp 0 2101) (Fp 0 2101) 12 0 5 0 7 1; mkN Fnan (Fp 7620071536342694 2054) (Fp 8444249301319680 2057) 8 0 3 0 0 2; mkN Fnan (Fp 8000647332539314 2056) (Fp 8950024650096640 2060) 9 0 7 0 1 0; mkN Fnan (Fp 7271436898358616 2054) (Fp 8180366510653440 2058) 10 0 8 0 5 0; mkN Fnan (Fp 0 2101) (Fp 0 2101) 11 0 9 0 1 1; mkN Fnan (Fp 0 2101) (Fp 0 2101) 12 0 10 0 0 2; mkN Fnan (Fp 0 2101) (Fp 0 2101) 13 0 6 11 0 2; mkN Fnan (Fp 0 2101) (Fp 0 2101) 0 0 12 0 0 2].
Definition w_set : list bool := [false; false; false; false; false; false; false; false; false; false; false; false; false; false].
Definition w_t0 : float := (Fp 0 2101).

Definition some_negative (ns : list (enode (F:=float))) : bool := existsb (fun n => PrimFloat.ltb (n_ts n) 0%float) ns.
Definition all_input_times_nonneg : bool :=
  forallb (fun n => PrimFloat.leb 0%float (n_ttn n)) w_nodes && PrimFloat.leb 0%float w_t0.

(* the inputs are innocent (non-negative departure time and durations) ... *)
Example witness_input_ok : all_input_times_nonneg = true.
Proof. vm_compute. reflexivity. Qed.

(* ... the passes accept them, yet the result contains a negative scheduled time *)
Theorem update_times_negative_sched_witness :
  exists ns', update_times 66 w_nodes w_set w_t0 = Ok ns' /\ some_negative ns' = true.
Proof. eexists. split; [vm_compute; reflexivity|vm_compute; reflexivity]. Qed.

(* ---- known finding C15/2 at the level of the model of the passes: two origin links (the start node has an alternate
   branch for the second origin, which is the FASTER one), departure time 600 s; both passes accept the 17-node array
   make_est_times hands them (harness case est1037.passes, VERIF_SEED 20261001, real passes bit-identical) and the
   alternate node is left scheduled LATER than its split node (by minutes, not by rounding): the clause "no node is
   scheduled later than any predecessor allows" is false of the faithful model. ---- *)
Definition w2_nodes : list (enode (F:=float)) := [mkN Fnan (Fp 0 2101) (Fp 0 2101) 1 0 0 0 0 2; mkN Fnan (Fp 0 2101) (Fp 0 2101) 2 4 0 0 0 2; mkN Fnan (Fp 0 2101) (Fp 7036874417766400 2057) 3 0 1 0 2 0; mkN Fnan (Fp 7923411596665734 2058) (Fp 5893382324879360 2061) 11 0 2 0 2 1; mkN Fnan (Fp 0 2101) (Fp 0 2101) 5 0 1 0 0 2; mkN Fnan (Fp 0 2101) (Fp 7036874417766400 2057) 6 0 4 0 1 0; mkN Fnan (Fp 4672474547972892 2058) (Fp 8378278603653120 2061) 7 0 5 0 1 1; mkN Fnan (Fp 7505999378950848 2053) (Fp 7036874417766400 2057) 8 0 6 0 3 0; mkN Fnan (Fp 7394450394350856 2056) (Fp 8180366510653440 2060) 9 0 7 0 3 1; mkN Fnan (Fp 6254999482459008 2053) (Fp 7036874417766400 2057) 10 0 8 0 5 0; mkN Fnan (Fp 0 2101) (Fp 0 2101) 15 0 9 14 5 1; mkN Fnan (Fp 4691249611844256 2055) (Fp 7036874417766400 2057) 12 0 3 0 3 0; mkN Fnan (Fp 8072671949477408 2056) (Fp 8180366510653440 2060) 13 0 11 0 3 1; mkN Fnan (Fp 6254999482459072 2053) (Fp 7036874417766400 2057) 14 0 12 0 5 0; mkN Fnan (Fp 0 2101) (Fp 0 2101) 10 0 13 0 0 2; mkN Fnan (Fp 0 2101) (Fp 0 2101) 16 0 10 0 0 2; mkN Fnan (Fp 0 2101) (Fp 0 2101) 0 0 15 0 0 2].
Definition w2_set : list bool := [false; false; false; false; false; false; false; false; false; false; false; false; false; false; false; false; false].
Definition w2_t0 : float := (Fp 5277655813324800 2058).

(* some node with an alternate successor (other than its primary one) whose scheduled time exceeds the node's own by
   more than one second *)
Definition alt_later_than_split (ns : list (enode (F:=float))) : bool :=
  existsb (fun nd => negb (Nat.eqb (n_nexta nd) 0) && negb (Nat.eqb (n_nexta nd) (n_next nd)) &&
                     match nth_error ns (n_nexta nd) with
                     | Some na => PrimFloat.ltb (PrimFloat.add (n_ts nd) 1%float) (n_ts na)
                     | None => false end) ns.
Definition w2_inputs_innocent : bool :=
  forallb (fun n => PrimFloat.leb 0%float (n_ttn n)) w2_nodes && PrimFloat.leb 0%float w2_t0.

Example witness2_input_ok : w2_inputs_innocent = true.
Proof. vm_compute. reflexivity. Qed.

Theorem update_times_alt_later_witness :
  exists ns', update_times 78 w2_nodes w2_set w2_t0 = Ok ns' /\ alt_later_than_split ns' = true.
Proof. eexists. split; [vm_compute; reflexivity|vm_compute; reflexivity]. Qed.
