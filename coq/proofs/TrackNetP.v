(* TrackNetP.v -- reflection lemmas for the discrete helpers of TrackNet.v *)
From Coq Require Import List Bool Arith Lia.
From AltModel Require Import TrackNet.
Import ListNotations.

Lemma forallbi_spec {A} (f : nat -> A -> bool) k l :
  forallbi f k l = true <-> forall i a, nth_error l i = Some a -> f (k + i) a = true.
Proof.
  revert k; induction l as [|x l IH]; intros k; cbn.
  - split; auto. intros _ i a H; destruct i; discriminate.
  - rewrite andb_true_iff, IH. split.
    + intros [H1 H2] i b Hn. destruct i; cbn in Hn.
      * inversion Hn; subst. rewrite Nat.add_0_r; auto.
      * specialize (H2 i b Hn). replace (k + S i) with (S k + i) by lia. auto.
    + intros H; split.
      * specialize (H 0 x eq_refl). rewrite Nat.add_0_r in H; auto.
      * intros i b Hn. replace (S k + i) with (k + S i) by lia. apply H; auto.
Qed.

Lemma forallbi0_spec {A} (f : nat -> A -> bool) l :
  forallbi f 0 l = true <-> forall i a, nth_error l i = Some a -> f i a = true.
Proof. rewrite forallbi_spec. cbn. tauto. Qed.

Lemma memb_spec x l : memb x l = true <-> In x l.
Proof.
  unfold memb. rewrite existsb_exists. split.
  - intros (y & Hy & E). apply Nat.eqb_eq in E. subst; auto.
  - intros H. exists x. split; auto. apply Nat.eqb_refl.
Qed.

Lemma memb_false x l : memb x l = false <-> ~ In x l.
Proof. rewrite <- memb_spec. destruct (memb x l); split; intros; try discriminate; auto. exfalso; auto. Qed.

Lemma eql_spec a b : eql a b = true <-> a = b.
Proof.
  revert b; induction a as [|x a IH]; intros [|y b]; cbn; split; intros H; try discriminate; auto.
  - apply andb_true_iff in H. destruct H as [H1 H2]. apply Nat.eqb_eq in H1. apply IH in H2. subst; auto.
  - inversion H; subst. rewrite Nat.eqb_refl. cbn. apply IH; auto.
Qed.

Lemma connected_spec net a b : connected net a b = true <-> Connected net a b.
Proof.
  unfold connected, Connected. destruct (nth_error net a) as [l|]; split.
  - intros H. apply andb_true_iff in H. destruct H as [H1 H2]. exists l. split; [reflexivity|]. split.
    + intros E. subst. cbn in H1. discriminate.
    + apply orb_true_iff in H2. destruct H2 as [H2|H2]; apply Nat.eqb_eq in H2; auto.
  - intros (l' & E & Hb & Hc). inversion E; subst l'. apply andb_true_iff. split.
    + destruct (Nat.eqb_spec b 0); [contradiction|reflexivity].
    + apply orb_true_iff. destruct Hc as [Hc|Hc]; [left|right]; apply Nat.eqb_eq; auto.
  - discriminate.
  - intros (l' & E & _). discriminate.
Qed.

Lemma chainb_spec net r : chainb net r = true <-> Chain net r.
Proof.
  induction r as [|a r IH]; cbn; [tauto|].
  destruct r as [|b t]; [tauto|].
  rewrite andb_true_iff, connected_spec, IH. tauto.
Qed.

Lemma last_cons {A} (a : A) t d : last (a :: t) d = last t a.
Proof.
  revert a d; induction t as [|b t IH]; intros a d; [reflexivity|].
  change (last (a :: b :: t) d) with (last (b :: t) d). rewrite IH.
  symmetry. apply IH.
Qed.

Lemma last_snoc {A} (l : list A) x d : last (l ++ [x]) d = x.
Proof.
  revert d; induction l as [|a l IH]; intros d; [reflexivity|].
  cbn [app]. rewrite last_cons. apply IH.
Qed.

Lemma Chain_snoc net a l :
  Chain net a -> (a = [] \/ Connected net (last a 0) l) -> Chain net (a ++ [l]).
Proof.
  induction a as [|x t IH]; intros Hc Hl; cbn; auto.
  destruct t as [|y t'].
  - cbn. destruct Hl as [Hl|Hl]; [discriminate|]. cbn in Hl. auto.
  - cbn [app]. destruct Hc as [Hxy Hc]. split; auto.
    apply IH; auto. right. destruct Hl as [Hl|Hl]; [discriminate|].
    rewrite !last_cons in Hl. rewrite last_cons. exact Hl.
Qed.

Lemma hd_error_app_ne {A} (a : list A) b : a <> [] -> hd_error (a ++ b) = hd_error a.
Proof. destruct a; [congruence|reflexivity]. Qed.
