(* GeomExactP.v -- C06: PathTpc::extend is independent of how the route is partitioned into
   successive calls; link points sit at the cumulative link lengths; the count cross-checks of
   ObjState hold after every extension; the grade profile reproduces the route's own elevation
   points at every position; catenary limits are shifted by the same offsets; a non-contiguous
   route is rejected.  All statements at the real-number instance. *)
From Coq Require Import Reals Lra List Bool ZArith Lia Arith.
From AltModel Require Import Num SpeedPoints PathGeom.
From AltProofs Require Import NumR SpeedPointsP PathGeomP.
Import ListNotations.
Open Scope R_scope.

(* ------------------------------------------------------------------ the two loops compose *)
Lemma link_pass_app_eq (net : list LinkR) (tp : TPR) a b : forall st,
  link_pass net tp st (a ++ b)
  = bind (link_pass net tp st a) (fun r1 =>
      bind (link_pass net tp (fst r1) b) (fun r2 => Ok (fst r2, snd r1 ++ snd r2))).
Proof.
  induction a as [|i a IH]; intros st; cbn.
  - destruct (link_pass net tp st b) as [[st2 lb]| |]; reflexivity.
  - destruct (link_step net tp st i) as [[st1 l]| |]; cbn; auto. rewrite IH.
    destruct (link_pass net tp st1 a) as [[s la]| |]; cbn; auto.
    destruct (link_pass net tp s b) as [[s2 lb]| |]; cbn; auto.
Qed.

Lemma geom_pass_app_eq (tp : TPR) la lb : forall g,
  geom_pass tp g (la ++ lb) = bind (geom_pass tp g la) (fun g1 => geom_pass tp g1 lb).
Proof.
  induction la as [|l la IH]; intros g; cbn; auto.
  destruct (geom_step tp g l); cbn; auto.
Qed.

(* ------------------------------------------------------------------ sizes *)
Lemma build_prc_length (p : PRCR) segs : length (build_prc p segs) = S (length segs).
Proof. revert p; induction segs as [|[[c o] n] t IH]; intros p; cbn; auto. Qed.

Lemma grade_segs_length (base net : R) es : length (grade_segs base net es) = (length es - 1)%nat.
Proof.
  revert net. induction es as [|[po pe] t IH]; intros net; cbn; auto.
  destruct t as [|[co ce] t']; cbn; auto. cbn in IH. rewrite IH. lia.
Qed.

Lemma split_last_length {A} (l : list A) i x : split_last l = Some (i, x) -> length l = S (length i).
Proof. intros H. apply split_last_some in H. subst. rewrite app_length. cbn. lia. Qed.

Lemma extend_prc_ok (v : list PRCR) segs v' :
  extend_prc v segs = Ok v' ->
  exists init lastp, split_last v = Some (init, lastp) /\ v' = init ++ build_prc lastp segs.
Proof. unfold extend_prc. destruct (split_last v) as [[i l]|]; intros H; inversion H; eauto. Qed.

Lemma extend_prc_length (v : list PRCR) segs v' :
  extend_prc v segs = Ok v' -> length v' = (length v + length segs)%nat.
Proof.
  intros H. destruct (extend_prc_ok _ _ _ H) as (i & l & E & ->).
  rewrite app_length, build_prc_length, (split_last_length _ _ _ E). lia.
Qed.

(* number of grade points one link adds *)
Definition grade_add (l : LinkR) : nat :=
  match lk_elevs l with [] => 1%nat | es => (length es - 1)%nat end.

Definition last_prc_offset (v : list PRCR) : R :=
  match split_last v with Some (_, g) => prc_offset g | None => 0 end.

(* what one iteration of the second loop does *)
Lemma geom_step_ok (tp : TPR) gr cu cats l gr' cu' cats' :
  geom_step tp (gr, cu, cats) l = Ok (gr', cu', cats') ->
  exists ginit glast cinit clast csegs,
    split_last gr = Some (ginit, glast) /\ split_last cu = Some (cinit, clast) /\
    gr' = ginit ++ build_prc glast
            (match lk_elevs l with
             | [] => [(prc_coeff glast, prc_offset glast + lk_length l, prc_net glast)]
             | es => grade_segs (prc_offset glast) (prc_net glast) es end) /\
    (match lk_headings l with
     | [] => Ok [(prc_coeff clast, prc_offset glast + lk_length l, prc_net clast)]
     | hs => curve_segs tp (prc_offset glast) (prc_net clast) hs end) = Ok csegs /\
    cu' = cinit ++ build_prc clast csegs /\
    cats' = cats ++ map (fun c => match c with (s, e, w) => (prc_offset glast + s, prc_offset glast + e, w) end) (lk_cats l).
Proof.
  unfold geom_step. intros H.
  destruct (split_last gr) as [[ginit glast]|] eqn:Eg; [|discriminate].
  destruct (split_last cu) as [[cinit clast]|] eqn:Ec; [|discriminate].
  bind_inv H. bind_inv H. bind_inv H. inversion H; subst; clear H.
  unfold extend_prc in Ha, Ha1. rewrite Eg in Ha. rewrite Ec in Ha1. inversion Ha; inversion Ha1; subst.
  exists ginit, glast, cinit, clast, a0. numR. repeat split; auto.
Qed.

Lemma geom_step_sizes (tp : TPR) gr cu cats l gr' cu' cats' :
  geom_step tp (gr, cu, cats) l = Ok (gr', cu', cats') ->
  length gr' = (length gr + grade_add l)%nat /\ (length cu <= length cu')%nat /\ (0 < length cu)%nat /\ (0 < length gr)%nat.
Proof.
  intros H. destruct (geom_step_ok _ _ _ _ _ _ _ _ H) as (gi & gl & ci & cl & cs & Eg & Ec & -> & _ & -> & _).
  rewrite !app_length, !build_prc_length, (split_last_length _ _ _ Eg), (split_last_length _ _ _ Ec).
  unfold grade_add. destruct (lk_elevs l) as [|e es] eqn:E.
  - cbn. repeat split; lia.
  - rewrite grade_segs_length. cbn [length]. repeat split; lia.
Qed.

Lemma geom_pass_sizes (tp : TPR) links : forall gr cu cats gr' cu' cats',
  geom_pass tp (gr, cu, cats) links = Ok (gr', cu', cats') ->
  (0 < length gr)%nat -> (0 < length cu)%nat ->
  length gr' = (length gr + list_sum (map grade_add links))%nat /\ (0 < length cu')%nat.
Proof.
  induction links as [|l t IH]; intros gr cu cats gr' cu' cats' H Hg Hc; cbn [geom_pass] in H.
  - inversion H; subst. cbn. split; auto; lia.
  - bind_inv H. destruct a as [[g1 c1] k1].
    destruct (geom_step_sizes _ _ _ _ _ _ _ _ Ha) as (A & B & C & D).
    destruct (IH _ _ _ _ _ _ H) as [E F]; try lia. split; auto.
    cbn [map]. unfold list_sum in *. cbn [fold_right]. lia.
Qed.

(* the initial-elevation rule does nothing once the path has a link, or when nothing is added *)
Lemma init_elev_noop (net : list LinkR) gr path : (length gr <> 1%nat \/ path = []) -> init_elev net gr path = Ok gr.
Proof.
  intros [H| ->]; unfold init_elev.
  - destruct gr as [|g [|g' t]]; auto. cbn in H. lia.
  - destruct gr as [|g [|g' t]]; auto.
Qed.

Lemma init_elev_app (net : list LinkR) gr i a b : init_elev net gr ((i :: a) ++ b) = init_elev net gr (i :: a).
Proof. reflexivity. Qed.

Lemma init_elev_length (net : list LinkR) gr path gr0 : init_elev net gr path = Ok gr0 -> length gr0 = length gr.
Proof.
  unfold init_elev. destruct gr as [|g [|g' t]]; try (intros H; inversion H; auto; fail).
  destruct path as [|i p]; [intros H; inversion H; auto|].
  destruct (lookup net i) as [l|]; [|discriminate]. destruct (lk_elevs l) as [|[o e] es]; intros H; inversion H; auto.
Qed.

Lemma link_pass_nonempty (net : list LinkR) (tp : TPR) path : forall lps sps lps' sps' links,
  link_pass net tp (lps, sps) path = Ok ((lps', sps'), links) -> lps <> [] -> lps' <> [].
Proof.
  induction path as [|i rest IH]; intros lps sps lps' sps' links H Hn; cbn in H.
  - inversion H; subst; auto.
  - bind_inv H. destruct a as [st1 l]. bind_inv H. destruct a as [st2 ls]. inversion H; subst; clear H.
    destruct (link_step_ok _ _ _ _ _ _ _ Ha) as (init & lastp & ss & _ & _ & _ & _ & _ & ->).
    eapply IH; eauto. intros Hx. apply app_eq_nil in Hx. destruct Hx as [_ Hx]. discriminate.
Qed.

(* insertion never empties a profile *)
Lemma lower_canon_nonempty (a b v : R) (l1 : list ptR) : l1 <> [] ->
  match lower a b v l1 with [] => [] | (o, s) :: t' => (o, s) :: canon s t' end <> [].
Proof.
  destruct l1 as [|[o s] l]; [congruence|]. intros _. cbn [lower map]. unfold low1 at 1.
  destruct (inwin a b (fst (o, s))); cbn; discriminate.
Qed.

Lemma add_bp_nonempty (d : R) (l : list ptR) (o : R) : add_bp d l o <> [].
Proof. destruct l as [|[o' s'] l']; cbn; [discriminate|]. numR.
  destruct (Rltb o o'); [discriminate|]. destruct (Reqb o o'); discriminate. Qed.

Lemma insert_speed_nonempty (pts : list ptR) (a b v : R) : pts <> [] -> insert_speed pts a b v <> [].
Proof.
  destruct pts as [|[o0 s0] t]; [congruence|]. intros _. unfold insert_speed.
  apply lower_canon_nonempty. apply add_bp_nonempty.
Qed.

Lemma add_speeds_nonempty (pts : list ptR) tp ss base : pts <> [] -> add_speeds pts tp ss base <> [].
Proof.
  unfold add_speeds. destruct (speed_set_applies tp ss); auto.
  generalize (length_add tp ss). intros ext. revert pts.
  induction (ss_limits ss) as [|sl l IH]; intros pts Hn; cbn; auto.
  apply IH. unfold add_speed1. destruct (sl_speed sl <? tp_speed_max tp)%num; auto.
  apply insert_speed_nonempty; auto.
Qed.

Lemma link_pass_speeds_nonempty (net : list LinkR) (tp : TPR) path : forall lps sps lps' sps' links,
  link_pass net tp (lps, sps) path = Ok ((lps', sps'), links) -> sps <> [] -> sps' <> [].
Proof.
  induction path as [|i rest IH]; intros lps sps lps' sps' links H Hn; cbn in H.
  - inversion H; subst; auto.
  - bind_inv H. destruct a as [st1 l]. bind_inv H. destruct a as [st2 ls]. inversion H; subst; clear H.
    destruct (link_step_ok _ _ _ _ _ _ _ Ha) as (init & lastp & ss & _ & _ & _ & _ & _ & ->).
    eapply IH; eauto. apply add_speeds_nonempty; auto.
Qed.

(* ------------------------------------------------------------------ extend_app *)
(* links whose elevation list has exactly one point (rejected by network validation) are the one
   shape for which the initial-elevation rule could fire twice *)
Definition no_single_elev (links : list LinkR) : Prop :=
  Forall (fun l => length (lk_elevs l) <> 1%nat) links.

Lemma grade_add_pos l : length (lk_elevs l) <> 1%nat -> (1 <= grade_add l)%nat.
Proof. unfold grade_add. destruct (lk_elevs l) as [|e [|e' t]]; cbn; intros; lia. Qed.

Lemma path_eta (p : PathR) :
  {| p_link_points := p_link_points p; p_grades := p_grades p; p_curves := p_curves p;
     p_speed_points := p_speed_points p; p_cats := p_cats p; p_tp := p_tp p; p_finished := p_finished p |} = p.
Proof. destruct p; reflexivity. Qed.

Lemma extend_nil (net : list LinkR) (p : PathR) :
  p_link_points p <> [] -> p_grades p <> [] -> p_curves p <> [] -> p_speed_points p <> [] ->
  extend net p [] = Ok p.
Proof.
  intros H1 H2 H3 H4. unfold extend.
  destruct (p_link_points p) eqn:E1; [congruence|]. destruct (p_grades p) eqn:E2; [congruence|].
  destruct (p_curves p) eqn:E3; [congruence|]. destruct (p_speed_points p) eqn:E4; [congruence|].
  cbn [length Nat.eqb negb ensure bind]. rewrite init_elev_noop by auto.
  cbn [bind link_pass geom_pass fst snd]. rewrite <- E1, <- E2, <- E3, <- E4.
  rewrite path_eta. reflexivity.
Qed.

(* extend, as a function of its four ensure!s, the initial-elevation rule and the two loops *)
Lemma extend_unfold (net : list LinkR) (p : PathR) path :
  p_link_points p <> [] -> p_grades p <> [] -> p_curves p <> [] -> p_speed_points p <> [] ->
  extend net p path =
  bind (init_elev net (p_grades p) path) (fun gr0 =>
  bind (link_pass net (p_tp p) (p_link_points p, p_speed_points p) path) (fun r =>
  bind (geom_pass (p_tp p) (gr0, p_curves p, p_cats p) (snd r)) (fun g =>
  Ok {| p_link_points := fst (fst r); p_grades := fst (fst g); p_curves := snd (fst g);
        p_speed_points := snd (fst r); p_cats := snd g; p_tp := p_tp p; p_finished := p_finished p |}))).
Proof.
  intros H1 H2 H3 H4. unfold extend.
  destruct (p_link_points p) as [|x1 y1] eqn:E1; [congruence|]. destruct (p_grades p) as [|x2 y2] eqn:E2; [congruence|].
  destruct (p_curves p) as [|x3 y3] eqn:E3; [congruence|]. destruct (p_speed_points p) as [|x4 y4] eqn:E4; [congruence|].
  cbn [length Nat.eqb negb ensure bind].
  destruct (init_elev net (x2 :: y2) path) as [gr0| |]; cbn [bind]; auto.
  destruct (link_pass net (p_tp p) (x1 :: y1, x4 :: y4) path) as [[[a b] c]| |]; cbn [bind fst snd]; auto.
  destruct (geom_pass (p_tp p) (gr0, x3 :: y3, p_cats p) c) as [[[g1 g2] g3]| |]; cbn [bind fst snd]; auto.
Qed.

Lemma link_pass_cons_links (net : list LinkR) (tp : TPR) st i a st' links :
  link_pass net tp st (i :: a) = Ok (st', links) -> exists l ls, links = l :: ls.
Proof.
  cbn [link_pass]. intros H. bind_inv H. destruct a0 as [st1 l]. bind_inv H. destruct a0 as [st2 ls].
  inversion H; subst. eauto.
Qed.

Lemma first_call_adds_grade (links : list LinkR) l ls :
  links = l :: ls -> no_single_elev links -> (1 <= list_sum (map grade_add links))%nat.
Proof.
  intros -> H. inversion H; subst. pose proof (grade_add_pos l ltac:(auto)).
  cbn [map]. unfold list_sum. cbn [fold_right]. lia.
Qed.

(* Building the path in one call or in two successive calls gives the identical profile (and one
   is accepted iff the other is). *)
Theorem extend_app (net : list LinkR) (p r : PathR) a b :
  no_single_elev (route_links net a) ->
  (extend net p (a ++ b) = Ok r <-> exists q, extend net p a = Ok q /\ extend net q b = Ok r).
Proof.
  intros Hse.
  destruct a as [|i a].
  { (* nothing in the first call *)
    cbn [app]. split.
    - intros H. exists p. split; auto.
      destruct (extend_ok_inv _ _ _ _ H) as (? & ? & ? & ? & ? & ? & A & B & C & D & _).
      apply extend_nil; auto.
    - intros (q & H1 & H2).
      destruct (extend_ok_inv _ _ _ _ H1) as (? & ? & ? & ? & ? & ? & A & B & C & D & _).
      rewrite extend_nil in H1 by auto. inversion H1; subst. exact H2. }
  split.
  - intros H.
    destruct (extend_ok_inv _ _ _ _ H) as (gr0 & lps' & sps' & gr & cu & cats & A & B & C & D & HI & HL & HG & ->).
    rewrite init_elev_app in HI.
    rewrite link_pass_app_eq in HL.
    destruct (link_pass net (p_tp p) (p_link_points p, p_speed_points p) (i :: a)) as [[[lps1 sps1] la]| |] eqn:EL1; try discriminate.
    cbn [bind fst snd] in HL.
    destruct (link_pass net (p_tp p) (lps1, sps1) b) as [[[lps2 sps2] lb]| |] eqn:EL2; try discriminate.
    cbn [bind fst snd] in HL. inversion HL as [[E1 E2 E3]]. subst lps2 sps2.
    destruct (link_pass_ok _ _ _ _ _ _ _ _ EL1) as [Ela _]. destruct (link_pass_ok _ _ _ _ _ _ _ _ EL2) as [Elb _].
    assert (HR : route_links net ((i :: a) ++ b) = la ++ lb) by (rewrite route_links_app, Ela, Elb; reflexivity).
    rewrite HR in HG. rewrite geom_pass_app_eq in HG.
    destruct (geom_pass (p_tp p) (gr0, p_curves p, p_cats p) la) as [[[gr1 cu1] cats1]| |] eqn:EG1; try discriminate.
    cbn [bind] in HG.
    assert (Hgr0 : (0 < length gr0)%nat).
    { rewrite (init_elev_length _ _ _ _ HI). destruct (p_grades p); [congruence|cbn; lia]. }
    assert (Hcu0 : (0 < length (p_curves p))%nat) by (destruct (p_curves p); [congruence|cbn; lia]).
    destruct (geom_pass_sizes _ _ _ _ _ _ _ _ EG1 Hgr0 Hcu0) as [Sg Sc].
    set (q := {| p_link_points := lps1; p_grades := gr1; p_curves := cu1; p_speed_points := sps1;
                 p_cats := cats1; p_tp := p_tp p; p_finished := p_finished p |}).
    exists q. split.
    + rewrite extend_unfold by auto. rewrite HI. cbn [bind]. rewrite EL1. cbn [bind fst snd]. rewrite EG1. reflexivity.
    + assert (Hq1 : p_link_points q <> []) by (cbn; eapply link_pass_nonempty; eauto).
      assert (Hq4 : p_speed_points q <> []) by (cbn; eapply link_pass_speeds_nonempty; eauto).
      assert (Hq2 : p_grades q <> []) by (cbn; destruct gr1; [cbn in Sg; lia|discriminate]).
      assert (Hq3 : p_curves q <> []) by (cbn; destruct cu1; [cbn in Sc; lia|discriminate]).
      rewrite extend_unfold by auto. cbn [p_grades p_curves p_cats p_tp p_link_points p_speed_points p_finished q].
      rewrite init_elev_noop.
      * cbn [bind]. rewrite EL2. cbn [bind fst snd]. rewrite HG. reflexivity.
      * left. rewrite Sg. rewrite Ela in *.
        destruct (link_pass_cons_links _ _ _ _ _ _ _ EL1) as (l0 & ls & El).
        pose proof (first_call_adds_grade _ _ _ El Hse).
        lia.
  - intros (q & H1 & H2).
    destruct (extend_ok_inv _ _ _ _ H1) as (gr0 & lps1 & sps1 & gr1 & cu1 & cats1 & A & B & C & D & HI & HL1 & HG1 & ->).
    destruct (extend_ok_inv _ _ _ _ H2) as (gr0' & lps2 & sps2 & gr2 & cu2 & cats2 & A' & B' & C' & D' & HI' & HL2 & HG2 & ->).
    cbn [p_grades p_curves p_cats p_tp p_link_points p_speed_points p_finished] in *.
    assert (Hgr0 : (0 < length gr0)%nat).
    { rewrite (init_elev_length _ _ _ _ HI). destruct (p_grades p); [congruence|cbn; lia]. }
    assert (Hcu0 : (0 < length (p_curves p))%nat) by (destruct (p_curves p); [congruence|cbn; lia]).
    destruct (geom_pass_sizes _ _ _ _ _ _ _ _ HG1 Hgr0 Hcu0) as [Sg Sc].
    assert (Hlen : length gr1 <> 1%nat).
    { rewrite Sg. destruct (link_pass_cons_links _ _ _ _ _ _ _ HL1) as (l0 & ls & El).
      pose proof (first_call_adds_grade _ _ _ El Hse). lia. }
    rewrite init_elev_noop in HI' by auto. inversion HI'; subst gr0'.
    rewrite extend_unfold by auto. rewrite init_elev_app, HI. cbn [bind].
    rewrite link_pass_app_eq, HL1. cbn [bind fst snd]. rewrite HL2. cbn [bind fst snd].
    rewrite geom_pass_app_eq, HG1. cbn [bind]. rewrite HG2. reflexivity.
Qed.

(* ------------------------------------------------------------------ any partition *)
Definition path_nonempty (p : PathR) : Prop :=
  p_link_points p <> [] /\ p_grades p <> [] /\ p_curves p <> [] /\ p_speed_points p <> [].

Lemma new_path_nonempty (tp : TPR) : path_nonempty (new_path tp).
Proof. repeat split; discriminate. Qed.

Lemma extend_ok_nonempty (net : list LinkR) (p q : PathR) path :
  extend net p path = Ok q -> path_nonempty p /\ path_nonempty q.
Proof.
  intros H.
  destruct (extend_ok_inv _ _ _ _ H) as (gr0 & lps' & sps' & gr & cu & cats & A & B & C & D & HI & HL & HG & ->).
  split; [repeat split; auto|].
  assert (Hgr0 : (0 < length gr0)%nat).
  { rewrite (init_elev_length _ _ _ _ HI). destruct (p_grades p); [congruence|cbn; lia]. }
  assert (Hcu0 : (0 < length (p_curves p))%nat) by (destruct (p_curves p); [congruence|cbn; lia]).
  destruct (geom_pass_sizes _ _ _ _ _ _ _ _ HG Hgr0 Hcu0) as [Sg Sc].
  repeat split; cbn.
  - eapply link_pass_nonempty; eauto.
  - destruct gr; [cbn in Sg; lia|discriminate].
  - destruct cu; [cbn in Sc; lia|discriminate].
  - eapply link_pass_speeds_nonempty; eauto.
Qed.

(* C06: any partition of the route into successive extend calls gives the identical path, and is
   accepted iff the single call is *)
Theorem extend_many_concat (net : list LinkR) parts : forall (p r : PathR),
  path_nonempty p -> no_single_elev (route_links net (concat parts)) ->
  (extend_many net p parts = Ok r <-> extend net p (concat parts) = Ok r).
Proof.
  induction parts as [|a rest IH]; intros p r Hp Hse; cbn [extend_many concat].
  - destruct Hp as (A & B & C & D). rewrite extend_nil by auto. reflexivity.
  - cbn [concat] in Hse. rewrite route_links_app in Hse. apply Forall_app in Hse. destruct Hse as [Hsa Hsr].
    rewrite (extend_app net p r a (concat rest) Hsa). split.
    + intros H. bind_inv H. exists a0. split; auto. apply IH; auto.
      apply extend_ok_nonempty in Ha. tauto.
    + intros (q & H1 & H2). rewrite H1. cbn [bind]. apply IH; auto.
      apply extend_ok_nonempty in H1. tauto.
Qed.

Corollary extend_partition_independent (net : list LinkR) (tp : TPR) parts1 parts2 (r : PathR) :
  concat parts1 = concat parts2 -> no_single_elev (route_links net (concat parts1)) ->
  (extend_many net (new_path tp) parts1 = Ok r <-> extend_many net (new_path tp) parts2 = Ok r).
Proof.
  intros Hc Hse. rewrite !extend_many_concat; auto using new_path_nonempty.
  - rewrite Hc. reflexivity.
  - rewrite <- Hc. auto.
Qed.

(* in particular: one link at a time *)
Definition singles (path : list Z) : list (list Z) := map (fun i => [i]) path.
Lemma concat_singles path : concat (singles path) = path.
Proof. induction path; cbn; auto. f_equal; auto. Qed.

(* ------------------------------------------------------------------ link points *)
(* the link points of a route whose first link starts at [base] *)
Fixpoint real_points (base : R) (ls : list LinkR) : list LPR :=
  match ls with [] => [] | l :: t => lp_real base l :: real_points (lk_length l + base) t end.
Definition end_base (base : R) (ls : list LinkR) : R := fold_left (fun b l => lk_length l + b) ls base.

Lemma split_last_inj {A} (l : list A) x i y : split_last (l ++ [x]) = Some (i, y) -> i = l /\ y = x.
Proof. rewrite split_last_app. intros H; inversion H; auto. Qed.

Lemma link_pass_points (net : list LinkR) (tp : TPR) path : forall pre base sps lps' sps' links,
  link_pass net tp (pre ++ [lp_dummy base], sps) path = Ok ((lps', sps'), links) ->
  lps' = pre ++ real_points base links ++ [lp_dummy (end_base base links)].
Proof.
  induction path as [|i rest IH]; intros pre base sps lps' sps' links H; cbn [link_pass] in H.
  - inversion H; subst. reflexivity.
  - bind_inv H. destruct a as [st1 l]. bind_inv H. destruct a as [st2 ls]. inversion H; subst; clear H.
    destruct (link_step_ok _ _ _ _ _ _ _ Ha) as (init & lastp & ss & _ & _ & Hsl & _ & _ & ->).
    apply split_last_inj in Hsl. destruct Hsl as [-> ->]. cbn [lp_offset lp_dummy] in Ha0.
    replace (pre ++ [lp_real base l; lp_dummy (lk_length l + base)])
      with ((pre ++ [lp_real base l]) ++ [lp_dummy (lk_length l + base)]) in Ha0
      by (rewrite <- app_assoc; reflexivity).
    apply IH in Ha0. rewrite Ha0. cbn [real_points end_base fold_left]. rewrite <- app_assoc. reflexivity.
Qed.

(* sum of the lengths, in the order the code adds them *)
Lemma end_base_app b l1 l2 : end_base b (l1 ++ l2) = end_base (end_base b l1) l2.
Proof. unfold end_base. apply fold_left_app. Qed.

Lemma end_base_sum b ls : end_base b ls = b + fold_right (fun l s => lk_length l + s) 0 ls.
Proof. revert b; induction ls as [|l t IH]; intros b; cbn; [lra|]. unfold end_base in *. rewrite IH. lra. Qed.

(* C06: link point k sits at the sum of the first k link lengths, carries link k's index and
   counts; one closing point at the route length *)
Theorem link_points_exact (net : list LinkR) (tp : TPR) path (q : PathR) :
  extend net (new_path tp) path = Ok q ->
  p_link_points q = real_points 0 (route_links net path) ++ [lp_dummy (end_base 0 (route_links net path))].
Proof.
  intros H. destruct (extend_ok_inv _ _ _ _ H) as (gr0 & lps' & sps' & gr & cu & cats & _ & _ & _ & _ & _ & HL & _ & ->).
  cbn [p_link_points new_path] in *. change [lp_default] with ([] ++ [lp_dummy 0]) in HL.
  apply link_pass_points in HL. exact HL.
Qed.

Lemma link_point_offset_nth ls : forall base k, (k <= length ls)%nat ->
  nth k (map lp_offset (real_points base ls ++ [lp_dummy (end_base base ls)])) 0 = end_base base (firstn k ls).
Proof.
  induction ls as [|l t IH]; intros base k Hk.
  - cbn in Hk. assert (k = 0%nat) by lia. subst. reflexivity.
  - destruct k as [|k]; [reflexivity|]. cbn [real_points app map nth firstn length] in *.
    cbn [end_base fold_left]. fold (end_base (lk_length l + base) t). fold (end_base (lk_length l + base) (firstn k t)).
    apply IH. lia.
Qed.

(* ------------------------------------------------------------------ rejected routes *)
(* a link that does not name the previous link of the path as its predecessor is rejected with an
   error value (no panic, no acceptance) *)
Theorem noncontig_rejected (net : list LinkR) (tp : TPR) init prevp lastp sps idx l :
  lookup net idx = Some l -> idx <> 0%Z ->
  lk_idx_prev l <> lp_link_idx prevp -> lk_idx_prev_alt l <> lp_link_idx prevp ->
  exists c, link_step net tp ((init ++ [prevp]) ++ [lastp], sps) idx = Err c.
Proof.
  intros Hl Hi H1 H2. unfold link_step.
  destruct (Z.eqb_spec idx 0); [contradiction|]. cbn [negb ensure bind]. rewrite Hl.
  rewrite split_last_app, split_last_app.
  destruct (negb (lp_link_idx prevp =? 0)%Z); cbn [ensure bind]; [|eauto].
  destruct (negb (lk_idx_prev l =? lk_idx_prev_alt l)%Z || (lk_idx_prev_alt l =? 0)%Z); cbn [ensure bind]; [|eauto].
  destruct (negb (lk_idx_next l =? lk_idx_next_alt l)%Z || (lk_idx_next_alt l =? 0)%Z); cbn [ensure bind]; [|eauto].
  destruct (Z.eqb_spec (lk_idx_prev l) (lp_link_idx prevp)); [contradiction|].
  destruct (Z.eqb_spec (lk_idx_prev_alt l) (lp_link_idx prevp)); [contradiction|].
  cbn [orb ensure bind]. eauto.
Qed.

(* an error in the first loop is the result of extend (errors propagate like [?]) *)
Lemma link_pass_err (net : list LinkR) (tp : TPR) a i b st st1 la c :
  link_pass net tp st a = Ok (st1, la) -> link_step net tp st1 i = Err c ->
  link_pass net tp st (a ++ i :: b) = Err c.
Proof.
  intros H1 H2. rewrite link_pass_app_eq, H1. cbn [bind fst snd link_pass]. rewrite H2. reflexivity.
Qed.

(* route-level statement: the first link of the route that is not contiguous with its predecessor
   makes the whole extension fail with an error value *)
Theorem noncontig_route_rejected (net : list LinkR) (tp : TPR) a i b (q : PathR) l lprev :
  extend net (new_path tp) a = Ok q ->
  route_links net a <> [] -> last (route_links net a) lprev = lprev ->
  lookup net i = Some l -> i <> 0%Z ->
  lk_idx_prev l <> lk_idx_curr lprev -> lk_idx_prev_alt l <> lk_idx_curr lprev ->
  exists c, extend net (new_path tp) (a ++ i :: b) = Err c.
Proof.
  intros H Hne Hlast Hl Hi H1 H2.
  pose proof (link_points_exact _ _ _ _ H) as HP.
  destruct (extend_ok_inv _ _ _ _ H) as (gr0 & lps' & sps' & gr & cu & cats & A & B & C & D & HI & HL & HG & ->).
  cbn [p_link_points] in HP. subst lps'.
  (* the link point before the last is the real point of the last link of [a] *)
  destruct (exists_last Hne) as (ls & ll & Els). rewrite Els in Hlast. rewrite last_last in Hlast. subst ll.
  rewrite Els in HL.
  assert (Erp : exists initp, real_points 0 (ls ++ [lprev]) = initp ++ [lp_real (end_base 0 ls) lprev]).
  { clear. generalize 0. induction ls as [|x t IH]; intros b; cbn.
    - exists []. reflexivity.
    - destruct (IH (lk_length x + b)) as (ip & E). exists (lp_real b x :: ip). rewrite E. reflexivity. }
  destruct Erp as (initp & Erp). rewrite Erp in HL.
  destruct (noncontig_rejected net tp initp (lp_real (end_base 0 ls) lprev) (lp_dummy (end_base 0 (ls ++ [lprev]))) sps' i l Hl Hi H1 H2) as (c & Hc).
  exists c. rewrite extend_unfold by (apply new_path_nonempty).
  destruct a as [|a0 a']; [cbn in Hne; congruence|].
  rewrite init_elev_app, HI. cbn [bind].
  rewrite (link_pass_err _ _ _ _ _ _ _ _ _ HL Hc). reflexivity.
Qed.

(* ------------------------------------------------------------------ structure of a PathResCoeff vector *)
(* build_prc p segs = fronts p segs ++ [lastpt p segs] *)
Fixpoint fronts (p : PRCR) (segs : list (R * R * R)) : list PRCR :=
  match segs with
  | [] => []
  | (c, o, n) :: t => {| prc_offset := prc_offset p; prc_coeff := c; prc_net := prc_net p |}
                      :: fronts {| prc_offset := o; prc_coeff := 0; prc_net := n |} t
  end.
Fixpoint lastpt (p : PRCR) (segs : list (R * R * R)) : PRCR :=
  match segs with
  | [] => p
  | (c, o, n) :: t => lastpt {| prc_offset := o; prc_coeff := 0; prc_net := n |} t
  end.

Lemma build_prc_split (p : PRCR) segs : build_prc p segs = fronts p segs ++ [lastpt p segs].
Proof. revert p; induction segs as [|[[c o] n] t IH]; intros p; cbn; auto. numR. rewrite IH. reflexivity. Qed.

Lemma fronts_length (p : PRCR) segs : length (fronts p segs) = length segs.
Proof. revert p; induction segs as [|[[c o] n] t IH]; intros p; cbn; auto. Qed.

(* the second loop keeps everything before the open point, and the open point's offset and net *)
Lemma geom_step_prefix (tp : TPR) gfront glast cfront clast cats l gr cu cats' :
  geom_step tp (gfront ++ [glast], cfront ++ [clast], cats) l = Ok (gr, cu, cats') ->
  exists gsegs csegs,
    gsegs = (match lk_elevs l with
             | [] => [(prc_coeff glast, prc_offset glast + lk_length l, prc_net glast)]
             | es => grade_segs (prc_offset glast) (prc_net glast) es end) /\
    (match lk_headings l with
     | [] => Ok [(prc_coeff clast, prc_offset glast + lk_length l, prc_net clast)]
     | hs => curve_segs tp (prc_offset glast) (prc_net clast) hs end) = Ok csegs /\
    gr = (gfront ++ fronts glast gsegs) ++ [lastpt glast gsegs] /\
    cu = (cfront ++ fronts clast csegs) ++ [lastpt clast csegs] /\
    cats' = cats ++ map (fun c => match c with (s, e, w) => (prc_offset glast + s, prc_offset glast + e, w) end) (lk_cats l).
Proof.
  intros H. destruct (geom_step_ok _ _ _ _ _ _ _ _ H) as (gi & gl & ci & cl & cs & Eg & Ec & -> & Hc & -> & ->).
  apply split_last_inj in Eg, Ec. destruct Eg as [-> ->], Ec as [-> ->].
  eexists _, cs. split; [reflexivity|]. split; [exact Hc|]. rewrite !build_prc_split, !app_assoc. auto.
Qed.

Lemma lastpt_offset_net_nil (p : PRCR) : lastpt p [] = p.
Proof. reflexivity. Qed.

(* the first point of (fronts p segs ++ [lastpt p segs]) has p's offset and net *)
Lemma build_head (p : PRCR) segs :
  exists h rest, fronts p segs ++ [lastpt p segs] = h :: rest /\ prc_offset h = prc_offset p /\ prc_net h = prc_net p.
Proof. destruct segs as [|[[c o] n] t]; cbn; eauto. Qed.

Lemma prefix_head (p : PRCR) segs g' (grest : list PRCR) :
  prc_offset g' = prc_offset (lastpt p segs) -> prc_net g' = prc_net (lastpt p segs) ->
  exists h rest, fronts p segs ++ g' :: grest = h :: rest /\ prc_offset h = prc_offset p /\ prc_net h = prc_net p.
Proof. destruct segs as [|[[c o] n] t]; cbn; intros; eauto. Qed.

Lemma prefix_head_off (p : PRCR) segs g' (grest : list PRCR) :
  prc_offset g' = prc_offset (lastpt p segs) ->
  exists h rest, fronts p segs ++ g' :: grest = h :: rest /\ prc_offset h = prc_offset p.
Proof. destruct segs as [|[[c o] n] t]; cbn; intros; eauto. Qed.

Lemma geom_pass_prefix (tp : TPR) links : forall gfront glast cfront clast cats gr cu cats',
  geom_pass tp (gfront ++ [glast], cfront ++ [clast], cats) links = Ok (gr, cu, cats') ->
  (exists g' grest, gr = gfront ++ g' :: grest /\ prc_offset g' = prc_offset glast /\ prc_net g' = prc_net glast) /\
  (exists c' crest, cu = cfront ++ c' :: crest /\ prc_offset c' = prc_offset clast /\ prc_net c' = prc_net clast) /\
  (exists krest, cats' = cats ++ krest).
Proof.
  induction links as [|l t IH]; intros gfront glast cfront clast cats gr cu cats' H; cbn [geom_pass] in H.
  - inversion H; subst. split; [|split].
    + exists glast, []. auto.
    + exists clast, []. auto.
    + exists []. symmetry; apply app_nil_r.
  - bind_inv H. destruct a as [[g1 c1] k1].
    destruct (geom_step_prefix _ _ _ _ _ _ _ _ _ _ Ha) as (gsegs & csegs & Eg & Ec & -> & -> & ->).
    destruct (IH _ _ _ _ _ _ _ _ H) as ((g' & grest & E1 & O1 & N1) & (c' & crest & E2 & O2 & N2) & (krest & E3)).
    destruct (prefix_head glast gsegs g' grest O1 N1) as (hg & rg & Ehg & Og & Ng).
    destruct (prefix_head clast csegs c' crest O2 N2) as (hc & rc & Ehc & Oc & Nc).
    split; [|split].
    + exists hg, rg. subst gr. rewrite <- app_assoc, Ehg. auto.
    + exists hc, rc. subst cu. rewrite <- app_assoc, Ehc. auto.
    + eexists. rewrite E3, <- app_assoc. reflexivity.
Qed.

(* ------------------------------------------------------------------ well-formed link geometry *)
(* elevations / headings: none, or at least two points the last of which is at the link length
   (network validation asks for this, and more) *)
Definition pts_end_ok (pts : list (R * R)) (len : R) : Prop :=
  pts = [] \/ ((2 <= length pts)%nat /\ fst (last pts (0, 0)) = len).
Definition link_geom_ok (l : LinkR) : Prop :=
  pts_end_ok (lk_elevs l) (lk_length l) /\ pts_end_ok (lk_headings l) (lk_length l).

Lemma grade_segs_cons (base net po pe co ce : R) t :
  grade_segs base net ((po, pe) :: (co, ce) :: t)
  = ((ce - pe) / (co - po), base + co, net + ce - pe) :: grade_segs base (net + ce - pe) ((co, ce) :: t).
Proof. reflexivity. Qed.

Lemma grade_segs_lastpt (base : R) es : forall (p : PRCR) net, (2 <= length es)%nat ->
  prc_offset (lastpt p (grade_segs base net es)) = base + fst (last es (0, 0)).
Proof.
  induction es as [|[po pe] t IH]; intros p net H; [cbn in H; lia|].
  destruct t as [|[co ce] t']; [cbn in H; lia|].
  rewrite grade_segs_cons. cbn [lastpt]. destruct t' as [|x t''].
  - cbn. reflexivity.
  - rewrite IH by (cbn; lia). reflexivity.
Qed.

Lemma curve_segs_ok (tp : TPR) (base : R) hs : forall net segs,
  curve_segs tp base net hs = Ok segs ->
  length segs = (length hs - 1)%nat /\
  ((2 <= length hs)%nat -> forall p : PRCR, prc_offset (lastpt p segs) = base + fst (last hs (0, 0))).
Proof.
  induction hs as [|[po ph] t IH]; intros net segs H; [cbn in H; inversion H; subst; cbn; split; [auto|lia]|].
  destruct t as [|[co ch] t'].
  - cbn in H. inversion H; subst. cbn. split; [auto|lia].
  - cbn [curve_segs] in H. bind_inv H. bind_inv H. inversion H; subst; clear H.
    destruct (IH _ _ Ha0) as [L O]. split.
    + cbn [length] in *. lia.
    + intros _ p. cbn [lastpt]. numR. destruct t' as [|x t''].
      * cbn in Ha0. inversion Ha0; subst. cbn. reflexivity.
      * rewrite O by (cbn; lia). reflexivity.
Qed.

Definition curve_add (l : LinkR) : nat :=
  match lk_headings l with [] => 1%nat | hs => (length hs - 1)%nat end.

Lemma count_max n : n <> 1%nat -> (Nat.max n 2 - 1)%nat = match n with O => 1%nat | _ => (n - 1)%nat end.
Proof. destruct n as [|[|n]]; cbn; intros; lia. Qed.

Lemma nth_error_mid {A} (l : list A) x r : nth_error (l ++ x :: r) (length l) = Some x.
Proof. rewrite nth_error_app2 by lia. rewrite Nat.sub_diag. reflexivity. Qed.

(* ------------------------------------------------------------------ the count cross-checks *)
Lemma counts_geom (tp : TPR) links : forall gfront glast cfront clast cats gr cu cats' base,
  geom_pass tp (gfront ++ [glast], cfront ++ [clast], cats) links = Ok (gr, cu, cats') ->
  Forall link_geom_ok links -> prc_offset glast = base -> prc_offset clast = base ->
  counts_loop gr cu (length cats') (real_points base links ++ [lp_dummy (end_base base links)])
              (length gfront) (length cfront) (length cats) = true.
Proof.
  induction links as [|l t IH]; intros gfront glast cfront clast cats gr cu cats' base H Hok Hg Hc.
  - cbn [geom_pass] in H. inversion H; subst.
    cbn [real_points app counts_loop end_base fold_left lp_dummy lp_offset lp_grade_count lp_curve_count lp_cat_count].
    rewrite !nth_error_mid. numR. rewrite !Nat.add_0_r, !app_length. cbn [length].
    rewrite (proj2 (Reqb_true _ _)) by auto. rewrite (proj2 (Reqb_true _ _)) by auto.
    rewrite (proj2 (Nat.ltb_lt _ _)) by lia. rewrite (proj2 (Nat.ltb_lt _ _)) by lia.
    rewrite (proj2 (Nat.leb_le _ _)) by lia. reflexivity.
  - pose proof H as Hfull. cbn [geom_pass] in H. bind_inv H. destruct a as [[g1 c1] k1].
    inversion Hok as [|? ? Hl Ht]; subst.
    destruct (geom_step_prefix _ _ _ _ _ _ _ _ _ _ Ha) as (gsegs & csegs & Eg & Ec & -> & -> & ->).
    destruct Hl as [He Hh].
    (* where the open points end up *)
    assert (Og : prc_offset (lastpt glast gsegs) = lk_length l + prc_offset glast).
    { subst gsegs. destruct He as [E|[E1 E2]].
      - rewrite E. cbn. lra.
      - destruct (lk_elevs l) as [|e es] eqn:Ee; [cbn in E1; lia|]. rewrite grade_segs_lastpt by auto. lra. }
    assert (Lg : length gsegs = (Nat.max (length (lk_elevs l)) 2 - 1)%nat).
    { subst gsegs. destruct He as [E|[E1 E2]].
      - rewrite E. reflexivity.
      - destruct (lk_elevs l) as [|e es] eqn:Ee; [cbn in E1; lia|]. rewrite grade_segs_length. lia. }
    assert (Oc : prc_offset (lastpt clast csegs) = lk_length l + prc_offset glast /\
                 length csegs = (Nat.max (length (lk_headings l)) 2 - 1)%nat).
    { destruct Hh as [E|[E1 E2]].
      - rewrite E in Ec |- *. inversion Ec; subst csegs. cbn. split; [lra|reflexivity].
      - destruct (lk_headings l) as [|h hs] eqn:Eh; [cbn in E1; lia|].
        destruct (curve_segs_ok _ _ _ _ _ Ec) as [L O]. rewrite O by auto. split; [lra|lia]. }
    destruct Oc as [Oc Lc].
    specialize (IH _ _ _ _ _ _ _ _ (lk_length l + prc_offset glast) H Ht Og).
    rewrite Oc in IH. specialize (IH ltac:(lra)).
    destruct (geom_pass_prefix _ _ _ _ _ _ _ _ _ _ Hfull) as ((g' & grest & E1 & O1 & _) & (c' & crest & E2 & O2 & _) & _).
    destruct (geom_pass_prefix _ _ _ _ _ _ _ _ _ _ H) as ((g2 & grest2 & F1 & _) & (c2 & crest2 & F2 & _) & (krest & F3)).
    cbn [real_points app counts_loop end_base fold_left].
    fold (end_base (lk_length l + prc_offset glast) t).
    cbn [lp_real lp_offset lp_grade_count lp_curve_count lp_cat_count].
    replace (length gfront + (Nat.max (length (lk_elevs l)) 2 - 1))%nat with (length (gfront ++ fronts glast gsegs))
      by (rewrite app_length, fronts_length; lia).
    replace (length cfront + (Nat.max (length (lk_headings l)) 2 - 1))%nat with (length (cfront ++ fronts clast csegs))
      by (rewrite app_length, fronts_length; lia).
    replace (length cats + length (lk_cats l))%nat
      with (length (cats ++ map (fun c => match c with (s, e, w) => (prc_offset glast + s, prc_offset glast + e, w) end) (lk_cats l)))
      by (rewrite app_length, map_length; lia).
    rewrite IH. rewrite andb_true_r.
    rewrite E1 at 1. rewrite E2 at 1. rewrite !nth_error_mid. numR.
    rewrite (proj2 (Reqb_true _ _)) by lra. rewrite (proj2 (Reqb_true _ _)) by lra.
    rewrite (proj2 (Nat.ltb_lt _ _)) by (rewrite F1, !app_length; cbn [length]; lia).
    rewrite (proj2 (Nat.ltb_lt _ _)) by (rewrite F2, !app_length; cbn [length]; lia).
    rewrite (proj2 (Nat.leb_le _ _)) by (rewrite F3, !app_length; lia).
    reflexivity.
Qed.

Lemma init_elev_single (net : list LinkR) (g : PRCR) path gr0 :
  init_elev net [g] path = Ok gr0 ->
  exists g', gr0 = [g'] /\ prc_offset g' = prc_offset g /\ prc_coeff g' = prc_coeff g /\
    (g' = g \/ exists i rest l o e es, path = i :: rest /\ lookup net i = Some l /\ lk_elevs l = (o, e) :: es /\ prc_net g' = e).
Proof.
  unfold init_elev. destruct path as [|i rest]; [intros H; inversion H; subst; eauto 10|].
  destruct (lookup net i) as [l|] eqn:El; [|discriminate].
  destruct (lk_elevs l) as [|[o e] es] eqn:Ee; intros H; inversion H; subst; [eauto 10|].
  eexists. split; [reflexivity|]. cbn. repeat split; auto. right. exists i, rest, l, o, e, es. auto.
Qed.

Lemma geom_ok_no_single (links : list LinkR) : Forall link_geom_ok links -> no_single_elev links.
Proof.
  unfold no_single_elev. apply Forall_impl. intros l [[E|[E _]] _]; [rewrite E; cbn; lia|lia].
Qed.

(* C06: the ObjState cross-checks of PathTpc hold after a path has been built *)
Theorem counts_inv_single (net : list LinkR) (tp : TPR) path (q : PathR) :
  extend net (new_path tp) path = Ok q -> Forall link_geom_ok (route_links net path) ->
  counts_ok q = true.
Proof.
  intros H Hok. pose proof (link_points_exact _ _ _ _ H) as HP.
  destruct (extend_ok_inv _ _ _ _ H) as (gr0 & lps' & sps' & gr & cu & cats & _ & _ & _ & _ & HI & HL & HG & ->).
  cbn [p_link_points p_grades p_curves p_cats new_path p_tp] in *.
  destruct (init_elev_single _ _ _ _ HI) as (g' & -> & Og & _).
  unfold counts_ok. cbn [p_link_points p_grades p_curves p_cats]. rewrite HP.
  change [g'] with ([] ++ [g']) in HG. change [prc_default] with ([] ++ [prc_default (F:=R)]) in HG.
  change 0%nat with (length (@nil PRCR)) at 1. change 0%nat with (length (@nil PRCR)) at 1.
  change 0%nat with (length (@nil (R * R * R))) at 1.
  eapply counts_geom with (base := 0) (gfront := []) (cfront := []) (cats := []); eauto.
Qed.

Theorem counts_inv (net : list LinkR) (tp : TPR) parts (q : PathR) :
  extend_many net (new_path tp) parts = Ok q -> Forall link_geom_ok (route_links net (concat parts)) ->
  counts_ok q = true.
Proof.
  intros H Hok. apply extend_many_concat in H; auto using new_path_nonempty, geom_ok_no_single.
  apply (counts_inv_single net tp (concat parts)); auto.
Qed.

Theorem link_points_exact_many (net : list LinkR) (tp : TPR) parts (q : PathR) :
  extend_many net (new_path tp) parts = Ok q -> no_single_elev (route_links net (concat parts)) ->
  p_link_points q = real_points 0 (route_links net (concat parts))
                    ++ [lp_dummy (end_base 0 (route_links net (concat parts)))].
Proof.
  intros H Hok. apply extend_many_concat in H; auto using new_path_nonempty.
  apply (link_points_exact net tp); auto.
Qed.

(* ------------------------------------------------------------------ elevation exactness *)
Fixpoint inc_from (lo : R) (pts : list (R * R)) : Prop :=
  match pts with [] => True | (o, _) :: t => lo < o /\ inc_from o t end.

(* a link's elevation points as network validation wants them: at least two, offsets strictly
   increasing from 0 to the link length *)
Definition elevs_ok (l : LinkR) : Prop :=
  match lk_elevs l with
  | (o0, _) :: ((_ :: _) as t) => o0 = 0 /\ inc_from o0 t /\ fst (last (lk_elevs l) (0, 0)) = lk_length l
  | _ => False
  end.

Definition adjacent (pts : list (R * R)) (p1 p2 : R * R) : Prop :=
  exists pre post, pts = pre ++ p1 :: p2 :: post.

Definition first_elev (l : LinkR) : R := snd (hd (0, 0) (lk_elevs l)).
Definition last_elev (l : LinkR) : R := snd (last (lk_elevs l) (0, 0)).
Definition elev_gain (l : LinkR) : R := last_elev l - first_elev l.
Definition sum_lens (ls : list LinkR) : R := fold_right (fun l s => lk_length l + s) 0 ls.
Definition sum_gain (ls : list LinkR) : R := fold_right (fun l s => elev_gain l + s) 0 ls.

Lemma adjacent_cons a b t p1 p2 :
  adjacent (a :: b :: t) p1 p2 -> (p1 = a /\ p2 = b) \/ adjacent (b :: t) p1 p2.
Proof.
  intros (pre & post & E). destruct pre as [|x pre].
  - cbn in E. inversion E; subst. left; auto.
  - cbn in E. inversion E; subst. right. exists pre, post. auto.
Qed.

Lemma inc_from_adjacent_lo lo pts o1 e1 p2 : inc_from lo pts -> adjacent pts (o1, e1) p2 -> lo < o1.
Proof.
  revert lo. induction pts as [|[o e] t IH]; intros lo Hi (pre & post & E).
  - destruct pre; discriminate.
  - destruct Hi as [A B]. destruct pre as [|x pre]; cbn in E; inversion E; subst; auto.
    assert (o < o1) by (apply IH; auto; exists pre, post; auto). lra.
Qed.

Lemma last_default_irrel {A} (l : list A) a d d' : last (a :: l) d = last (a :: l) d'.
Proof. revert a; induction l as [|b l IH]; intros a; [reflexivity|]. 
  change (last (a :: b :: l) d) with (last (b :: l) d). change (last (a :: b :: l) d') with (last (b :: l) d'). apply IH. Qed.

Lemma prc_seg_app_le (A B : list PRCR) cur x :
  (forall c, In c A -> prc_offset c <= x) -> prc_seg cur (A ++ B) x = prc_seg (last A cur) B x.
Proof.
  revert cur. induction A as [|a A IH]; intros cur H; [reflexivity|].
  cbn [app prc_seg]. numR.
  destruct (Rleb_spec (prc_offset a) x) as [Hle|Hgt]; [|exfalso; specialize (H a (or_introl eq_refl)); lra].
  rewrite IH by (intros c Hc; apply H; right; auto).
  destruct A as [|b A]; [reflexivity|].
  change (last (a :: b :: A) cur) with (last (b :: A) cur). rewrite (last_default_irrel A b a cur). reflexivity.
Qed.

Lemma prc_at_app (A : list PRCR) b B' x :
  (forall c, In c A -> prc_offset c <= x) -> prc_offset b <= x ->
  prc_at (A ++ b :: B') x = calc_res_val (prc_seg b B' x) x.
Proof.
  intros HA Hb. destruct A as [|a A]; cbn [app prc_at]; [reflexivity|].
  rewrite prc_seg_app_le by (intros c Hc; apply HA; right; auto).
  cbn [prc_seg]. numR. destruct (Rleb_spec (prc_offset b) x); [reflexivity|lra].
Qed.

(* the scan inside the points one link contributed: it stops on the segment that starts at the
   window's first point *)
Lemma scan_window (base : R) es : forall a e (p cur : PRCR) n q rest o1 e1 o2 e2 y,
  inc_from a es -> prc_offset p = base + a -> prc_net p = n ->
  prc_offset q = prc_offset (lastpt p (grade_segs base n ((a, e) :: es))) ->
  adjacent ((a, e) :: es) (o1, e1) (o2, e2) -> o1 <= y < o2 ->
  let s := prc_seg cur (fronts p (grade_segs base n ((a, e) :: es)) ++ q :: rest) (base + y) in
  calc_res_val s (base + y) = n + (e1 - e) + (e2 - e1) / (o2 - o1) * (y - o1)
  /\ prc_coeff s = (e2 - e1) / (o2 - o1).
Proof.
  induction es as [|[a1 e1'] t IH]; intros a e p cur n q rest o1 e1 o2 e2 y Hinc Hp Hn Hq Hadj Hy.
  - destruct Hadj as (pre & post & E). destruct pre as [|x [|x' pre]]; cbn in E; try discriminate;
      inversion E; destruct pre; discriminate.
  - rewrite grade_segs_cons in *. cbn [fronts lastpt] in *. destruct Hinc as [Ha1 Hinc].
    set (p1 := {| prc_offset := base + a1; prc_coeff := 0; prc_net := n + e1' - e |}) in *.
    cbn [app prc_seg prc_offset]. numR.
    apply adjacent_cons in Hadj. destruct Hadj as [[E1 E2]|Hadj].
    + inversion E1; inversion E2; subst o1 e1 o2 e2. clear E1 E2.
      destruct (Rleb_spec (prc_offset p) (base + y)) as [_|Hx]; [|lra].
      destruct (prefix_head_off p1 (grade_segs base (n + e1' - e) ((a1, e1') :: t)) q rest Hq)
        as (h & r & Eh & Oh).
      rewrite Eh. cbn [prc_seg]. numR. rewrite Oh. cbn [p1 prc_offset].
      destruct (Rleb_spec (base + a1) (base + y)) as [Hx|_]; [lra|].
      unfold calc_res_val. cbn [prc_net prc_coeff prc_offset]. numR. rewrite Hp, Hn. split; [|reflexivity].
      field. lra.
    + assert (Hlo : a1 <= o1).
      { destruct Hadj as (pre & post & E). destruct pre as [|x pre]; cbn in E; inversion E; subst; [lra|].
        assert (a1 < o1) by (eapply inc_from_adjacent_lo; eauto; exists pre, post; auto). lra. }
      destruct (Rleb_spec (prc_offset p) (base + y)) as [_|Hx]; [|lra].
      destruct (IH a1 e1' p1 {| prc_offset := prc_offset p; prc_coeff := (e1' - e) / (a1 - a); prc_net := prc_net p |}
                   (n + e1' - e) q rest o1 e1 o2 e2 y Hinc eq_refl eq_refl Hq Hadj Hy) as [V C].
      cbv zeta in V, C. rewrite V, C. split; [lra|reflexivity].
Qed.

Lemma grade_segs_lastpt_net (base : R) es : forall (p : PRCR) net a e, 
  prc_net p = net ->
  prc_net (lastpt p (grade_segs base net ((a, e) :: es))) = net + (snd (last ((a, e) :: es) (0, 0)) - e).
Proof.
  induction es as [|[co ce] t IH]; intros p net a e Hp.
  - cbn. lra.
  - rewrite grade_segs_cons. cbn [lastpt]. rewrite (IH _ (net + ce - e) co ce) by reflexivity.
    replace (last ((a, e) :: (co, ce) :: t) (0, 0)) with (last ((co, ce) :: t) (0, 0)) by reflexivity. lra.
Qed.

Lemma fronts_offsets_le (base : R) es : forall a e (p : PRCR) n c,
  inc_from a es -> prc_offset p = base + a ->
  In c (fronts p (grade_segs base n ((a, e) :: es))) ->
  prc_offset c <= base + fst (last ((a, e) :: es) (0, 0)).
Proof.
  induction es as [|[a1 e1] t IH]; intros a e p n c Hinc Hp Hin; [cbn in Hin; contradiction|].
  rewrite grade_segs_cons in Hin. cbn [fronts] in Hin. destruct Hinc as [A B].
  replace (last ((a, e) :: (a1, e1) :: t) (0, 0)) with (last ((a1, e1) :: t) (0, 0)) by reflexivity.
  assert (Hlast : a1 <= fst (last ((a1, e1) :: t) (0, 0))).
  { clear -B. revert a1 e1 B. induction t as [|[o x] t IH]; intros a1 e1 B; [cbn; lra|].
    destruct B as [B1 B2]. specialize (IH o x B2).
    replace (last ((a1, e1) :: (o, x) :: t) (0, 0)) with (last ((o, x) :: t) (0, 0)) by reflexivity. lra. }
  destruct Hin as [<-|Hin].
  - cbn [prc_offset]. lra.
  - eapply IH; eauto. reflexivity.
Qed.

(* what elevs_ok gives *)
Lemma elevs_ok_inv (l : LinkR) : elevs_ok l ->
  exists e0 es, lk_elevs l = (0, e0) :: es /\ (1 <= length es)%nat /\ inc_from 0 es /\
    fst (last ((0, e0) :: es) (0, 0)) = lk_length l /\ first_elev l = e0.
Proof.
  unfold elevs_ok, first_elev. destruct (lk_elevs l) as [|[o0 e0] [|x t]]; try contradiction.
  intros (-> & I & L). exists e0, (x :: t). cbn [length hd snd]. repeat split; auto; lia.
Qed.

Lemma elevs_ok_geom (l : LinkR) : elevs_ok l -> pts_end_ok (lk_elevs l) (lk_length l).
Proof.
  intros H. destruct (elevs_ok_inv l H) as (e0 & es & E & L & _ & La & _). right. rewrite E. cbn [length]. split; [lia|auto].
Qed.

(* one link: the path elevation inside any window of the FIRST link of the remaining route *)
Lemma elev_link (tp : TPR) gfront glast cfront clast cats l post gr cu cats' o1 e1 o2 e2 y :
  geom_pass tp (gfront ++ [glast], cfront ++ [clast], cats) (l :: post) = Ok (gr, cu, cats') ->
  elevs_ok l -> (forall c, In c gfront -> prc_offset c <= prc_offset glast) ->
  adjacent (lk_elevs l) (o1, e1) (o2, e2) -> o1 <= y < o2 ->
  prc_at gr (prc_offset glast + y)
  = prc_net glast + (e1 - first_elev l) + (e2 - e1) / (o2 - o1) * (y - o1)
  /\ exists s, In s gr /\ prc_offset s = prc_offset glast + o1 /\ prc_coeff s = (e2 - e1) / (o2 - o1).
Proof.
  intros H Hok Hfront Hadj Hy. cbn [geom_pass] in H. bind_inv H. destruct a as [[g1 c1] k1].
  destruct (geom_step_prefix _ _ _ _ _ _ _ _ _ _ Ha) as (gsegs & csegs & Eg & _ & -> & -> & ->).
  destruct (geom_pass_prefix _ _ _ _ _ _ _ _ _ _ H) as ((q & rest & E1 & O1 & _) & _ & _).
  destruct (elevs_ok_inv l Hok) as (e0 & es & Ee & Les & Hinc & Hlast & Hfirst).
  rewrite Ee in *. subst gsegs.
  assert (Hy0 : 0 <= y).
  { destruct Hadj as (pre & post' & E). destruct pre as [|x pre]; cbn in E; inversion E; subst; [lra|].
    assert (0 < o1) by (eapply inc_from_adjacent_lo; eauto; exists pre, post'; auto). lra. }
  (* first point of this link's contribution *)
  set (segs := grade_segs (prc_offset glast) (prc_net glast) ((0, e0) :: es)) in *.
  assert (Hseg : exists sg st, segs = sg :: st).
  { unfold segs. destruct es as [|[a1 x1] t]; [cbn in Les; lia|]. rewrite grade_segs_cons. eauto. }
  destruct Hseg as (sg & st & Esg).
  assert (Hb : exists b B', fronts glast segs ++ q :: rest = b :: B' /\ prc_offset b = prc_offset glast).
  { rewrite Esg. destruct sg as [[c o] n]. cbn [fronts app]. eexists _, _. split; [reflexivity|]. reflexivity. }
  destruct Hb as (b & B' & Eb & Ob).
  rewrite E1, <- app_assoc, Eb.
  assert (HA : forall c, In c gfront -> prc_offset c <= prc_offset glast + y) by (intros c Hc; specialize (Hfront c Hc); lra).
  rewrite prc_at_app by (auto; lra).
  assert (Hsc : prc_seg b B' (prc_offset glast + y) = prc_seg b (b :: B') (prc_offset glast + y)).
  { cbn [prc_seg]. numR. destruct (Rleb_spec (prc_offset b) (prc_offset glast + y)); [reflexivity|lra]. }
  rewrite Hsc, <- Eb.
  destruct (scan_window (prc_offset glast) es 0 e0 glast b (prc_net glast) q rest o1 e1 o2 e2 y
              Hinc ltac:(lra) eq_refl O1 Hadj Hy) as [V C].
  cbv zeta in V, C. fold segs in V, C. split; [rewrite V, Hfirst; reflexivity|].
  (* the segment found is a member of the vector and starts at the window's first point *)
  set (s := prc_seg b (fronts glast segs ++ q :: rest) (prc_offset glast + y)) in *.
  exists s. split; [|split; auto].
  - (* prc_seg returns its start value or an element of the list *)
    assert (Hmem : forall (v : list PRCR) c0 x, prc_seg c0 v x = c0 \/ In (prc_seg c0 v x) v).
    { induction v as [|c v IHv]; intros c0 x; cbn [prc_seg]; auto. numR.
      destruct (Rleb (prc_offset c) x); auto. destruct (IHv c x) as [->|Hin]; [right; left; auto|right; right; auto]. }
    destruct (Hmem (fronts glast segs ++ q :: rest) b (prc_offset glast + y)) as [Es|Hin].
    + fold s in Es. rewrite Es. apply in_or_app. right. rewrite Eb. left; auto.
    + fold s in Hin. apply in_or_app. right. exact Hin.
  - (* its offset: from the value equation we only know the value; derive the offset from the scan *)
    clear V. unfold calc_res_val in *.
    (* the scan stops on the last point with offset <= x; characterise by a second scan lemma *)
    assert (Hoff : forall es' a e (p cur : PRCR) n q' rest',
      inc_from a es' -> prc_offset p = prc_offset glast + a ->
      prc_offset q' = prc_offset (lastpt p (grade_segs (prc_offset glast) n ((a, e) :: es'))) ->
      adjacent ((a, e) :: es') (o1, e1) (o2, e2) ->
      prc_offset (prc_seg cur (fronts p (grade_segs (prc_offset glast) n ((a, e) :: es')) ++ q' :: rest') (prc_offset glast + y))
      = prc_offset glast + o1).
    { induction es' as [|[a1 x1] t IHt]; intros a e p cur n q' rest' Hi Hp Hq' Had.
      - destruct Had as (pre & post' & E). destruct pre as [|x [|x' pre]]; cbn in E; try discriminate;
          inversion E; destruct pre; discriminate.
      - rewrite grade_segs_cons in *. cbn [fronts lastpt] in *. destruct Hi as [Hi1 Hi2].
        cbn [app prc_seg prc_offset]. numR.
        apply adjacent_cons in Had. destruct Had as [[F1 F2]|Had].
        + inversion F1; inversion F2; subst.
          destruct (Rleb_spec (prc_offset p) (prc_offset glast + y)); [|lra].
          destruct (prefix_head_off _ _ q' rest' Hq') as (h & rr & Eh & Oh).
          rewrite Eh. cbn [prc_seg]. numR. rewrite Oh. cbn [prc_offset].
          match goal with |- context [Rleb ?u ?v] => destruct (Rleb_spec u v); [lra|] end. cbn [prc_offset]. exact Hp.
        + assert (a1 <= o1).
          { destruct Had as (pre & post' & E). destruct pre as [|x pre]; cbn in E; inversion E; subst; [lra|].
            assert (a1 < o1) by (eapply inc_from_adjacent_lo; eauto; exists pre, post'; auto). lra. }
          destruct (Rleb_spec (prc_offset p) (prc_offset glast + y)); [|lra].
          apply IHt with (e := x1) (n := n + x1 - e); auto. }
    unfold s, segs. apply Hoff with (e := e0); auto. lra.
Qed.

Lemma inc_from_last_ge es : forall lo e d, inc_from lo es -> lo <= fst (last ((lo, e) :: es) d).
Proof.
  induction es as [|[a x] t IH]; intros lo e d Hi; [cbn; lra|]. destruct Hi as [A B].
  specialize (IH a x d B). change (last ((lo, e) :: (a, x) :: t) d) with (last ((a, x) :: t) d). lra.
Qed.

(* the whole remaining route: induction over the links before the one containing x *)
Lemma elev_route (tp : TPR) pre : forall gfront glast cfront clast cats l post gr cu cats' o1 e1 o2 e2 y,
  geom_pass tp (gfront ++ [glast], cfront ++ [clast], cats) (pre ++ l :: post) = Ok (gr, cu, cats') ->
  Forall elevs_ok (pre ++ [l]) -> (forall c, In c gfront -> prc_offset c <= prc_offset glast) ->
  adjacent (lk_elevs l) (o1, e1) (o2, e2) -> o1 <= y < o2 ->
  prc_at gr (prc_offset glast + sum_lens pre + y)
  = prc_net glast + sum_gain pre + (e1 - first_elev l) + (e2 - e1) / (o2 - o1) * (y - o1)
  /\ exists s, In s gr /\ prc_offset s = prc_offset glast + sum_lens pre + o1 /\ prc_coeff s = (e2 - e1) / (o2 - o1).
Proof.
  induction pre as [|l0 pre IH]; intros gfront glast cfront clast cats l post gr cu cats' o1 e1 o2 e2 y H Hok Hfront Hadj Hy.
  - cbn [app sum_lens sum_gain fold_right] in *. inversion Hok; subst.
    destruct (elev_link _ _ _ _ _ _ _ _ _ _ _ _ _ _ _ _ H ltac:(auto) Hfront Hadj Hy) as [V (s & A & B & C)].
    split.
    + replace (prc_offset glast + 0 + y) with (prc_offset glast + y) by lra. rewrite V. lra.
    + exists s. repeat split; auto. lra.
  - cbn [app] in H. pose proof H as Hfull. cbn [geom_pass] in H. bind_inv H. destruct a as [[g1 c1] k1].
    inversion Hok as [|? ? Hl0 Hrest]; subst.
    destruct (geom_step_prefix _ _ _ _ _ _ _ _ _ _ Ha) as (gsegs & csegs & Eg & _ & -> & -> & ->).
    destruct (elevs_ok_inv l0 Hl0) as (e0 & es & Ee & Les & Hinc & Hlast & Hfirst).
    rewrite Ee in Eg. subst gsegs.
    set (segs := grade_segs (prc_offset glast) (prc_net glast) ((0, e0) :: es)) in *.
    assert (Olast : prc_offset (lastpt glast segs) = prc_offset glast + lk_length l0).
    { unfold segs. rewrite grade_segs_lastpt by (cbn [length]; lia). rewrite Hlast. reflexivity. }
    assert (Nlast : prc_net (lastpt glast segs) = prc_net glast + elev_gain l0).
    { unfold segs. rewrite (grade_segs_lastpt_net _ es glast (prc_net glast) 0 e0 eq_refl).
      unfold elev_gain, last_elev. rewrite Hfirst, Ee. reflexivity. }
    assert (Hlen0 : 0 <= lk_length l0).
    { rewrite <- Hlast. apply inc_from_last_ge; auto. }
    destruct (IH (gfront ++ fronts glast segs) (lastpt glast segs) _ _ _ l post gr cu cats' o1 e1 o2 e2 y H Hrest) as [V (s & A & B & C)]; auto.
    + intros c Hc. apply in_app_or in Hc. destruct Hc as [Hc|Hc].
      * specialize (Hfront c Hc). lra.
      * rewrite Olast. unfold segs in Hc.
        pose proof (fronts_offsets_le (prc_offset glast) es 0 e0 glast (prc_net glast) c Hinc ltac:(lra) Hc). lra.
    + cbn [sum_lens sum_gain fold_right]. fold (sum_lens pre). fold (sum_gain pre). split.
      * replace (prc_offset glast + (lk_length l0 + sum_lens pre) + y)
          with (prc_offset (lastpt glast segs) + sum_lens pre + y) by (rewrite Olast; lra).
        rewrite V, Nlast. lra.
      * exists s. repeat split; auto. rewrite B, Olast. lra.
Qed.

(* C06: at every position of every link of the route, the path's grade profile gives the elevation
   obtained by walking the route's own elevation points: the first link's first elevation, plus
   the rise of every link passed, plus the linear interpolation inside the current window; and the
   grade stored for that stretch is the slope between the two points. *)
Theorem elev_exact_single (net : list LinkR) (tp : TPR) path (q : PathR) pre l post o1 e1 o2 e2 y :
  extend net (new_path tp) path = Ok q ->
  route_links net path = pre ++ l :: post -> Forall elevs_ok (pre ++ [l]) ->
  adjacent (lk_elevs l) (o1, e1) (o2, e2) -> o1 <= y < o2 ->
  prc_at (p_grades q) (sum_lens pre + y)
  = first_elev (hd l pre) + sum_gain pre + (e1 - first_elev l) + (e2 - e1) / (o2 - o1) * (y - o1)
  /\ exists s, In s (p_grades q) /\ prc_offset s = sum_lens pre + o1 /\ prc_coeff s = (e2 - e1) / (o2 - o1).
Proof.
  intros H Hr Hok Hadj Hy.
  destruct (extend_ok_inv _ _ _ _ H) as (gr0 & lps' & sps' & gr & cu & cats & _ & _ & _ & _ & HI & HL & HG & ->).
  cbn [p_grades p_curves p_cats new_path p_tp] in *.
  (* the route has a first link; the initial-elevation rule reads its first elevation *)
  destruct path as [|i rest]; [cbn in Hr; destruct pre; discriminate|].
  assert (Hl1 : lookup net i = Some (hd l pre)).
  { destruct (lookup net i) as [l1|] eqn:El.
    - unfold route_links in Hr. cbn [flat_map] in Hr. rewrite El in Hr. destruct pre; cbn in Hr; inversion Hr; auto.
    - exfalso. cbn [link_pass] in HL. bind_inv HL. destruct a as [st1 l1].
      destruct (link_step_ok _ _ _ _ _ _ _ Ha) as (? & ? & ? & _ & Hl & _). congruence. }
  assert (Hok1 : elevs_ok (hd l pre)).
  { destruct pre as [|p0 pre']; cbn; inversion Hok; auto. }
  destruct (elevs_ok_inv _ Hok1) as (e0 & es & Ee & _ & _ & _ & Hfe).
  unfold init_elev in HI. rewrite Hl1, Ee in HI. inversion HI; subst gr0. clear HI.
  set (g' := {| prc_offset := prc_offset (prc_default (F:=R)); prc_coeff := prc_coeff (prc_default (F:=R)); prc_net := e0 |}) in *.
  rewrite Hr in HG. change [g'] with ([] ++ [g']) in HG. change [prc_default] with ([] ++ [prc_default (F:=R)]) in HG.
  destruct (elev_route tp pre [] g' [] prc_default [] l post gr cu cats o1 e1 o2 e2 y HG Hok
              ltac:(intros c Hc; inversion Hc) Hadj Hy) as [V (s & A & B & C)].
  cbn [g' prc_offset prc_net prc_default] in V, B. numR. rewrite Hfe. split.
  - replace (sum_lens pre + y) with (0 + sum_lens pre + y) by lra. exact V.
  - exists s. repeat split; auto. lra.
Qed.

Lemma elevs_ok_no_single (links : list LinkR) : Forall elevs_ok links -> no_single_elev links.
Proof.
  unfold no_single_elev. apply Forall_impl. intros l H. destruct (elevs_ok_inv l H) as (e0 & es & E & L & _).
  rewrite E. cbn [length]. lia.
Qed.

(* ... for a path built by any sequence of extend calls (every link of the route well-formed) *)
Theorem elev_exact (net : list LinkR) (tp : TPR) parts (q : PathR) pre l post o1 e1 o2 e2 y :
  extend_many net (new_path tp) parts = Ok q ->
  route_links net (concat parts) = pre ++ l :: post -> Forall elevs_ok (route_links net (concat parts)) ->
  adjacent (lk_elevs l) (o1, e1) (o2, e2) -> o1 <= y < o2 ->
  prc_at (p_grades q) (sum_lens pre + y)
  = first_elev (hd l pre) + sum_gain pre + (e1 - first_elev l) + (e2 - e1) / (o2 - o1) * (y - o1)
  /\ exists s, In s (p_grades q) /\ prc_offset s = sum_lens pre + o1 /\ prc_coeff s = (e2 - e1) / (o2 - o1).
Proof.
  intros H Hr Hok Hadj Hy.
  apply extend_many_concat in H; auto using new_path_nonempty, elevs_ok_no_single.
  apply (elev_exact_single net tp (concat parts) q pre l post); auto.
  rewrite Hr in Hok.
  replace (pre ++ l :: post) with ((pre ++ [l]) ++ post) in Hok by (rewrite <- app_assoc; reflexivity).
  apply Forall_app in Hok. tauto.
Qed.

(* ------------------------------------------------------------------ catenary limits *)
Definition shift_cat (base : R) (c : R * R * R) : R * R * R :=
  match c with (s, e, w) => (base + s, base + e, w) end.
Fixpoint route_cats (base : R) (links : list LinkR) : list (R * R * R) :=
  match links with
  | [] => []
  | l :: t => map (shift_cat base) (lk_cats l) ++ route_cats (lk_length l + base) t
  end.

Lemma cats_geom (tp : TPR) links : forall gfront glast cfront clast cats gr cu cats',
  geom_pass tp (gfront ++ [glast], cfront ++ [clast], cats) links = Ok (gr, cu, cats') ->
  Forall link_geom_ok links ->
  cats' = cats ++ route_cats (prc_offset glast) links.
Proof.
  induction links as [|l t IH]; intros gfront glast cfront clast cats gr cu cats' H Hok; cbn [geom_pass] in H.
  - inversion H; subst. cbn. symmetry; apply app_nil_r.
  - bind_inv H. destruct a as [[g1 c1] k1]. inversion Hok as [|? ? Hl Ht]; subst.
    destruct (geom_step_prefix _ _ _ _ _ _ _ _ _ _ Ha) as (gsegs & csegs & Eg & Ec & -> & -> & ->).
    rewrite (IH _ _ _ _ _ _ _ _ H Ht). cbn [route_cats]. rewrite <- app_assoc. f_equal. f_equal.
    assert (Og : prc_offset (lastpt glast gsegs) = lk_length l + prc_offset glast).
    { subst gsegs. destruct Hl as [[E|[E1 E2]] _].
      - rewrite E. cbn. lra.
      - destruct (lk_elevs l) as [|e es] eqn:Ee; [cbn in E1; lia|]. rewrite grade_segs_lastpt by auto. lra. }
    rewrite Og. reflexivity.
Qed.

(* C06: the path's catenary limits are the links' limits shifted by the link's start offset *)
Theorem cat_shift_single (net : list LinkR) (tp : TPR) path (q : PathR) :
  extend net (new_path tp) path = Ok q -> Forall link_geom_ok (route_links net path) ->
  p_cats q = route_cats 0 (route_links net path).
Proof.
  intros H Hok.
  destruct (extend_ok_inv _ _ _ _ H) as (gr0 & lps' & sps' & gr & cu & cats & _ & _ & _ & _ & HI & HL & HG & ->).
  cbn [p_grades p_curves p_cats new_path p_tp] in *.
  destruct (init_elev_single _ _ _ _ HI) as (g' & -> & Og & _).
  change [g'] with ([] ++ [g']) in HG. change [prc_default] with ([] ++ [prc_default (F:=R)]) in HG.
  rewrite (cats_geom _ _ _ _ _ _ _ _ _ _ HG Hok). rewrite Og. reflexivity.
Qed.

Theorem cat_shift (net : list LinkR) (tp : TPR) parts (q : PathR) :
  extend_many net (new_path tp) parts = Ok q -> Forall link_geom_ok (route_links net (concat parts)) ->
  p_cats q = route_cats 0 (route_links net (concat parts)).
Proof.
  intros H Hok. apply extend_many_concat in H; auto using new_path_nonempty, geom_ok_no_single.
  apply (cat_shift_single net tp); auto.
Qed.

(* ------------------------------------------------------------------ a concrete instance *)
(* PathGeomP.Ex: one link, elevations (0,100) (10000,150): hypotheses hold, and the path elevation
   half-way is 125 *)
Lemma ex_geom_ok : Forall elevs_ok (route_links Ex.ex_net (concat [[1%Z]])) /\
                   Forall link_geom_ok (route_links Ex.ex_net (concat [[1%Z]])).
Proof.
  assert (E : route_links Ex.ex_net (concat [[1%Z]]) = [nth 1 Ex.ex_net (Build_Link 0 0 0 0 0 0 [] [] [] None [])]) by reflexivity.
  rewrite E. split; constructor; auto.
  - unfold elevs_ok. cbn. repeat split; lra.
  - split.
    + right. cbn. split; [lia|reflexivity].
    + left. reflexivity.
Qed.

Lemma ex_elev : forall q, extend_many Ex.ex_net (new_path Ex.ex_tp) [[1%Z]] = Ok q ->
  prc_at (p_grades q) 5000 = 125 /\ counts_ok q = true.
Proof.
  intros q H. destruct ex_geom_ok as [H1 H2]. split.
  - destruct (elev_exact Ex.ex_net Ex.ex_tp [[1%Z]] q [] (nth 1 Ex.ex_net (Build_Link 0 0 0 0 0 0 [] [] [] None [])) []
                0 100 10000 150 5000 H eq_refl H1) as [V _].
    + exists [], []. reflexivity.
    + lra.
    + cbn [sum_lens sum_gain fold_right hd] in V. replace (0 + 5000) with 5000 in V by lra. rewrite V.
      unfold first_elev. cbn. lra.
  - eapply counts_inv; eauto.
Qed.
