(* TimedTraceP.v -- the simulation of a DISPATCHED train (SpeedLimitTrainSim::walk_timed_path, model
   WholeSim.sl_timed_walk) consists of nothing but whole steps (TrainFull.sl_full_step, under the path and braking
   points in force at that moment) and re-computations of the braking points (extend_path: train state, caches,
   brake and consist untouched).  Hence every statement proved of ONE whole step for every environment (C01, C08,
   C09, C10, C11, C12 whole-step theorems) holds of every step a dispatched train takes, and every invariant of whole
   steps that does not look at the braking index survives the whole timed walk. *)
From Coq Require Import Reals Lra Lia List Bool ZArith Arith.
From AltModel Require Import Num Interp Powertrain Loco Consist SpeedPoints PathGeom Resist Braking TrainStep TrainEnergy TrainFull WholeSim.
From AltProofs Require Import NumR PowertrainP LocoP ConsistP C08P C10P C01P TrainStepP BrakingP SpeedPointsP PathGeomP TrainFullP WholeSimP WholeSplitP.
Import ListNotations.
Open Scope R_scope.

Section Trace.
Variable fmax : R.
Notation X := (SLStateR * ConsistR)%type.

(* extend_path as seen from the train: only the braking index may differ *)
Definition rebrake (x x' : X) : Prop :=
  snd x' = snd x /\ sl_st (fst x') = sl_st (fst x) /\ sl_cache (fst x') = sl_cache (fst x) /\ sl_fb (fst x') = sl_fb (fst x).

(* [P] is known of the braking points every step runs under, [Q] is asked of every whole step on the way *)
Inductive tw_trace (P : list BPr -> Prop) (Q : X -> X -> Prop) : X -> X -> Prop :=
| tt_refl x : tw_trace P Q x x
| tt_step e pts x x1 x2 : P pts -> sl_full_step e pts fmax x = Ok x1 -> Q x x1 -> tw_trace P Q x1 x2 -> tw_trace P Q x x2
| tt_rebrake x x1 x2 : rebrake x x1 -> tw_trace P Q x1 x2 -> tw_trace P Q x x2.

Definition any_step : X -> X -> Prop := fun _ _ => True.
Definition any_pts : list BPr -> Prop := fun _ => True.

Lemma tw_trace_trans P Q x y z : tw_trace P Q x y -> tw_trace P Q y z -> tw_trace P Q x z.
Proof. induction 1; intros Hz; [exact Hz|eapply tt_step; eauto|eapply tt_rebrake; eauto]. Qed.

Lemma tw_trace_weaken (P P' : list BPr -> Prop) Q x y : (forall pts, P pts -> P' pts) -> tw_trace P Q x y -> tw_trace P' Q x y.
Proof. intros Hw. induction 1; [apply tt_refl|eapply tt_step; eauto|eapply tt_rebrake; eauto]. Qed.

(* the construction, generic in what is known of the braking points: [J] is an invariant of whole steps and of
   re-braking under which extend_path produces points with [P] *)
Section Build.
Variable P : list BPr -> Prop.
Variable J : X -> Prop.
Hypothesis HJstep : forall e pts x x1, J x -> sl_full_step e pts fmax x = Ok x1 -> J x1.
Hypothesis HJre : forall x x1, J x -> rebrake x x1 -> J x1.
Hypothesis HPext : forall fuel_bp (net : list LinkR) rp links (w w1 : TimedSim (F:=R)),
  J (tw_x w) -> tw_extend fuel_bp net rp links w = Ok w1 -> P (tw_pts w1).

Lemma tw_steps_trace (e : Env (F:=R)) pts te : P pts -> forall fuel x x',
  J x -> tw_steps fuel e pts fmax te x = Ok x' -> tw_trace P any_step x x' /\ J x'.
Proof.
  intros HP. induction fuel as [|f IH]; intros x x' Hj H; cbn [tw_steps] in H.
  - destruct (nltb _ te); [discriminate|]. inversion H; subst; split; [apply tt_refl|exact Hj].
  - destruct (nltb _ te); [|inversion H; subst; split; [apply tt_refl|exact Hj]].
    apply bind_ok in H. destruct H as (x1 & Hs & Hr).
    destruct (IH _ _ (HJstep _ _ _ _ Hj Hs) Hr) as (T & Hj').
    split; [eapply tt_step; [exact HP|exact Hs|exact I|exact T]|exact Hj'].
Qed.

Lemma sl_full_run_trace (e : Env (F:=R)) pts : P pts -> forall n x x',
  J x -> sl_full_run n e pts fmax x = Ok x' -> tw_trace P any_step x x' /\ J x'.
Proof.
  intros HP. induction n as [|n IH]; intros x x' Hj H; cbn [sl_full_run] in H.
  - inversion H; subst; split; [apply tt_refl|exact Hj].
  - apply bind_ok in H. destruct H as (x1 & Hs & Hr).
    destruct (IH _ _ (HJstep _ _ _ _ Hj Hs) Hr) as (T & Hj').
    split; [eapply tt_step; [exact HP|exact Hs|exact I|exact T]|exact Hj'].
Qed.

Lemma tw_extend_rebrake fuel_bp (net : list LinkR) rp links (w w1 : TimedSim (F:=R)) :
  tw_extend fuel_bp net rp links w = Ok w1 -> rebrake (tw_x w) (tw_x w1).
Proof.
  unfold tw_extend. intros H. apply bind_ok in H. destruct H as (p & _ & H).
  apply bind_ok in H. destruct H as ([pts idx] & _ & H). inversion H; subst w1; clear H.
  cbn [tw_x fst snd sl_st sl_cache sl_fb]. repeat split.
Qed.

Lemma tw_outer_trace fuel_bp fuel_steps (net : list LinkR) rp tl : forall fuel idx (w w' : TimedSim (F:=R)),
  P (tw_pts w) -> J (tw_x w) ->
  tw_outer fuel fuel_bp fuel_steps net rp fmax tl idx w = Ok w' ->
  tw_trace P any_step (tw_x w) (tw_x w') /\ P (tw_pts w') /\ J (tw_x w').
Proof.
  induction fuel as [|f IH]; intros idx w w' HP Hj H; cbn [tw_outer] in H.
  - destruct (Nat.eqb idx (length tl - 1)); [|discriminate]. inversion H; subst. split; [apply tt_refl|split; assumption].
  - destruct (Nat.eqb idx (length tl - 1)); [inversion H; subst; split; [apply tt_refl|split; assumption]|]. cbv zeta in H.
    apply bind_ok in H. destruct H as (w1 & He & H). apply bind_ok in H. destruct H as (x1 & Hs & H).
    pose proof (tw_extend_rebrake _ _ _ _ _ _ He) as Hre.
    pose proof (HPext _ _ _ _ _ _ Hj He) as HP1.
    destruct (tw_steps_trace _ _ _ HP1 _ _ _ (HJre _ _ Hj Hre) Hs) as (T1 & Hj1).
    apply IH in H; [|exact HP1|exact Hj1]. cbn [tw_x tw_pts] in H. destruct H as (T2 & HP' & Hj').
    split; [|split; assumption].
    eapply tt_rebrake; [exact Hre|]. eapply tw_trace_trans; [exact T1|exact T2].
Qed.

Theorem sl_timed_walk_trace_gen fuel_bp fuel_steps (net : list LinkR) (tp : TPR) tl rp fb st cache (con : ConsistR) x' :
  P [] -> J ({| sl_st := st; sl_cache := cache; sl_fb := fb; sl_idx := 0 |}, con) ->
  sl_timed_walk fuel_bp fuel_steps net tp tl rp fmax fb st cache con = Ok x' ->
  tw_trace P any_step ({| sl_st := st; sl_cache := cache; sl_fb := fb; sl_idx := 0 |}, con) x' /\ J x'.
Proof.
  unfold sl_timed_walk. destruct tl as [|t0 tr]; [discriminate|]. intros HP0 Hj0 H.
  apply bind_ok in H. destruct H as (w & Ho & Hw).
  apply tw_outer_trace in Ho; [|exact HP0|exact Hj0]. cbn [tw_x] in Ho. destruct Ho as (T & HPw & Hjw).
  destruct (sl_full_walk_is_run _ _ _ _ _ _ _ Hw) as (n & _ & Hrun & _).
  destruct (sl_full_run_trace _ _ HPw _ _ _ Hjw Hrun) as (T2 & Hj').
  split; [eapply tw_trace_trans; [exact T|exact T2]|exact Hj'].
Qed.
End Build.

(* THE structural statement *)
Theorem sl_timed_walk_trace fuel_bp fuel_steps (net : list LinkR) (tp : TPR) tl rp fb st cache (con : ConsistR) x' :
  sl_timed_walk fuel_bp fuel_steps net tp tl rp fmax fb st cache con = Ok x' ->
  tw_trace any_pts any_step ({| sl_st := st; sl_cache := cache; sl_fb := fb; sl_idx := 0 |}, con) x'.
Proof.
  intros H. apply (sl_timed_walk_trace_gen any_pts (fun _ => True)) in H; try (intros; exact I).
  exact (proj1 H).
Qed.

(* lifting: an invariant of whole steps (in every environment whose braking points satisfy P) that re-braking respects
   holds at the end, and what it yields for one step has been true of every step on the way *)
Theorem tw_trace_lift (P : list BPr -> Prop) (Inv : X -> Prop) (Q : X -> X -> Prop) :
  (forall e pts x x1, P pts -> Inv x -> sl_full_step e pts fmax x = Ok x1 -> Inv x1 /\ Q x x1) ->
  (forall x x1, Inv x -> rebrake x x1 -> Inv x1) ->
  forall x x', tw_trace P any_step x x' -> Inv x -> Inv x' /\ tw_trace P Q x x'.
Proof.
  intros Hstep Hre x x' H. induction H as [x|e pts x x1 x2 HP Hs _ Ht IH|x x1 x2 Hr Ht IH]; intros Hi.
  - split; [exact Hi|apply tt_refl].
  - destruct (Hstep _ _ _ _ HP Hi Hs) as (Hi1 & Hq). destruct (IH Hi1) as (A & B).
    split; [exact A|eapply tt_step; eauto].
  - destruct (IH (Hre _ _ Hi Hr)) as (A & B). split; [exact A|eapply tt_rebrake; eauto].
Qed.
End Trace.

(* ---------------------------------------------------------------- instances *)
(* C10 for a dispatched train: every step's consist request is split lawfully *)
Definition split_step (pd : Pdct) (x x1 : SLStateR * ConsistR) : Prop :=
  limits_nonneg (snd x1) -> split_ok pd (sl_pwr x1) (snd x1).

Theorem sl_timed_walk_split fuel_bp fuel_steps (net : list LinkR) (tp : TPR) tl rp fmax fb st cache (con : ConsistR) x' :
  sl_timed_walk fuel_bp fuel_steps net tp tl rp fmax fb st cache con = Ok x' -> cinv con ->
  cinv (snd x') /\ cn_pdct (snd x') = cn_pdct con /\
  tw_trace fmax any_pts (split_step (cn_pdct con)) ({| sl_st := st; sl_cache := cache; sl_fb := fb; sl_idx := 0 |}, con) x'.
Proof.
  intros H Hc. apply sl_timed_walk_trace in H.
  destruct (tw_trace_lift fmax any_pts (fun x => cinv (snd x) /\ cn_pdct (snd x) = cn_pdct con) (split_step (cn_pdct con))) with (3 := H)
    as ((A & B) & T).
  - intros e pts x x1 _ (Hi & Hp) Hs. destruct (sl_full_step_split _ _ _ _ _ Hs Hi) as (Hi1 & Hp1 & Hq).
    split; [split; [exact Hi1|congruence]|]. unfold split_step. rewrite <- Hp. exact Hq.
  - intros x x1 (Hi & Hp) (Hr & _). rewrite Hr. split; assumption.
  - cbn [snd]. split; [exact Hc|reflexivity].
  - split; [exact A|]. split; [exact B|exact T].
Qed.

(* C09 for a dispatched train: every step's request lies inside the limits the consist published for that step *)
Definition within_step (x x1 : SLStateR * ConsistR) : Prop :=
  exists c2, consist_set_cur_pwr_max_out (consist_set_pwr_aux (snd x) true) (k_dt (ts_k (sl_st (fst x)))) = Ok c2 /\
    sl_pwr x1 <= cs_pwr_out_max (cn_state c2) /\ - sl_pwr x1 <= cs_pwr_dyn_brake_max (cn_state c2).

Theorem sl_timed_walk_request_within fuel_bp fuel_steps (net : list LinkR) (tp : TPR) tl rp fmax fb st cache (con : ConsistR) x' :
  sl_timed_walk fuel_bp fuel_steps net tp tl rp fmax fb st cache con = Ok x' -> cinv con ->
  tw_trace fmax any_pts within_step ({| sl_st := st; sl_cache := cache; sl_fb := fb; sl_idx := 0 |}, con) x'.
Proof.
  intros H Hc. apply sl_timed_walk_trace in H.
  destruct (tw_trace_lift fmax any_pts (fun x => cinv (snd x)) within_step) with (3 := H) as (_ & T).
  - intros e pts x x1 _ Hi Hs. destruct (sl_full_step_split _ _ _ _ _ Hs Hi) as (Hi1 & _ & _).
    split; [exact Hi1|]. exact (sl_full_step_request_within _ _ _ _ _ Hs (proj2 Hi)).
  - intros x x1 Hi (Hr & _). rewrite Hr. exact Hi.
  - exact Hc.
  - exact T.
Qed.

(* C12 for a dispatched train: every step obeys the kinematic bookkeeping law on the path in force, the counter advances
   by one per step, the step size and the train's parameters never change *)
Definition kin_step (x x1 : SLStateR * ConsistR) : Prop :=
  (exists lps raw, kin_law lps (sl_st (fst x)) (sl_st (fst x1)) raw /\
     (k_speed (ts_k (sl_st (fst x1))) = raw \/
      (k_speed (ts_k (sl_st (fst x1))) = k_speed_target (ts_k (sl_st (fst x1))) /\
       almost_eq raw (k_speed_target (ts_k (sl_st (fst x1)))) eps8 = true))) /\
  k_i (ts_k (sl_st (fst x1))) = S (k_i (ts_k (sl_st (fst x)))) /\
  k_dt (ts_k (sl_st (fst x1))) = k_dt (ts_k (sl_st (fst x))) /\
  ts_p (sl_st (fst x1)) = ts_p (sl_st (fst x)).

Theorem sl_timed_walk_kin fuel_bp fuel_steps (net : list LinkR) (tp : TPR) tl rp fmax fb st cache (con : ConsistR) x' :
  sl_timed_walk fuel_bp fuel_steps net tp tl rp fmax fb st cache con = Ok x' ->
  tw_trace fmax any_pts kin_step ({| sl_st := st; sl_cache := cache; sl_fb := fb; sl_idx := 0 |}, con) x' /\
  k_dt (ts_k (sl_st (fst x'))) = k_dt (ts_k st) /\ ts_p (sl_st (fst x')) = ts_p st.
Proof.
  intros H. apply sl_timed_walk_trace in H.
  destruct (tw_trace_lift fmax any_pts (fun x => k_dt (ts_k (sl_st (fst x))) = k_dt (ts_k st) /\ ts_p (sl_st (fst x)) = ts_p st) kin_step)
    with (3 := H) as ((A & B) & T).
  - intros e pts [s c] [s1 c1] _ (Hd & Hp) Hs. cbn [fst snd] in *.
    destruct (sl_full_step_kin _ _ _ _ _ _ _ Hs) as (raw & Hk & Hsp & Hi).
    pose proof (sl_full_run_clock e pts fmax 1 (s, c) (s1, c1)) as Hc. cbn [sl_full_run bind] in Hc.
    rewrite Hs in Hc. cbn [bind] in Hc. specialize (Hc eq_refl). cbv zeta in Hc. cbn [fst] in Hc.
    destruct Hc as (Hd1 & _ & _ & _ & Hp1).
    split; [split; congruence|]. unfold kin_step. cbn [fst].
    split; [exists (e_lps e), raw; split; assumption|]. split; [exact Hi|]. split; assumption.
  - intros x x1 (Hd & Hp) (_ & Hst & _). rewrite Hst. split; assumption.
  - cbn [fst sl_st]. split; reflexivity.
  - split; [exact T|]. split; assumption.
Qed.

(* C03 for a dispatched train: the braking points every step runs under come from extend_path's recalc and have
   0 <= target <= limit; hence every saved row has 0 <= target <= limit and the speed the step started from is <= that
   limit (hypotheses: non-negative step size and positive mass at the start - both never change) *)
Definition limit_step (x x1 : SLStateR * ConsistR) : Prop :=
  let k' := ts_k (sl_st (fst x1)) in
  0 <= k_speed_target k' <= k_speed_limit k' /\ k_speed (ts_k (sl_st (fst x))) <= k_speed_limit k'.

Theorem sl_timed_walk_limits fuel_bp fuel_steps (net : list LinkR) (tp : TPR) tl rp fmax fb st cache (con : ConsistR) x' :
  sl_timed_walk fuel_bp fuel_steps net tp tl rp fmax fb st cache con = Ok x' ->
  0 <= k_dt (ts_k st) -> 0 < mass_compound (ts_p st) ->
  tw_trace fmax (Forall pt_ok) limit_step ({| sl_st := st; sl_cache := cache; sl_fb := fb; sl_idx := 0 |}, con) x'.
Proof.
  intros H Hdt Hm.
  pose (J := fun x : SLStateR * ConsistR => k_dt (ts_k (sl_st (fst x))) = k_dt (ts_k st) /\ ts_p (sl_st (fst x)) = ts_p st).
  assert (HJstep : forall e pts x x1, J x -> sl_full_step e pts fmax x = Ok x1 -> J x1).
  { intros e pts [s c] [s1 c1] (Hd & Hp) Hs. unfold J in *. cbn [fst] in *.
    pose proof (sl_full_run_clock e pts fmax 1 (s, c) (s1, c1)) as Hc. cbn [sl_full_run bind] in Hc.
    rewrite Hs in Hc. cbn [bind] in Hc. specialize (Hc eq_refl). cbv zeta in Hc. cbn [fst] in Hc.
    destruct Hc as (Hd1 & _ & _ & _ & Hp1). split; congruence. }
  assert (HJre : forall x x1, J x -> rebrake x x1 -> J x1).
  { intros x x1 (Hd & Hp) (_ & Hst & _). unfold J. rewrite Hst. split; assumption. }
  assert (HPext : forall fbp (net0 : list LinkR) rp0 links (w w1 : TimedSim (F:=R)),
            J (tw_x w) -> tw_extend fbp net0 rp0 links w = Ok w1 -> Forall pt_ok (tw_pts w1)).
  { intros fbp net0 rp0 links w w1 (Hd & Hp) He. unfold tw_extend in He.
    apply bind_ok in He. destruct He as (p & _ & He). apply bind_ok in He. destruct He as ([pts idx] & Hr & He).
    inversion He; subst w1; clear He. cbn [tw_pts].
    eapply bp_target_le_limit_fixed; [| | |exact Hr]; [reflexivity|rewrite Hd; exact Hdt|rewrite Hp; exact Hm]. }
  assert (Hj0 : J ({| sl_st := st; sl_cache := cache; sl_fb := fb; sl_idx := 0 |}, con)) by (unfold J; cbn [fst sl_st]; split; reflexivity).
  destruct (sl_timed_walk_trace_gen fmax (Forall pt_ok) J HJstep HJre HPext _ _ _ _ _ _ _ _ _ _ _ (Forall_nil _) Hj0 H) as (T & _).
  destruct (tw_trace_lift fmax (Forall pt_ok) (fun _ => True) limit_step) with (3 := T) as (_ & T').
  - intros e pts [s c] [s1 c1] HP _ Hs. split; [exact I|]. unfold limit_step. cbn [fst].
    exact (sl_full_step_limit_target _ _ _ _ _ _ _ HP Hs).
  - intros; exact I.
  - exact I.
  - exact T'.
Qed.

(* C01 / C08 for a dispatched train: at EVERY step every unit of the consist obeys the per-unit laws (second law, power
   and energy ledgers, SOC relation, delivered = share), the consist's delivered power is the sum of the shares, and no
   unit's cumulative loss / fuel / braking energy decreases (hypotheses: positive step size, well-formed units) *)
Definition units_step (x x1 : SLStateR * ConsistR) : Prop :=
  exists shares, Forall3 unit_laws (cn_locos (snd x)) shares (cn_locos (snd x1)) /\
    Forall2 cum_le (cn_locos (snd x)) (cn_locos (snd x1)) /\
    cs_pwr_out (cn_state (snd x1)) = ConsistP.sumR (fun p => p) shares.

Theorem sl_timed_walk_units fuel_bp fuel_steps (net : list LinkR) (tp : TPR) tl rp fmax fb st cache (con : ConsistR) x' :
  sl_timed_walk fuel_bp fuel_steps net tp tl rp fmax fb st cache con = Ok x' ->
  0 < k_dt (ts_k st) -> Forall loco_ok (cn_locos con) ->
  tw_trace fmax any_pts units_step ({| sl_st := st; sl_cache := cache; sl_fb := fb; sl_idx := 0 |}, con) x' /\
  Forall loco_ok (cn_locos (snd x')).
Proof.
  intros H Hdt Hok. apply sl_timed_walk_trace in H.
  destruct (tw_trace_lift fmax any_pts
              (fun x => k_dt (ts_k (sl_st (fst x))) = k_dt (ts_k st) /\ Forall loco_ok (cn_locos (snd x))) units_step)
    with (3 := H) as ((_ & A) & T).
  - intros e pts [s c] [s1 c1] _ (Hd & Ho) Hs. cbn [fst snd] in *.
    assert (Hd0 : 0 < k_dt (ts_k (sl_st s))) by (rewrite Hd; exact Hdt).
    destruct (sl_full_step_units _ _ _ _ _ _ _ Hs Hd0 Ho) as (sh & L & O1 & C1 & P1 & K1).
    split; [split; [congruence|exact O1]|]. exists sh. cbn [snd]. repeat split; assumption.
  - intros x x1 (Hd & Ho) (Hc & Hst & _). rewrite Hst, Hc. split; assumption.
  - cbn [fst snd sl_st]. split; [reflexivity|exact Hok].
  - split; [exact T|exact A].
Qed.

(* ---------------------------------------------------------------- the PATH of a dispatched train
   The path the final walk() runs on (and every path an intermediate step ran on) was built from PathTpc::new by the
   successive extend_path calls and nothing else, so every statement about extend_many (C02 / C13: the enforced profile
   is the tightest posted restriction; C06: geometry equals the network's) applies to it. *)
Lemma extend_many_snoc (net : list LinkR) : forall parts (p q r : PathR) links,
  extend_many net p parts = Ok q -> extend net q links = Ok r -> extend_many net p (parts ++ [links]) = Ok r.
Proof.
  induction parts as [|a t IH]; intros p q r links H1 H2; cbn [extend_many app] in *.
  - inversion H1; subst q. rewrite H2. reflexivity.
  - apply bind_ok in H1. destruct H1 as (p1 & Ha & Ht). rewrite Ha. cbn [bind]. eapply IH; eauto.
Qed.

Definition built (net : list LinkR) (tp : TPR) (p : PathR) : Prop := exists parts, extend_many net (new_path tp) parts = Ok p.

Lemma tw_extend_built fuel_bp (net : list LinkR) tp rp links (w w1 : TimedSim (F:=R)) :
  built net tp (tw_path w) -> tw_extend fuel_bp net rp links w = Ok w1 -> built net tp (tw_path w1).
Proof.
  intros (parts & Hb) H. unfold tw_extend in H. apply bind_ok in H. destruct H as (p & He & H).
  apply bind_ok in H. destruct H as ([pts idx] & _ & H). inversion H; subst w1; clear H. cbn [tw_path].
  exists (parts ++ [links]). eapply extend_many_snoc; eauto.
Qed.

Lemma tw_outer_built fuel_bp fuel_steps (net : list LinkR) tp rp fmax tl : forall fuel idx (w w' : TimedSim (F:=R)),
  built net tp (tw_path w) -> tw_outer fuel fuel_bp fuel_steps net rp fmax tl idx w = Ok w' -> built net tp (tw_path w').
Proof.
  induction fuel as [|f IH]; intros idx w w' Hb H; cbn [tw_outer] in H.
  - destruct (Nat.eqb idx (length tl - 1)); [|discriminate]. inversion H; subst; exact Hb.
  - destruct (Nat.eqb idx (length tl - 1)); [inversion H; subst; exact Hb|]. cbv zeta in H.
    apply bind_ok in H. destruct H as (w1 & He & H). apply bind_ok in H. destruct H as (x1 & Hs & H).
    apply IH in H; [exact H|]. cbn [tw_path]. eapply tw_extend_built; eauto.
Qed.

Theorem sl_timed_walk_path fuel_bp fuel_steps (net : list LinkR) (tp : TPR) tl rp fmax fb st cache (con : ConsistR) x' :
  sl_timed_walk fuel_bp fuel_steps net tp tl rp fmax fb st cache con = Ok x' ->
  exists (w : TimedSim (F:=R)) parts,
    extend_many net (new_path tp) parts = Ok (tw_path w) /\
    sl_full_walk fuel_steps (env_of_path (tw_path w) rp) (tw_pts w) (path_offset_end (tw_path w)) fmax (tw_x w) = Ok x'.
Proof.
  unfold sl_timed_walk. destruct tl as [|t0 tr]; [discriminate|]. intros H.
  apply bind_ok in H. destruct H as (w & Ho & Hw).
  apply (tw_outer_built _ _ net tp) in Ho; [|exists []; reflexivity]. destruct Ho as (parts & Hp).
  exists w, parts. split; assumption.
Qed.

(* C02 / C13 for a dispatched train: on the path its walk() runs on, the enforced limit at every position is at most
   the train's own maximum and at most every posted restriction covering the position, and it is one of them *)
Theorem sl_timed_walk_profile fuel_bp fuel_steps (net : list LinkR) (tp : TPR) tl rp fmax fb st cache (con : ConsistR) x' :
  sl_timed_walk fuel_bp fuel_steps net tp tl rp fmax fb st cache con = Ok x' ->
  exists (w : TimedSim (F:=R)) parts,
    extend_many net (new_path tp) parts = Ok (tw_path w) /\
    sl_full_walk fuel_steps (env_of_path (tw_path w) rp) (tw_pts w) (path_offset_end (tw_path w)) fmax (tw_x w) = Ok x' /\
    (route_ok net tp (concat parts) -> forall x, 0 <= x ->
       let P := eval_speed (p_speed_points (tw_path w)) x in
       let sets := route_sets net tp (concat parts) in
       P <= tp_speed_max tp /\ (forall v, posted tp 0 sets x v -> P <= v) /\ (P = tp_speed_max tp \/ posted tp 0 sets x P)).
Proof.
  intros H. destruct (sl_timed_walk_path _ _ _ _ _ _ _ _ _ _ _ _ H) as (w & parts & Hp & Hw).
  exists w, parts. split; [exact Hp|]. split; [exact Hw|].
  intros Hr x Hx. exact (path_profile_is_min net tp parts (tw_path w) x Hp Hr Hx).
Qed.

(* ---------------------------------------------------------------- never reverses (since the /repo fix of the
   "sufficient power to move" guard): whole step, whole run, dispatched train *)
Theorem sl_full_step_never_reverses (e : Env (F:=R)) pts fmax (x x' : SLStateR * ConsistR) :
  Forall pt_ok pts -> sl_full_step e pts fmax x = Ok x' ->
  0 < k_dt (ts_k (sl_st (fst x))) -> 0 < mass_compound (ts_p (sl_st (fst x))) ->
  0 <= k_speed (ts_k (sl_st (fst x))) -> 0 <= k_speed (ts_k (sl_st (fst x'))).
Proof.
  destruct x as [s c], x' as [s'' c']. cbn [fst]. intros Hpts H Hdt Hm Hv.
  destruct (sl_full_step_limit_target _ _ _ _ _ _ _ Hpts H) as ((Htg & _) & _).
  destruct (sl_full_step_speed_le_target _ _ _ _ _ _ _ H Hdt Hm) as (c2 & ax & _ & (s' & Hs & Hb) & _).
  subst s''. change (k_speed (ts_k (sl_st (sl_bump s')))) with (k_speed (ts_k (sl_st s'))).
  change (k_speed_target (ts_k (sl_st (sl_bump s')))) with (k_speed_target (ts_k (sl_st s'))) in Htg.
  exact (proj1 (step_never_reverses _ _ _ _ _ _ Hs Hdt Hm Hv Htg)).
Qed.

Definition NRInv (dt0 : R) (p0 : Par (F:=R)) (x : SLStateR * ConsistR) : Prop :=
  k_dt (ts_k (sl_st (fst x))) = dt0 /\ ts_p (sl_st (fst x)) = p0 /\ 0 <= k_speed (ts_k (sl_st (fst x))).

Lemma NRInv_step dt0 p0 (e : Env (F:=R)) pts fmax x x1 : 0 < dt0 -> 0 < mass_compound p0 -> Forall pt_ok pts ->
  NRInv dt0 p0 x -> sl_full_step e pts fmax x = Ok x1 -> NRInv dt0 p0 x1.
Proof.
  intros Hdt Hm Hpts (Hd & Hp & Hv) Hs. destruct x as [s c], x1 as [s1 c1]. unfold NRInv. cbn [fst] in *.
  pose proof (sl_full_run_clock e pts fmax 1 (s, c) (s1, c1)) as Hc. cbn [sl_full_run bind] in Hc.
  rewrite Hs in Hc. cbn [bind] in Hc. specialize (Hc eq_refl). cbv zeta in Hc. cbn [fst] in Hc.
  destruct Hc as (Hd1 & _ & _ & _ & Hp1).
  split; [rewrite Hd1; exact Hd|]. split; [rewrite Hp1; exact Hp|].
  apply (sl_full_step_never_reverses e pts fmax (s, c) (s1, c1) Hpts Hs); cbn [fst]; [rewrite Hd; exact Hdt|rewrite Hp; exact Hm|exact Hv].
Qed.

Theorem sl_full_run_never_reverses (e : Env (F:=R)) pts fmax : Forall pt_ok pts -> forall k x y,
  0 < k_dt (ts_k (sl_st (fst x))) -> 0 < mass_compound (ts_p (sl_st (fst x))) -> 0 <= k_speed (ts_k (sl_st (fst x))) ->
  sl_full_run k e pts fmax x = Ok y -> 0 <= k_speed (ts_k (sl_st (fst y))).
Proof.
  intros Hpts k. induction k as [|k IH]; intros x y Hdt Hm Hv Hy; cbn [sl_full_run] in Hy.
  - inversion Hy; subst; exact Hv.
  - apply bind_ok in Hy. destruct Hy as (x1 & Hs & Hr).
    destruct (NRInv_step _ _ e pts fmax x x1 Hdt Hm Hpts (conj eq_refl (conj eq_refl Hv)) Hs) as (Hd1 & Hp1 & Hv1).
    apply (IH x1 y); [rewrite Hd1; exact Hdt|rewrite Hp1; exact Hm|exact Hv1|exact Hr].
Qed.

(* a dispatched train never reverses: every state on the trace of walk_timed_path has a non-negative speed *)
Definition nonneg_step (x x1 : SLStateR * ConsistR) : Prop := 0 <= k_speed (ts_k (sl_st (fst x1))).

Theorem sl_timed_walk_never_reverses fuel_bp fuel_steps (net : list LinkR) (tp : TPR) tl rp fmax fb st cache (con : ConsistR) x' :
  sl_timed_walk fuel_bp fuel_steps net tp tl rp fmax fb st cache con = Ok x' ->
  0 < k_dt (ts_k st) -> 0 < mass_compound (ts_p st) -> 0 <= k_speed (ts_k st) ->
  tw_trace fmax (Forall pt_ok) nonneg_step ({| sl_st := st; sl_cache := cache; sl_fb := fb; sl_idx := 0 |}, con) x' /\
  0 <= k_speed (ts_k (sl_st (fst x'))).
Proof.
  intros H Hdt Hm Hv.
  pose proof (sl_timed_walk_limits _ _ _ _ _ _ _ _ _ _ _ _ H (Rlt_le _ _ Hdt) Hm) as T0.
  assert (T : tw_trace fmax (Forall pt_ok) any_step ({| sl_st := st; sl_cache := cache; sl_fb := fb; sl_idx := 0 |}, con) x').
  { clear -T0. induction T0; [apply tt_refl|eapply tt_step; eauto; exact I|eapply tt_rebrake; eauto]. }
  destruct (tw_trace_lift fmax (Forall pt_ok) (NRInv (k_dt (ts_k st)) (ts_p st)) nonneg_step) with (3 := T) as ((_ & _ & A) & T').
  - intros e pts x x1 HP Hi Hs. pose proof (NRInv_step _ _ e pts fmax x x1 Hdt Hm HP Hi Hs) as Hi1.
    split; [exact Hi1|]. exact (proj2 (proj2 Hi1)).
  - intros x x1 (Hd & Hp & Hv0) (_ & Hst & _). unfold NRInv. rewrite Hst. repeat split; assumption.
  - unfold NRInv. cbn [fst sl_st]. repeat split; [exact Hv].
  - split; [exact T'|exact A].
Qed.

(* walk() itself: every state of an accepted whole walk has a non-negative speed *)
Theorem sl_full_walk_never_reverses (e : Env (F:=R)) pts offset_end fmax fuel x x' :
  Forall pt_ok pts -> sl_full_walk fuel e pts offset_end fmax x = Ok x' ->
  0 < k_dt (ts_k (sl_st (fst x))) -> 0 < mass_compound (ts_p (sl_st (fst x))) -> 0 <= k_speed (ts_k (sl_st (fst x))) ->
  0 <= k_speed (ts_k (sl_st (fst x'))) /\
  exists n, sl_full_run n e pts fmax x = Ok x' /\
    forall k y, sl_full_run k e pts fmax x = Ok y -> 0 <= k_speed (ts_k (sl_st (fst y))).
Proof.
  intros Hpts Hw Hdt Hm Hv. destruct (sl_full_walk_is_run _ _ _ _ _ _ _ Hw) as (n & _ & Hrun & _).
  split; [exact (sl_full_run_never_reverses e pts fmax Hpts n x x' Hdt Hm Hv Hrun)|].
  exists n. split; [exact Hrun|]. intros k y Hy. exact (sl_full_run_never_reverses e pts fmax Hpts k x y Hdt Hm Hv Hy).
Qed.
