(* PathClearWitness.v -- machine-checked witness of known finding C06/2 at the level of the MODEL of PathTpc::clear
   (PathGeom.v, binary64 instance): a two-link route extended by the model's own [extend] (hence a reachable, consistent
   path: the index cross-check [counts_ok] passes), an offset inside the path - and clear PANICS (1504 = the speed
   point scan indexes past the stored speed points, `speed_points[speed_count]` in the code).  The input is harness
   case clear/26 (VERIF_SEED 20261001), on which the real PathTpc::clear panics with "index out of bounds". *)
From Coq Require Import ZArith List Bool Floats Uint63.
From AltModel Require Import Num SpeedPoints PathGeom TrainCfg.
Import ListNotations.
Arguments Fp (m e)%uint63_scope.
Arguments Fn (m e)%uint63_scope.

Definition cw_net : list (Link (F:=float)) := [(Build_Link 0%Z 0%Z 0%Z 0%Z 0%Z (Fp 0 2101) [] [] [] None []); (Build_Link 1%Z 2%Z 0%Z 0%Z 0%Z (Fp 6597069766656000 2060) [((Fp 0 2101), (Fp 6398651118139406 2058)); ((Fp 7132018360538766 2057), (Fp 6297259927936630 2058)); ((Fp 4727899999436800 2058), (Fp 6047461292009290 2058)); ((Fp 6120687704633085 2059), (Fp 6283799487031477 2058)); ((Fp 4617948836659200 2060), (Fp 6188562244396684 2058)); ((Fp 4837851162214400 2060), (Fp 6188562244396684 2058)); ((Fp 6597069766656000 2060), (Fp 6188562244396684 2058))] [((Fp 0 2101), (Fp 7728101789967597 2049)); ((Fp 8356288371097600 2057), (Fp 7602911623043539 2049)); ((Fp 6157265115545600 2059), (Fp 7602911623043539 2049)); ((Fp 8076390220665465 2059), (Fp 7600517666355555 2049)); ((Fp 6597069766656000 2060), (Fp 8285313486762437 2049))] [] (Some (Build_SpeedSet [Build_SpeedLimit (Fp 5277655813324800 2057) (Fp 5144417550370776 2059) (Fp 5629499534213120 2052); Build_SpeedLimit (Fp 6417062135031826 2059) (Fp 5360119185408000 2060) (Fp 5629499534213120 2052)] [] true)) [((Fp 7916483719987200 2058), (Fp 5013839005728507 2060), (Fp 8208059358046305 2070))]); (Build_Link 2%Z 0%Z 0%Z 1%Z 0%Z (Fp 6420791774922174 2061) [((Fp 0 2101), (Fp 6906798178794978 2056)); ((Fp 6420791774922174 2061), (Fp 6906798178794978 2056))] [((Fp 0 2101), (Fp 7838718998046251 2049)); ((Fp 5827411627212800 2061), (Fp 5511136377337469 2049)); ((Fp 6420791774922174 2061), (Fp 5506037795521897 2049))] [] (Some (Build_SpeedSet [] [SPAxleCount CLt 76%Z] false)) [((Fp 7036874417766400 2055), (Fp 4537381754383014 2060), (Fp 8023121753696823 2070)); ((Fp 6134730748111064 2060), (Fp 5332631394713600 2061), (Fp 7233535930629301 2070)); ((Fp 5456326452838400 2061), (Fp 5607509301657600 2061), (Fp 8012170618771111 2071))])].
Definition cw_tp : TrainParams (F:=float) := (Build_TrainParams (Fp 7036874417766400 2055) (Fp 7036874417766400 2053) (Fp 7149403162187878 2069) (Fp 8619221622283071 2064) 56%Z 3%Z (Fp 6937637195482345 2047) (Fp 5901777839629073 2058) (Fp 8336606353310363 2058)).
Definition cw_paths : list (list Z) := [[1%Z; 2%Z]].
Definition cw_x : float := (Fp 7464525437202198 2060).

Definition offset_inside (p : Path (F:=float)) (x : float) : bool :=
  match p_link_points p with
  | [] => false
  | f :: _ => PrimFloat.leb (lp_offset f) x && PrimFloat.leb x (lp_offset (last (p_link_points p) lp_default))
  end.

Theorem clear_panics_witness :
  exists p, extend_many cw_net (new_path cw_tp) cw_paths = Ok p /\ counts_ok p = true /\ offset_inside p cw_x = true /\
            clear p cw_x = Panic 1504.
Proof. eexists. split; [vm_compute; reflexivity|]. split; [vm_compute; reflexivity|]. split; vm_compute; reflexivity. Qed.
