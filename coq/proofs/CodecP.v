(* CodecP.v -- the schema-level save/load laws (C17), for ALL schemas and ALL well-typed values.

   dec_enc            : dec t (enc t v) = Ok (clear t v)               (self-describing round trip)
   clear_idem         : clear t (clear t v) = clear t v                (normalisation is idempotent)
   dec_enc_clear      : a second round trip returns the first reload
   jsonify_id / json_roundtrip : JSON agrees with the above when every written number is finite
   decp_encp          : the positional round trip succeeds when NO field was skipped
   (the refutation witnesses for skipped fields / non-finite numbers are in CodecSchemaP.v) *)
From Coq Require Import Reals Lra List Bool ZArith String Lia.
From AltModel Require Import Num Codec.
From AltProofs Require Import NumR.
Import ListNotations.
Open Scope R_scope.

Notation valR := (val R).
Notation tyR := (ty R).
Notation fattrR := (fattr R).
Notation atomR := (atom R).

(* ---------------------------------------------------------------- induction principles *)
Section TyInd.
  Variable P : tyR -> Prop.
  Hypothesis HU : P TUnit.
  Hypothesis HB : P TBool.
  Hypothesis HI : P TInt.
  Hypothesis HN : P TNum.
  Hypothesis HS : P TStr.
  Hypothesis HO : forall t, P t -> P (TOpt t).
  Hypothesis HQ : forall t, P t -> P (TSeq t).
  Hypothesis HR : forall fs, Forall (fun ft => P (snd ft)) fs -> P (TRec fs).
  Hypothesis HE : forall vs, Forall (fun nt => P (snd nt)) vs -> P (TEnum vs).
  Fixpoint ty_ind' (t : tyR) : P t :=
    match t with
    | TUnit => HU | TBool => HB | TInt => HI | TNum => HN | TStr => HS
    | TOpt t' => HO t' (ty_ind' t')
    | TSeq t' => HQ t' (ty_ind' t')
    | TRec fs =>
        HR fs ((fix go (fs : list (fattrR * tyR)) : Forall (fun ft => P (snd ft)) fs :=
                  match fs with
                  | [] => Forall_nil _
                  | ft :: fs' =>
                      Forall_cons ft (match ft as p return P (snd p) with (a, t') => ty_ind' t' end) (go fs')
                  end) fs)
    | TEnum vs =>
        HE vs ((fix go (vs : list (string * tyR)) : Forall (fun nt => P (snd nt)) vs :=
                  match vs with
                  | [] => Forall_nil _
                  | nt :: vs' =>
                      Forall_cons nt (match nt as p return P (snd p) with (n, t') => ty_ind' t' end) (go vs')
                  end) vs)
    end.
End TyInd.

Section ValInd.
  Variable P : valR -> Prop.
  Hypothesis H0 : P VNull.
  Hypothesis H1 : forall b, P (VBool b).
  Hypothesis H2 : forall z, P (VInt z).
  Hypothesis H3 : forall n, P (VNum n).
  Hypothesis H4 : forall s, P (VStr s).
  Hypothesis H5 : forall l, Forall P l -> P (VSeq l).
  Hypothesis H6 : forall l, Forall P l -> P (VRec l).
  Hypothesis H7 : forall m, Forall (fun kv => P (snd kv)) m -> P (VMap m).
  Hypothesis H8 : forall t v, P v -> P (VVar t v).
  Fixpoint val_ind' (v : valR) : P v :=
    match v with
    | VNull => H0 | VBool b => H1 b | VInt z => H2 z | VNum n => H3 n | VStr s => H4 s
    | VSeq l => H5 l ((fix go (l : list valR) : Forall P l :=
                         match l with [] => Forall_nil _ | x :: l' => Forall_cons x (val_ind' x) (go l') end) l)
    | VRec l => H6 l ((fix go (l : list valR) : Forall P l :=
                         match l with [] => Forall_nil _ | x :: l' => Forall_cons x (val_ind' x) (go l') end) l)
    | VMap m => H7 m ((fix go (m : list (string * valR)) : Forall (fun kv => P (snd kv)) m :=
                         match m with
                         | [] => Forall_nil _
                         | kv :: m' => Forall_cons kv (match kv as p return P (snd p) with (k, x) => val_ind' x end) (go m')
                         end) m)
    | VVar t x => H8 t x (val_ind' x)
    end.
End ValInd.

(* ---------------------------------------------------------------- the nested loops, named *)
Fixpoint enc_fields (fs : list (fattrR * tyR)) (l : list valR) : list (string * valR) :=
  match fs, l with
  | (a, t') :: fs', v' :: l' => if absent a v' then enc_fields fs' l' else (f_name a, enc t' v') :: enc_fields fs' l'
  | _, _ => []
  end.
Fixpoint dec_fields (m : list (string * valR)) (fs : list (fattrR * tyR)) : res (list valR) :=
  match fs with
  | [] => Ok []
  | (a, t') :: fs' =>
      let? v := (if f_serde_skip a then Ok (f_dflt a)
                 else match lookup (f_name a) m with
                      | Some e' => dec t' e'
                      | None => if f_has_default a then Ok (f_dflt a) else Err 1702
                      end) in
      let? r := dec_fields m fs' in Ok (v :: r)
  end.
Fixpoint clear_fields (fs : list (fattrR * tyR)) (l : list valR) : list valR :=
  match fs, l with
  | (a, t') :: fs', v' :: l' => (if f_serde_skip a then f_dflt a else clear t' v') :: clear_fields fs' l'
  | _, _ => []
  end.
Fixpoint typed_fields (fs : list (fattrR * tyR)) (l : list valR) : bool :=
  match fs, l with
  | [], [] => true
  | (a, t') :: fs', v' :: l' => has_tyb t' v' && typed_fields fs' l'
  | _, _ => false
  end.
Fixpoint encp_fields (fs : list (fattrR * tyR)) (l : list valR) : list atomR :=
  match fs, l with
  | (a, t') :: fs', v' :: l' => if absent a v' then encp_fields fs' l' else encp t' v' ++ encp_fields fs' l'
  | _, _ => []
  end.
Fixpoint decp_fields (fs : list (fattrR * tyR)) (s : list atomR) : res (list valR * list atomR) :=
  match fs with
  | [] => Ok ([], s)
  | (a, t') :: fs' =>
      if f_serde_skip a
      then (let? r := decp_fields fs' s in Ok (f_dflt a :: fst r, snd r))
      else (let? vs1 := decp t' s in
            let? r := decp_fields fs' (snd vs1) in Ok (fst vs1 :: fst r, snd r))
  end.
Fixpoint no_skip_fields (fs : list (fattrR * tyR)) (l : list valR) : bool :=
  match fs, l with
  | (a, t') :: fs', v' :: l' => (f_serde_skip a || (negb (skipped a v') && no_skip t' v')) && no_skip_fields fs' l'
  | _, _ => true
  end.
Fixpoint enc_pick (tag : string) (v' : valR) (vs : list (string * tyR)) : valR :=
  match vs with
  | [] => VNull
  | (n, t') :: vs' => if String.eqb tag n then VVar tag (enc t' v') else enc_pick tag v' vs'
  end.
Fixpoint dec_pick (tag : string) (e' : valR) (vs : list (string * tyR)) : res valR :=
  match vs with
  | [] => Err 1704
  | (n, t') :: vs' => if String.eqb tag n then (let? v := dec t' e' in Ok (VVar tag v)) else dec_pick tag e' vs'
  end.
Fixpoint clear_pick (tag : string) (v' : valR) (vs : list (string * tyR)) : valR :=
  match vs with
  | [] => VVar tag v'
  | (n, t') :: vs' => if String.eqb tag n then VVar tag (clear t' v') else clear_pick tag v' vs'
  end.
Fixpoint ty_pick (tag : string) (v' : valR) (vs : list (string * tyR)) : bool :=
  match vs with
  | [] => false
  | (n, t') :: vs' => if String.eqb tag n then has_tyb t' v' else ty_pick tag v' vs'
  end.
Fixpoint encp_pick (tag : string) (v' : valR) (vs : list (string * tyR)) (k : nat) : list atomR :=
  match vs with
  | [] => []
  | (n, t') :: vs' => if String.eqb tag n then ATag k :: encp t' v' else encp_pick tag v' vs' (S k)
  end.
Fixpoint decp_pick (k : nat) (s' : list atomR) (vs : list (string * tyR)) (j : nat) : res (valR * list atomR) :=
  match vs with
  | [] => Err 1712
  | (n, t') :: vs' =>
      if Nat.eqb j k then (let? vs1 := decp t' s' in Ok (VVar n (fst vs1), snd vs1))
      else decp_pick k s' vs' (S j)
  end.
Fixpoint no_skip_pick (tag : string) (v' : valR) (vs : list (string * tyR)) : bool :=
  match vs with
  | [] => true
  | (n, t') :: vs' => if String.eqb tag n then no_skip t' v' else no_skip_pick tag v' vs'
  end.
Fixpoint decp_rep (t' : tyR) (n : nat) (s : list atomR) : res (list valR * list atomR) :=
  match n with
  | O => Ok ([], s)
  | S n' => let? vs1 := decp t' s in
            let? r := decp_rep t' n' (snd vs1) in Ok (fst vs1 :: fst r, snd r)
  end.

Lemma enc_rec fs l : enc (TRec fs) (VRec l) = VMap (enc_fields fs l).
Proof. reflexivity. Qed.
Lemma dec_rec fs m : dec (TRec fs) (VMap m) = (let? l := dec_fields m fs in Ok (VRec l)).
Proof. cbn [dec]. f_equal. induction fs as [|[a t'] fs IH]; [reflexivity|].
  cbn [dec_fields]. rewrite <- IH. reflexivity. Qed.
Lemma clear_rec fs l : clear (TRec fs) (VRec l) = VRec (clear_fields fs l).
Proof. reflexivity. Qed.
Lemma has_ty_rec fs l : has_tyb (TRec fs) (VRec l) = typed_fields fs l.
Proof. reflexivity. Qed.
Lemma encp_rec fs l : encp (TRec fs) (VRec l) = encp_fields fs l.
Proof. reflexivity. Qed.
Lemma decp_rec fs s : decp (TRec fs) s = (let? r := decp_fields fs s in Ok (VRec (fst r), snd r)).
Proof. reflexivity. Qed.
Lemma no_skip_rec fs l : no_skip (TRec fs) (VRec l) = no_skip_fields fs l.
Proof. reflexivity. Qed.
Lemma enc_enum vs tag v' : enc (TEnum vs) (VVar tag v') = enc_pick tag v' vs.
Proof. cbn [enc]. induction vs as [|[n t'] vs IH]; [reflexivity|]. cbn [enc_pick]. rewrite <- IH. reflexivity. Qed.
Lemma dec_enum vs tag e' : dec (TEnum vs) (VVar tag e') = dec_pick tag e' vs.
Proof. cbn [dec]. induction vs as [|[n t'] vs IH]; [reflexivity|]. cbn [dec_pick]. rewrite <- IH. reflexivity. Qed.
Lemma clear_enum vs tag v' : clear (TEnum vs) (VVar tag v') = clear_pick tag v' vs.
Proof. cbn [clear]. induction vs as [|[n t'] vs IH]; [reflexivity|]. cbn [clear_pick]. rewrite <- IH. reflexivity. Qed.
Lemma has_ty_enum vs tag v' : has_tyb (TEnum vs) (VVar tag v') = ty_pick tag v' vs.
Proof. cbn [has_tyb]. induction vs as [|[n t'] vs IH]; [reflexivity|]. cbn [ty_pick]. rewrite <- IH. reflexivity. Qed.
Lemma encp_enum vs tag v' : encp (TEnum vs) (VVar tag v') = encp_pick tag v' vs O.
Proof. cbn [encp]. generalize O. induction vs as [|[n t'] vs IH]; intros k; [reflexivity|].
  cbn [encp_pick]. rewrite <- IH. reflexivity. Qed.
Lemma decp_enum vs k s' : decp (TEnum vs) (ATag k :: s') = decp_pick k s' vs O.
Proof. cbn [decp]. generalize O. induction vs as [|[n t'] vs IH]; intros j; [reflexivity|].
  cbn [decp_pick]. rewrite <- IH. reflexivity. Qed.
Lemma no_skip_enum vs tag v' : no_skip (TEnum vs) (VVar tag v') = no_skip_pick tag v' vs.
Proof. cbn [no_skip]. induction vs as [|[n t'] vs IH]; [reflexivity|]. cbn [no_skip_pick]. rewrite <- IH. reflexivity. Qed.
Lemma decp_seq t' n s' : decp (TSeq t') (ATag n :: s') = (let? r := decp_rep t' n s' in Ok (VSeq (fst r), snd r)).
Proof. cbn [decp]. f_equal. revert s'. induction n as [|n IH]; intros s'; [reflexivity|].
  cbn [decp_rep]. destruct (decp t' s') as [[v1 s1]| |]; cbn [bind]; try reflexivity. rewrite <- IH. reflexivity. Qed.

(* ---------------------------------------------------------------- equality test is sound over R *)
Lemma num_eqb_eq (a b : num R) : num_eqb a b = true -> a = b.
Proof. destruct a, b; cbn; try discriminate; auto. numR. intros H. apply Reqb_true in H. congruence. Qed.

Lemma val_eqb_eq : forall a c : valR, val_eqb a c = true -> a = c.
Proof.
  induction a using val_ind'; intros c Hb; destruct c; cbn in Hb; try discriminate; auto.
  - apply Bool.eqb_prop in Hb. congruence.
  - apply Z.eqb_eq in Hb. congruence.
  - apply num_eqb_eq in Hb. congruence.
  - apply String.eqb_eq in Hb. congruence.
  - f_equal. revert l0 Hb. induction H as [|x l Hx Hl IH]; intros [|y l0] Hb; try discriminate; auto.
    apply andb_prop in Hb. destruct Hb as [H1 H2]. f_equal; auto.
  - f_equal. revert l0 Hb. induction H as [|x l Hx Hl IH]; intros [|y l0] Hb; try discriminate; auto.
    apply andb_prop in Hb. destruct Hb as [H1 H2]. f_equal; auto.
  - f_equal. revert l Hb. induction H as [|[k x] m Hx Hm IH]; intros [|[k' y] l] Hb; try discriminate; auto.
    apply andb_prop in Hb. destruct Hb as [H1 H2]. apply andb_prop in H1. destruct H1 as [H0 H1].
    apply String.eqb_eq in H0. cbn in Hx. f_equal; auto. f_equal; auto.
  - apply andb_prop in Hb. destruct Hb as [H1 H2]. apply String.eqb_eq in H1. f_equal; auto.
Qed.

(* ---------------------------------------------------------------- well-formed schemas *)
(* the conditions under which the attribute combination on a field is coherent; every schema of
   Codec.v satisfies them (proved per schema in CodecSchemaP.v) *)
Definition wf_fattr (a : fattrR) (t' : tyR) : Prop :=
  (f_skip_if a <> NoSkip -> f_has_default a = true) /\
  (f_skip_if a = SkipIfNone -> f_dflt a = VNull) /\
  (f_skip_if a = SkipIfDefault \/ f_serde_skip a = true ->
     clear t' (f_dflt a) = f_dflt a /\ has_tyb t' (f_dflt a) = true).

Fixpoint wf_ty (t : tyR) : Prop :=
  match t with
  | TOpt t' => wf_ty t'
  | TSeq t' => wf_ty t'
  | TRec fs =>
      NoDup (map (fun ft => f_name (fst ft)) fs) /\
      (fix go (fs : list (fattrR * tyR)) : Prop :=
         match fs with
         | [] => True
         | (a, t') :: fs' => wf_ty t' /\ wf_fattr a t' /\ go fs'
         end) fs
  | TEnum vs =>
      (fix go (vs : list (string * tyR)) : Prop :=
         match vs with
         | [] => True
         | (n, t') :: vs' => wf_ty t' /\ go vs'
         end) vs
  | _ => True
  end.
Fixpoint wf_fields (fs : list (fattrR * tyR)) : Prop :=
  match fs with
  | [] => True
  | (a, t') :: fs' => wf_ty t' /\ wf_fattr a t' /\ wf_fields fs'
  end.
Fixpoint wf_variants (vs : list (string * tyR)) : Prop :=
  match vs with
  | [] => True
  | (n, t') :: vs' => wf_ty t' /\ wf_variants vs'
  end.
Lemma wf_rec fs : wf_ty (TRec fs) <-> NoDup (map (fun ft => f_name (fst ft)) fs) /\ wf_fields fs.
Proof. cbn [wf_ty]. assert (E : forall fs, (fix go (fs : list (fattrR * tyR)) : Prop :=
         match fs with [] => True | (a, t') :: fs' => wf_ty t' /\ wf_fattr a t' /\ go fs' end) fs <-> wf_fields fs).
  { induction fs0 as [|[a t'] fs0 IH]; cbn; [tauto|]. rewrite IH. tauto. }
  rewrite E. tauto. Qed.
Lemma wf_enum vs : wf_ty (TEnum vs) <-> wf_variants vs.
Proof. cbn [wf_ty]. induction vs as [|[n t'] vs IH]; cbn; [tauto|]. rewrite IH. tauto. Qed.

(* ---------------------------------------------------------------- small facts *)
Lemma clear_null (t : tyR) : clear t VNull = VNull.
Proof. destruct t; reflexivity. Qed.

Lemma enc_nonnull : forall (t : tyR) v, has_tyb t v = true -> v <> VNull -> enc t v <> VNull.
Proof.
  induction t using ty_ind'; intros v Hty Hv; destruct v; try (cbn in Hty; discriminate); try congruence;
    try (cbn; discriminate).
  all: try (apply IHt; [exact Hty|discriminate]).
  rewrite enc_enum. rewrite has_ty_enum in Hty. induction H as [|[n t'] vs Hx Hvs IH]; cbn in *; try discriminate.
    destruct (String.eqb tag n); [discriminate|auto].
Qed.

Lemma lookup_notin k fs l : ~ In k (map (fun ft => f_name (fst ft)) fs) -> lookup k (enc_fields fs l) = None.
Proof. revert l. induction fs as [|[a t'] fs IH]; intros [|v' l] Hn; try reflexivity.
  cbn in Hn. cbn [enc_fields]. destruct (absent a v').
  - apply IH. tauto.
  - cbn [lookup]. destruct (String.eqb_spec k (f_name a)) as [E|E]; [exfalso; apply Hn; left; congruence|].
    apply IH. tauto. Qed.

Lemma in_combine_name (fs : list (fattrR * tyR)) (l : list valR) a t' v' :
  In ((a, t'), v') (combine fs l) -> In (f_name a) (map (fun ft => f_name (fst ft)) fs).
Proof. intros H. apply in_combine_l in H. apply (in_map (fun ft => f_name (fst ft))) in H. exact H. Qed.

Lemma lookup_enc_fields fs : forall l a t' v',
  NoDup (map (fun ft => f_name (fst ft)) fs) -> In ((a, t'), v') (combine fs l) ->
  lookup (f_name a) (enc_fields fs l) = if absent a v' then None else Some (enc t' v').
Proof.
  induction fs as [|[a0 t0] fs IH]; intros [|v0 l] a t' v' Hnd Hin; try (cbn in Hin; tauto).
  cbn in Hnd. inversion Hnd as [|x xs Hx Hxs]; subst. cbn [combine] in Hin. destruct Hin as [E|Hin].
  - inversion E; subst. cbn [enc_fields]. destruct (absent a v') eqn:Ea.
    + apply lookup_notin. exact Hx.
    + cbn [lookup]. rewrite String.eqb_refl. reflexivity.
  - pose proof (in_combine_name _ _ _ _ _ Hin) as Hn.
    assert (Hne : f_name a <> f_name a0) by (intros E; apply Hx; rewrite <- E; exact Hn).
    cbn [enc_fields]. destruct (absent a0 v0).
    + apply IH; auto.
    + cbn [lookup]. destruct (String.eqb_spec (f_name a) (f_name a0)); [contradiction|]. apply IH; auto.
Qed.

(* ---------------------------------------------------------------- self-describing round trip *)
Definition RT (t : tyR) : Prop :=
  forall v, wf_ty t -> has_tyb t v = true -> dec t (enc t v) = Ok (clear t v).

Lemma dec_fields_ok m : forall suf lsuf,
  Forall (fun ft => RT (snd ft)) suf -> wf_fields suf -> typed_fields suf lsuf = true ->
  (forall a t' v', In ((a, t'), v') (combine suf lsuf) ->
     lookup (f_name a) m = if absent a v' then None else Some (enc t' v')) ->
  dec_fields m suf = Ok (clear_fields suf lsuf).
Proof.
  induction suf as [|[a t'] suf IH]; intros [|v' lsuf] HRT Hwf Hty Hlk; try (cbn in Hty; discriminate); try reflexivity.
  cbn in Hwf. destruct Hwf as (Hwt & Hwa & Hwf). cbn [typed_fields] in Hty. apply andb_prop in Hty. destruct Hty as [Hty1 Hty2].
  inversion HRT as [|x xs Hx Hxs]; subst. cbn in Hx.
  cbn [dec_fields clear_fields].
  assert (Hhead : (if f_serde_skip a then Ok (f_dflt a)
                   else match lookup (f_name a) m with
                        | Some e' => dec t' e'
                        | None => if f_has_default a then Ok (f_dflt a) else Err 1702
                        end) = Ok (if f_serde_skip a then f_dflt a else clear t' v')).
  { destruct (f_serde_skip a) eqn:Ess; [reflexivity|].
    rewrite (Hlk a t' v' (or_introl eq_refl)). unfold absent. rewrite Ess. cbn [orb].
    destruct (skipped a v') eqn:Esk.
    - destruct Hwa as (Hd & Hn & Hc). unfold skipped in Esk.
      destruct (f_skip_if a) eqn:Esi; try discriminate.
      + rewrite Hd by discriminate. apply val_eqb_eq in Esk. subst v'.
        destruct Hc as [Hc _]; [left; reflexivity|]. rewrite Hc. reflexivity.
      + rewrite Hd by discriminate. rewrite (Hn eq_refl). destruct v'; try discriminate.
        rewrite clear_null. reflexivity.
    - apply Hx; assumption. }
  rewrite Hhead. cbn [bind].
  rewrite (IH lsuf Hxs Hwf Hty2); [reflexivity|].
  intros a1 t1 v1 Hin. apply Hlk. right. exact Hin.
Qed.

Lemma dec_pick_ok : forall vs tag v,
  Forall (fun nt : string * tyR => RT (snd nt)) vs -> wf_variants vs -> ty_pick tag v vs = true ->
  exists e', enc_pick tag v vs = VVar tag e' /\ dec_pick tag e' vs = Ok (clear_pick tag v vs).
Proof.
  induction vs as [|[n t'] vs IH]; intros tag v HF Hwf Hty; [cbn in Hty; discriminate|].
  inversion HF as [|x xs Hx Hxs]; subst. cbn in Hx. destruct Hwf as [Hw1 Hw2].
  cbn [ty_pick enc_pick dec_pick clear_pick] in *. destruct (String.eqb tag n) eqn:Et.
  - exists (enc t' v). split; [reflexivity|]. rewrite (Hx v Hw1 Hty). reflexivity.
  - apply IH; assumption.
Qed.

Theorem dec_enc : forall t, RT t.
Proof.
  induction t using ty_ind'; intros v Hwf Hty.
  - destruct v; cbn in Hty; try discriminate; reflexivity.
  - destruct v; cbn in Hty; try discriminate; reflexivity.
  - destruct v; cbn in Hty; try discriminate; reflexivity.
  - destruct v; cbn in Hty; try discriminate; reflexivity.
  - destruct v; cbn in Hty; try discriminate; reflexivity.
  - (* Option *)
    destruct (is_null v) eqn:En.
    + destruct v; try discriminate. reflexivity.
    + assert (Hv : v <> VNull) by (intros ->; discriminate).
      assert (Hty' : has_tyb t v = true) by (destruct v; try discriminate; exact Hty).
      assert (E1 : enc (TOpt t) v = enc t v) by (destruct v; try discriminate; reflexivity).
      assert (E2 : clear (TOpt t) v = clear t v) by (destruct v; try discriminate; reflexivity).
      rewrite E1, E2. pose proof (enc_nonnull t v Hty' Hv) as Hnn.
      cbn [dec]. destruct (enc t v) eqn:Ee; try congruence; rewrite <- Ee; apply IHt; assumption.
  - (* Seq *)
    destruct v; cbn in Hty; try discriminate. cbn [enc dec clear].
    assert (E : map_res' (dec t) (map (enc t) l) = Ok (map (clear t) l)).
    { induction l as [|x l IH]; [reflexivity|]. cbn in Hty. apply andb_prop in Hty. destruct Hty as [H1 H2].
      cbn [map map_res']. rewrite (IHt x Hwf H1). cbn [bind]. rewrite (IH H2). reflexivity. }
    rewrite E. reflexivity.
  - (* struct *)
    destruct v; try (cbn in Hty; discriminate). rewrite has_ty_rec in Hty. apply wf_rec in Hwf. destruct Hwf as [Hnd Hwf].
    rewrite enc_rec, dec_rec, clear_rec.
    rewrite (dec_fields_ok (enc_fields fs l) fs l H Hwf Hty); [reflexivity|].
    intros a t' v' Hin. apply lookup_enc_fields; assumption.
  - (* enum *)
    destruct v; try (cbn in Hty; discriminate). rewrite has_ty_enum in Hty. apply wf_enum in Hwf.
    rewrite enc_enum, clear_enum.
    destruct (dec_pick_ok vs tag v H Hwf Hty) as (e' & E1 & E2). rewrite E1, dec_enum. exact E2.
Qed.

(* ---------------------------------------------------------------- normalisation *)
Definition CL (t : tyR) : Prop :=
  forall v, wf_ty t -> has_tyb t v = true ->
    clear t (clear t v) = clear t v /\ has_tyb t (clear t v) = true.

Lemma clear_pick_ok : forall vs tag v,
  Forall (fun nt : string * tyR => CL (snd nt)) vs -> wf_variants vs -> ty_pick tag v vs = true ->
  exists v2, clear_pick tag v vs = VVar tag v2 /\ clear_pick tag v2 vs = VVar tag v2 /\ ty_pick tag v2 vs = true.
Proof.
  induction vs as [|[n t'] vs IH]; intros tag v HF Hwf Hty; [cbn in Hty; discriminate|].
  inversion HF as [|x xs Hx Hxs]; subst. cbn in Hx. destruct Hwf as [Hw1 Hw2].
  cbn [ty_pick clear_pick] in *. destruct (String.eqb tag n) eqn:Et.
  - destruct (Hx v Hw1 Hty) as [I1 I2]. exists (clear t' v). rewrite I1. repeat split; auto.
  - apply IH; assumption.
Qed.

Theorem clear_idem_ty : forall t, CL t.
Proof.
  induction t using ty_ind'; intros v Hwf Hty.
  - destruct v; cbn in Hty; try discriminate; split; reflexivity.
  - destruct v; cbn in Hty; try discriminate; split; reflexivity.
  - destruct v; cbn in Hty; try discriminate; split; reflexivity.
  - destruct v; cbn in Hty; try discriminate; split; reflexivity.
  - destruct v; cbn in Hty; try discriminate; split; reflexivity.
  - destruct (is_null v) eqn:En.
    + destruct v; try discriminate. split; reflexivity.
    + assert (Hty' : has_tyb t v = true) by (destruct v; try discriminate; exact Hty).
      assert (E2 : clear (TOpt t) v = clear t v) by (destruct v; try discriminate; reflexivity).
      destruct (IHt v Hwf Hty') as [I1 I2]. rewrite E2.
      destruct (is_null (clear t v)) eqn:En2.
      * destruct (clear t v); try discriminate. split; reflexivity.
      * assert (E3 : clear (TOpt t) (clear t v) = clear t (clear t v)) by (destruct (clear t v); try discriminate; reflexivity).
        assert (E4 : has_tyb (TOpt t) (clear t v) = has_tyb t (clear t v)) by (destruct (clear t v); try discriminate; reflexivity).
        rewrite E3, E4. split; assumption.
  - destruct v; cbn in Hty; try discriminate. cbn [clear has_tyb].
    assert (E : map (clear t) (map (clear t) l) = map (clear t) l /\ forallb (has_tyb t) (map (clear t) l) = true).
    { induction l as [|x l IH]; [split; reflexivity|]. cbn in Hty. apply andb_prop in Hty. destruct Hty as [H1 H2].
      destruct (IHt x Hwf H1) as [I1 I2]. destruct (IH H2) as [J1 J2]. cbn. rewrite I1, I2, J1, J2. split; reflexivity. }
    destruct E as [E1 E2]. rewrite E1, E2. split; reflexivity.
  - destruct v; try (cbn in Hty; discriminate). rewrite has_ty_rec in Hty. apply wf_rec in Hwf. destruct Hwf as [_ Hwf].
    rewrite !clear_rec, has_ty_rec.
    assert (E : clear_fields fs (clear_fields fs l) = clear_fields fs l /\ typed_fields fs (clear_fields fs l) = true).
    { revert l Hty. induction H as [|[a t'] fs Hx Hfs IH]; intros [|v' l] Hty; try (cbn in Hty; discriminate); [split; reflexivity|].
      cbn in Hwf. destruct Hwf as (Hwt & Hwa & Hwf). cbn in Hty. apply andb_prop in Hty. destruct Hty as [H1 H2].
      destruct (IH Hwf l H2) as [J1 J2]. cbn [clear_fields typed_fields]. rewrite J1, J2.
      destruct (f_serde_skip a) eqn:Ess.
      - destruct Hwa as (_ & _ & Hc). destruct Hc as [Hc1 Hc2]; [right; exact Ess|]. rewrite Hc2. split; reflexivity.
      - cbn in Hx. destruct (Hx v' Hwt H1) as [I1 I2]. rewrite I1, I2. split; reflexivity. }
    destruct E as [E1 E2]. rewrite E1, E2. split; reflexivity.
  - destruct v; try (cbn in Hty; discriminate). rewrite has_ty_enum in Hty. apply wf_enum in Hwf. rewrite clear_enum.
    destruct (clear_pick_ok vs tag v H Hwf Hty) as (v2 & E1 & E2 & E3). rewrite E1, clear_enum, has_ty_enum. split; assumption.
Qed.

Corollary clear_idem t v : wf_ty t -> has_tyb t v = true -> clear t (clear t v) = clear t v.
Proof. intros Hw Ht. exact (proj1 (clear_idem_ty t v Hw Ht)). Qed.

(* the second round trip returns exactly the first reload *)
Corollary dec_enc_clear t v : wf_ty t -> has_tyb t v = true ->
  dec t (enc t (clear t v)) = Ok (clear t v).
Proof. intros Hw Ht. destruct (clear_idem_ty t v Hw Ht) as [I1 I2].
  rewrite (dec_enc t (clear t v) Hw I2). rewrite I1. reflexivity. Qed.

(* ---------------------------------------------------------------- JSON *)
Lemma jsonify_id : forall e : valR, all_finite e = true -> jsonify e = e.
Proof.
  induction e using val_ind'; intros Hf; cbn in *; try reflexivity.
  - rewrite Hf. reflexivity.
  - f_equal. induction H as [|x l Hx Hl IH]; [reflexivity|]. cbn in Hf. apply andb_prop in Hf. destruct Hf as [H1 H2].
    cbn. rewrite (Hx H1), (IH H2). reflexivity.
  - f_equal. induction H as [|x l Hx Hl IH]; [reflexivity|]. cbn in Hf. apply andb_prop in Hf. destruct Hf as [H1 H2].
    cbn. rewrite (Hx H1), (IH H2). reflexivity.
  - f_equal. induction H as [|[k x] m Hx Hm IH]; [reflexivity|]. cbn in Hf. apply andb_prop in Hf. destruct Hf as [H1 H2].
    cbn in *. rewrite (Hx H1), (IH H2). reflexivity.
  - rewrite (IHe Hf). reflexivity.
Qed.

Corollary json_roundtrip t v : wf_ty t -> has_tyb t v = true -> all_finite (enc t v) = true ->
  dec t (jsonify (enc t v)) = Ok (clear t v).
Proof. intros Hw Ht Hf. rewrite (jsonify_id _ Hf). apply dec_enc; assumption. Qed.

(* ---------------------------------------------------------------- positional round trip *)
Definition PT (t : tyR) : Prop :=
  forall v rest, wf_ty t -> has_tyb t v = true -> no_skip t v = true ->
    decp t (encp t v ++ rest) = Ok (clear t v, rest).

Lemma decp_pick_skip k s' : forall vs j, (k < j)%nat -> decp_pick k s' vs j = Err 1712.
Proof. induction vs as [|[n t'] vs IH]; intros j Hj; [reflexivity|]. cbn [decp_pick].
  assert (E : Nat.eqb j k = false) by (apply Nat.eqb_neq; lia). rewrite E. apply IH. lia. Qed.

Lemma decp_pick_ok : forall vs tag v,
  Forall (fun nt : string * tyR => PT (snd nt)) vs -> wf_variants vs -> ty_pick tag v vs = true ->
  no_skip_pick tag v vs = true ->
  forall j rest, exists k s, encp_pick tag v vs j = ATag k :: s /\ (j <= k)%nat /\
                             decp_pick k (s ++ rest) vs j = Ok (clear_pick tag v vs, rest).
Proof.
  induction vs as [|[n t'] vs IH]; intros tag v HF Hwf Hty Hns j rest; [cbn in Hty; discriminate|].
  inversion HF as [|x xs Hx Hxs]; subst. cbn in Hx. destruct Hwf as [Hw1 Hw2].
  cbn [ty_pick encp_pick decp_pick clear_pick no_skip_pick] in *. destruct (String.eqb tag n) eqn:Et.
  - exists j, (encp t' v). split; [reflexivity|]. split; [lia|]. rewrite Nat.eqb_refl.
    rewrite (Hx v rest Hw1 Hty Hns). cbn. apply String.eqb_eq in Et. subst n. reflexivity.
  - destruct (IH tag v Hxs Hw2 Hty Hns (S j) rest) as (k & s & E1 & E2 & E3).
    exists k, s. split; [exact E1|]. split; [lia|].
    assert (E : Nat.eqb j k = false) by (apply Nat.eqb_neq; lia). rewrite E. exact E3.
Qed.

Theorem decp_encp : forall t, PT t.
Proof.
  induction t using ty_ind'; intros v rest Hwf Hty Hns.
  - destruct v; cbn in Hty; try discriminate; reflexivity.
  - destruct v; cbn in Hty; try discriminate; reflexivity.
  - destruct v; cbn in Hty; try discriminate; reflexivity.
  - destruct v; cbn in Hty; try discriminate; reflexivity.
  - destruct v; cbn in Hty; try discriminate; reflexivity.
  - destruct (is_null v) eqn:En.
    + destruct v; try discriminate. reflexivity.
    + assert (Hty' : has_tyb t v = true) by (destruct v; try discriminate; exact Hty).
      assert (Hns' : no_skip t v = true) by (destruct v; try discriminate; exact Hns).
      assert (E1 : encp (TOpt t) v = ATag 1 :: encp t v) by (destruct v; try discriminate; reflexivity).
      assert (E2 : clear (TOpt t) v = clear t v) by (destruct v; try discriminate; reflexivity).
      rewrite E1, E2. cbn [app decp]. apply IHt; assumption.
  - destruct v; cbn in Hty; try discriminate. cbn [encp clear]. cbn [app]. rewrite decp_seq.
    assert (E : forall rest, decp_rep t (List.length l) (flat_map (encp t) l ++ rest) = Ok (map (clear t) l, rest)).
    { cbn in Hns. clear rest. induction l as [|x l IH]; intros rest; [reflexivity|]. cbn in Hty, Hns.
      apply andb_prop in Hty. destruct Hty as [H1 H2]. apply andb_prop in Hns. destruct Hns as [N1 N2].
      cbn [List.length flat_map decp_rep map]. rewrite <- app_assoc. rewrite (IHt x _ Hwf H1 N1). cbn [bind snd fst].
      rewrite (IH H2 N2). reflexivity. }
    rewrite E. reflexivity.
  - destruct v; try (cbn in Hty; discriminate). rewrite has_ty_rec in Hty. rewrite no_skip_rec in Hns.
    apply wf_rec in Hwf. destruct Hwf as [_ Hwf]. rewrite encp_rec, decp_rec, clear_rec.
    assert (E : forall rest, decp_fields fs (encp_fields fs l ++ rest) = Ok (clear_fields fs l, rest)).
    { clear rest. revert l Hty Hns. induction H as [|[a t'] fs Hx Hfs IH]; intros [|v' l] Hty Hns rest; try (cbn in Hty; discriminate); [reflexivity|].
      cbn in Hwf. destruct Hwf as (Hwt & Hwa & Hwf). cbn in Hty. apply andb_prop in Hty. destruct Hty as [H1 H2].
      cbn [no_skip_fields] in Hns. apply andb_prop in Hns. destruct Hns as [N1 N2].
      cbn [encp_fields decp_fields clear_fields]. unfold absent.
      destruct (f_serde_skip a) eqn:Ess.
      - cbn [orb]. rewrite (IH Hwf l H2 N2). reflexivity.
      - cbn [orb] in N1 |- *. apply andb_prop in N1. destruct N1 as [N1a N1b]. apply negb_true_iff in N1a. rewrite N1a.
        rewrite <- app_assoc. cbn in Hx. rewrite (Hx v' _ Hwt H1 N1b). cbn [bind snd fst].
        rewrite (IH Hwf l H2 N2). reflexivity. }
    rewrite E. reflexivity.
  - destruct v; try (cbn in Hty; discriminate). rewrite has_ty_enum in Hty. rewrite no_skip_enum in Hns.
    apply wf_enum in Hwf. rewrite encp_enum, clear_enum.
    destruct (decp_pick_ok vs tag v H Hwf Hty Hns O rest) as (k & s & E1 & _ & E2).
    rewrite E1. cbn [app]. rewrite decp_enum. exact E2.
Qed.
