(* C11P.v -- power and energy agree across train, consist and locomotive levels. *)
From Coq Require Import Reals Lra Lia List Bool ZArith Arith.
From AltModel Require Import Num Interp Powertrain Loco Consist TrainEnergy.
From AltProofs Require Import NumR InterpP PowertrainP LocoP ConsistP C10P C01P.
Import ListNotations.
Open Scope R_scope.

Notation TC := (TrainEnergy (F:=R) * ConsistR)%type.

Definition tstep (tc : TC) (i : R * R) : res TC := train_consist_step tc (fst i) (snd i).

Lemma tstep_is_cstep (t t' : TrainEnergy (F:=R)) (c c' : ConsistR) (p dt : R) : train_consist_step (t, c) p dt = Ok (t', c') ->
  consist_sim_solve_step c p dt = Ok c' /\ t' = train_acc t p dt.
Proof. unfold train_consist_step, consist_sim_solve_step. intros H.
  apply bind_ok in H. destruct H as (c2 & Hc2 & H). apply bind_ok in H. destruct H as (c3 & Hc3 & H).
  inversion H; subst. rewrite Hc2. cbn [bind]. split; [exact Hc3|reflexivity]. Qed.

(* the three levels report the same numbers *)
Definition levels_agree (tc : TC) : Prop :=
  let '(t, c) := tc in
  te_energy_whl_out t = cs_energy_out (cn_state c) /\
  te_energy_whl_out_pos t - te_energy_whl_out_neg t = cs_energy_out_pos (cn_state c) - cs_energy_out_neg (cn_state c) /\
  te_energy_whl_out_pos t = cs_energy_out_pos (cn_state c) /\
  te_energy_whl_out_neg t = cs_energy_out_neg (cn_state c) /\
  rollup c.

Lemma consist_pos_neg (c c' : ConsistR) req dt on : consist_solve c req dt on = Ok c' ->
  cs_energy_out_pos (cn_state c') = (if Rleb 0 (cs_pwr_out (cn_state c')) then cs_energy_out_pos (cn_state c) + cs_pwr_out (cn_state c') * dt else cs_energy_out_pos (cn_state c)) /\
  cs_energy_out_neg (cn_state c') = (if Rleb 0 (cs_pwr_out (cn_state c')) then cs_energy_out_neg (cn_state c) else cs_energy_out_neg (cn_state c) - cs_pwr_out (cn_state c') * dt).
Proof.
  intros H. unfold consist_solve in H. ens H. ens H.
  apply bind_ok in H. destruct H as (shares & Hsh & H). ens H.
  apply bind_ok in H. destruct H as (ls' & Hsl & H). inversion H; subst c'; clear H. cbn. numR. split; reflexivity.
Qed.

(* one train step: the consist delivers exactly what the train demands; equal totals stay equal *)
Theorem train_step_levels (tc tc' : TC) p dt :
  cinv (snd tc) -> tstep tc (p, dt) = Ok tc' -> limits_nonneg (snd tc') ->
  te_pwr_whl_out (fst tc') = p /\
  cs_pwr_out_req (cn_state (snd tc')) = p /\ cs_pwr_out (cn_state (snd tc')) = p /\
  sumR pout (cn_locos (snd tc')) = p /\
  cinv (snd tc') /\ (levels_agree tc -> levels_agree tc').
Proof.
  destruct tc as [t c], tc' as [t' c']. cbn [fst snd tstep]. intros Hinv H Hl.
  unfold tstep in H. cbn [fst snd] in H.
  destruct (tstep_is_cstep t t' c c' p dt H) as (Hc & Ht).
  pose proof (cstep_split c (p, dt) c' Hinv Hc Hl) as (S1 & S2 & S3 & _). cbn [fst] in *.
  pose proof (cinv_step c (p, dt) c' Hinv Hc) as Hinv'.
  destruct (consist_step_rollup _ _ _ _ Hc) as (_ & _ & _ & Hroll).
  destruct (consist_step_stepped _ _ _ _ Hc) as (shares & _ & _ & _ & _ & E1 & _ & _ & _).
  subst t'. cbn [te_pwr_whl_out train_acc].
  split; [reflexivity|]. split; [exact S3|]. split; [exact S2|]. split; [exact S1|]. split; [exact Hinv'|].
  intros (A1 & A2 & A3 & A4 & A5). unfold levels_agree. cbn [train_acc te_energy_whl_out te_energy_whl_out_pos te_energy_whl_out_neg]. numR.
  unfold consist_sim_solve_step in Hc. apply bind_ok in Hc. destruct Hc as (c2 & Hc2 & Hsol).
  destruct (consist_pos_neg _ _ _ _ _ Hsol) as (P1 & P2).
  assert (Hst2 : cs_energy_out_pos (cn_state c2) = cs_energy_out_pos (cn_state c) /\
                 cs_energy_out_neg (cn_state c2) = cs_energy_out_neg (cn_state c)).
  { unfold consist_set_cur_pwr_max_out in Hc2. apply bind_ok in Hc2. destruct Hc2 as (ls & _ & Hc2).
    inversion Hc2; subst c2. cbn. split; reflexivity. }
  destruct Hst2 as (Q1 & Q2). rewrite S2 in P1, P2, E1. rewrite Q1 in P1. rewrite Q2 in P2.
  rewrite E1, P1, P2, A1, A3, A4.
  split; [reflexivity|]. split; [destruct (Rleb 0 p); lra|]. split; [reflexivity|]. split; [reflexivity|].
  apply Hroll; exact A5.
Qed.

(* every step of every run (the wheel powers are arbitrary inputs) *)
Theorem train_run_levels tc trace tc' :
  cinv (snd tc) -> levels_agree tc ->
  (* every post-state along the run publishes non-negative limits (cf. known finding C10/1) *)
  (forall pre i post m, trace = pre ++ i :: post -> run tstep tc (pre ++ [i]) = Ok m -> limits_nonneg (snd m)) ->
  run tstep tc trace = Ok tc' -> cinv (snd tc') /\ levels_agree tc'.
Proof.
  revert tc. induction trace as [|i t IH]; intros tc Hinv Hag Hlim Hrun; cbn in Hrun.
  - inversion Hrun; subst. auto.
  - destruct (tstep tc i) as [tc1| |] eqn:E; try discriminate. destruct i as [p dt].
    assert (Hl1 : limits_nonneg (snd tc1)).
    { apply (Hlim [] (p, dt) t tc1 eq_refl). cbn. rewrite E. reflexivity. }
    destruct (train_step_levels _ _ _ _ Hinv E Hl1) as (_ & _ & _ & _ & Hinv1 & Hag1).
    apply (IH tc1 Hinv1 (Hag1 Hag)); [|exact Hrun].
    intros pre j post m Ht Hr. apply (Hlim ((p, dt) :: pre) j post m); [cbn; rewrite Ht; reflexivity|].
    cbn. rewrite E. exact Hr.
Qed.

(* the trip-level getters are the totals times the documented factor (by definition of the getters),
   and the totals they read are the sums the roll-up speaks about *)
Lemma consist_energy_fuel_sum (c : ConsistR) : consist_energy_fuel c = sumR loco_Efuel (cn_locos c).
Proof. unfold consist_energy_fuel. rewrite sumf_sumR. apply sumR_ext. intros l _. unfold loco_Efuel. destruct (lc_type l); reflexivity. Qed.
Lemma consist_net_energy_res_sum (c : ConsistR) : consist_net_energy_res c = sumR loco_Echem (cn_locos c).
Proof. unfold consist_net_energy_res. rewrite sumf_sumR. apply sumR_ext. intros l _. unfold loco_Echem. destruct (lc_type l); reflexivity. Qed.

Theorem trip_outputs (c : ConsistR) annualize days : rollup c ->
  trip_energy_fuel c annualize days = cs_energy_fuel (cn_state c) * scaling_factor annualize days /\
  trip_net_energy_res c annualize days = cs_energy_res (cn_state c) * scaling_factor annualize days /\
  scaling_factor false days = 1 /\
  (forall d, d <> 0 -> scaling_factor true (Some d) * d = 36525 / 100) /\
  scaling_factor true None = 36525 / 100.
Proof.
  intros (R1 & R2 & _). unfold trip_energy_fuel, trip_net_energy_res.
  rewrite consist_energy_fuel_sum, consist_net_energy_res_sum, <- R1, <- R2.
  split; [reflexivity|]. split; [reflexivity|]. split; [reflexivity|].
  assert (Hl : nlit (F:=R) 36525 (-2) = 36525 / 100).
  { cbn [nlit R_ops]. unfold Rpow10. change (Pos.to_nat 2) with 2%nat. simpl pow. field. }
  split; [intros d Hd; cbn [scaling_factor]; numR; rewrite Hl; field; exact Hd|].
  cbn [scaling_factor]. exact Hl.
Qed.
