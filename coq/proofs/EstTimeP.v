(* EstTimeP.v -- the time conjuncts of the estimated-time-network checker, read at the real numbers. *)
From Coq Require Import Reals Lra List Bool ZArith Lia Arith.
From AltModel Require Import Num TrackNet EstNet.
From AltProofs Require Import NumR TrackNetP EstNetP.
Import ListNotations.
Open Scope R_scope.

Notation enodeR := (enode (F:=R)).

(* what the time conjuncts say, for every node and every edge *)
Record EstTimeSpec (nodes : list enodeR) : Prop := {
  et_nonneg : forall nd, In nd nodes -> 0 <= n_ttn nd /\ 0 <= n_dist nd /\ 0 <= n_ts nd;
  (* a node whose idx_prev is p and which is p's idx_next is scheduled at p's time + p's duration *)
  et_primary : forall p np ns, nth_error nodes p = Some np -> n_next np <> 0%nat ->
      nth_error nodes (n_next np) = Some ns -> n_prev ns = p ->
      Rabs (n_ts ns - (n_ts np + n_ttn np)) <= ttol (n_ts ns) (n_ts np + n_ttn np);
  (* no node is scheduled later than any predecessor allows (alternate edges have zero duration) *)
  et_later_next : forall p np, nth_error nodes p = Some np -> n_next np <> 0%nat ->
      exists ns, nth_error nodes (n_next np) = Some ns /\
                 n_ts ns <= n_ts np + n_ttn np + ttol (n_ts ns) (n_ts np + n_ttn np);
  et_later_alt : forall p np, nth_error nodes p = Some np -> n_nexta np <> 0%nat -> n_nexta np <> n_next np ->
      exists ns, nth_error nodes (n_nexta np) = Some ns /\ n_ts ns <= n_ts np + ttol (n_ts ns) (n_ts np)
}.

Lemma tclose_R (a b : R) : tclose a b = true -> Rabs (a - b) <= ttol a b.
Proof. unfold tclose. numR. intros H. apply Rleb_true in H. exact H. Qed.
Lemma tle_R (a b : R) : tle a b = true -> a <= b + ttol a b.
Proof. unfold tle. numR. intros H. apply Rleb_true in H. exact H. Qed.

Theorem est_time_sound (nodes : list enodeR) :
  ck_dur nodes = true -> ck_sched nodes = true -> ck_tprimary nodes = true -> ck_tlater nodes = true ->
  EstTimeSpec nodes.
Proof.
  intros Hd Hs Hp Hl. constructor.
  - intros nd Hin. unfold ck_dur, ck_sched in *. rewrite forallb_forall in Hd, Hs.
    specialize (Hd _ Hin). specialize (Hs _ Hin). apply andb_true_iff in Hd. destruct Hd as [H1 H2].
    numR. apply Rleb_true in H1, H2, Hs. auto.
  - intros p np ns Hn Hnx Hns Hpv. unfold ck_tprimary in Hp. rewrite forallbi0_spec in Hp.
    specialize (Hp _ _ Hn). apply orb_true_iff in Hp. destruct Hp as [Hp|Hp].
    + apply Nat.eqb_eq in Hp. contradiction.
    + rewrite Hns in Hp. apply orb_true_iff in Hp. destruct Hp as [Hp|Hp].
      * rewrite Hpv, Nat.eqb_refl in Hp. discriminate.
      * apply tclose_R in Hp. numR. exact Hp.
  - intros p np Hn Hnx. unfold ck_tlater in Hl. rewrite forallbi0_spec in Hl.
    specialize (Hl _ _ Hn). apply andb_true_iff in Hl. destruct Hl as [Hl _].
    apply orb_true_iff in Hl. destruct Hl as [Hl|Hl]; [apply Nat.eqb_eq in Hl; contradiction|].
    destruct (nth_error nodes (n_next np)) as [ns|]; [|discriminate]. exists ns. split; auto.
    apply tle_R in Hl. numR. exact Hl.
  - intros p np Hn Hnx Hne. unfold ck_tlater in Hl. rewrite forallbi0_spec in Hl.
    specialize (Hl _ _ Hn). apply andb_true_iff in Hl. destruct Hl as [_ Hl].
    apply orb_true_iff in Hl. destruct Hl as [Hl|Hl].
    + apply orb_true_iff in Hl. destruct Hl as [Hl|Hl]; apply Nat.eqb_eq in Hl; contradiction.
    + destruct (nth_error nodes (n_nexta np)) as [ns|]; [|discriminate]. exists ns. split; auto.
      apply tle_R in Hl. exact Hl.
Qed.

Theorem est_ok_time_sound net origs dests (nodes : list enodeR) cert :
  est_ok net origs dests nodes cert = true -> EstTimeSpec nodes.
Proof.
  unfold est_ok, est_checks. cbv zeta. cbn [forallb]. intros H.
  apply andb_true_iff in H. destruct H as [Hs H].
  apply andb_true_iff in H. destruct H as [Hb H].
  do 5 (apply andb_true_iff in H; destruct H as [_ H]).
  apply andb_true_iff in H. destruct H as [H1 H].
  apply andb_true_iff in H. destruct H as [H2 H].
  apply andb_true_iff in H. destruct H as [H3 H].
  apply andb_true_iff in H. destruct H as [H4 _].
  rewrite Hb in H1, H2, H3, H4. cbn [andb] in H1, H2, H3, H4.
  apply est_time_sound; auto.
Qed.

(* ---- the reported trip time telescopes along the primary chain ---- *)
Definition tsn (nodes : list enodeR) (i : nat) : R := match nth_error nodes i with Some nd => n_ts nd | None => 0 end.
Definition ttnn (nodes : list enodeR) (i : nat) : R := match nth_error nodes i with Some nd => n_ttn nd | None => 0 end.

(* w continues from p along idx_next links that are primary both ways *)
Fixpoint pchain (nodes : list enodeR) (p : nat) (w : list nat) : Prop :=
  match w with
  | [] => True
  | s :: t => (exists np ns, nth_error nodes p = Some np /\ n_next np = s /\ s <> 0%nat /\
                             nth_error nodes s = Some ns /\ n_prev ns = p) /\ pchain nodes s t
  end.
Fixpoint durs (nodes : list enodeR) (p : nat) (w : list nat) : R :=
  match w with [] => 0 | s :: t => ttnn nodes p + durs nodes s t end.
Fixpoint tols (nodes : list enodeR) (p : nat) (w : list nat) : R :=
  match w with [] => 0 | s :: t => ttol (tsn nodes s) (tsn nodes p + ttnn nodes p) + tols nodes s t end.

Theorem primary_chain_time (nodes : list enodeR) :
  EstTimeSpec nodes -> forall w p, pchain nodes p w ->
  Rabs (tsn nodes (last w p) - (tsn nodes p + durs nodes p w)) <= tols nodes p w.
Proof.
  intros Sp. induction w as [|s t IH]; intros p Hc.
  - cbn. replace (tsn nodes p - (tsn nodes p + 0)) with 0 by lra. rewrite Rabs_R0. lra.
  - destruct Hc as [(np & ns & Hp & Hnx & Hs0 & Hs & Hpv) Hc].
    rewrite last_cons. cbn [durs tols]. specialize (IH _ Hc).
    assert (E : Rabs (tsn nodes s - (tsn nodes p + ttnn nodes p)) <= ttol (tsn nodes s) (tsn nodes p + ttnn nodes p)).
    { unfold tsn, ttnn. rewrite Hp, Hs. subst s. eapply (et_primary _ Sp); eauto. }
    replace (tsn nodes (last t s) - (tsn nodes p + (ttnn nodes p + durs nodes s t)))
      with ((tsn nodes (last t s) - (tsn nodes s + durs nodes s t)) + (tsn nodes s - (tsn nodes p + ttnn nodes p))) by lra.
    eapply Rle_trans; [apply Rabs_triang|]. lra.
Qed.
