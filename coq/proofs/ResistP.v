(* ResistP.v -- train resistance over the reals (C07) and the frame facts other properties need.
   calc_idx is correct from any valid hint, the cached indices stay valid hints along monotone
   position sequences and across path extensions, the strap resistance is
   weight * (cum(front) - cum(back)) / length for the piecewise-linear cumulative function. *)
From Coq Require Import Reals Lra Lia List Bool ZArith Arith.
From AltModel Require Import Num Resist.
From AltProofs Require Import NumR.
Import ListNotations.
Open Scope R_scope.

Ltac ens H := let E := fresh "E" in
  apply bind_ok in H; destruct H as ([] & E & H); apply ensure_ok in E.
Ltac pas H := let E := fresh "E" in
  apply bind_ok in H; destruct H as ([] & E & H).

Tactic Notation "binv" hyp(H) ident(x) ident(Hx) := apply bind_ok in H; destruct H as (x & Hx & H).

Lemma ok_pair_inj {A B} (a a' : A) (b b' : B) : Ok (a, b) = Ok (a', b') -> a = a' /\ b = b'.
Proof. intros H; inversion H; auto. Qed.

Lemma passert_ok b c u : passert b c = Ok u -> b = true.
Proof. unfold passert; destruct b; auto; discriminate. Qed.

Notation PRCr := (PRC (F:=R)).
Notation TStater := (TState (F:=R)).

(* ------------------------------------------------------------------ frame of update_res *)
Lemma update_res_frame grades curves rp (st : TStater) c dir st1 c1 :
  strap_update_res grades curves rp st c dir = Ok (st1, c1) ->
  ts_p st1 = ts_p st /\ ts_w st1 = ts_w st /\
  k_time (ts_k st1) = k_time (ts_k st) /\ k_i (ts_k st1) = k_i (ts_k st) /\
  k_offset (ts_k st1) = k_offset (ts_k st) /\
  k_offset_back (ts_k st1) = k_offset (ts_k st) - p_length (ts_p st) /\
  k_total_dist (ts_k st1) = k_total_dist (ts_k st) /\
  k_link_idx_front (ts_k st1) = k_link_idx_front (ts_k st) /\
  k_offset_in_link (ts_k st1) = k_offset_in_link (ts_k st) /\
  k_speed (ts_k st1) = k_speed (ts_k st) /\ k_speed_limit (ts_k st1) = k_speed_limit (ts_k st) /\
  k_speed_target (ts_k st1) = k_speed_target (ts_k st) /\ k_dt (ts_k st1) = k_dt (ts_k st).
Proof.
  unfold strap_update_res. intros H.
  binv H gr Hgr. destruct gr as [gc rg]. cbv beta iota in H. binv H cr Hcr. destruct cr as [cc rc]. cbv beta iota in H.
  binv H pf Hpf. binv H pb Hpb. inversion H; subst; clear H. cbn. repeat split; reflexivity.
Qed.

(* ------------------------------------------------------------------ tables *)
Definition offs (tbl : list PRCr) : list R := map prc_offset tbl.
Definition off (tbl : list PRCr) (i : nat) : R := nth i (offs tbl) 0.

(* strictly increasing offsets (what PathResCoeff validation requires) *)
Definition sorted (tbl : list PRCr) : Prop :=
  forall i j, (i < j)%nat -> (j < length tbl)%nat -> off tbl i < off tbl j.

Lemma nth_error_off tbl i p : nth_error tbl i = Some p -> off tbl i = prc_offset p.
Proof. intros H. unfold off, offs. apply nth_error_nth. apply map_nth_error. exact H. Qed.

Lemma nth_error_lt {A} (l : list A) i p : nth_error l i = Some p -> (i < length l)%nat.
Proof. intros H. apply nth_error_Some. congruence. Qed.

(* the segment index of position x: closed on both sides, the first segment also holds everything
   before the table (linear extrapolation, as [calc_res_val] does) *)
Definition in_seg (tbl : list PRCr) (x : R) (i : nat) : Prop :=
  (S i < length tbl)%nat /\ (i = O \/ off tbl i <= x) /\ x <= off tbl (S i).
(* the convention of the forward search: off_i < x <= off_{i+1} *)
Definition seg_fwd (tbl : list PRCr) (x : R) (i : nat) : Prop :=
  (S i < length tbl)%nat /\ off tbl i < x /\ x <= off tbl (S i).
(* the convention of the backward search: off_i <= x < off_{i+1} *)
Definition seg_bwd (tbl : list PRCr) (x : R) (i : nat) : Prop :=
  (S i < length tbl)%nat /\ off tbl i <= x /\ x < off tbl (S i).

Lemma seg_fwd_unique tbl x i j : sorted tbl -> seg_fwd tbl x i -> seg_fwd tbl x j -> i = j.
Proof.
  intros Hs (Hi & Hi1 & Hi2) (Hj & Hj1 & Hj2).
  destruct (Nat.lt_trichotomy i j) as [L|[E|L]]; auto; exfalso.
  - assert (off tbl (S i) <= off tbl j).
    { destruct (Nat.eq_dec (S i) j) as [->|N]; [lra|]. apply Rlt_le, Hs; lia. }
    lra.
  - assert (off tbl (S j) <= off tbl i).
    { destruct (Nat.eq_dec (S j) i) as [->|N]; [lra|]. apply Rlt_le, Hs; lia. }
    lra.
Qed.
Lemma seg_bwd_unique tbl x i j : sorted tbl -> seg_bwd tbl x i -> seg_bwd tbl x j -> i = j.
Proof.
  intros Hs (Hi & Hi1 & Hi2) (Hj & Hj1 & Hj2).
  destruct (Nat.lt_trichotomy i j) as [L|[E|L]]; auto; exfalso.
  - assert (off tbl (S i) <= off tbl j).
    { destruct (Nat.eq_dec (S i) j) as [->|N]; [lra|]. apply Rlt_le, Hs; lia. }
    lra.
  - assert (off tbl (S j) <= off tbl i).
    { destruct (Nat.eq_dec (S j) i) as [->|N]; [lra|]. apply Rlt_le, Hs; lia. }
    lra.
Qed.

(* ------------------------------------------------------------------ forward search *)
(* hint h is usable for x in the forward direction: it is not beyond x's segment *)
Definition hint_fwd (tbl : list PRCr) (x : R) (h : nat) : Prop :=
  (S h < length tbl)%nat /\ (h = O \/ off tbl h < x).

Lemma fwd_scan_spec tbl x : forall fuel h r,
  fwd_scan fuel tbl x h = Ok r ->
  (h <= r)%nat /\ (S r < length tbl)%nat /\ x <= off tbl (S r) /\
  (forall k, (h <= k < r)%nat -> off tbl (S k) < x).
Proof.
  induction fuel as [|f IH]; intros h r H; cbn in H; [discriminate|].
  replace (h + 1)%nat with (S h) in H by lia.
  destruct (nth_error tbl (S h)) as [p|] eqn:E; [|discriminate].
  pose proof (nth_error_off _ _ _ E) as Ho. pose proof (nth_error_lt _ _ _ E) as Hl.
  numR. destruct (Rltb_spec (prc_offset p) x) as [L|L].
  - apply IH in H. destruct H as (H1 & H2 & H3 & H4). repeat split; auto; try lia.
    intros k Hk. destruct (Nat.eq_dec k h) as [->|N]; [lra|]. apply H4; lia.
  - inversion H; subst. repeat split; auto; try lia; try lra; try (intros k Hk; lia).
Qed.

(* the loop's fuel is never exhausted: Err 1190 is unreachable *)
Lemma fwd_scan_fuel (tbl : list PRCr) (x : R) : forall fuel h, (0 < fuel)%nat -> (length tbl <= fuel + h)%nat ->
  fwd_scan fuel tbl x h <> Err 1190.
Proof.
  induction fuel as [|f IH]; intros h H0 Hf; [lia|]. cbn.
  destruct (nth_error tbl (h + 1)) as [p|] eqn:E; [|intros HQ; discriminate HQ].
  pose proof (nth_error_lt _ _ _ E).
  numR. destruct (Rltb (prc_offset p) x); [|intros HQ; discriminate HQ]. apply IH; lia.
Qed.

(* and under the ensure, from an in-range hint, it does not run off the table either *)
Lemma fwd_scan_total tbl x : forall fuel h,
  (S h < length tbl)%nat -> (length tbl < fuel + h)%nat -> x <= off tbl (length tbl - 1) ->
  exists r, fwd_scan fuel tbl x h = Ok r.
Proof.
  induction fuel as [|f IH]; intros h Hh Hf Hx; [lia|]. cbn.
  replace (h + 1)%nat with (S h) by lia.
  destruct (nth_error tbl (S h)) as [p|] eqn:E.
  2:{ apply nth_error_None in E. lia. }
  pose proof (nth_error_off _ _ _ E) as Ho. numR.
  destruct (Rltb_spec (prc_offset p) x) as [L|L]; [|eauto].
  apply IH; auto; try lia.
  destruct (Nat.eq_dec (S (S h)) (length tbl)) as [Q|Q]; [|lia].
  exfalso. replace (length tbl - 1)%nat with (S h) in Hx by lia. lra.
Qed.

Lemma last_off (tbl : list PRCr) p0 : tbl <> [] ->
  prc_offset (last tbl p0) = off tbl (length tbl - 1).
Proof.
  induction tbl as [|a t IH]; intros Hne; [congruence|].
  destruct t as [|b t']; [reflexivity|].
  change (last (a :: b :: t') p0) with (last (b :: t') p0).
  rewrite IH by discriminate. unfold off, offs. cbn [length map].
  replace (S (S (length t')) - 1)%nat with (S (length t')) by lia.
  replace (S (length t') - 1)%nat with (length t') by lia. reflexivity.
Qed.

(* C07: calc_idx, forward (Dir::Fwd and Dir::Unk): from a hint not beyond x's segment the result
   is x's segment -- for x beyond the first offset THE unique i with off_i < x <= off_{i+1} *)
Lemma calc_idx_fwd_spec tbl x h dir r : dir <> DBwd ->
  calc_idx tbl x h dir = Ok r -> hint_fwd tbl x h ->
  in_seg tbl x r /\ (r = O \/ off tbl r < x) /\ (h <= r)%nat /\
  x <= off tbl (length tbl - 1).
Proof.
  intros Hd H (Hh & Hh2). unfold calc_idx in H.
  assert (H' : match tbl with [] => Panic 1100 | p0 :: _ =>
            let? _ := ensure (nleb x (prc_offset (last tbl p0))) 1101 in
            fwd_scan (S (length tbl)) tbl x h end = Ok r) by (destruct dir; auto; congruence).
  clear H. destruct tbl as [|p0 t] eqn:Et; [discriminate|]. rewrite <- Et in *.
  ens H'. numR. apply Rleb_true in E. rewrite last_off in E by (rewrite Et; discriminate).
  apply fwd_scan_spec in H'. destruct H' as (H1 & H2 & H3 & H4).
  assert (Hr : r = O \/ off tbl r < x).
  { destruct (Nat.eq_dec r h) as [->|N]; [exact Hh2|]. right.
    destruct r as [|r']; [lia|]. apply H4; lia. }
  repeat split; auto. destruct Hr; [left; auto|right; lra].
Qed.

Theorem calc_idx_fwd_correct tbl x h dir r : dir <> DBwd -> sorted tbl ->
  off tbl 0 < x -> calc_idx tbl x h dir = Ok r -> hint_fwd tbl x h ->
  seg_fwd tbl x r /\ (forall j, seg_fwd tbl x j -> j = r).
Proof.
  intros Hd Hs Hx H Hh. destruct (calc_idx_fwd_spec _ _ _ _ _ Hd H Hh) as ((L & _ & U) & Hr & _ & _).
  assert (S : seg_fwd tbl x r).
  { split; [exact L|]. split; [|exact U]. destruct Hr as [->|]; auto. }
  split; auto. intros j Hj. eapply seg_fwd_unique; eauto.
Qed.

(* it returns Ok whenever x is not beyond the table and the hint is in range *)
Lemma calc_idx_fwd_total tbl x h dir : dir <> DBwd ->
  (S h < length tbl)%nat -> x <= off tbl (length tbl - 1) -> exists r, calc_idx tbl x h dir = Ok r.
Proof.
  intros Hd Hh Hx. unfold calc_idx.
  assert (G : exists r, match tbl with [] => Panic 1100 | p0 :: _ =>
            let? _ := ensure (nleb x (prc_offset (last tbl p0))) 1101 in
            fwd_scan (S (length tbl)) tbl x h end = Ok r).
  { destruct tbl as [|p0 t] eqn:Et; [cbn in Hh; lia|]. rewrite <- Et in *.
    rewrite last_off by (rewrite Et; discriminate). numR.
    destruct (Rleb_spec x (off tbl (length tbl - 1))) as [L|L]; [|lra]. cbn [ensure bind].
    apply fwd_scan_total; auto; lia. }
  destruct dir; auto; congruence.
Qed.

(* ------------------------------------------------------------------ backward search *)
Definition hint_bwd (tbl : list PRCr) (x : R) (h : nat) : Prop :=
  (S h < length tbl)%nat /\ x <= off tbl (S h).

Lemma bwd_scan_spec tbl x : forall h r,
  bwd_scan tbl x h = Ok r ->
  (r <= h)%nat /\ (r < length tbl)%nat /\ off tbl r <= x /\
  (forall k, (r < k <= h)%nat -> x < off tbl k).
Proof.
  induction h as [|h IH]; intros r H; cbn [bwd_scan] in H.
  - destruct (nth_error tbl 0) as [p|] eqn:E; [|discriminate].
    pose proof (nth_error_off _ _ _ E) as Ho. pose proof (nth_error_lt _ _ _ E) as Hl. numR.
    destruct (Rltb_spec x (prc_offset p)) as [L|L]; [discriminate|]. inversion H; subst.
    repeat split; auto; try lra; try lia; try (intros k Hk; lia).
  - destruct (nth_error tbl (S h)) as [p|] eqn:E; [|discriminate].
    pose proof (nth_error_off _ _ _ E) as Ho. pose proof (nth_error_lt _ _ _ E) as Hl. numR.
    destruct (Rltb_spec x (prc_offset p)) as [L|L].
    + apply IH in H. destruct H as (H1 & H2 & H3 & H4). repeat split; auto; try lia.
      intros k Hk. destruct (Nat.eq_dec k (S h)) as [->|N]; [lra|]. apply H4; lia.
    + inversion H; subst. repeat split; auto; try lra; try lia; try (intros k Hk; lia).
Qed.

Lemma calc_idx_bwd_spec tbl x h r :
  calc_idx tbl x h DBwd = Ok r -> hint_bwd tbl x h ->
  in_seg tbl x r /\ off tbl r <= x /\ (r <= h)%nat /\ off tbl 0 <= x.
Proof.
  intros H (Hh & Hh2). unfold calc_idx in H.
  destruct tbl as [|p0 t] eqn:Et; [discriminate|]. rewrite <- Et in *.
  ens H. numR. apply Rleb_true in E.
  assert (Ho : off tbl 0 = prc_offset p0) by (rewrite Et; reflexivity).
  apply bwd_scan_spec in H. destruct H as (H1 & H2 & H3 & H4).
  assert (x <= off tbl (S r)).
  { destruct (Nat.eq_dec r h) as [->|N]; [exact Hh2|]. apply Rlt_le, H4; lia. }
  repeat split; auto; try lia; try lra.
Qed.

Theorem calc_idx_bwd_correct tbl x h r : sorted tbl ->
  x < off tbl (S h) -> (S h < length tbl)%nat -> calc_idx tbl x h DBwd = Ok r ->
  seg_bwd tbl x r /\ (forall j, seg_bwd tbl x j -> j = r).
Proof.
  intros Hs Hx Hh H. unfold calc_idx in H.
  destruct tbl as [|p0 t] eqn:Et; [discriminate|]. rewrite <- Et in *.
  ens H. apply bwd_scan_spec in H. destruct H as (H1 & H2 & H3 & H4).
  assert (S : seg_bwd tbl x r).
  { split; [lia|]. split; auto.
    destruct (Nat.eq_dec r h) as [->|N]; [exact Hx|]. apply H4; lia. }
  split; auto. intros j Hj. eapply seg_bwd_unique; eauto.
Qed.

Lemma bwd_scan_total tbl x : forall h, (h < length tbl)%nat -> off tbl 0 <= x ->
  exists r, bwd_scan tbl x h = Ok r.
Proof.
  induction h as [|h IH]; intros Hh Hx; cbn [bwd_scan].
  - destruct (nth_error tbl 0) as [p|] eqn:E. 2:{ apply nth_error_None in E; lia. }
    pose proof (nth_error_off _ _ _ E) as Ho. numR.
    destruct (Rltb_spec x (prc_offset p)); [lra|eauto].
  - destruct (nth_error tbl (S h)) as [p|] eqn:E. 2:{ apply nth_error_None in E; lia. }
    numR. destruct (Rltb_spec x (prc_offset p)); [|eauto]. apply IH; auto; lia.
Qed.

(* ------------------------------------------------------------------ the cumulative function *)
(* the piecewise-linear function the table denotes, by POSITION only *)
Fixpoint cum (tbl : list PRCr) (x : R) : R :=
  match tbl with
  | [] => 0
  | a :: t => match t with
              | [] => prc_val a x
              | b :: t' => match t' with
                           | [] => prc_val a x
                           | _ :: _ => if Rle_dec x (prc_offset b) then prc_val a x else cum t x
                           end
              end
  end.

(* res_net is the running integral of res_coeff (what PathResCoeff validation requires) *)
Definition consistent (tbl : list PRCr) : Prop :=
  forall i p q, nth_error tbl i = Some p -> nth_error tbl (S i) = Some q ->
    prc_net q = prc_net p + prc_coeff p * (prc_offset q - prc_offset p).

Lemma sorted_tail a t : sorted (a :: t) -> sorted t.
Proof. intros H i j Hij Hj. specialize (H (S i) (S j)). cbn in H. apply H; cbn; lia. Qed.
Lemma consistent_tail a t : consistent (a :: t) -> consistent t.
Proof. intros H i p q Hp Hq. apply (H (S i)); auto. Qed.

(* evaluating at ANY index whose closed segment holds x gives the function's value: at a knot the
   two neighbouring indices agree, which is why the forward (off_i < x <= off_{i+1}) and backward
   (off_i <= x < off_{i+1}) conventions and stale-but-valid caches all give the same force *)
Lemma cum_in_seg : forall tbl x i p, sorted tbl -> consistent tbl ->
  in_seg tbl x i -> nth_error tbl i = Some p -> prc_val p x = cum tbl x.
Proof.
  induction tbl as [|a t IH]; intros x i p Hs Hc (Hl & Hlo & Hhi) Hp; [cbn in Hl; lia|].
  destruct t as [|b t']; [cbn in Hl; lia|].
  destruct t' as [|c t''].
  - (* two entries: one segment *)
    cbn in Hl. assert (i = O) by lia. subst. cbn in Hp. inversion Hp; subst. reflexivity.
  - cbn [cum]. destruct (Rle_dec x (prc_offset b)) as [L|L].
    + destruct i as [|i'].
      * cbn in Hp. inversion Hp; subst. reflexivity.
      * (* x <= off_1 and off_{i} <= x with i >= 1: x = off_1 = off_i, i = 1 *)
        destruct Hlo as [Hlo|Hlo]; [discriminate|].
        assert (Hb : off (a :: b :: c :: t'') 1 = prc_offset b) by reflexivity.
        assert (i' = O).
        { destruct i' as [|i'']; auto. exfalso.
          assert (off (a :: b :: c :: t'') 1 < off (a :: b :: c :: t'') (S (S i''))) by (apply Hs; lia).
          lra. }
        subst i'. cbn in Hp. inversion Hp; subst p. rewrite Hb in Hlo.
        assert (x = prc_offset b) by lra. subst x.
        unfold prc_val. rewrite (Hc O a b) by reflexivity. numR. ring.
    + destruct i as [|i'].
      * exfalso. apply L. exact Hhi.
      * apply (IH x i' p); [eapply sorted_tail; eauto|eapply consistent_tail; eauto| |exact Hp].
        split; [cbn in *; lia|]. split; [|exact Hhi].
        destruct Hlo as [Hlo|Hlo]; [discriminate|]. destruct i'; [left; auto|right; exact Hlo].
Qed.

(* ------------------------------------------------------------------ strap resistance *)
(* a cache is a valid forward cache for (front, back) *)
Definition cache_fwd (tbl : list PRCr) (c : SIdx) (front back : R) : Prop :=
  hint_fwd tbl front (si_front c) /\ hint_fwd tbl back (si_back c).
Definition cache_bwd (tbl : list PRCr) (c : SIdx) (front back : R) : Prop :=
  hint_bwd tbl front (si_front c) /\ hint_bwd tbl back (si_back c).

Lemma hint_fwd_mono tbl x x' h : hint_fwd tbl x h -> x <= x' -> hint_fwd tbl x' h.
Proof. intros (H1 & H2) L. split; auto. destruct H2; [left; auto|right; lra]. Qed.
Lemma hint_bwd_mono tbl x x' h : hint_bwd tbl x h -> x' <= x -> hint_bwd tbl x' h.
Proof. intros (H1 & H2) L. split; auto. lra. Qed.

Lemma tbl_get_ok (tbl : list PRCr) i p : tbl_get tbl i = Ok p -> nth_error tbl i = Some p.
Proof. unfold tbl_get. destruct (nth_error tbl i); intros H; inversion H; auto. Qed.

Definition strap_value (tbl : list PRCr) (front back len weight : R) : R :=
  (cum tbl front - cum tbl back) / len * weight.

Lemma fwd_ne : DFwd <> DBwd. Proof. discriminate. Qed.
Lemma unk_ne : DUnk <> DBwd. Proof. discriminate. Qed.

(* what an accepted evaluation did, per direction *)
Lemma calc_res_strap_inv (tbl : list PRCr) fi bi f b len v :
  calc_res_strap tbl fi bi f b len = Ok v ->
  0 < len /\ exists pf pb, nth_error tbl fi = Some pf /\ nth_error tbl bi = Some pb /\
     v = (prc_val pf f - prc_val pb b) / len.
Proof.
  unfold calc_res_strap. intros H. apply bind_ok in H. destruct H as ([] & E & H).
  apply passert_ok in E. numR. apply Rltb_true in E.
  binv H pf Hpf. binv H pb Hpb. inversion H; subst v. apply tbl_get_ok in Hpf, Hpb.
  split; [exact E|]. exists pf, pb. auto.
Qed.

Lemma strap_inv_fwd (tbl : list PRCr) c f b len w c' v :
  strap_calc_res tbl c f b len w DFwd = Ok (c', v) ->
  exists fi, calc_idx tbl f (si_front c) DFwd = Ok fi /\
   ((fi = si_back c /\ c' = {| si_front := fi; si_back := si_back c |} /\
     exists p, nth_error tbl fi = Some p /\ v = prc_coeff p * w) \/
    (fi <> si_back c /\ exists bi pf pb, calc_idx tbl b (si_back c) DFwd = Ok bi /\
       c' = {| si_front := fi; si_back := bi |} /\ 0 < len /\
       nth_error tbl fi = Some pf /\ nth_error tbl bi = Some pb /\
       v = (prc_val pf f - prc_val pb b) / len * w)).
Proof.
  unfold strap_calc_res. intros H.
  binv H c1 H1. binv H1 fi Hfi. inversion H1; subst c1; clear H1. cbn [si_front si_back] in H.
  exists fi. split; [exact Hfi|].
  binv H cv Hcv. destruct cv as [c2 coeff]. inversion H; subst c' v; clear H.
  destruct (Nat.eqb fi (si_back c)) eqn:Eq.
  - apply Nat.eqb_eq in Eq. left. binv Hcv p Hp. inversion Hcv; subst c2 coeff.
    apply tbl_get_ok in Hp. split; [exact Eq|]. split; [reflexivity|]. exists p. auto.
  - apply Nat.eqb_neq in Eq. right. split; [exact Eq|].
    binv Hcv c3 H3. binv H3 bi Hbi. inversion H3; subst c3; clear H3. cbn [si_front si_back] in Hcv.
    binv Hcv v0 Hv0. inversion Hcv; subst c2 coeff.
    apply calc_res_strap_inv in Hv0. destruct Hv0 as (Hl & pf & pb & Hpf & Hpb & ->).
    exists bi, pf, pb. auto 10.
Qed.

Lemma strap_inv_bwd (tbl : list PRCr) c f b len w c' v :
  strap_calc_res tbl c f b len w DBwd = Ok (c', v) ->
  exists bi, calc_idx tbl b (si_back c) DBwd = Ok bi /\
   ((si_front c = bi /\ c' = {| si_front := si_front c; si_back := bi |} /\
     exists p, nth_error tbl bi = Some p /\ v = prc_coeff p * w) \/
    (si_front c <> bi /\ exists fi pf pb, calc_idx tbl f (si_front c) DBwd = Ok fi /\
       c' = {| si_front := fi; si_back := bi |} /\ 0 < len /\
       nth_error tbl fi = Some pf /\ nth_error tbl bi = Some pb /\
       v = (prc_val pf f - prc_val pb b) / len * w)).
Proof.
  unfold strap_calc_res. intros H.
  binv H c1 H1. binv H1 bi Hbi. inversion H1; subst c1; clear H1. cbn [si_front si_back] in H.
  exists bi. split; [exact Hbi|].
  binv H cv Hcv. destruct cv as [c2 coeff]. inversion H; subst c' v; clear H.
  destruct (Nat.eqb (si_front c) bi) eqn:Eq.
  - apply Nat.eqb_eq in Eq. left. binv Hcv p Hp. inversion Hcv; subst c2 coeff.
    apply tbl_get_ok in Hp. rewrite Eq in Hp. split; [exact Eq|]. split; [reflexivity|]. exists p. auto.
  - apply Nat.eqb_neq in Eq. right. split; [exact Eq|].
    binv Hcv c3 H3. binv H3 fi Hfi. inversion H3; subst c3; clear H3. cbn [si_front si_back] in Hcv.
    binv Hcv v0 Hv0. inversion Hcv; subst c2 coeff.
    apply calc_res_strap_inv in Hv0. destruct Hv0 as (Hl & pf & pb & Hpf & Hpb & ->).
    exists fi, pf, pb. auto 10.
Qed.

Lemma strap_inv_unk (tbl : list PRCr) c f b len w c' v :
  strap_calc_res tbl c f b len w DUnk = Ok (c', v) ->
  exists fi bi, calc_idx tbl f (si_front c) DUnk = Ok fi /\ calc_idx tbl b (si_back c) DUnk = Ok bi /\
   c' = {| si_front := fi; si_back := bi |} /\
   ((fi = bi /\ exists p, nth_error tbl fi = Some p /\ v = prc_coeff p * w) \/
    (fi <> bi /\ exists pf pb, 0 < len /\
       nth_error tbl fi = Some pf /\ nth_error tbl bi = Some pb /\
       v = (prc_val pf f - prc_val pb b) / len * w)).
Proof.
  unfold strap_calc_res. intros H.
  binv H c1 H1. binv H1 fi Hfi. binv H1 bi Hbi. inversion H1; subst c1; clear H1.
  cbn [si_front si_back] in H. exists fi, bi. split; [exact Hfi|]. split; [exact Hbi|].
  binv H cv Hcv. destruct cv as [c2 coeff]. inversion H; subst c' v; clear H.
  destruct (Nat.eqb fi bi) eqn:Eq.
  - apply Nat.eqb_eq in Eq. binv Hcv p Hp. inversion Hcv; subst c2 coeff.
    apply tbl_get_ok in Hp. split; [reflexivity|]. left. split; [exact Eq|]. exists p. auto.
  - apply Nat.eqb_neq in Eq.
    binv Hcv c3 H3. inversion H3; subst c3; clear H3. cbn [si_front si_back] in Hcv.
    binv Hcv v0 Hv0. inversion Hcv; subst c2 coeff.
    apply calc_res_strap_inv in Hv0. destruct Hv0 as (Hl & pf & pb & Hpf & Hpb & ->).
    split; [reflexivity|]. right. split; [exact Eq|]. exists pf, pb. auto.
Qed.

Lemma one_seg_value tbl x len w i p : sorted tbl -> consistent tbl -> 0 < len ->
  in_seg tbl x i -> in_seg tbl (x - len) i -> nth_error tbl i = Some p ->
  prc_coeff p * w = strap_value tbl x (x - len) len w.
Proof.
  intros Hs Hc Hl S1 S2 Hp. unfold strap_value.
  rewrite <- (cum_in_seg _ _ _ _ Hs Hc S1 Hp), <- (cum_in_seg _ _ _ _ Hs Hc S2 Hp).
  unfold prc_val. numR. field. lra.
Qed.
Lemma two_seg_value tbl x len w i j pf pb : sorted tbl -> consistent tbl ->
  in_seg tbl x i -> in_seg tbl (x - len) j -> nth_error tbl i = Some pf -> nth_error tbl j = Some pb ->
  (prc_val pf x - prc_val pb (x - len)) / len * w = strap_value tbl x (x - len) len w.
Proof.
  intros Hs Hc S1 S2 Hpf Hpb. unfold strap_value.
  rewrite <- (cum_in_seg _ _ _ _ Hs Hc S1 Hpf), <- (cum_in_seg _ _ _ _ Hs Hc S2 Hpb). reflexivity.
Qed.

(* C07 strap_exact, forward direction, including the cache invariant:
   from a valid forward cache, an accepted evaluation returns
   weight * (cum(front) - cum(back)) / length, the new front index holds the front, the new rear
   index holds the rear, and the new cache is a valid forward cache for every position not behind *)
Theorem strap_fwd_exact tbl c front len weight c' v :
  sorted tbl -> consistent tbl -> 0 < len ->
  cache_fwd tbl c front (front - len) ->
  strap_calc_res tbl c front (front - len) len weight DFwd = Ok (c', v) ->
  v = strap_value tbl front (front - len) len weight /\
  in_seg tbl front (si_front c') /\ in_seg tbl (front - len) (si_back c') /\
  (forall front', front <= front' -> cache_fwd tbl c' front' (front' - len)).
Proof.
  intros Hs Hc Hlen (Hf & Hb) H. apply strap_inv_fwd in H.
  destruct H as (fi & Hfi & [(Eq & -> & p & Hp & ->)|(Ne & bi & pf & pb & Hbi & -> & _ & Hpf & Hpb & ->)]).
  - destruct (calc_idx_fwd_spec _ _ _ DFwd _ fwd_ne Hfi Hf) as (Sf & Hf' & _ & _).
    assert (Sb : in_seg tbl (front - len) fi).
    { destruct Sf as (L & _ & U). split; [exact L|]. split; [|lra].
      destruct Hb as (_ & Hb2). rewrite <- Eq in Hb2. destruct Hb2; [left; auto|right; lra]. }
    cbn [si_front si_back]. rewrite <- Eq.
    split; [eapply one_seg_value; eauto|]. split; [exact Sf|]. split; [exact Sb|].
    intros front' L. split; cbn [si_front si_back].
    + destruct Sf as (L1 & _ & _). split; [exact L1|]. destruct Hf'; [left; auto|right; lra].
    + rewrite Eq. eapply hint_fwd_mono; [exact Hb|lra].
  - destruct (calc_idx_fwd_spec _ _ _ DFwd _ fwd_ne Hfi Hf) as (Sf & Hf' & _ & _).
    destruct (calc_idx_fwd_spec _ _ _ DFwd _ fwd_ne Hbi Hb) as (Sb & Hb' & _ & _).
    cbn [si_front si_back].
    split; [eapply two_seg_value; eauto|]. split; [exact Sf|]. split; [exact Sb|].
    intros front' L. split; cbn [si_front si_back].
    + destruct Sf as (L1 & _ & _). split; [exact L1|]. destruct Hf'; [left; auto|right; lra].
    + destruct Sb as (L1 & _ & _). split; [exact L1|]. destruct Hb'; [left; auto|right; lra].
Qed.

(* backward direction (braking-curve construction): valid backward cache in, exact value and a
   cache valid for every position not ahead of this one out *)
Theorem strap_bwd_exact tbl c front len weight c' v :
  sorted tbl -> consistent tbl -> 0 < len ->
  cache_bwd tbl c front (front - len) ->
  strap_calc_res tbl c front (front - len) len weight DBwd = Ok (c', v) ->
  v = strap_value tbl front (front - len) len weight /\
  in_seg tbl front (si_front c') /\ in_seg tbl (front - len) (si_back c') /\
  (forall front', front' <= front -> cache_bwd tbl c' front' (front' - len)).
Proof.
  intros Hs Hc Hlen (Hf & Hb) H. apply strap_inv_bwd in H.
  destruct H as (bi & Hbi & [(Eq & -> & p & Hp & ->)|(Ne & fi & pf & pb & Hfi & -> & _ & Hpf & Hpb & ->)]).
  - destruct (calc_idx_bwd_spec _ _ _ _ Hbi Hb) as (Sb & Hb' & _ & _).
    assert (Sf : in_seg tbl front bi).
    { destruct Sb as (L & _ & U). split; [exact L|]. split; [right; lra|].
      destruct Hf as (_ & Hf2). rewrite Eq in Hf2. exact Hf2. }
    cbn [si_front si_back]. rewrite Eq.
    split; [eapply one_seg_value; eauto|]. split; [exact Sf|]. split; [exact Sb|].
    intros front' L. split; cbn [si_front si_back].
    + rewrite <- Eq. eapply hint_bwd_mono; [exact Hf|lra].
    + destruct Sb as (L1 & _ & U). split; [exact L1|lra].
  - destruct (calc_idx_bwd_spec _ _ _ _ Hbi Hb) as (Sb & Hb' & _ & _).
    destruct (calc_idx_bwd_spec _ _ _ _ Hfi Hf) as (Sf & Hf' & _ & _).
    cbn [si_front si_back].
    split; [eapply two_seg_value; eauto|]. split; [exact Sf|]. split; [exact Sb|].
    intros front' L. split; cbn [si_front si_back].
    + destruct Sf as (L1 & _ & U). split; [exact L1|lra].
    + destruct Sb as (L1 & _ & U). split; [exact L1|lra].
Qed.

(* Dir::Unk (the first evaluation of recalc, at the end of the path): searches forward for both
   ends; the result is exact and is a valid BACKWARD cache for every position not ahead *)
Theorem strap_unk_exact tbl c front len weight c' v :
  sorted tbl -> consistent tbl -> 0 < len ->
  cache_fwd tbl c front (front - len) ->
  strap_calc_res tbl c front (front - len) len weight DUnk = Ok (c', v) ->
  v = strap_value tbl front (front - len) len weight /\
  in_seg tbl front (si_front c') /\ in_seg tbl (front - len) (si_back c') /\
  (forall front', front' <= front -> cache_bwd tbl c' front' (front' - len)).
Proof.
  intros Hs Hc Hlen (Hf & Hb) H. apply strap_inv_unk in H.
  destruct H as (fi & bi & Hfi & Hbi & -> & Hv).
  destruct (calc_idx_fwd_spec _ _ _ DUnk _ unk_ne Hfi Hf) as (Sf & Hf' & _ & _).
  destruct (calc_idx_fwd_spec _ _ _ DUnk _ unk_ne Hbi Hb) as (Sb & Hb' & _ & _).
  cbn [si_front si_back].
  assert (Hcache : forall front', front' <= front ->
            cache_bwd tbl {| si_front := fi; si_back := bi |} front' (front' - len)).
  { intros front' L. split; cbn [si_front si_back].
    - destruct Sf as (L1 & _ & U). split; [exact L1|lra].
    - destruct Sb as (L1 & _ & U). split; [exact L1|lra]. }
  destruct Hv as [(Eq & p & Hp & ->)|(Ne & pf & pb & _ & Hpf & Hpb & ->)].
  - subst bi. split; [eapply one_seg_value; eauto|]. auto.
  - split; [eapply two_seg_value; eauto|]. auto.
Qed.

(* ------------------------------------------------------------------ path extension *)
(* PathTpc::extend appends entries and rewrites only res_coeff of the old last entry: every old
   offset keeps its index.  Hints stay hints. *)
Definition extends (tbl tbl' : list PRCr) : Prop :=
  (length tbl <= length tbl')%nat /\ forall i, (i < length tbl)%nat -> off tbl' i = off tbl i.

Lemma hint_fwd_extends tbl tbl' x h : extends tbl tbl' -> hint_fwd tbl x h -> hint_fwd tbl' x h.
Proof. intros (L & E) (H1 & H2). split; [lia|]. destruct H2; [left; auto|right]. rewrite E; auto; lia. Qed.
Lemma cache_fwd_extends tbl tbl' c f b : extends tbl tbl' -> cache_fwd tbl c f b -> cache_fwd tbl' c f b.
Proof. intros E (H1 & H2). split; eapply hint_fwd_extends; eauto. Qed.

(* the cache the simulations start from ([path_res::Strap::new] on the one-entry table, then
   extended): index 0 is a valid forward hint for every position as soon as there are two entries *)
Lemma cache_fwd_zero tbl f b : (2 <= length tbl)%nat -> cache_fwd tbl {| si_front := O; si_back := O |} f b.
Proof. intros L. split; (split; [cbn; lia|left; reflexivity]). Qed.

(* ------------------------------------------------------------------ update_res: the definitions *)
Lemma acc_grav_val : acc_grav (F:=R) = 980154849496314 / 100000000000000.
Proof. unfold acc_grav. cbn [nlit R_ops]. unfold Rpow10. change (Pos.to_nat 14) with 14%nat.
  simpl pow. field_simplify_eq; lra. Qed.
Lemma rho_air_val : rho_air (F:=R) = 1225 / 1000.
Proof. unfold rho_air. cbn [nlit R_ops]. unfold Rpow10. change (Pos.to_nat 3) with 3%nat.
  simpl pow. field_simplify_eq; lra. Qed.

(* what the step reports, for a forward evaluation from valid caches on well-formed tables *)
Definition res_defs (grades curves : list PRCr) (rp : ResParams (F:=R)) (st st1 : TStater) : Prop :=
  let k := ts_k st in let p := ts_p st in let r := ts_r st1 in
  let front := k_offset k in let back := k_offset k - p_length p in
  r_weight_static r = p_mass_static p * acc_grav /\
  r_bearing r = rp_bearing rp /\
  r_rolling r = rp_rolling rp * r_weight_static r /\
  r_davis_b r = rp_davis_b rp * k_speed k * r_weight_static r /\
  r_aero r = rp_cd_area rp * rho_air * k_speed k * k_speed k /\
  r_grade r = r_weight_static r * (cum grades front - cum grades back) / p_length p /\
  r_curve r = r_weight_static r * (cum curves front - cum curves back) / p_length p /\
  r_elev_front r = cum grades front /\
  k_offset_back (ts_k st1) = back.

Definition caches_fwd grades curves (c : ResCache) front back :=
  cache_fwd grades (rc_grade c) front back /\ cache_fwd curves (rc_curve c) front back.
Definition caches_bwd grades curves (c : ResCache) front back :=
  cache_bwd grades (rc_grade c) front back /\ cache_bwd curves (rc_curve c) front back.

Definition tables_ok (grades curves : list PRCr) :=
  sorted grades /\ consistent grades /\ sorted curves /\ consistent curves.

Theorem update_res_fwd_exact grades curves rp (st : TStater) c st1 c1 :
  tables_ok grades curves -> 0 < p_length (ts_p st) ->
  caches_fwd grades curves c (k_offset (ts_k st)) (k_offset (ts_k st) - p_length (ts_p st)) ->
  strap_update_res grades curves rp st c DFwd = Ok (st1, c1) ->
  res_defs grades curves rp st st1 /\
  (* front grade = the table's coefficient of the segment holding the front; rear grade the same
     for the rear *)
  (exists i p, in_seg grades (k_offset (ts_k st)) i /\ nth_error grades i = Some p /\
               r_grade_front (ts_r st1) = prc_coeff p) /\
  (exists j q, in_seg grades (k_offset (ts_k st) - p_length (ts_p st)) j /\
               nth_error grades j = Some q /\ r_grade_back (ts_r st1) = prc_coeff q) /\
  (forall front', k_offset (ts_k st) <= front' ->
     caches_fwd grades curves c1 front' (front' - p_length (ts_p st))).
Proof.
  intros (Sg & Cg & Sc & Cc) Hlen (Hg & Hcv) H. unfold strap_update_res in H.
  binv H gr Hgr. destruct gr as [gc rg]. cbv beta iota in H. binv H cr Hcr. destruct cr as [cc rc]. cbv beta iota in H.
  binv H pf Hpf. binv H pb Hpb. apply ok_pair_inj in H; destruct H as [<- <-].
  destruct (strap_fwd_exact _ _ _ _ _ _ _ Sg Cg Hlen Hg Hgr) as (Vg & Sgf & Sgb & Kg).
  destruct (strap_fwd_exact _ _ _ _ _ _ _ Sc Cc Hlen Hcv Hcr) as (Vc & _ & _ & Kc).
  apply tbl_get_ok in Hpf, Hpb.
  split; [|split; [|split]].
  - unfold res_defs. cbn -[acc_grav rho_air]. numR. repeat split; auto.
    + rewrite Vg. unfold strap_value. field. lra.
    + rewrite Vc. unfold strap_value. field. lra.
    + apply (cum_in_seg _ _ _ _ Sg Cg Sgf Hpf).
  - exists (si_front gc), pf. cbn. auto.
  - exists (si_back gc), pb. cbn. auto.
  - intros front' L. split; cbn [rc_grade rc_curve]; auto.
Qed.

(* the same for the backward evaluation used while the braking curve is built *)
Theorem update_res_bwd_exact grades curves rp (st : TStater) c st1 c1 :
  tables_ok grades curves -> 0 < p_length (ts_p st) ->
  caches_bwd grades curves c (k_offset (ts_k st)) (k_offset (ts_k st) - p_length (ts_p st)) ->
  strap_update_res grades curves rp st c DBwd = Ok (st1, c1) ->
  res_defs grades curves rp st st1 /\
  (forall front', front' <= k_offset (ts_k st) ->
     caches_bwd grades curves c1 front' (front' - p_length (ts_p st))).
Proof.
  intros (Sg & Cg & Sc & Cc) Hlen (Hg & Hcv) H. unfold strap_update_res in H.
  binv H gr Hgr. destruct gr as [gc rg]. cbv beta iota in H. binv H cr Hcr. destruct cr as [cc rc]. cbv beta iota in H.
  binv H pf Hpf. binv H pb Hpb. apply ok_pair_inj in H; destruct H as [<- <-].
  destruct (strap_bwd_exact _ _ _ _ _ _ _ Sg Cg Hlen Hg Hgr) as (Vg & Sgf & Sgb & Kg).
  destruct (strap_bwd_exact _ _ _ _ _ _ _ Sc Cc Hlen Hcv Hcr) as (Vc & _ & _ & Kc).
  apply tbl_get_ok in Hpf, Hpb.
  split.
  - unfold res_defs. cbn -[acc_grav rho_air]. numR. repeat split; auto.
    + rewrite Vg. unfold strap_value. field. lra.
    + rewrite Vc. unfold strap_value. field. lra.
    + apply (cum_in_seg _ _ _ _ Sg Cg Sgf Hpf).
  - intros front' L. split; cbn [rc_grade rc_curve]; auto.
Qed.

(* and for the Dir::Unk evaluation recalc starts with: forward caches in, backward caches out *)
Theorem update_res_unk_exact grades curves rp (st : TStater) c st1 c1 :
  tables_ok grades curves -> 0 < p_length (ts_p st) ->
  caches_fwd grades curves c (k_offset (ts_k st)) (k_offset (ts_k st) - p_length (ts_p st)) ->
  strap_update_res grades curves rp st c DUnk = Ok (st1, c1) ->
  res_defs grades curves rp st st1 /\
  (forall front', front' <= k_offset (ts_k st) ->
     caches_bwd grades curves c1 front' (front' - p_length (ts_p st))).
Proof.
  intros (Sg & Cg & Sc & Cc) Hlen (Hg & Hcv) H. unfold strap_update_res in H.
  binv H gr Hgr. destruct gr as [gc rg]. cbv beta iota in H. binv H cr Hcr. destruct cr as [cc rc]. cbv beta iota in H.
  binv H pf Hpf. binv H pb Hpb. apply ok_pair_inj in H; destruct H as [<- <-].
  destruct (strap_unk_exact _ _ _ _ _ _ _ Sg Cg Hlen Hg Hgr) as (Vg & Sgf & Sgb & Kg).
  destruct (strap_unk_exact _ _ _ _ _ _ _ Sc Cc Hlen Hcv Hcr) as (Vc & _ & _ & Kc).
  apply tbl_get_ok in Hpf, Hpb.
  split.
  - unfold res_defs. cbn -[acc_grav rho_air]. numR. repeat split; auto.
    + rewrite Vg. unfold strap_value. field. lra.
    + rewrite Vc. unfold strap_value. field. lra.
    + apply (cum_in_seg _ _ _ _ Sg Cg Sgf Hpf).
  - intros front' L. split; cbn [rc_grade rc_curve]; auto.
Qed.

(* ------------------------------------------------------------------ cache invariant along runs *)
(* a forward run of resistance evaluations over any non-decreasing sequence of front positions,
   starting from a valid cache: every accepted evaluation reports the definitions, and the cache
   stays valid (also if the tables are extended between evaluations) *)
Section FwdRun.
  Variables (rp : ResParams (F:=R)).
  (* one evaluation: position the train (front offset, speed) on the current tables *)
  Definition place (st : TStater) (front speed : R) : TStater :=
    let k := ts_k st in
    {| ts_k := {| k_time := k_time k; k_i := k_i k; k_offset := front;
                  k_offset_back := k_offset_back k; k_total_dist := k_total_dist k;
                  k_link_idx_front := k_link_idx_front k; k_offset_in_link := k_offset_in_link k;
                  k_speed := speed; k_speed_limit := k_speed_limit k;
                  k_speed_target := k_speed_target k; k_dt := k_dt k |};
       ts_p := ts_p st; ts_r := ts_r st; ts_w := ts_w st |}.

  (* input of one evaluation: the tables in force, the front position, the speed *)
  Definition rstep (sc : TStater * ResCache) (inp : list PRCr * list PRCr * R * R)
    : res (TStater * ResCache) :=
    let '(g, cv, front, speed) := inp in
    strap_update_res g cv rp (place (fst sc) front speed) (snd sc) DFwd.

  (* the inputs are admissible from position x0 on tables (g0, c0): fronts never decrease, tables
     are well formed and only ever extended *)
  Fixpoint admissible (g0 c0 : list PRCr) (x0 : R) (ins : list (list PRCr * list PRCr * R * R)) : Prop :=
    match ins with
    | [] => True
    | (g, cv, front, _) :: t =>
        tables_ok g cv /\ extends g0 g /\ extends c0 cv /\ x0 <= front /\ admissible g cv front t
    end.

  Theorem cache_inv_fwd_run : forall ins g0 c0 x0 (sc sc' : TStater * ResCache),
    0 < p_length (ts_p (fst sc)) ->
    caches_fwd g0 c0 (snd sc) x0 (x0 - p_length (ts_p (fst sc))) ->
    admissible g0 c0 x0 ins ->
    run rstep sc ins = Ok sc' ->
    forall pre inp post, ins = pre ++ inp :: post ->
      exists m m', run rstep sc pre = Ok m /\ rstep m inp = Ok m' /\
        let '(g, cv, front, speed) := inp in
        res_defs g cv rp (place (fst m) front speed) (fst m') /\
        caches_fwd g cv (snd m') front (front - p_length (ts_p (fst sc))).
  Proof.
    induction ins as [|[[[g cv] front] speed] t IH]; intros g0 c0 x0 sc sc' Hlen Hc Had Hrun pre inp post Heq.
    - destruct pre; discriminate.
    - destruct Had as (Tok & Eg & Ec & Lx & Had).
      cbn [run] in Hrun. destruct (rstep sc (g, cv, front, speed)) as [sc1| |] eqn:E1; try discriminate.
      assert (Hc1 : caches_fwd g cv (snd sc) front (front - p_length (ts_p (fst sc)))).
      { destruct Hc as (Hg & Hv). split; eapply cache_fwd_extends; eauto.
        - destruct Hg. split; eapply hint_fwd_mono; eauto; lra.
        - destruct Hv. split; eapply hint_fwd_mono; eauto; lra. }
      destruct sc1 as [st1 c1]. unfold rstep in E1. cbn [fst snd] in *.
      pose proof E1 as E1'.
      apply update_res_fwd_exact in E1; auto.
      destruct E1 as (Hdefs & _ & _ & Hk).
      pose proof (update_res_frame _ _ _ _ _ _ _ _ E1') as (Hp & _).
      cbn [place ts_p] in Hp.
      destruct pre as [|i0 pre].
      + cbn in Heq. inversion Heq; subst inp post. exists sc, (st1, c1). cbn [run].
        split; [reflexivity|]. split; [exact E1'|]. split; [exact Hdefs|]. apply Hk. cbn. lra.
      + cbn in Heq. inversion Heq; subst i0 t.
        destruct (IH g cv front (st1, c1) sc') with (pre := pre) (inp := inp) (post := post)
          as (m & m' & R1 & R2 & R3); auto.
        * cbn [fst]. rewrite Hp. exact Hlen.
        * cbn [fst snd]. rewrite Hp. apply Hk. cbn. lra.
        * exists m, m'. split.
          { cbn [run]. unfold rstep at 1. cbn [fst snd]. rewrite E1'. exact R1. }
          split; [exact R2|]. destruct inp as [[[g' cv'] f'] s']. cbn [fst] in R3. rewrite Hp in R3. exact R3.
  Qed.
End FwdRun.

(* the backward construction: any non-increasing sequence of front positions on fixed tables *)
Section BwdRun.
  Variables (rp : ResParams (F:=R)) (g cv : list PRCr).
  Definition bstep (sc : TStater * ResCache) (inp : R * R) : res (TStater * ResCache) :=
    strap_update_res g cv rp (place (fst sc) (fst inp) (snd inp)) (snd sc) DBwd.

  Fixpoint nonincreasing (x0 : R) (ins : list (R * R)) : Prop :=
    match ins with [] => True | (front, _) :: t => front <= x0 /\ nonincreasing front t end.

  Theorem cache_inv_bwd_run : forall ins x0 (sc sc' : TStater * ResCache),
    tables_ok g cv -> 0 < p_length (ts_p (fst sc)) ->
    caches_bwd g cv (snd sc) x0 (x0 - p_length (ts_p (fst sc))) ->
    nonincreasing x0 ins ->
    run bstep sc ins = Ok sc' ->
    forall pre inp post, ins = pre ++ inp :: post ->
      exists m m', run bstep sc pre = Ok m /\ bstep m inp = Ok m' /\
        res_defs g cv rp (place (fst m) (fst inp) (snd inp)) (fst m') /\
        caches_bwd g cv (snd m') (fst inp) (fst inp - p_length (ts_p (fst sc))).
  Proof.
    induction ins as [|[front speed] t IH]; intros x0 sc sc' Tok Hlen Hc Hni Hrun pre inp post Heq.
    - destruct pre; discriminate.
    - destruct Hni as (Lx & Hni).
      cbn [run] in Hrun. destruct (bstep sc (front, speed)) as [sc1| |] eqn:E1; try discriminate.
      assert (Hc1 : caches_bwd g cv (snd sc) front (front - p_length (ts_p (fst sc)))).
      { destruct Hc as ((G1 & G2) & (V1 & V2)).
        split; split; eapply hint_bwd_mono; eauto; lra. }
      destruct sc1 as [st1 c1]. unfold bstep in E1. cbn [fst snd] in *.
      pose proof E1 as E1'.
      apply update_res_bwd_exact in E1; auto.
      destruct E1 as (Hdefs & Hk).
      pose proof (update_res_frame _ _ _ _ _ _ _ _ E1') as (Hp & _).
      cbn [place ts_p] in Hp.
      destruct pre as [|i0 pre].
      + cbn in Heq. inversion Heq; subst inp post. exists sc, (st1, c1). cbn [run fst snd].
        split; [reflexivity|]. split; [exact E1'|]. split; [exact Hdefs|]. apply Hk. cbn. lra.
      + cbn in Heq. inversion Heq; subst i0 t.
        destruct (IH front (st1, c1) sc') with (pre := pre) (inp := inp) (post := post)
          as (m & m' & R1 & R2 & R3); auto.
        * cbn [fst]. rewrite Hp. exact Hlen.
        * cbn [fst snd]. rewrite Hp. apply Hk. cbn. lra.
        * exists m, m'. split.
          { cbn [run]. unfold bstep at 1. cbn [fst snd]. rewrite E1'. exact R1. }
          split; [exact R2|]. cbn [fst] in R3. rewrite Hp in R3. exact R3.
  Qed.
End BwdRun.

(* ------------------------------------------------------------------ aggregation of the train's data *)
Definition sumR (l : list R) : R := fold_right Rplus 0 l.

Lemma fsum_sum (f : Car (F:=R) -> R) : forall cars a,
  fold_left (fun acc c => acc + f c) cars a = a + sumR (map f cars).
Proof. unfold sumR. induction cars as [|c t IH]; intros a; cbn; [lra|]. rewrite IH. lra. Qed.

Lemma sumR_ext (f g : Car (F:=R) -> R) l : (forall c, f c = g c) -> sumR (map f l) = sumR (map g l).
Proof. intros H. unfold sumR. induction l as [|c t IH]; cbn; [reflexivity|]. rewrite H, IH. reflexivity. Qed.
Lemma sumR_mult_r (f : Car (F:=R) -> R) k l : sumR (map f l) * k = sumR (map (fun c => f c * k) l).
Proof. unfold sumR. induction l as [|c t IH]; cbn; [ring|]. rewrite <- IH. ring. Qed.

(* weight = g * (static mass of all cars + mass of the locomotive consist); length, rotating and
   freight mass, bearing and drag area are plain per-car sums; the rolling and Davis-B coefficients
   are the car-mass-weighted means over the TOWED mass (the code's choice: the locomotives' mass
   enters the weight but not the average) *)
Theorem aggregate_ov_defs ov (cars : list (Car (F:=R))) total loco_mass :
  let t := aggregate_ov ov cars total loco_mass in
  let towed := match ov with Some m => m | None => sumR (map (fun c => (car_mass_base c + car_mass_freight c) * car_n c) cars) end in
  tp_mass_static t = towed + loco_mass /\
  tp_length t = sumR (map (fun c => car_length c * car_n c) cars) /\
  tp_mass_rot t = sumR (map (fun c => car_mass_rot_per_axle c * car_n c * car_axles c) cars) /\
  tp_mass_freight t = sumR (map (fun c => car_mass_freight c * car_n c) cars) /\
  rp_bearing (tp_rp t) = sumR (map (fun c => car_bearing_per_axle c * car_axles c * car_n c) cars) /\
  rp_cd_area (tp_rp t) = sumR (map (fun c => car_cd_area c * car_n c) cars) /\
  (towed <> 0 ->
   rp_rolling (tp_rp t) * towed =
     sumR (map (fun c => car_rolling_ratio c * ((car_mass_base c + car_mass_freight c) * car_n c)) cars) /\
   rp_davis_b (tp_rp t) * towed =
     sumR (map (fun c => car_davis_b c * ((car_mass_base c + car_mass_freight c) * car_n c)) cars)).
Proof.
  cbv zeta. unfold aggregate_ov, fsum, car_mass. cbn [tp_mass_static tp_length tp_mass_rot tp_mass_freight
    tp_rp rp_bearing rp_cd_area rp_rolling rp_davis_b]. numR.
  rewrite !fsum_sum.
  rewrite (sumR_ext (fun c : Car => (car_mass_base c + car_mass_freight c) * car_n c * 1)
                    (fun c : Car => (car_mass_base c + car_mass_freight c) * car_n c)) by (intros; ring).
  set (tw := sumR (map (fun c : Car => (car_mass_base c + car_mass_freight c) * car_n c) cars)).
  destruct ov as [m|]; repeat split; try lra.
  all: rewrite Rplus_0_l, sumR_mult_r; apply sumR_ext; intros c; field; exact H.
Qed.

Theorem aggregate_defs (cars : list (Car (F:=R))) total loco_mass :
  let t := aggregate cars total loco_mass in
  let towed := sumR (map (fun c => (car_mass_base c + car_mass_freight c) * car_n c) cars) in
  tp_mass_static t = towed + loco_mass /\
  tp_length t = sumR (map (fun c => car_length c * car_n c) cars) /\
  tp_mass_rot t = sumR (map (fun c => car_mass_rot_per_axle c * car_n c * car_axles c) cars) /\
  tp_mass_freight t = sumR (map (fun c => car_mass_freight c * car_n c) cars) /\
  rp_bearing (tp_rp t) = sumR (map (fun c => car_bearing_per_axle c * car_axles c * car_n c) cars) /\
  rp_cd_area (tp_rp t) = sumR (map (fun c => car_cd_area c * car_n c) cars) /\
  (towed <> 0 ->
   rp_rolling (tp_rp t) * towed =
     sumR (map (fun c => car_rolling_ratio c * ((car_mass_base c + car_mass_freight c) * car_n c)) cars) /\
   rp_davis_b (tp_rp t) * towed =
     sumR (map (fun c => car_davis_b c * ((car_mass_base c + car_mass_freight c) * car_n c)) cars)).
Proof. exact (aggregate_ov_defs None cars total loco_mass). Qed.
