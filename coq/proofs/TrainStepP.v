(* TrainStepP.v -- step laws of the two train simulations over the reals:
   kinematic bookkeeping (C12), trace following and wheel power (C14); the speed-limit controller
   facts of C03 are in BrakingP.v. *)
From Coq Require Import Reals Lra Lia List Bool ZArith Arith.
From AltModel Require Import Num Interp Resist Braking TrainStep.
From AltProofs Require Import NumR ResistP.
Import ListNotations.
Open Scope R_scope.

Notation LinkPtr := (LinkPt (F:=R)).
Notation Envr := (Env (F:=R)).
Notation ConLimr := (ConLim (F:=R)).
Notation SLStater := (SLState (F:=R)).
Notation BPr := (BP (F:=R)).

(* ------------------------------------------------------------------ set_link_and_offset *)
Definition lpo (lps : list LinkPtr) (i : nat) : R := nth i (map lp_offset lps) 0.

Lemma nth_error_lpo lps i p : nth_error lps i = Some p -> lpo lps i = lp_offset p.
Proof. intros H. unfold lpo. apply nth_error_nth. apply map_nth_error. exact H. Qed.

Lemma lp_position_some (x : R) : forall lps k j, lp_position lps x k = Some j ->
  (k <= j)%nat /\ (j - k < length lps)%nat /\ x <= lpo lps (j - k) /\
  (forall m, (m < j - k)%nat -> lpo lps m < x).
Proof.
  induction lps as [|p t IH]; intros k j H; cbn in H; [discriminate|].
  numR. destruct (Rleb_spec x (lp_offset p)) as [L|L].
  - inversion H; subst. replace (j - j)%nat with O by lia. cbn. repeat split; auto; try lia; try (intros m Hm; lia).
  - apply IH in H. destruct H as (H1 & H2 & H3 & H4).
    replace (j - k)%nat with (S (j - S k)) by lia. cbn [length]. repeat split; try lia.
    + exact H3.
    + intros m Hm. destruct m as [|m]; [cbn; lra|]. apply (H4 m). lia.
Qed.

Lemma lp_position_none (x : R) : forall lps k, lp_position lps x k = None ->
  forall m, (m < length lps)%nat -> lpo lps m < x.
Proof.
  induction lps as [|p t IH]; intros k H m Hm; cbn in Hm; [lia|]. cbn in H.
  numR. destruct (Rleb_spec x (lp_offset p)) as [L|L]; [discriminate|].
  destruct m as [|m]; [cbn; lra|]. apply (IH _ H m). lia.
Qed.

(* strictly increasing link-point offsets (what LinkPoint validation requires) *)
Definition lps_sorted (lps : list LinkPtr) : Prop :=
  forall i j, (i < j)%nat -> (j < length lps)%nat -> lpo lps i < lpo lps j.

(* the front is located at segment idx: base(idx) + offset_in_link = offset, 0 < offset_in_link <= length(idx) *)
Definition located (lps : list LinkPtr) (x : R) (lnk : Z) (oil : R) : Prop :=
  exists idx p, nth_error lps idx = Some p /\ (S idx < length lps)%nat /\
    lnk = lp_link p /\ lp_offset p + oil = x /\ 0 < oil <= lpo lps (S idx) - lp_offset p.

(* C12 locate_exact: whatever the number of boundaries between the old and the new position *)
Theorem locate_exact lps (x : R) :
  (2 <= length lps)%nat -> lpo lps 0 < x <= lpo lps (length lps - 1) ->
  exists lnk oil, set_link_and_offset lps x = Ok (lnk, oil) /\ located lps x lnk oil.
Proof.
  intros Hn (Hlo & Hhi). unfold set_link_and_offset.
  destruct (lp_position lps x 0) as [j|] eqn:E.
  - apply lp_position_some in E. rewrite Nat.sub_0_r in E. destruct E as (_ & Hj & Hx & Hall).
    destruct j as [|idx]; [lra|].
    destruct (nth_error lps idx) as [p|] eqn:Ep. 2:{ apply nth_error_None in Ep. lia. }
    pose proof (nth_error_lpo _ _ _ Ep) as Ho.
    exists (lp_link p), (x - lp_offset p). numR. split; [reflexivity|].
    exists idx, p. repeat split; auto; try lra.
    + specialize (Hall idx ltac:(lia)). lra.
  - exfalso. pose proof (lp_position_none _ _ _ E (length lps - 1)%nat ltac:(lia)). lra.
Qed.

(* the reported segment is THE segment holding the position when the table is sorted *)
Theorem located_unique lps x lnk oil j pj :
  lps_sorted lps -> located lps x lnk oil ->
  nth_error lps j = Some pj -> (S j < length lps)%nat -> lp_offset pj < x <= lpo lps (S j) ->
  lnk = lp_link pj /\ oil = x - lp_offset pj.
Proof.
  intros Hs (idx & p & Hp & Hl & -> & Hsum & Hpos & Hle) Hpj Hlj (Hj1 & Hj2).
  pose proof (nth_error_lpo _ _ _ Hp) as Ho. pose proof (nth_error_lpo _ _ _ Hpj) as Hoj.
  assert (idx = j).
  { destruct (Nat.lt_trichotomy idx j) as [L|[E|L]]; auto; exfalso.
    - assert (lpo lps (S idx) <= lpo lps j).
      { destruct (Nat.eq_dec (S idx) j) as [->|N]; [lra|]. apply Rlt_le, Hs; lia. }
      lra.
    - assert (lpo lps (S j) <= lpo lps idx).
      { destruct (Nat.eq_dec (S j) idx) as [->|N]; [lra|]. apply Rlt_le, Hs; lia. }
      lra. }
  subst j. rewrite Hp in Hpj. inversion Hpj; subst pj. split; [reflexivity|lra].
Qed.

(* position = 0 is the usize underflow of the code: a front at or before the first link point
   aborts (Panic), it does not return an error value *)
Theorem locate_underflow lps (x : R) p0 t : lps = p0 :: t -> x <= lp_offset p0 ->
  set_link_and_offset lps x = Panic 1210.
Proof.
  intros -> H. unfold set_link_and_offset. cbn. numR.
  destruct (Rleb_spec x (lp_offset p0)); [reflexivity|lra].
Qed.
Theorem locate_empty (x : R) : set_link_and_offset [] x = Panic 1210.
Proof. reflexivity. Qed.

Lemma set_link_located lps (x : R) lnk oil :
  set_link_and_offset lps x = Ok (lnk, oil) -> x <= lpo lps (length lps - 1) -> located lps x lnk oil.
Proof.
  unfold set_link_and_offset. intros H Hhi.
  destruct (lp_position lps x 0) as [j|] eqn:E.
  - apply lp_position_some in E. rewrite Nat.sub_0_r in E. destruct E as (_ & Hj & Hx & Hall).
    destruct j as [|idx]; [discriminate|].
    destruct (nth_error lps idx) as [p|] eqn:Ep; [|discriminate].
    pose proof (nth_error_lpo _ _ _ Ep) as Ho. inversion H; subst lnk oil. numR.
    exists idx, p. repeat split; auto; try lra.
    specialize (Hall idx ltac:(lia)). lra.
  - destruct (length lps) as [|n] eqn:En; [discriminate|].
    exfalso. pose proof (lp_position_none _ _ _ E n ltac:(lia)).
    replace (S n - 1)%nat with n in Hhi by lia. lra.
Qed.

(* ------------------------------------------------------------------ the kinematic step law *)
(* what one saved row owes the previous one; [raw] is the speed the position was integrated with *)
Definition kin_law (lps : list LinkPtr) (s s' : TState (F:=R)) (raw : R) : Prop :=
  let k := ts_k s in let k' := ts_k s' in
  k_time k' = k_time k + k_dt k' /\
  k_offset k' = k_offset k + k_dt k' * (k_speed k + raw) / 2 /\
  k_total_dist k' = k_total_dist k + Rabs (k_offset k' - k_offset k) /\
  k_offset_back k' = k_offset k' - p_length (ts_p s') /\
  ts_p s' = ts_p s /\
  (k_offset k' <= lpo lps (length lps - 1) ->
   located lps (k_offset k') (k_link_idx_front k') (k_offset_in_link k')).

Lemma half_val : half (F:=R) = / 2.
Proof. unfold half. cbn [nlit R_ops]. unfold Rpow10. change (Pos.to_nat 1) with 1%nat. simpl pow. field. Qed.
Lemma two_val : two (F:=R) = 2. Proof. reflexivity. Qed.
Lemma four_val : four (F:=R) = 4. Proof. reflexivity. Qed.

Definition nthR (l : list R) (i : nat) : R := nth i l 0.
Lemma nth_error_nthR l i v : nth_error l i = Some v -> nthR l i = v.
Proof. intros H. unfold nthR. apply nth_error_nth. exact H. Qed.

(* ---- SetSpeedTrainSim ---- *)
(* everything an accepted solve_step did, in one place (C12 and C14 read it off) *)
Lemma ss_solve_step_facts (e : Envr) times speeds (cl : ConLimr) st c st' c' :
  ss_solve_step e times speeds cl st c = Ok (st', c') ->
  let i := k_i (ts_k st) in
  exists st1 c1,
    strap_update_res (e_grades e) (e_curves e) (e_rp e) st c DFwd = Ok (st1, c1) /\ c' = c1 /\
    (1 <= i)%nat /\ (i < length times)%nat /\ (i < length speeds)%nat /\
    0 <= nthR speeds i /\ 0 <= nthR speeds (i - 1) /\
    let dt := nthR times i - nthR times (i - 1) in
    let mean := (nthR speeds i + nthR speeds (i - 1)) / 2 in
    let ppos := pwr_pos_max_of cl (w_pwr_whl_out (ts_w st)) (k_dt (ts_k st)) in
    let pneg := pwr_neg_max_of cl in
    0 <= ppos /\
    k_time (ts_k st') = nthR times i /\ k_speed (ts_k st') = nthR speeds i /\
    k_dt (ts_k st') = dt /\ k_i (ts_k st') = i /\
    k_offset (ts_k st') = k_offset (ts_k st) + mean * dt /\
    k_total_dist (ts_k st') = k_total_dist (ts_k st) + Rabs (mean * dt) /\
    k_offset_back (ts_k st') = k_offset (ts_k st') - p_length (ts_p st') /\
    ts_p st' = ts_p st /\ ts_r st' = ts_r st1 /\
    set_link_and_offset (e_lps e) (k_offset (ts_k st')) =
      Ok (k_link_idx_front (ts_k st'), k_offset_in_link (ts_k st')) /\
    w_pwr_res (ts_w st') = res_net (ts_r st1) * mean /\
    w_pwr_accel (ts_w st') =
      mass_compound (ts_p st) / (2 * dt) * (nthR speeds i * nthR speeds i - nthR speeds (i - 1) * nthR speeds (i - 1)) /\
    w_pwr_whl_out (ts_w st') = clip (w_pwr_accel (ts_w st') + w_pwr_res (ts_w st')) pneg ppos /\
    w_energy_whl_out (ts_w st') = w_energy_whl_out (ts_w st) + w_pwr_whl_out (ts_w st') * dt /\
    w_energy_whl_out_pos (ts_w st') = w_energy_whl_out_pos (ts_w st) +
        (if Rle_dec 0 (w_pwr_whl_out (ts_w st')) then w_pwr_whl_out (ts_w st') * dt else 0) /\
    w_energy_whl_out_neg (ts_w st') = w_energy_whl_out_neg (ts_w st) -
        (if Rle_dec 0 (w_pwr_whl_out (ts_w st')) then 0 else w_pwr_whl_out (ts_w st') * dt) /\
    k_speed_limit (ts_k st') = k_speed_limit (ts_k st) /\ k_speed_target (ts_k st') = k_speed_target (ts_k st).
Proof.
  unfold ss_solve_step. intros H.
  destruct (nth_error speeds (k_i (ts_k st))) as [v_i|] eqn:Evi; [|discriminate].
  ens H. numR. apply Rleb_true in E.
  destruct (k_i (ts_k st)) as [|im1] eqn:Ei; [discriminate|].
  destruct (nth_error speeds im1) as [v_p|] eqn:Evp; [|discriminate].
  apply bind_ok in H. destruct H as ([] & Evp0 & H). apply ensure_ok in Evp0. numR. apply Rleb_true in Evp0.
  destruct (nth_error times (S im1)) as [t_i|] eqn:Eti; [|discriminate].
  destruct (nth_error times im1) as [t_p|] eqn:Etp; [|discriminate].
  binv H sc1 Hu. destruct sc1 as [st1 c1]. cbv beta iota in H.
  destruct (update_res_frame _ _ _ _ _ _ _ _ Hu) as (Fp & Fw & Ft & Fi & Fo & Fb & Fd & Fl & Foil & Fs & Fsl & Fst & Fdt).
  ens H. numR. apply Rleb_true in E0.
  binv H lo Hl. destruct lo as [lnk oil]. cbv beta iota in H.
  apply ok_pair_inj in H. destruct H as [<- <-].
  exists st1, c1. split; [exact Hu|]. split; [reflexivity|].
  pose proof (nth_error_lt _ _ _ Eti). pose proof (nth_error_lt _ _ _ Evi).
  apply nth_error_nthR in Evi, Eti, Etp, Evp.
  cbn [Nat.sub]. rewrite Nat.sub_0_r. rewrite Evi, Eti, Etp, Evp.
  rewrite Fw, Fdt in E0.
  cbn [ts_k ts_p ts_r ts_w k_time k_speed k_dt k_i k_offset k_total_dist k_offset_back
       k_link_idx_front k_offset_in_link k_speed_limit k_speed_target mk_pw
       w_pwr_res w_pwr_accel w_pwr_whl_out w_energy_whl_out w_energy_whl_out_pos w_energy_whl_out_neg].
  rewrite half_val, two_val, Fp, Fw, Fo, Fd, Fdt, Fsl, Fst, Fi. numR.
  assert (Hm : / 2 * (v_i + v_p) = (v_i + v_p) / 2) by (unfold Rdiv; ring).
  rewrite Hm in *.
  repeat split; auto; try lia; try lra.
  - rewrite Fo, half_val, Hm in Hl. exact Hl.
  - unfold Rleb. destruct (Rle_dec 0 _); ring.
  - unfold Rleb. destruct (Rle_dec 0 _); ring.
Qed.

(* the trace and the state are in step: the state holds the trace's previous sample *)
Definition ss_sync (times speeds : list R) (st : TState (F:=R)) : Prop :=
  let i := k_i (ts_k st) in
  (1 <= i)%nat /\ k_time (ts_k st) = nthR times (i - 1) /\ k_speed (ts_k st) = nthR speeds (i - 1).

Theorem ss_step_kin (e : Envr) times speeds cl st c st' c' :
  ss_sync times speeds st ->
  ss_solve_step e times speeds cl st c = Ok (st', c') ->
  kin_law (e_lps e) st st' (k_speed (ts_k st')) /\ ss_sync times speeds (bump_i st').
Proof.
  intros (Hi & Ht & Hv) H. apply ss_solve_step_facts in H.
  destruct H as (st1 & c1 & _ & _ & Hi1 & Hit & Hiv & Hv0 & Hvp0 & Hpp & Ft & Fs & Fdt & Fi & Fo & Fd & Fb & Fp & _ & Fl & _).
  split.
  - unfold kin_law. cbv zeta. rewrite Ft, Fdt, Fo, Fs, Fd, Ht, Hv. repeat split; auto; try lra.
    + f_equal. f_equal. lra.
    + intros Hle. apply set_link_located; auto. rewrite <- Fo. exact Fl.
  - unfold ss_sync, bump_i. cbn [ts_k k_i k_time k_speed]. rewrite Fi.
    replace (S (k_i (ts_k st)) - 1)%nat with (k_i (ts_k st)) by lia. repeat split; auto; lia.
Qed.

(* ---- SpeedLimitTrainSim ---- *)
Lemma sl_solve_step_kin (e : Envr) pts (cl : ConLimr) (s s' : SLStater) ax :
  sl_solve_step_aux e pts cl s = Ok (s', ax) ->
  kin_law (e_lps e) (sl_st s) (sl_st s') (ax_speed_raw ax) /\
  k_dt (ts_k (sl_st s')) = k_dt (ts_k (sl_st s)) /\
  k_i (ts_k (sl_st s')) = k_i (ts_k (sl_st s)) /\
  (* the saved speed is the integrated speed, or the target it was snapped to (almost_eq 1e-8) *)
  (k_speed (ts_k (sl_st s')) = ax_speed_raw ax \/
   (k_speed (ts_k (sl_st s')) = k_speed_target (ts_k (sl_st s')) /\
    almost_eq (ax_speed_raw ax) (k_speed_target (ts_k (sl_st s'))) eps8 = true)).
Proof.
  unfold sl_solve_step_aux. intros H.
  binv H sc1 Hu. destruct sc1 as [st1 c1]. cbv beta iota in H.
  destruct (update_res_frame _ _ _ _ _ _ _ _ Hu) as (Fp & Fw & Ft & Fi & Fo & Fb & Fd & Fl & Foil & Fs & Fsl & Fst & Fdt).
  ens H. binv H cs Hcs. destruct cs as [[ic slim] stgt]. cbv beta iota in H.
  ens H. ens H. binv H fc Hfc. destruct fc as [f_consist fbf]. cbv beta iota in H.
  ens H. ens H. binv H lo Hl. destruct lo as [lnk oil]. cbv beta iota in H.
  apply ok_pair_inj in H. destruct H as [<- <-].
  cbn [sl_st ts_k ts_p k_time k_speed k_dt k_i k_offset k_total_dist k_offset_back
       k_link_idx_front k_offset_in_link k_speed_limit k_speed_target ax_speed_raw].
  rewrite half_val, Fp, Ft, Fo, Fd, Fdt, Fs, Fi. numR.
  split; [|split; [reflexivity|split; [reflexivity|]]].
  - unfold kin_law. cbn [ts_k ts_p k_time k_speed k_dt k_i k_offset k_total_dist k_offset_back
       k_link_idx_front k_offset_in_link].
    repeat split; auto; try lra.
    + f_equal. f_equal. ring.
    + intros Hle. apply set_link_located; auto. rewrite half_val, Fp, Fo, Fdt, Fs in Hl. exact Hl.
  - match goal with |- context [if ?b then _ else _] => destruct b eqn:Eb end; auto.
Qed.

Theorem sl_step_kin (e : Envr) pts cl (s s' : SLStater) :
  sl_solve_step e pts cl s = Ok s' ->
  exists raw, kin_law (e_lps e) (sl_st s) (sl_st s') raw /\
    (k_speed (ts_k (sl_st s')) = raw \/
     (k_speed (ts_k (sl_st s')) = k_speed_target (ts_k (sl_st s')) /\
      almost_eq raw (k_speed_target (ts_k (sl_st s'))) eps8 = true)).
Proof.
  unfold sl_solve_step. intros H. binv H sa Hs. destruct sa as [s1 ax]. cbv beta iota in H.
  inversion H; subst s1. apply sl_solve_step_kin in Hs. destruct Hs as (K & _ & _ & S).
  exists (ax_speed_raw ax). auto.
Qed.

(* how far the saved speed can be from the integrated one: relative 1e-8 *)
Lemma almost_eq_bound (a b eps : R) : almost_eq a b eps = true -> 0 <= a -> 0 <= b -> 0 < eps ->
  Rabs (b - a) < eps * Rmax 1 (a + b).
Proof.
  unfold almost_eq. numR. intros H Ha Hb He. apply orb_true_iff in H.
  assert (M1 : 1 <= Rmax 1 (a + b)) by apply Rmax_l.
  assert (M2 : a + b <= Rmax 1 (a + b)) by apply Rmax_r.
  destruct H as [H|H]; apply Rltb_true in H.
  - destruct (Req_dec (a + b) 0) as [Z|NZ].
    + assert (a = 0) by lra. assert (b = 0) by lra. subst. replace (0 - 0) with 0 by ring.
      rewrite Rabs_R0. nra.
    + assert (P : 0 < a + b) by lra.
      unfold Rdiv in H. rewrite Rabs_mult, (Rabs_right (/ (a + b))) in H.
      2:{ apply Rle_ge, Rlt_le, Rinv_0_lt_compat, P. }
      assert (Rabs (b - a) < eps * (a + b)).
      { apply (Rmult_lt_compat_r (a + b)) in H; [|exact P].
        rewrite Rmult_assoc, Rinv_l in H by lra. lra. }
      nra.
  - nra.
Qed.

Lemma eps8_valR : eps8 (F:=R) = / 100000000.
Proof. unfold eps8. cbn [nlit R_ops]. unfold Rpow10. change (Pos.to_nat 8) with 8%nat. simpl pow. field_simplify_eq. lra. Qed.

(* C12: position law for the SAVED speed of the speed-limited simulation, with the snap allowance:
   the position was integrated with [raw]; the saved speed differs from [raw] by less than
   1e-8 * max(1, raw + saved) *)
Theorem sl_offset_saved_speed (e : Envr) pts cl (s s' : SLStater) :
  sl_solve_step e pts cl s = Ok s' -> 0 <= k_dt (ts_k (sl_st s')) ->
  exists raw, kin_law (e_lps e) (sl_st s) (sl_st s') raw /\
    let k := ts_k (sl_st s) in let k' := ts_k (sl_st s') in
    (0 <= raw -> 0 <= k_speed_target k' ->
     Rabs (k_offset k' - (k_offset k + k_dt k' * (k_speed k + k_speed k') / 2))
       <= k_dt k' / 2 * (/ 100000000 * Rmax 1 (raw + k_speed k'))).
Proof.
  intros H Hdt. apply sl_step_kin in H. destruct H as (raw & K & S).
  exists raw. split; [exact K|]. cbv zeta. intros Hr Htgt.
  destruct K as (_ & Ko & _). rewrite Ko.
  set (v' := k_speed (ts_k (sl_st s'))) in *. set (dt := k_dt (ts_k (sl_st s'))) in *.
  set (v := k_speed (ts_k (sl_st s))) in *. set (x := k_offset (ts_k (sl_st s))) in *.
  replace (x + dt * (v + raw) / 2 - (x + dt * (v + v') / 2)) with (dt / 2 * (raw - v')) by field.
  rewrite Rabs_mult, (Rabs_right (dt / 2)) by lra.
  apply Rmult_le_compat_l; [lra|].
  assert (M1 : 1 <= Rmax 1 (raw + v')) by apply Rmax_l.
  destruct S as [S|(S & A)].
  - replace (raw - v') with 0 by lra. rewrite Rabs_R0. lra.
  - rewrite <- S in A, Htgt. pose proof (almost_eq_bound _ _ _ A Hr Htgt) as B.
    rewrite eps8_valR in B. specialize (B ltac:(lra)). rewrite Rabs_minus_sym. lra.
Qed.

(* ------------------------------------------------------------------ lifting over whole runs *)
(* every step of every accepted run: the step's law holds between the state before and after *)
Lemma run_each {St Inp : Type} (step : St -> Inp -> res St) (Inv : St -> Prop)
    (Law : St -> Inp -> St -> Prop) :
  (forall s i s', Inv s -> step s i = Ok s' -> Inv s' /\ Law s i s') ->
  forall pre s s' i post, Inv s -> run step s (pre ++ i :: post) = Ok s' ->
    exists m m', run step s pre = Ok m /\ step m i = Ok m' /\ Inv m /\ Law m i m'.
Proof.
  intros Hstep. induction pre as [|j pre IH]; intros s s' i post Hi Hr.
  - cbn in Hr. destruct (step s i) as [m'| |] eqn:E; try discriminate.
    exists s, m'. cbn. destruct (Hstep _ _ _ Hi E). auto.
  - cbn in Hr. destruct (step s j) as [s1| |] eqn:E; try discriminate.
    destruct (Hstep _ _ _ Hi E) as (Hi1 & _).
    destruct (IH _ _ _ _ Hi1 Hr) as (m & m' & R1 & R2 & R3 & R4).
    exists m, m'. cbn. rewrite E. auto.
Qed.

Lemma kin_law_bump lps s s' raw : kin_law lps s s' raw -> kin_law lps s (bump_i s') raw.
Proof. unfold kin_law, bump_i. cbn. auto. Qed.

(* SetSpeedTrainSim: a run is the list of limits the consist published, one per step *)
Definition ss_run_step (e : Envr) (times speeds : list R) (sc : TState (F:=R) * ResCache) (cl : ConLimr) :=
  ss_step e times speeds cl sc.

Theorem ss_every_step_kin (e : Envr) times speeds pre cl post sc sc' :
  ss_sync times speeds (fst sc) ->
  run (ss_run_step e times speeds) sc (pre ++ cl :: post) = Ok sc' ->
  exists m m', run (ss_run_step e times speeds) sc pre = Ok m /\
    ss_run_step e times speeds m cl = Ok m' /\
    kin_law (e_lps e) (fst m) (fst m') (k_speed (ts_k (fst m'))) /\
    (* and the row is the trace's sample *)
    k_time (ts_k (fst m')) = nthR times (k_i (ts_k (fst m))) /\
    k_speed (ts_k (fst m')) = nthR speeds (k_i (ts_k (fst m))).
Proof.
  intros Hs Hr.
  destruct (run_each (ss_run_step e times speeds) (fun sc => ss_sync times speeds (fst sc))
     (fun m _ m' => kin_law (e_lps e) (fst m) (fst m') (k_speed (ts_k (fst m'))) /\
        k_time (ts_k (fst m')) = nthR times (k_i (ts_k (fst m))) /\
        k_speed (ts_k (fst m')) = nthR speeds (k_i (ts_k (fst m))))) with (pre := pre) (s := sc) (s' := sc') (i := cl) (post := post)
    as (m & m' & R1 & R2 & _ & R4); auto.
  - intros s i s' Hi Hst. unfold ss_run_step, ss_step in Hst.
    binv Hst r Hr0. destruct r as [st' c']. cbv beta iota in Hst. inversion Hst; subst s'. cbn [fst].
    pose proof Hr0 as Hf. apply ss_solve_step_facts in Hf.
    destruct Hf as (_ & _ & _ & _ & _ & _ & _ & _ & _ & _ & Ft & Fs & _).
    apply ss_step_kin in Hr0; auto. destruct Hr0 as (K & S).
    split; [exact S|]. split; [apply kin_law_bump in K; exact K|].
    unfold bump_i. cbn [ts_k k_time k_speed]. auto.
  - exists m, m'. auto.
Qed.

(* SpeedLimitTrainSim: the route, the braking points and the consist's limits may change between
   steps (path extension); the kinematic law does not depend on them *)
Definition sl_run_step (s : SLStater) (inp : Envr * list BPr * ConLimr) : res SLStater :=
  sl_step (fst (fst inp)) (snd (fst inp)) (snd inp) s.

Definition sl_row_law (s : SLStater) (inp : Envr * list BPr * ConLimr) (s' : SLStater) : Prop :=
  exists raw, kin_law (e_lps (fst (fst inp))) (sl_st s) (sl_st s') raw /\
    (k_speed (ts_k (sl_st s')) = raw \/
     (k_speed (ts_k (sl_st s')) = k_speed_target (ts_k (sl_st s')) /\
      almost_eq raw (k_speed_target (ts_k (sl_st s'))) eps8 = true)).

Theorem sl_every_step_kin pre inp post (s s' : SLStater) :
  run sl_run_step s (pre ++ inp :: post) = Ok s' ->
  exists m m', run sl_run_step s pre = Ok m /\ sl_run_step m inp = Ok m' /\ sl_row_law m inp m'.
Proof.
  intros Hr.
  destruct (run_each sl_run_step (fun _ => True) sl_row_law) with (pre := pre) (s := s) (s' := s') (i := inp) (post := post)
    as (m & m' & R1 & R2 & _ & R4); auto.
  - intros s0 i s1 _ Hst. split; auto. unfold sl_run_step, sl_step in Hst.
    binv Hst r Hr0. inversion Hst; subst s1. apply sl_step_kin in Hr0.
    destruct Hr0 as (raw & K & S). exists raw. split.
    + unfold sl_bump. cbn [sl_st]. apply kin_law_bump. exact K.
    + unfold sl_bump, bump_i. cbn [sl_st ts_k k_speed k_speed_target]. exact S.
  - exists m, m'. auto.
Qed.

(* ------------------------------------------------------------------ C14: the set-speed row law *)
(* what the row saved by step i of a set-speed run contains, given the limits [cl] the consist
   published for it; [st1] is the state after update_res (it carries the resistance of this step) *)
Definition ss_row_law (times speeds : list R) (cl : ConLimr) (st st' : TState (F:=R)) (res_net_step : R) : Prop :=
  let i := k_i (ts_k st) in
  let dt := nthR times i - nthR times (i - 1) in
  let v_i := nthR speeds i in let v_p := nthR speeds (i - 1) in
  let mean := (v_i + v_p) / 2 in
  (* the traction ceiling: note the ramp term uses the dt stored in the state = the PREVIOUS step's *)
  let ppos := Rmin (cl_pwr_out_max cl) (Rmax 0 (w_pwr_whl_out (ts_w st) + cl_pwr_rate_out_max cl * k_dt (ts_k st))) in
  let pneg := Rmax (cl_pwr_dyn_brake_max cl) 0 in
  let w' := ts_w st' in
  0 <= v_i /\ 0 <= v_p /\ 0 <= ppos /\
  k_time (ts_k st') = nthR times i /\ k_speed (ts_k st') = v_i /\ k_dt (ts_k st') = dt /\
  w_pwr_res w' = res_net_step * mean /\
  w_pwr_accel w' = mass_compound (ts_p st) / (2 * dt) * (v_i * v_i - v_p * v_p) /\
  w_pwr_whl_out w' = Rmin (Rmax (w_pwr_accel w' + w_pwr_res w') (- pneg)) ppos /\
  w_energy_whl_out w' = w_energy_whl_out (ts_w st) + w_pwr_whl_out w' * dt /\
  w_energy_whl_out_pos w' = w_energy_whl_out_pos (ts_w st) +
      (if Rle_dec 0 (w_pwr_whl_out w') then w_pwr_whl_out w' * dt else 0) /\
  w_energy_whl_out_neg w' = w_energy_whl_out_neg (ts_w st) -
      (if Rle_dec 0 (w_pwr_whl_out w') then 0 else w_pwr_whl_out w' * dt).

Theorem ss_step_row (e : Envr) times speeds cl st c st' c' :
  ss_solve_step e times speeds cl st c = Ok (st', c') ->
  exists st1 c1, strap_update_res (e_grades e) (e_curves e) (e_rp e) st c DFwd = Ok (st1, c1) /\
    ts_r st' = ts_r st1 /\ ss_row_law times speeds cl st st' (res_net (ts_r st1)).
Proof.
  intros H. apply ss_solve_step_facts in H.
  destruct H as (st1 & c1 & Hu & _ & Hi1 & Hit & Hiv & Hv0 & Hvp0 & Hpp & Ft & Fs & Fdt & Fi & Fo & Fd & Fb & Fp & Fr & Fl
                 & Fpr & Fpa & Fw & Fe & Fep & Fen & _).
  exists st1, c1. split; [exact Hu|]. split; [exact Fr|].
  unfold ss_row_law. cbv zeta. unfold pwr_pos_max_of, pwr_neg_max_of, clip in *. numR.
  repeat split; auto.
Qed.

(* the clip, spelled out: inside the band the demand passes unchanged *)
Lemma clip_spec (x neg pos : R) : - neg <= pos ->
  (x < - neg -> clip x neg pos = - neg) /\
  (- neg <= x <= pos -> clip x neg pos = x) /\
  (pos < x -> clip x neg pos = pos) /\
  - neg <= clip x neg pos <= pos.
Proof.
  intros H. unfold clip. numR. split; [|split; [|split]].
  - intros L. rewrite Rmax_right by lra. rewrite Rmin_left by lra. reflexivity.
  - intros [L1 L2]. rewrite Rmax_left by lra. rewrite Rmin_left by lra. reflexivity.
  - intros L. rewrite Rmax_left by lra. rewrite Rmin_right by lra. reflexivity.
  - destruct (Rle_dec x (- neg)) as [L|L].
    + rewrite Rmax_right by lra. rewrite Rmin_left by lra. lra.
    + rewrite Rmax_left by lra. destruct (Rle_dec x pos) as [L2|L2].
      * rewrite Rmin_left by lra. lra.
      * rewrite Rmin_right by lra. lra.
Qed.

(* the inertia term is the rate of change of the kinetic energy of the compound mass *)
Lemma accel_is_kinetic_rate (mc dt v_i v_p : R) : dt <> 0 ->
  mc / (2 * dt) * (v_i * v_i - v_p * v_p) = (mc * (v_i * v_i) / 2 - mc * (v_p * v_p) / 2) / dt.
Proof. intros H. field. exact H. Qed.

(* negative samples are rejected: sample i, and (the fix) sample i-1, so also the first sample *)
Theorem ss_negative_rejected (e : Envr) times speeds cl st c :
  let i := k_i (ts_k st) in
  (i < length speeds)%nat -> (1 <= i)%nat -> (nthR speeds i < 0 \/ nthR speeds (i - 1) < 0) ->
  ss_solve_step e times speeds cl st c = Err 1202.
Proof.
  cbv zeta. intros Hl Hi Hneg. unfold ss_solve_step.
  destruct (nth_error speeds (k_i (ts_k st))) as [v_i|] eqn:Evi.
  2:{ apply nth_error_None in Evi. lia. }
  pose proof (nth_error_nthR _ _ _ Evi) as Nv. numR.
  destruct (Rleb_spec 0 v_i) as [L|L]; [|reflexivity]. cbn [ensure bind].
  destruct (k_i (ts_k st)) as [|im1] eqn:Ei; [lia|].
  destruct (nth_error speeds im1) as [v_p|] eqn:Evp.
  2:{ apply nth_error_None in Evp. lia. }
  pose proof (nth_error_nthR _ _ _ Evp) as Np. cbn [Nat.sub] in Hneg. rewrite Nat.sub_0_r in Hneg.
  destruct (Rleb_spec 0 v_p) as [L2|L2]; [|reflexivity]. lra.
Qed.

(* follows_trace over whole runs: the row saved by the n-th step of an accepted run is the trace's
   sample number (i0 + n - 1 + 1); counters advance by one *)
Lemma ss_run_counter (e : Envr) times speeds : forall ins sc sc',
  run (ss_run_step e times speeds) sc ins = Ok sc' ->
  k_i (ts_k (fst sc')) = (k_i (ts_k (fst sc)) + length ins)%nat.
Proof.
  induction ins as [|cl t IH]; intros sc sc' H; cbn in H.
  - inversion H; subst. cbn. lia.
  - destruct (ss_run_step e times speeds sc cl) as [sc1| |] eqn:E; try discriminate.
    apply IH in H. rewrite H. unfold ss_run_step, ss_step in E.
    binv E r Hr0. destruct r as [st' c']. cbv beta iota in E. inversion E; subst sc1.
    apply ss_solve_step_facts in Hr0.
    destruct Hr0 as (_ & _ & _ & _ & _ & _ & _ & _ & _ & _ & _ & _ & _ & Fi & _).
    cbn [fst bump_i ts_k k_i length]. rewrite Fi. lia.
Qed.

Theorem ss_every_step_row (e : Envr) times speeds pre cl post sc sc' :
  run (ss_run_step e times speeds) sc (pre ++ cl :: post) = Ok sc' ->
  exists m m' rn, run (ss_run_step e times speeds) sc pre = Ok m /\
    ss_run_step e times speeds m cl = Ok m' /\
    k_i (ts_k (fst m)) = (k_i (ts_k (fst sc)) + length pre)%nat /\
    ss_row_law times speeds cl (fst m) (fst m') rn /\
    k_time (ts_k (fst m')) = nthR times (k_i (ts_k (fst sc)) + length pre) /\
    k_speed (ts_k (fst m')) = nthR speeds (k_i (ts_k (fst sc)) + length pre).
Proof.
  intros Hr. apply run_prefix in Hr. destruct Hr as (m & R1 & R2).
  cbn [run] in R2. destruct (ss_run_step e times speeds m cl) as [m'| |] eqn:E; try discriminate.
  pose proof (ss_run_counter _ _ _ _ _ _ R1) as Hc.
  pose proof E as E'. unfold ss_run_step, ss_step in E'.
  binv E' r Hr0. destruct r as [st' c']. cbv beta iota in E'. inversion E'; subst m'.
  apply ss_step_row in Hr0. destruct Hr0 as (st1 & c1 & _ & _ & L).
  exists m, (bump_i st', c'), (res_net (ts_r st1)).
  split; [exact R1|]. split; [exact E|]. split; [exact Hc|].
  assert (L' : ss_row_law times speeds cl (fst m) (bump_i st') (res_net (ts_r st1))).
  { unfold ss_row_law, bump_i in *. cbn [ts_k ts_w ts_p k_time k_speed k_dt]. exact L. }
  split; [exact L'|]. cbn [fst]. rewrite <- Hc.
  destruct L' as (_ & _ & _ & Ft & Fs & _). auto.
Qed.

(* the ramp term of step n+1 is computed with the dt of step n (as coded) *)
Theorem ss_ramp_uses_previous_dt (e : Envr) times speeds cl1 cl2 st c st1 c1 st2 c2 :
  ss_solve_step e times speeds cl1 st c = Ok (st1, c1) ->
  ss_solve_step e times speeds cl2 (bump_i st1) c1 = Ok (st2, c2) ->
  let i := k_i (ts_k st) in
  exists rn, ss_row_law times speeds cl2 (bump_i st1) st2 rn /\
    k_dt (ts_k (bump_i st1)) = nthR times i - nthR times (i - 1) /\
    k_dt (ts_k st2) = nthR times (S i) - nthR times i.
Proof.
  intros H1 H2. cbv zeta.
  pose proof (ss_solve_step_facts _ _ _ _ _ _ _ _ H1) as F1.
  destruct F1 as (_ & _ & _ & _ & _ & _ & _ & _ & _ & _ & _ & _ & Fdt1 & Fi1 & _).
  apply ss_step_row in H2. destruct H2 as (sx & cx & _ & _ & L).
  exists (res_net (ts_r sx)). split; [exact L|].
  split; [unfold bump_i; cbn [ts_k k_dt]; exact Fdt1|].
  destruct L as (_ & _ & _ & _ & _ & Fdt2 & _). rewrite Fdt2.
  unfold bump_i. cbn [ts_k k_i]. rewrite Fi1. replace (S (k_i (ts_k st)) - 1)%nat with (k_i (ts_k st)) by lia.
  reflexivity.
Qed.

(* the state a simulation starts from: rear = front - length, front at or beyond one train length *)
Theorem ts_new_rear (length ms mr mf t0 : R) offset0 v0 :
  let st := ts_new length ms mr mf t0 offset0 v0 in
  k_offset_back (ts_k st) = k_offset (ts_k st) - p_length (ts_p st) /\
  length <= k_offset (ts_k st) /\ (forall o, offset0 = Some o -> o <= k_offset (ts_k st)) /\
  k_total_dist (ts_k st) = 0 /\ k_i (ts_k st) = 1%nat /\ 0 <= k_offset_back (ts_k st).
Proof.
  cbv zeta. unfold ts_new. cbn [ts_k ts_p k_offset k_offset_back p_length k_total_dist k_i]. numR.
  destruct offset0 as [o|].
  - pose proof (Rmax_l o length). pose proof (Rmax_r o length).
    repeat split; try lra. intros o' E; inversion E; subst; lra.
  - repeat split; try lra. intros o' E; discriminate.
Qed.
