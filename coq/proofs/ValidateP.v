(* ValidateP.v -- the declarative network rules (NetworkOK) and the proofs that the transcribed
   validation accepts exactly those networks and never panics (C16).
   Generic over the carrier, its NumOps and NumPred: nothing here uses arithmetic, so the
   theorems hold verbatim for binary64 and for the reals. *)
From Coq Require Import List Bool ZArith NArith Arith Lia.
From AltModel Require Import Num Validate.
Import ListNotations.

(* ------------------------------------------------------------------ generic helpers *)
Inductive Adj {A} (R : A -> A -> Prop) : list A -> Prop :=
| Adj_nil : Adj R []
| Adj_one a : Adj R [a]
| Adj_cons a b l : R a b -> Adj R (b :: l) -> Adj R (a :: b :: l).

Lemma adjb_spec {A} (r : A -> A -> bool) (R : A -> A -> Prop) :
  (forall a b, r a b = true <-> R a b) -> forall l, adjb r l = true <-> Adj R l.
Proof. intros H l. induction l as [|a [|b t] IH]; cbn [adjb].
  - split; auto; constructor.
  - split; auto; constructor.
  - rewrite andb_true_iff, H, IH. split.
    + intros [? ?]; constructor; auto.
    + intros X; inversion X; subst; auto. Qed.

(* every adjacent pair, by position *)
Lemma Adj_nth {A} (R : A -> A -> Prop) l :
  Adj R l <-> forall i a b, nth_error l i = Some a -> nth_error l (S i) = Some b -> R a b.
Proof. split.
  - induction 1 as [| |a b l Hab Hl IH]; intros i x y Hx Hy.
    + destruct i; discriminate.
    + destruct i as [|i]; cbn in Hy; [discriminate|destruct i; discriminate].
    + destruct i; cbn in Hx, Hy.
      * inversion Hx; inversion Hy; subst; auto.
      * eapply IH; eauto.
  - induction l as [|a [|b t] IH]; intros H; try constructor.
    + apply (H 0); reflexivity.
    + apply IH. intros i x y Hx Hy. apply (H (S i)); auto. Qed.

Definition FirstIs {A} (l : list A) (P : A -> Prop) : Prop := exists a t, l = a :: t /\ P a.
Definition LastIs {A} (l : list A) (P : A -> Prop) : Prop := exists t a, l = t ++ [a] /\ P a.

Lemma first_res_spec {A} (l : list A) : l <> [] -> exists a, first_res l = Ok a /\ exists t, l = a :: t.
Proof. destruct l as [|a t]; [congruence|]. intros _. exists a. split; [reflexivity|exists t; reflexivity]. Qed.
Lemma last_res_spec {A} (l : list A) : l <> [] -> exists a, last_res l = Ok a /\ exists t, l = t ++ [a].
Proof. induction l as [|x [|y t] IH]; [congruence| |]; intros _.
  - exists x; split; auto. exists []; auto.
  - destruct IH as (a & Ha & t' & Ht); [congruence|]. exists a. split; [exact Ha|].
    exists (x :: t'). rewrite Ht. reflexivity. Qed.

Lemma app_last_inj {A} (t t' : list A) a a' : t ++ [a] = t' ++ [a'] -> a = a'.
Proof. intros H. apply app_inj_tail in H. tauto. Qed.

Lemma FirstIs_iff {A} (a : A) t P : FirstIs (a :: t) P <-> P a.
Proof. split. intros (b & t' & E & H); inversion E; subst; auto. intros; exists a, t; auto. Qed.
Lemma LastIs_iff {A} (t : list A) a P : LastIs (t ++ [a]) P <-> P a.
Proof. split. intros (t' & b & E & H). apply app_last_inj in E; subst; auto. intros; exists t, a; auto. Qed.

Lemma FirstIs_of {A} (l : list A) a t P : l = a :: t -> (FirstIs l P <-> P a).
Proof. intros ->. apply FirstIs_iff. Qed.
Lemma LastIs_of {A} (l : list A) t a P : l = t ++ [a] -> (LastIs l P <-> P a).
Proof. intros ->. apply LastIs_iff. Qed.

Lemma is_nil_true {A} (l : list A) : is_nil l = true <-> l = [].
Proof. destruct l; cbn; split; congruence. Qed.
Lemma is_nil_false {A} (l : list A) : is_nil l = false <-> l <> [].
Proof. destruct l; cbn; split; congruence. Qed.

Lemma forallb_Forall {A} (f : A -> bool) (P : A -> Prop) :
  (forall a, f a = true <-> P a) -> forall l, forallb f l = true <-> Forall P l.
Proof. intros H l. rewrite forallb_forall, Forall_forall. split; intros X a Ha; apply H; auto. Qed.

Lemma negb_true {b} : negb b = true <-> b <> true.
Proof. destruct b; cbn; split; congruence. Qed.

Section Spec.
  Context {F : Type} {NO : NumOps F} (NP : NumPred F).

  (* the comparison atoms, as the code evaluates them (at the reals: <=, <, =; see atoms_R) *)
  Definition le (a b : F) : Prop := nleb a b = true.
  Definition lt (a b : F) : Prop := nltb a b = true.
  Definition eq (a b : F) : Prop := neqb a b = true.
  Definition fin (a : F) : Prop := np_fin NP a = true.

  Notation Elev := (Elev (F:=F)). Notation Heading := (Heading (F:=F)).
  Notation SpeedLimit := (SpeedLimit (F:=F)). Notation SpeedParam := (SpeedParam (F:=F)).
  Notation SpeedSet := (SpeedSet (F:=F)). Notation CatLimit := (CatLimit (F:=F)).
  Notation Link := (Link (F:=F)).

  (* ---------------------------------------------------------------- the documented rules *)
  Definition ElevOK (e : Elev) := le n0 (el_off e) /\ fin (el_elev e).
  (* at least two points, offsets strictly increasing *)
  Definition ElevsOK (l : list Elev) :=
    Forall ElevOK l /\ 2 <= length l /\ Adj (fun a b => lt (el_off a) (el_off b)) l.

  Definition HeadingOK (h : Heading) :=
    le n0 (hd_off h) /\ le n0 (hd_heading h) /\ ~ le (np_rev NP) (hd_heading h).
  Definition HeadingsOK (l : list Heading) :=
    l = [] \/ (Forall HeadingOK l /\ 2 <= length l /\ Adj (fun a b => lt (hd_off a) (hd_off b)) l).

  Definition SpeedLimitOK (s : SpeedLimit) :=
    le n0 (sl_start s) /\ le n0 (sl_end s) /\ eq (sl_speed s) (sl_speed s) /\ ~ lt (sl_end s) (sl_start s).
  (* lexicographic (start, end, speed) order *)
  Definition LexLe (a b : SpeedLimit) :=
    lt (sl_start a) (sl_start b) \/
    (eq (sl_start a) (sl_start b) /\
     (lt (sl_end a) (sl_end b) \/ (eq (sl_end a) (sl_end b) /\ le (sl_speed a) (sl_speed b)))).
  Definition SpeedLimitsOK (l : list SpeedLimit) :=
    Forall SpeedLimitOK l /\
    Adj (fun a b => ~ (eq (sl_start a) (sl_start b) /\ eq (sl_end a) (sl_end b))) l /\
    Adj LexLe l.

  Definition SpeedParamOK (p : SpeedParam) :=
    le n0 (sp_val p) /\ (sp_type p = 5%Z -> np_int NP (sp_val p) = true).
  Definition ParamEq (a b : SpeedParam) :=
    eq (sp_val a) (sp_val b) /\ sp_type a = sp_type b /\ sp_cmp a = sp_cmp b.
  Definition SpeedParamsOK (l : list SpeedParam) :=
    Forall SpeedParamOK l /\ Adj (fun a b => ~ ParamEq a b) l.

  Definition SpeedSetOK (s : SpeedSet) :=
    ss_limits s <> [] /\ SpeedLimitsOK (ss_limits s) /\ SpeedParamsOK (ss_params s).

  Definition CatOK (c : CatLimit) :=
    le n0 (cp_start c) /\ le n0 (cp_end c) /\ le n0 (cp_power c) /\ ~ lt (cp_end c) (cp_start c).
  (* sections in order and non-overlapping: the next one does not start before this one ends *)
  Definition CatsOK (l : list CatLimit) :=
    Forall CatOK l /\ Adj (fun a b => ~ lt (cp_start b) (cp_end a)) l.

  (* exactly one of speed_sets (non-empty map) / speed_set is given, and it is well-formed *)
  Definition SpeedOK (l : Link) :=
    (lk_speed_sets l <> [] /\ Forall (fun kv => SpeedSetOK (snd kv)) (lk_speed_sets l) /\ lk_speed_set l = None) \/
    (lk_speed_sets l = [] /\ exists s, lk_speed_set l = Some s /\ SpeedSetOK s).

  Definition RealLinkOK (l : Link) :=
    lk_curr l <> 0%N /\
    lt n0 (lk_length l) /\
    ElevsOK (lk_elevs l) /\ HeadingsOK (lk_headings l) /\ SpeedOK l /\ CatsOK (lk_cat l) /\
    (* the reverse-direction link is none of the link's own references *)
    (lk_flip l <> 0%N -> lk_curr l <> lk_flip l /\ lk_next l <> lk_flip l /\ lk_next_alt l <> lk_flip l /\
                         lk_prev l <> lk_flip l /\ lk_prev_alt l <> lk_flip l) /\
    (* alternates only with primaries *)
    (lk_next_alt l <> 0%N -> lk_next l <> 0%N) /\ (lk_prev_alt l <> 0%N -> lk_prev l <> 0%N) /\
    (* profiles span exactly the segment *)
    FirstIs (lk_elevs l) (fun e => eq (el_off e) n0) /\
    LastIs (lk_elevs l) (fun e => eq (el_off e) (lk_length l)) /\
    (lk_headings l <> [] -> FirstIs (lk_headings l) (fun h => eq (hd_off h) n0) /\
                            LastIs (lk_headings l) (fun h => eq (hd_off h) (lk_length l))) /\
    (lk_cat l <> [] -> FirstIs (lk_cat l) (fun c => ~ lt (cp_start c) n0) /\
                       LastIs (lk_cat l) (fun c => ~ lt (lk_length l) (cp_end c))).

  (* the dummy first entry *)
  Definition FakeLinkOK (l : Link) :=
    lk_next l = 0%N /\ lk_next_alt l = 0%N /\ lk_prev l = 0%N /\ lk_prev_alt l = 0%N /\
    lk_curr l = 0%N /\ lk_flip l = 0%N /\ eq (lk_length l) n0 /\
    lk_elevs l = [] /\ lk_headings l = [] /\ lk_speed_sets l = [] /\
    (forall s, lk_speed_set l = Some s -> ss_limits s = [] /\ ss_params s = [] /\ ss_head s = false) /\
    lk_cat l = [].

  Definition at_ (n : list Link) (i : N) : option Link := nth_error n (N.to_nat i).
  Definition InRange (n : list Link) (i : N) : Prop := (i < N.of_nat (length n))%N.
  Definition RefsInRange (n : list Link) (l : Link) : Prop :=
    InRange n (lk_flip l) /\ InRange n (lk_next l) /\ InRange n (lk_next_alt l) /\
    InRange n (lk_prev l) /\ InRange n (lk_prev_alt l) /\ Forall (InRange n) (lk_lockout l).

  Definition LinkedPrev (t : Link) (i : N) := lk_curr t = 0%N \/ lk_prev t = i \/ lk_prev_alt t = i.
  Definition LinkedNext (t : Link) (i : N) := lk_curr t = 0%N \/ lk_next t = i \/ lk_next_alt t = i.

  (* the whole-network rules for the link l stored at position idx >= 1 *)
  Definition CrossOK (n : list Link) (idx : nat) (l : Link) :=
    (* indices equal positions *)
    lk_curr l = N.of_nat idx /\
    lk_flip l <> lk_curr l /\
    (* reverse-direction pairs point at each other *)
    (lk_flip l <> 0%N -> forall f, at_ n (lk_flip l) = Some f -> lk_flip f = lk_curr l) /\
    (* every next reference is reciprocated; no coincident switch points *)
    (lk_next l <> 0%N -> forall t, at_ n (lk_next l) = Some t \/ at_ n (lk_next_alt l) = Some t ->
        LinkedPrev t (lk_curr l) /\ ~ (lk_next_alt l <> 0%N /\ lk_prev_alt t <> 0%N)) /\
    (lk_next l = 0%N -> lk_next_alt l = 0%N) /\
    (lk_prev l <> 0%N -> forall t, at_ n (lk_prev l) = Some t \/ at_ n (lk_prev_alt l) = Some t ->
        LinkedNext t (lk_curr l) /\ ~ (lk_prev_alt l <> 0%N /\ lk_next_alt t <> 0%N)) /\
    (lk_prev l = 0%N -> lk_prev_alt l = 0%N).

  Definition NetworkOK (n : list Link) : Prop :=
    exists l0 l1 rest, n = l0 :: l1 :: rest /\
      FakeLinkOK l0 /\ Forall RealLinkOK (l1 :: rest) /\
      Forall (RefsInRange n) n /\
      forall idx l, nth_error n idx = Some l -> 1 <= idx -> CrossOK n idx l.

  (* ---------------------------------------------------------------- reflection, leaves *)
  Ltac br := repeat (rewrite ?andb_true_iff, ?orb_true_iff, ?negb_true, ?N.eqb_eq, ?Z.eqb_eq, ?Nat.leb_le,
                             ?is_nil_true in *).

  Lemma elev_ok_spec e : elev_ok NP e = true <-> ElevOK e.
  Proof. unfold elev_ok, ElevOK, gez, le, fin. br. tauto. Qed.
  Lemma elevs_ok_spec l : (negb (is_nil l) && elevs_ok NP l) = true <-> ElevsOK l.
  Proof. unfold elevs_ok, ElevsOK. destruct l as [|a t].
    - cbn. split; [discriminate|]. intros (_ & H & _). cbn in H. lia.
    - cbn [is_nil negb andb]. br.
      rewrite (forallb_Forall _ _ elev_ok_spec), (adjb_spec _ (fun a b => lt (el_off a) (el_off b))) by (intros; reflexivity).
      tauto. Qed.

  Lemma heading_ok_spec h : heading_ok NP h = true <-> HeadingOK h.
  Proof. unfold heading_ok, HeadingOK, gez, le. br. tauto. Qed.
  Lemma headings_ok_spec l : (if is_nil l then true else headings_ok NP l) = true <-> HeadingsOK l.
  Proof. unfold headings_ok, HeadingsOK. destruct l as [|a t].
    - cbn. tauto.
    - cbn [is_nil]. br.
      rewrite (forallb_Forall _ _ heading_ok_spec), (adjb_spec _ (fun a b => lt (hd_off a) (hd_off b))) by (intros; reflexivity).
      split; [intros; right; tauto|]. intros [?|?]; [discriminate|tauto]. Qed.

  Lemma speed_limit_ok_spec s : speed_limit_ok s = true <-> SpeedLimitOK s.
  Proof. unfold speed_limit_ok, SpeedLimitOK, gez, not_nan, le, eq, lt. br. tauto. Qed.
  Lemma speed_limit_le_spec a b : speed_limit_le a b = true <-> LexLe a b.
  Proof. unfold speed_limit_le, LexLe, lt, eq, le.
    destruct (nltb (sl_start a) (sl_start b)); [tauto|].
    destruct (neqb (sl_start a) (sl_start b)); [|split; [discriminate|intros [?|[? _]]; discriminate]].
    destruct (nltb (sl_end a) (sl_end b)); [tauto|].
    destruct (neqb (sl_end a) (sl_end b)).
    - split; [intros; right; split; auto|]. intros [?|[_ [?|[_ ?]]]]; try discriminate; auto.
    - split; [discriminate|]. intros [?|[_ [?|[? _]]]]; discriminate. Qed.
  Lemma speed_limits_ok_spec l : l <> [] -> speed_limits_ok l = true <-> SpeedLimitsOK l.
  Proof. intros Hl. unfold speed_limits_ok, SpeedLimitsOK. apply is_nil_false in Hl. rewrite Hl.
    rewrite <- (forallb_Forall _ _ speed_limit_ok_spec).
    destruct (forallb speed_limit_ok l); cbn [negb].
    - br. rewrite (adjb_spec _ LexLe speed_limit_le_spec).
      rewrite (adjb_spec _ (fun a b => ~ (eq (sl_start a) (sl_start b) /\ eq (sl_end a) (sl_end b)))).
      tauto. intros a b. unfold eq. br. tauto.
    - split; [discriminate|]. intros (H & _); discriminate. Qed.

  Lemma speed_param_ok_spec p : speed_param_ok NP p = true <-> SpeedParamOK p.
  Proof. unfold speed_param_ok, SpeedParamOK, le. rewrite andb_true_iff.
    destruct (Z.eqb_spec (sp_type p) 5) as [E|E]; destruct (np_int NP (sp_val p)); cbn; intuition congruence. Qed.
  Lemma speed_param_eq_spec a b : speed_param_eq a b = true <-> ParamEq a b.
  Proof. unfold speed_param_eq, ParamEq, eq. br. tauto. Qed.
  Lemma speed_params_ok_spec l : speed_params_ok NP l = true <-> SpeedParamsOK l.
  Proof. unfold speed_params_ok, SpeedParamsOK. rewrite <- (forallb_Forall _ _ speed_param_ok_spec).
    destruct (forallb (speed_param_ok NP) l); cbn [negb].
    - rewrite (adjb_spec _ (fun a b => ~ ParamEq a b)). tauto.
      intros a b. br. rewrite speed_param_eq_spec. tauto.
    - split; [discriminate|]. intros (H & _); discriminate. Qed.

  Lemma speed_set_real_ok_spec s : speed_set_real_ok NP s = true <-> SpeedSetOK s.
  Proof. unfold speed_set_real_ok, speed_set_ok, speed_set_fake, SpeedSetOK.
    destruct (ss_limits s) as [|a t] eqn:E; cbn [is_nil negb andb].
    - split; [discriminate|]. intros (H & _); congruence.
    - rewrite andb_true_iff, speed_limits_ok_spec, speed_params_ok_spec by congruence.
      split; [intros; split; [congruence|tauto]|tauto]. Qed.

  Lemma cat_ok_spec c : cat_ok c = true <-> CatOK c.
  Proof. unfold cat_ok, CatOK, gez, le, lt. br. tauto. Qed.
  Lemma cats_ok_spec l : cats_ok true l = true <-> CatsOK l.
  Proof. unfold cats_ok, CatsOK. rewrite <- (forallb_Forall _ _ cat_ok_spec).
    destruct (forallb cat_ok l); cbn [negb].
    - rewrite (adjb_spec _ (fun a b => ~ lt (cp_start b) (cp_end a))). tauto.
      intros a b. unfold cat_pair_bad, lt. br. tauto.
    - split; [discriminate|]. intros (H & _); discriminate. Qed.

  (* ---------------------------------------------------------------- one link *)
  Lemma nz_true i : nz i = true <-> i <> 0%N.
  Proof. unfold nz. br. tauto. Qed.
  Lemma nz_false i : nz i = false <-> i = 0%N.
  Proof. unfold nz. destruct (N.eqb_spec i 0); cbn; split; congruence. Qed.

  Lemma link_fake_ok_spec l : link_fake_ok NP l = true <-> FakeLinkOK l.
  Proof. unfold link_fake_ok, FakeLinkOK, eqz, eq. br.
    assert (match lk_speed_set l with None => true | Some s => speed_set_fake s && speed_set_ok NP s end = true
            <-> forall s, lk_speed_set l = Some s -> ss_limits s = [] /\ ss_params s = [] /\ ss_head s = false) as X.
    { destruct (lk_speed_set l) as [s|].
      - unfold speed_set_ok, speed_set_fake. split.
        + intros H s' E; inversion E; subst s'. destruct (ss_limits s); cbn in H; [|discriminate].
          br. destruct (ss_head s); intuition congruence.
        + intros H. destruct (H s eq_refl) as (E1 & E2 & E3). rewrite E1, E2, E3. reflexivity.
      - split; [intros _ s E; discriminate|auto]. }
    rewrite X. tauto. Qed.

  Lemma speed_part_spec l :
    (if negb (is_nil (lk_speed_sets l)) then
       forallb (fun kv => speed_set_real_ok NP (snd kv)) (lk_speed_sets l) &&
       match lk_speed_set l with Some _ => false | None => true end
     else match lk_speed_set l with Some s => speed_set_real_ok NP s | None => false end) = true
    <-> SpeedOK l.
  Proof. unfold SpeedOK. destruct (lk_speed_sets l) as [|kv t] eqn:E; cbn [is_nil negb].
    - destruct (lk_speed_set l) as [s|].
      + rewrite speed_set_real_ok_spec. split.
        * intros H; right; split; auto. exists s; auto.
        * intros [[H _]|[_ (s' & Es & H)]]; [congruence|]. inversion Es; subst; auto.
      + split; [discriminate|]. intros [[H _]|[_ (s' & Es & _)]]; congruence.
    - rewrite andb_true_iff.
      rewrite (forallb_Forall _ (fun kv => SpeedSetOK (snd kv))) by (intros; apply speed_set_real_ok_spec).
      destruct (lk_speed_set l); split.
      + intros [_ ?]; discriminate.
      + intros [(_ & _ & ?)|[? _]]; discriminate.
      + intros [H _]; left; repeat split; auto; congruence.
      + intros [(_ & H & _)|[? _]]; [auto|discriminate]. Qed.

  (* block A implies the unwraps of block B cannot fail, and block B decides the rest *)
  Lemma link_real_b_spec l :
    lk_elevs l <> [] ->
    exists b, link_real_b l = Ok b /\
      (b = true <->
       (lk_flip l <> 0%N -> lk_curr l <> lk_flip l /\ lk_next l <> lk_flip l /\ lk_next_alt l <> lk_flip l /\
                            lk_prev l <> lk_flip l /\ lk_prev_alt l <> lk_flip l) /\
       (lk_next_alt l <> 0%N -> lk_next l <> 0%N) /\ (lk_prev_alt l <> 0%N -> lk_prev l <> 0%N) /\
       FirstIs (lk_elevs l) (fun e => eq (el_off e) n0) /\
       LastIs (lk_elevs l) (fun e => eq (el_off e) (lk_length l)) /\
       (lk_headings l <> [] -> FirstIs (lk_headings l) (fun h => eq (hd_off h) n0) /\
                               LastIs (lk_headings l) (fun h => eq (hd_off h) (lk_length l))) /\
       (lk_cat l <> [] -> FirstIs (lk_cat l) (fun c => ~ lt (cp_start c) n0) /\
                          LastIs (lk_cat l) (fun c => ~ lt (lk_length l) (cp_end c)))).
  Proof. intros He. unfold link_real_b.
    destruct (first_res_spec _ He) as (e0 & -> & te & Ee0).
    destruct (last_res_spec _ He) as (e1 & -> & te1 & Ee1). cbn [bind].
    (* headings *)
    set (hs := lk_headings l). set (cs := lk_cat l).
    assert (exists hb, (if is_nil hs then Ok true else
                let? h0 := first_res hs in let? h1 := last_res hs in
                Ok (neqb (hd_off h0) n0 && neqb (hd_off h1) (lk_length l))) = Ok hb /\
              (hb = true <-> (hs <> [] -> FirstIs hs (fun h => eq (hd_off h) n0) /\
                                          LastIs hs (fun h => eq (hd_off h) (lk_length l))))) as (hb & -> & Hhb).
    { destruct hs as [|h t] eqn:Eh.
      - exists true; split; auto. split; auto. intros _ H; congruence.
      - cbn [is_nil]. assert (h :: t <> []) as Hn by congruence.
        destruct (first_res_spec _ Hn) as (h0 & -> & th & Eh0).
        destruct (last_res_spec _ Hn) as (h1 & -> & th1 & Eh1). cbn [bind].
        eexists; split; [reflexivity|]. rewrite andb_true_iff.
        rewrite (FirstIs_of _ _ _ _ Eh0), (LastIs_of _ _ _ _ Eh1). unfold eq.
        split; [tauto|]. intros H; apply H. congruence. }
    assert (exists cb, (if is_nil cs then Ok true else
                let? c0 := first_res cs in let? c1 := last_res cs in
                Ok (negb (nltb (cp_start c0) n0) && negb (nltb (lk_length l) (cp_end c1)))) = Ok cb /\
              (cb = true <-> (cs <> [] -> FirstIs cs (fun c => ~ lt (cp_start c) n0) /\
                                          LastIs cs (fun c => ~ lt (lk_length l) (cp_end c))))) as (cb & -> & Hcb).
    { destruct cs as [|c t] eqn:Ec.
      - exists true; split; auto. split; auto. intros _ H; congruence.
      - cbn [is_nil]. assert (c :: t <> []) as Hn by congruence.
        destruct (first_res_spec _ Hn) as (c0 & -> & tc & Ec0).
        destruct (last_res_spec _ Hn) as (c1 & -> & tc1 & Ec1). cbn [bind].
        eexists; split; [reflexivity|]. rewrite andb_true_iff, !negb_true.
        rewrite (FirstIs_of _ _ _ _ Ec0), (LastIs_of _ _ _ _ Ec1). unfold lt.
        split; [tauto|]. intros H; apply H. congruence. }
    cbn [bind]. eexists; split; [reflexivity|].
    rewrite !andb_true_iff, Hhb, Hcb. rewrite (FirstIs_of _ _ _ _ Ee0), (LastIs_of _ _ _ _ Ee1).
    unfold eq.
    assert ((if nz (lk_flip l) then
        negb (lk_curr l =? lk_flip l)%N && negb (lk_next l =? lk_flip l)%N &&
        negb (lk_next_alt l =? lk_flip l)%N && negb (lk_prev l =? lk_flip l)%N &&
        negb (lk_prev_alt l =? lk_flip l)%N else true) = true <->
       (lk_flip l <> 0%N -> lk_curr l <> lk_flip l /\ lk_next l <> lk_flip l /\ lk_next_alt l <> lk_flip l /\
                            lk_prev l <> lk_flip l /\ lk_prev_alt l <> lk_flip l)) as ->.
    { destruct (nz (lk_flip l)) eqn:Ez.
      - apply nz_true in Ez. br. tauto.
      - apply nz_false in Ez. split; auto. intros _ H; congruence. }
    assert (forall x y, negb (nz x && negb (nz y)) = true <-> (x <> 0%N -> y <> 0%N)) as X.
    { intros x y. rewrite negb_true, andb_true_iff, negb_true, !nz_true.
      destruct (N.eq_dec y 0); tauto. }
    rewrite !X. tauto. Qed.

  Definition LinkOK (l : Link) : Prop :=
    (lk_curr l = 0%N /\ FakeLinkOK l) \/ RealLinkOK l.

  Lemma validate_link_spec l :
    exists b, validate_link NP true l = Ok b /\ (b = true <-> LinkOK l).
  Proof. unfold validate_link, link_fake, LinkOK.
    destruct (N.eqb_spec (lk_curr l) 0) as [Ec|Ec].
    - eexists; split; [reflexivity|]. rewrite link_fake_ok_spec. split; [tauto|].
      intros [[_ H]|H]; auto. destruct H as (H & _); congruence.
    - destruct (link_real_a NP true l) eqn:Ea; cbn [negb].
      + unfold link_real_a in Ea.
        apply andb_true_iff in Ea; destruct Ea as [Ea Hcat]. apply andb_true_iff in Ea; destruct Ea as [Ea Hsp].
        apply andb_true_iff in Ea; destruct Ea as [Ea Hhd]. apply andb_true_iff in Ea; destruct Ea as [Hlen Hel].
        apply elevs_ok_spec in Hel. apply headings_ok_spec in Hhd. apply speed_part_spec in Hsp.
        apply cats_ok_spec in Hcat.
        assert (lk_elevs l <> []) as Hne.
        { destruct Hel as (_ & H & _). destruct (lk_elevs l); cbn in H; [lia|congruence]. }
        destruct (link_real_b_spec l Hne) as (b & -> & Hb). exists b; split; auto.
        rewrite Hb. unfold RealLinkOK, gtz in *. split.
        * intros H; right. unfold lt. tauto.
        * intros [[H _]|H]; [congruence|tauto].
      + exists false; split; auto. split; [discriminate|].
        intros [[H _]|H]; [congruence|]. exfalso.
        destruct H as (_ & Hlen & Hel & Hhd & Hsp & Hcat & _).
        apply elevs_ok_spec in Hel. apply headings_ok_spec in Hhd. apply speed_part_spec in Hsp.
        apply cats_ok_spec in Hcat. unfold link_real_a, gtz in Ea. unfold lt in Hlen.
        rewrite Hlen, Hel, Hhd, Hsp, Hcat in Ea. discriminate. Qed.

  (* ---------------------------------------------------------------- the network *)
  Lemma all_res_spec {A} (f : nat -> A -> res bool) (P : nat -> A -> Prop) :
    forall l k, (forall j x, nth_error l j = Some x -> exists b, f (k + j) x = Ok b /\ (b = true <-> P (k + j) x)) ->
    exists b, all_res f k l = Ok b /\ (b = true <-> forall j x, nth_error l j = Some x -> P (k + j) x).
  Proof. induction l as [|x t IH]; intros k H; cbn [all_res].
    - exists true; split; auto. split; auto. intros _ j y E; destruct j; discriminate.
    - destruct (H 0 x eq_refl) as (b & Hb & Pb). rewrite Nat.add_0_r in Hb, Pb. rewrite Hb; cbn [bind].
      destruct (IH (S k)) as (r & Hr & Pr).
      { intros j y E. specialize (H (S j) y E). rewrite Nat.add_succ_r in H. exact H. }
      rewrite Hr; cbn [bind]. eexists; split; [reflexivity|].
      rewrite andb_true_iff, Pb, Pr. split.
      + intros [H0 H1] j y E. destruct j; cbn in E.
        * inversion E; subst. rewrite Nat.add_0_r; auto.
        * rewrite Nat.add_succ_r. apply (H1 j y E).
      + intros HH. split.
        * specialize (HH 0 x eq_refl). rewrite Nat.add_0_r in HH. auto.
        * intros j y E. specialize (HH (S j) y E). rewrite Nat.add_succ_r in HH. auto. Qed.

  Lemma get_ok n i : InRange n i -> exists t, get n i = Ok t /\ at_ n i = Some t.
  Proof. unfold InRange, get, at_, len_N. intros H.
    destruct (N.ltb_spec i (N.of_nat (length n))); [|lia].
    destruct (nth_error n (N.to_nat i)) eqn:E; eauto.
    apply nth_error_None in E. lia. Qed.

  Lemma refs_in_range_spec n l : refs_in_range n l = true <-> RefsInRange n l.
  Proof. unfold refs_in_range, RefsInRange.
    rewrite (forallb_Forall _ (InRange n)) by (intros; unfold InRange, len_N; apply N.ltb_lt).
    rewrite Forall_app. split.
    - intros [H ?]. repeat (inversion H as [|? ? ? H']; subst; clear H; rename H' into H). tauto.
    - intros (?&?&?&?&?&?). split; auto. repeat constructor; auto. Qed.

  Lemma linked_prev_spec t i : linked_prev t i = true <-> LinkedPrev t i.
  Proof. unfold linked_prev, LinkedPrev. br. tauto. Qed.
  Lemma linked_next_spec t i : linked_next t i = true <-> LinkedNext t i.
  Proof. unfold linked_next, LinkedNext. br. tauto. Qed.

  Lemma cross_link_spec n idx l : RefsInRange n l ->
    exists b, cross_link n idx l = Ok b /\ (b = true <-> CrossOK n idx l).
  Proof. intros (Rf & Rn & Rna & Rp & Rpa & _). unfold cross_link, CrossOK.
    destruct (get_ok _ _ Rf) as (tf & Gf & Af). destruct (get_ok _ _ Rn) as (tn & Gn & An).
    destruct (get_ok _ _ Rna) as (tna & Gna & Ana). destruct (get_ok _ _ Rp) as (tp & Gp & Ap).
    destruct (get_ok _ _ Rpa) as (tpa & Gpa & Apa).
    rewrite Gf, Gn, Gna, Gp, Gpa. cbn [bind].
    (* c3 *)
    assert (exists c3, (if nz (lk_flip l) then Ok (lk_flip tf =? lk_curr l)%N else Ok true) = Ok c3 /\
            (c3 = true <-> (lk_flip l <> 0%N -> forall f, at_ n (lk_flip l) = Some f -> lk_flip f = lk_curr l)))
      as (c3 & -> & H3).
    { destruct (nz (lk_flip l)) eqn:Ez.
      - apply nz_true in Ez. eexists; split; [reflexivity|]. rewrite N.eqb_eq. split.
        + intros E _ f Hf. rewrite Af in Hf. inversion Hf; subst; auto.
        + intros H; apply (H Ez tf Af).
      - apply nz_false in Ez. exists true; split; auto. split; auto. intros _ H; congruence. }
    assert (exists c4, (if nz (lk_next l) then
                Ok (linked_prev tn (lk_curr l) && negb (nz (lk_next_alt l) && nz (lk_prev_alt tn)) &&
                    linked_prev tna (lk_curr l) && negb (nz (lk_next_alt l) && nz (lk_prev_alt tna)))
              else Ok (negb (nz (lk_next_alt l)))) = Ok c4 /\
            (c4 = true <->
              (lk_next l <> 0%N -> forall t, at_ n (lk_next l) = Some t \/ at_ n (lk_next_alt l) = Some t ->
                 LinkedPrev t (lk_curr l) /\ ~ (lk_next_alt l <> 0%N /\ lk_prev_alt t <> 0%N)) /\
              (lk_next l = 0%N -> lk_next_alt l = 0%N))) as (c4 & -> & H4).
    { destruct (nz (lk_next l)) eqn:Ez.
      - apply nz_true in Ez. eexists; split; [reflexivity|].
        rewrite !andb_true_iff, !negb_true, !andb_true_iff, !nz_true, !linked_prev_spec. split.
        + intros (((L1 & N1) & L2) & N2). split; [|congruence].
          intros _ t [Ht|Ht]; [rewrite An in Ht|rewrite Ana in Ht]; inversion Ht; subst; auto.
        + intros [H _]. destruct (H Ez tn (or_introl An)), (H Ez tna (or_intror Ana)). tauto.
      - apply nz_false in Ez. eexists; split; [reflexivity|]. rewrite negb_true, nz_true. split.
        + intros H. split; [congruence|]. intros _. destruct (N.eq_dec (lk_next_alt l) 0); tauto.
        + intros [_ H]. rewrite (H Ez). congruence. }
    assert (exists c5, (if nz (lk_prev l) then
                Ok (linked_next tp (lk_curr l) && negb (nz (lk_prev_alt l) && nz (lk_next_alt tp)) &&
                    linked_next tpa (lk_curr l) && negb (nz (lk_prev_alt l) && nz (lk_next_alt tpa)))
              else Ok (negb (nz (lk_prev_alt l)))) = Ok c5 /\
            (c5 = true <->
              (lk_prev l <> 0%N -> forall t, at_ n (lk_prev l) = Some t \/ at_ n (lk_prev_alt l) = Some t ->
                 LinkedNext t (lk_curr l) /\ ~ (lk_prev_alt l <> 0%N /\ lk_next_alt t <> 0%N)) /\
              (lk_prev l = 0%N -> lk_prev_alt l = 0%N))) as (c5 & -> & H5).
    { destruct (nz (lk_prev l)) eqn:Ez.
      - apply nz_true in Ez. eexists; split; [reflexivity|].
        rewrite !andb_true_iff, !negb_true, !andb_true_iff, !nz_true, !linked_next_spec. split.
        + intros (((L1 & N1) & L2) & N2). split; [|congruence].
          intros _ t [Ht|Ht]; [rewrite Ap in Ht|rewrite Apa in Ht]; inversion Ht; subst; auto.
        + intros [H _]. destruct (H Ez tp (or_introl Ap)), (H Ez tpa (or_intror Apa)). tauto.
      - apply nz_false in Ez. eexists; split; [reflexivity|]. rewrite negb_true, nz_true. split.
        + intros H. split; [congruence|]. intros _. destruct (N.eq_dec (lk_prev_alt l) 0); tauto.
        + intros [_ H]. rewrite (H Ez). congruence. }
    cbn [bind]. eexists; split; [reflexivity|].
    rewrite !andb_true_iff, H3, H4, H5, negb_true, !N.eqb_eq. tauto. Qed.

  (* the main reflection theorem, with totality built in *)
  Theorem validate_network_spec n :
    (validate_network NP true n = Ok tt <-> NetworkOK n) /\
    (validate_network NP true n = Ok tt \/ validate_network NP true n = Err ERR_VALIDATION).
  Proof. unfold validate_network.
    destruct n as [|l0 [|l1 rest]].
    - split; [|auto]. split; [discriminate|]. intros (?&?&?&E&_); discriminate.
    - split; [|auto]. split; [discriminate|]. intros (?&?&?&E&_); discriminate.
    - set (n := l0 :: l1 :: rest).
      destruct (validate_link_spec l0) as (v0 & -> & H0). cbn [bind].
      destruct (all_res_spec (fun (_ : nat) l => let? v := validate_link NP true l in Ok (negb (link_fake l) && v))
                  (fun _ l => RealLinkOK l) (l1 :: rest) 1) as (br_ & -> & Hbr).
      { intros j x _. destruct (validate_link_spec x) as (v & -> & Hv). cbn [bind].
        eexists; split; [reflexivity|]. rewrite andb_true_iff, negb_true, Hv. unfold link_fake, LinkOK.
        rewrite N.eqb_eq. split.
        - intros [Hc [[E _]|H]]; [congruence|auto].
        - intros H. split; [destruct H; auto|auto]. }
      cbn [bind].
      assert (Hreal : br_ = true <-> Forall RealLinkOK (l1 :: rest)).
      { rewrite Hbr, Forall_forall. split.
        - intros H x Hin. apply In_nth_error in Hin. destruct Hin as (j & Hj). eauto.
        - intros H j x Hj. apply H. eapply nth_error_In; eauto. }
      assert (Hfake : (link_fake l0 && v0) = true <-> FakeLinkOK l0).
      { rewrite andb_true_iff, H0. unfold link_fake, LinkOK. rewrite N.eqb_eq. split.
        - intros [Hc [[_ H]|H]]; auto. destruct H; congruence.
        - intros H. split; [apply H|left; split; [apply H|auto]]. }
      destruct (link_fake l0 && v0 && br_) eqn:E1; cbn [negb].
      2:{ split; [|auto]. split; [discriminate|]. intros (a & b & c & En & Hf & Hr & _).
          inversion En; subst a b c. apply Hfake in Hf. apply Hreal in Hr. rewrite Hf, Hr in E1. discriminate. }
      apply andb_true_iff in E1. destruct E1 as [E1 E2]. apply Hfake in E1. apply Hreal in E2.
      cbn [andb].
      destruct (forallb (refs_in_range n) n) eqn:E3; cbn [negb].
      2:{ split; [|auto]. split; [discriminate|]. intros (a & b & c & En & _ & _ & Hrg & _).
          apply (forallb_Forall _ _ (refs_in_range_spec n)) in Hrg. fold n in Hrg. congruence. }
      apply (forallb_Forall _ _ (refs_in_range_spec n)) in E3.
      destruct (all_res_spec (cross_link n) (CrossOK n) (l1 :: rest) 1) as (bc & -> & Hbc).
      { intros j x Hj. apply cross_link_spec. rewrite Forall_forall in E3. apply E3.
        right. eapply nth_error_In; eauto. }
      cbn [bind]. destruct bc.
      + split; [|auto]. split; auto. intros _. exists l0, l1, rest.
        split; [reflexivity|]. split; [exact E1|]. split; [exact E2|]. split; [exact E3|].
        intros idx l Hl Hge. destruct idx; [lia|]. cbn in Hl.
        change (S idx) with (1 + idx). apply (proj1 Hbc eq_refl idx l Hl).
      + split; [|auto]. split; [discriminate|]. intros (a & b & c & En & _ & _ & _ & Hc).
        inversion En; subst a b c. assert (false = true) as X; [|discriminate].
        apply Hbc. intros j x Hj. apply (Hc (1 + j) x); [exact Hj|lia]. Qed.

  Theorem validate_iff n : validate_network NP true n = Ok tt <-> NetworkOK n.
  Proof. apply validate_network_spec. Qed.
  Theorem validate_total n : forall c, validate_network NP true n <> Panic c.
  Proof. intros c. destruct (proj2 (validate_network_spec n)) as [H|H]; rewrite H; discriminate. Qed.
  Theorem validate_rejects_with_err n : ~ NetworkOK n -> validate_network NP true n = Err ERR_VALIDATION.
  Proof. intros H. destruct (validate_network_spec n) as [A [B|B]]; auto. apply A in B. contradiction. Qed.
End Spec.

(* ------------------------------------------------------------------ legacy layout *)
Section Legacy.
  Context {F : Type} {NO : NumOps F}.
  Notation Link := (Link (F:=F)). Notation SpeedSet := (SpeedSet (F:=F)).

  Lemma map_insert_fresh k (v : SpeedSet) m : ~ In k (map fst m) -> map_insert k v m = m ++ [(k, v)].
  Proof. induction m as [|[k' v'] t IH]; cbn; intros H; auto.
    destruct (Z.eqb_spec k' k) as [E|E]; [exfalso; apply H; auto|]. rewrite IH; auto. Qed.

  Definition old_of (kv : Z * SpeedSet) : OldSpeedSet (F:=F) :=
    {| os_limits := ss_limits (snd kv); os_params := ss_params (snd kv); os_type := fst kv; os_head := ss_head (snd kv) |}.
  Definition ins (m : list (Z * SpeedSet)) (s : OldSpeedSet (F:=F)) :=
    map_insert (os_type s) {| ss_limits := os_limits s; ss_params := os_params s; ss_head := os_head s |} m.

  Lemma fold_insert_nodup : forall (l m : list (Z * SpeedSet)),
    NoDup (map fst (m ++ l)) -> fold_left ins (map old_of l) m = m ++ l.
  Proof. induction l as [|[k v] t IH]; intros m H; cbn [map fold_left].
    - rewrite app_nil_r; auto.
    - assert (ins m (old_of (k, v)) = map_insert k v m) as E.
      { unfold ins, old_of; cbn. destruct v; reflexivity. }
      rewrite E. rewrite map_app in H. cbn [map fst] in H.
      rewrite map_insert_fresh.
      + rewrite IH; rewrite <- app_assoc; cbn [app]; auto. rewrite map_app; exact H.
      + apply NoDup_remove_2 in H. intros X; apply H. apply in_or_app; auto. Qed.

  (* a network in the current layout that the legacy layout can express: no train-type-neutral
     speed_set, and (being a map) one speed set per train type *)
  Definition Expressible (l : Link) : Prop := lk_speed_set l = None /\ NoDup (map fst (lk_speed_sets l)).

  Theorem legacy_link_same l : Expressible l -> convert_link (legacy_of_link l) = l.
  Proof. intros [Hs Hn]. destruct l; unfold convert_link, legacy_of_link; cbn in *. subst. f_equal.
    apply (fold_insert_nodup lk_speed_sets []). exact Hn. Qed.

  Theorem legacy_same n : Forall Expressible n -> convert (legacy_of n) = n.
  Proof. unfold convert, legacy_of. induction 1 as [|l t Hl _ IH]; cbn; auto.
    rewrite legacy_link_same, IH; auto. Qed.
End Legacy.

(* ------------------------------------------------------------------ the atoms at the reals *)
From Coq Require Import Reals.
Lemma atoms_R (a b : R) :
  (le (NO:=R_ops) a b <-> (a <= b)%R) /\ (lt (NO:=R_ops) a b <-> (a < b)%R) /\ (eq (NO:=R_ops) a b <-> a = b).
Proof. unfold le, lt, eq; cbn. repeat split; intros H.
  - destruct (Rleb_spec a b); auto; discriminate.
  - destruct (Rleb_spec a b); auto; contradiction.
  - destruct (Rltb_spec a b); auto; discriminate.
  - destruct (Rltb_spec a b); auto; contradiction.
  - destruct (Reqb_spec a b); auto; discriminate.
  - destruct (Reqb_spec a b); auto; contradiction. Qed.
